(** C15 -- the five status classes.

    A status word is the C++ [flags_t] bit set (an [N]).  The named [test_*] / [set_*] / [reset_*]
    members are transcribed by hand from Ph_Status_inlines.hh, Grid_Status_inlines.hh (identical),
    BDS_Status_inlines.hh, Og_Status_inlines.hh, Box_Status_inlines.hh.  WHICH members the writer
    and the reader call, in which order, with which keyword, and whether a field has an [else]
    branch at all, is NOT written here: it comes from gen/Facts_Status.v, regenerated from the
    source on every run.  [dump_status] / [load_status] interpret those lists; [load_status] starts
    from the status word of the target object, exactly as [Status::ascii_load] does. *)
Require Import String Ascii List Bool Arith NArith Lia.
Require Import PPLV.Codec.Tok PPLV.gen.Facts_Status.
Import ListNotations.
Open Scope string_scope.
Open Scope list_scope.
Open Scope N_scope.

Definition fset (mask f : N) : N := N.lor f mask.          (* flags |= mask  *)
Definition freset (mask f : N) : N := N.ldiff f mask.      (* flags &= ~mask *)
Definition ftest_any (mask f : N) : bool := negb (N.land f mask =? 0).

Record status_class := {
  sc_name : string;
  sc_nbits : nat;
  sc_tests : list (string * (N -> bool));
  sc_acts : list (string * (N -> N));
  sc_dump_fields : list (string * string);              (* (test member, keyword), writer order *)
  sc_load_fields : list (string * (string * string));   (* (keyword, (then-member, else-member or "")) *)
}.

Fixpoint assoc {A} (l : list (string * A)) (k : string) : option A :=
  match l with
  | [] => None
  | (k', a) :: t => if String.eqb k k' then Some a else assoc t k
  end.

(** Polyhedron::Status and Grid::Status *)
Definition ph_tests : list (string * (N -> bool)) :=
  [ ("test_zero_dim_univ", fun f => f =? 0);          (* flags == ZERO_DIM_UNIV *)
    ("test_empty", ftest_any 1);
    ("test_c_up_to_date", ftest_any 2);
    ("test_g_up_to_date", ftest_any 4);
    ("test_c_minimized", ftest_any 8);
    ("test_g_minimized", ftest_any 16);
    ("test_sat_c_up_to_date", ftest_any 32);
    ("test_sat_g_up_to_date", ftest_any 64);
    ("test_c_pending", ftest_any 128);
    ("test_g_pending", ftest_any 256) ].
Definition ph_acts : list (string * (N -> N)) :=
  [ ("set_zero_dim_univ", fun _ => 0);                 (* flags = ZERO_DIM_UNIV *)
    ("reset_zero_dim_univ", fun f => if f =? 0 then 1 else f);
    ("set_empty", fun _ => 1);                         (* flags = EMPTY *)
    ("reset_empty", freset 1);
    ("set_c_up_to_date", fset 2); ("reset_c_up_to_date", freset 2);
    ("set_g_up_to_date", fset 4); ("reset_g_up_to_date", freset 4);
    ("set_c_minimized", fset 8); ("reset_c_minimized", freset 8);
    ("set_g_minimized", fset 16); ("reset_g_minimized", freset 16);
    ("set_sat_c_up_to_date", fset 32); ("reset_sat_c_up_to_date", freset 32);
    ("set_sat_g_up_to_date", fset 64); ("reset_sat_g_up_to_date", freset 64);
    ("set_c_pending", fset 128); ("reset_c_pending", freset 128);
    ("set_g_pending", fset 256); ("reset_g_pending", freset 256) ].

Definition ph_class : status_class :=
  {| sc_name := "Polyhedron::Status"; sc_nbits := 9; sc_tests := ph_tests; sc_acts := ph_acts;
     sc_dump_fields := ph_dump_fields; sc_load_fields := ph_load_fields |}.
Definition grid_class : status_class :=
  {| sc_name := "Grid::Status"; sc_nbits := 9; sc_tests := ph_tests; sc_acts := ph_acts;
     sc_dump_fields := grid_dump_fields; sc_load_fields := grid_load_fields |}.

(** BD_Shape<T>::Status *)
Definition bds_tests : list (string * (N -> bool)) :=
  [ ("test_zero_dim_univ", fun f => f =? 0);
    ("test_empty", ftest_any 1);
    ("test_shortest_path_closed", ftest_any 2);
    ("test_shortest_path_reduced", ftest_any 4) ].
Definition bds_acts : list (string * (N -> N)) :=
  [ ("set_zero_dim_univ", fun _ => 0);
    ("reset_zero_dim_univ", fun f => if f =? 0 then 1 else f);
    ("set_empty", fun _ => 1);
    ("reset_empty", freset 1);
    ("set_shortest_path_closed", fset 2);
    ("reset_shortest_path_closed", freset 6);          (* reset(CLOSED | REDUCED) *)
    ("set_shortest_path_reduced", fset 4);
    ("reset_shortest_path_reduced", freset 4) ].
Definition bds_class : status_class :=
  {| sc_name := "BD_Shape::Status"; sc_nbits := 3; sc_tests := bds_tests; sc_acts := bds_acts;
     sc_dump_fields := bds_dump_fields; sc_load_fields := bds_load_fields |}.

(** Octagonal_Shape<T>::Status *)
Definition og_tests : list (string * (N -> bool)) :=
  [ ("test_zero_dim_univ", fun f => f =? 0);
    ("test_empty", ftest_any 1);
    ("test_strongly_closed", ftest_any 2) ].
Definition og_acts : list (string * (N -> N)) :=
  [ ("set_zero_dim_univ", fun _ => 0);
    ("reset_zero_dim_univ", fun f => if f =? 0 then 1 else f);
    ("set_empty", fun _ => 1);
    ("reset_empty", freset 1);
    ("set_strongly_closed", fset 2);
    ("reset_strongly_closed", freset 2) ].
Definition og_class : status_class :=
  {| sc_name := "Octagonal_Shape::Status"; sc_nbits := 2; sc_tests := og_tests; sc_acts := og_acts;
     sc_dump_fields := og_dump_fields; sc_load_fields := og_load_fields |}.

(** Box<ITV>::Status: NONE = 0, EMPTY_UP_TO_DATE = 1, EMPTY = 2, UNIVERSE = 4 *)
Definition box_tests : list (string * (N -> bool)) :=
  [ ("test_empty_up_to_date", ftest_any 1);
    ("test_empty", ftest_any 2);
    ("test_universe", ftest_any 4) ].
Definition box_acts : list (string * (N -> N)) :=
  [ ("set_empty_up_to_date", fset 1); ("reset_empty_up_to_date", freset 1);
    ("set_empty", fset 2); ("reset_empty", freset 2);
    ("set_universe", fset 4); ("reset_universe", freset 4) ].
Definition box_class : status_class :=
  {| sc_name := "Box::Status"; sc_nbits := 3; sc_tests := box_tests; sc_acts := box_acts;
     sc_dump_fields := box_dump_fields; sc_load_fields := box_load_fields |}.

(** * Writer *)
Definition flag_token (b : bool) (kw : string) : string := String (if b then "+" else "-") kw.

Fixpoint dump_fields (tests : list (string * (N -> bool))) (fs : list (string * string)) (st : N)
  (rest : stream) : stream :=
  match fs with
  | [] => rest
  | (t, kw) :: r =>
      (match assoc tests t with
       | Some f => flag_token (f st) kw
       | None => String "?" kw                       (* unknown member: a token no reader accepts *)
       end) :: dump_fields tests r st rest
  end.

Definition dump_status (C : status_class) : writer N :=
  fun st rest => dump_fields (sc_tests C) (sc_dump_fields C) st rest.

(** * Reader *)
(** [get_field(s, keyword, positive)] *)
Definition get_field (kw : string) : parser bool :=
  w <- p_word ;;
  match w with
  | String c t =>
      if (Ascii.eqb c "+" || Ascii.eqb c "-") && String.eqb t kw then ret (Ascii.eqb c "+") else fail
  | EmptyString => fail
  end.

Fixpoint load_fields (acts : list (string * (N -> N))) (fs : list (string * (string * string)))
  (st : N) : parser N :=
  match fs with
  | [] => ret st
  | (kw, (pa, na)) :: r =>
      b <- get_field kw ;;
      match (if b then assoc acts pa
             else if String.eqb na "" then Some (fun f => f) else assoc acts na) with
      | Some f => load_fields acts r (f st)
      | None => fail
      end
  end.

Definition load_status (C : status_class) (target : N) : parser N :=
  load_fields (sc_acts C) (sc_load_fields C) target.

(** * Frame lemmas: the reader looks at nothing beyond what it consumes *)
Lemma dump_fields_prepends : forall tests fs st rest,
  dump_fields tests fs st rest = dump_fields tests fs st [] ++ rest.
Proof.
  intros tests fs st rest. induction fs as [|[t kw] r IH]; cbn; [reflexivity|]. rewrite IH. reflexivity.
Qed.

Lemma load_fields_frame : forall acts fs st l x l' rest,
  load_fields acts fs st l = Some (x, l') -> load_fields acts fs st (l ++ rest) = Some (x, l' ++ rest).
Proof.
  intros acts fs. induction fs as [|[kw [pa na]] r IH]; intros st l x l' rest H.
  - cbn in *. unfold ret in *. inversion H. reflexivity.
  - cbn [load_fields] in *. unfold bind in *.
    destruct l as [|w l1]; [discriminate|].
    cbn [app]. unfold get_field, bind, p_word in *.
    destruct w as [|c t]; [discriminate|].
    destruct ((Ascii.eqb c "+" || Ascii.eqb c "-") && String.eqb t kw); [|discriminate].
    unfold ret in *.
    destruct (if Ascii.eqb c "+" then assoc acts pa else if String.eqb na "" then Some (fun f : N => f) else assoc acts na);
      [|discriminate].
    apply IH. exact H.
Qed.

(** * Exhaustive decision over the finite state space *)
Definition states (n : nat) : list N := map N.of_nat (seq 0 (2 ^ n)%nat).

Lemma states_complete : forall n x, x < 2 ^ N.of_nat n -> In x (states n).
Proof.
  intros n x H. unfold states. apply in_map_iff. exists (N.to_nat x). split.
  - apply N2Nat.id.
  - apply in_seq. split; [lia|]. cbn.
    assert (N.to_nat x < N.to_nat (2 ^ N.of_nat n))%nat by lia.
    replace (N.to_nat (2 ^ N.of_nat n)) with (2 ^ n)%nat in H0; [exact H0|].
    clear. induction n as [|n IH].
    + reflexivity.
    + rewrite Nat2N.inj_succ, N.pow_succ_r', N2Nat.inj_mul, <- IH. cbn. lia.
Qed.

Definition rt_ok (C : status_class) (tgt st : N) : bool :=
  match load_status C tgt (dump_status C st []) with
  | Some (x, []) => N.eqb x st
  | _ => false
  end.

Lemma rt_ok_sound : forall C tgt st rest, rt_ok C tgt st = true ->
  load_status C tgt (dump_status C st rest) = Some (st, rest).
Proof.
  intros C tgt st rest H. unfold rt_ok in H.
  destruct (load_status C tgt (dump_status C st [])) as [[x l]|] eqn:E; [|discriminate].
  destruct l; [|discriminate]. apply N.eqb_eq in H. subst x.
  unfold dump_status in *. rewrite dump_fields_prepends.
  unfold load_status in *. apply (load_fields_frame _ _ _ _ _ _ rest) in E. exact E.
Qed.

(** first state (if any) whose dump does not load back into a target in state [tgt] *)
Definition cex_from (C : status_class) (tgt : N) : option N :=
  find (fun st => negb (rt_ok C tgt st)) (states (sc_nbits C)).

(** first (target, state) pair (if any) that does not round-trip *)
Definition cex_any (C : status_class) : option (N * N) :=
  find (fun p => negb (rt_ok C (fst p) (snd p)))
       (list_prod (states (sc_nbits C)) (states (sc_nbits C))).

Definition in_range (C : status_class) (x : N) : Prop := x < 2 ^ N.of_nat (sc_nbits C).

Theorem roundtrip_from : forall C tgt, cex_from C tgt = None ->
  forall st rest, in_range C st -> load_status C tgt (dump_status C st rest) = Some (st, rest).
Proof.
  intros C tgt H st rest Hr. apply rt_ok_sound.
  pose proof (find_none _ _ H st (states_complete _ _ Hr)) as Hn. cbn in Hn.
  apply negb_false_iff in Hn. exact Hn.
Qed.

(** Statement decided by the search: either every state loads back into the given target state,
    or the search result is a concrete counterexample. *)
Definition from_statement (C : status_class) (tgt : N) : Prop :=
  match cex_from C tgt with
  | None => forall st rest, in_range C st -> load_status C tgt (dump_status C st rest) = Some (st, rest)
  | Some st => load_status C tgt (dump_status C st []) <> Some (st, [])
  end.

Theorem from_decided : forall C tgt, from_statement C tgt.
Proof.
  intros C tgt. unfold from_statement. destruct (cex_from C tgt) as [st|] eqn:E.
  - apply find_some in E. destruct E as [_ E]. apply negb_true_iff in E.
    unfold rt_ok in E. intro H. rewrite H, N.eqb_refl in E. discriminate.
  - apply roundtrip_from. exact E.
Qed.

Definition into_any_statement (C : status_class) : Prop :=
  match cex_any C with
  | None => forall tgt st rest, in_range C tgt -> in_range C st ->
            load_status C tgt (dump_status C st rest) = Some (st, rest)
  | Some (tgt, st) => load_status C tgt (dump_status C st []) <> Some (st, [])
  end.

Theorem into_any_decided : forall C, into_any_statement C.
Proof.
  intro C. unfold into_any_statement. destruct (cex_any C) as [[tgt st]|] eqn:E.
  - apply find_some in E. destruct E as [_ E]. cbn in E. apply negb_true_iff in E.
    unfold rt_ok in E. intro H. rewrite H, N.eqb_refl in E. discriminate.
  - intros tgt st rest Ht Hs. apply rt_ok_sound.
    pose proof (find_none _ _ E (tgt, st)) as Hn. cbn in Hn.
    apply negb_false_iff. apply Hn. apply in_prod; apply states_complete; assumption.
Qed.

(** * Fact-dependent side conditions (vm_compute over the regenerated lists) *)

(** Loading into a status word with no flag set (the status of a default-constructed polyhedron,
    grid, BD shape, octagonal shape; [Box::Status()] itself) restores every one of the 2^n states. *)
Lemma ph_fresh_none : cex_from ph_class 0 = None.   Proof. vm_compute. reflexivity. Qed.
Lemma grid_fresh_none : cex_from grid_class 0 = None. Proof. vm_compute. reflexivity. Qed.
Lemma bds_fresh_none : cex_from bds_class 0 = None.  Proof. vm_compute. reflexivity. Qed.
Lemma og_fresh_none : cex_from og_class 0 = None.    Proof. vm_compute. reflexivity. Qed.
Lemma box_fresh_none : cex_from box_class 0 = None.  Proof. vm_compute. reflexivity. Qed.

Theorem roundtrip_Ph_Status : forall st rest, in_range ph_class st ->
  load_status ph_class 0 (dump_status ph_class st rest) = Some (st, rest).
Proof. exact (roundtrip_from ph_class 0 ph_fresh_none). Qed.
Theorem roundtrip_Grid_Status : forall st rest, in_range grid_class st ->
  load_status grid_class 0 (dump_status grid_class st rest) = Some (st, rest).
Proof. exact (roundtrip_from grid_class 0 grid_fresh_none). Qed.
Theorem roundtrip_BDS_Status : forall st rest, in_range bds_class st ->
  load_status bds_class 0 (dump_status bds_class st rest) = Some (st, rest).
Proof. exact (roundtrip_from bds_class 0 bds_fresh_none). Qed.
Theorem roundtrip_Og_Status : forall st rest, in_range og_class st ->
  load_status og_class 0 (dump_status og_class st rest) = Some (st, rest).
Proof. exact (roundtrip_from og_class 0 og_fresh_none). Qed.
Theorem roundtrip_Box_Status : forall st rest, in_range box_class st ->
  load_status box_class 0 (dump_status box_class st rest) = Some (st, rest).
Proof. exact (roundtrip_from box_class 0 box_fresh_none). Qed.

Example in_range_sat : in_range ph_class 386 /\ in_range box_class 5.
Proof. split; vm_compute; reflexivity. Qed.

(** The status word of a box built by any [Box] constructor has EMPTY_UP_TO_DATE set
    ([Box(n, UNIVERSE)]: 1, [Box(n, EMPTY)]: 3); a default-constructed [Box] is the usual load target. *)
Definition box_fresh_object_status : N := 1.

(** * The reader consumes exactly one word per field: behaviour on a dump followed by more text *)
Lemma load_fields_app : forall acts fs st l R, length l = length fs ->
  load_fields acts fs st (l ++ R)
  = match load_fields acts fs st l with Some (x, _) => Some (x, R) | None => None end.
Proof.
  intros acts fs. induction fs as [|[kw [pa na]] r IH]; intros st l R H.
  - destruct l; [|discriminate]. reflexivity.
  - destruct l as [|w l1]; [discriminate|]. cbn in H. injection H as H.
    cbn [load_fields app]. unfold bind, get_field, p_word.
    destruct w as [|c t]; [reflexivity|].
    unfold bind.
    destruct ((Ascii.eqb c "+" || Ascii.eqb c "-") && String.eqb t kw); [|reflexivity].
    unfold ret.
    destruct (if Ascii.eqb c "+" then assoc acts pa else if String.eqb na "" then Some (fun f : N => f) else assoc acts na);
      [|reflexivity].
    apply IH. exact H.
Qed.

Lemma load_fields_exact : forall acts fs st l x l', length l = length fs ->
  load_fields acts fs st l = Some (x, l') -> l' = [].
Proof.
  intros acts fs. induction fs as [|[kw [pa na]] r IH]; intros st l x l' H E.
  - destruct l; [|discriminate]. cbn in E. inversion E. reflexivity.
  - destruct l as [|w l1]; [discriminate|]. cbn in H. injection H as H.
    cbn [load_fields] in E. unfold bind, get_field, p_word in E.
    destruct w as [|c t]; [discriminate|].
    unfold bind in E.
    destruct ((Ascii.eqb c "+" || Ascii.eqb c "-") && String.eqb t kw); [|discriminate].
    unfold ret in E.
    destruct (if Ascii.eqb c "+" then assoc acts pa else if String.eqb na "" then Some (fun f : N => f) else assoc acts na);
      [|discriminate].
    eapply IH; eauto.
Qed.

Lemma dump_fields_length : forall tests fs st, length (dump_fields tests fs st []) = length fs.
Proof. intros tests fs st. induction fs as [|[t kw] r IH]; cbn; [reflexivity|]. rewrite IH. reflexivity. Qed.

(** the status word obtained by loading the dump of [st] into a target in state [tgt] *)
Definition status_result (C : status_class) (tgt st : N) : option N :=
  match load_status C tgt (dump_status C st []) with Some (x, _) => Some x | None => None end.

Definition same_arity (C : status_class) : Prop := length (sc_dump_fields C) = length (sc_load_fields C).

Lemma load_status_char : forall C tgt st rest, same_arity C ->
  load_status C tgt (dump_status C st rest)
  = match status_result C tgt st with Some x => Some (x, rest) | None => None end.
Proof.
  intros C tgt st rest HA. unfold status_result, load_status, dump_status.
  rewrite dump_fields_prepends. rewrite load_fields_app.
  - destruct (load_fields (sc_acts C) (sc_load_fields C) tgt (dump_fields (sc_tests C) (sc_dump_fields C) st [])) as [[x l]|];
      reflexivity.
  - rewrite dump_fields_length. exact HA.
Qed.

Lemma status_result_iff : forall C tgt st, same_arity C ->
  (status_result C tgt st = Some st <-> load_status C tgt (dump_status C st []) = Some (st, [])).
Proof.
  intros C tgt st HA. unfold status_result. split.
  - destruct (load_status C tgt (dump_status C st [])) as [[x l]|] eqn:E; [|discriminate].
    intro H. inversion H; subst. f_equal. f_equal.
    unfold load_status, dump_status in E. eapply load_fields_exact; [|exact E].
    rewrite dump_fields_length. exact HA.
  - intro H. rewrite H. reflexivity.
Qed.

Lemma ph_arity : same_arity ph_class.     Proof. vm_compute. reflexivity. Qed.
Lemma grid_arity : same_arity grid_class. Proof. vm_compute. reflexivity. Qed.
Lemma bds_arity : same_arity bds_class.   Proof. vm_compute. reflexivity. Qed.
Lemma og_arity : same_arity og_class.     Proof. vm_compute. reflexivity. Qed.
Lemma box_arity : same_arity box_class.   Proof. vm_compute. reflexivity. Qed.

(** link between the search result and [status_result] *)
Lemma cex_from_none_result : forall C tgt, cex_from C tgt = None ->
  forall st, in_range C st -> status_result C tgt st = Some st.
Proof.
  intros C tgt H st Hr. unfold status_result.
  rewrite (roundtrip_from C tgt H st [] Hr). reflexivity.
Qed.

Lemma cex_from_some_result : forall C tgt st, same_arity C -> cex_from C tgt = Some st ->
  status_result C tgt st <> Some st.
Proof.
  intros C tgt st HA H. pose proof (from_decided C tgt) as D. unfold from_statement in D. rewrite H in D.
  intro E. apply D. apply status_result_iff; assumption.
Qed.
