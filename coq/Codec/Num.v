(** C15 -- numbers as they appear in dumps.

    Writers follow the [output_*] functions ([os << mpz_class], [os << mpq_class], "+inf", "-inf",
    "nan" of [output_ext], hexadecimal [unsigned] of [Interval_Info_Bitset::ascii_dump]); readers
    follow [operator>>] on [dimension_type] / [mpz_class] / [mpq_class] / [int] and the part of
    [Checked::input_mpq] (checked.cc) that the library's own output can reach: optional sign,
    "inf" / "nan" (any letter case), decimal digits, optional "/denominator".  Not modelled (the
    model rejects, the C++ accepts): other bases ("0x", "b^^"), exponents, a decimal point, and
    numbers followed by further characters inside the same word. *)
Require Import String Ascii List Bool ZArith NArith PArith Lia.
Require Import DecimalString DecimalZ DecimalPos DecimalFacts Decimal.
Require Import HexadecimalString HexadecimalN HexadecimalFacts Hexadecimal.
Require Import PPLV.Codec.Tok.
Import ListNotations.
Open Scope string_scope.
Open Scope list_scope.

(** * Integers ([os << mpz_class], [is >> mpz_class]) *)

Definition Z_to_string (z : Z) : string := DecimalString.NilZero.string_of_int (Z.to_int z).
Definition Z_of_string (s : string) : option Z :=
  option_map Z.of_int (DecimalString.NilZero.int_of_string s).

Lemma Z_of_to : forall z, Z_of_string (Z_to_string z) = Some z.
Proof.
  intro z. unfold Z_of_string, Z_to_string.
  rewrite DecimalString.NilZero.isi.
  - cbn. rewrite DecimalZ.of_to. reflexivity.
  - destruct z; cbn; try discriminate.
    intro H. inversion H. eapply DecimalPos.Unsigned.to_uint_nonnil; eauto.
  - destruct z; cbn; try discriminate.
    intro H. inversion H. eapply DecimalPos.Unsigned.to_uint_nonnil; eauto.
Qed.

Definition w_Z : writer Z := fun z rest => Z_to_string z :: rest.
Definition p_Z : parser Z := w <- p_word ;; match Z_of_string w with Some z => ret z | None => fail end.

Lemma RT_Z : RT (fun _ => True) w_Z p_Z.
Proof. intros z rest _. unfold p_Z, w_Z, bind, p_word. rewrite Z_of_to. reflexivity. Qed.

(** [dimension_type] / [unsigned]: digits only (a leading '-' is accepted by libstdc++ and wraps
    modulo 2^64; the model rejects it, the real loader then fails on allocation or on the data). *)
Definition first_is_minus (s : string) : bool :=
  match s with String c _ => Ascii.eqb c "-" | EmptyString => false end.

Definition nat_of_string (s : string) : option nat :=
  if first_is_minus s then None
  else match Z_of_string s with Some z => Some (Z.to_nat z) | None => None end.

Lemma first_is_minus_nat : forall n, first_is_minus (Z_to_string (Z.of_nat n)) = false.
Proof.
  intro n. unfold Z_to_string. destruct (Z.of_nat n) eqn:E; try reflexivity; try lia.
  cbn. unfold DecimalString.NilZero.string_of_uint.
  destruct (Pos.to_uint p) eqn:Ep; reflexivity.
Qed.

Definition w_nat : writer nat := fun n rest => Z_to_string (Z.of_nat n) :: rest.
Definition p_nat : parser nat := w <- p_word ;; match nat_of_string w with Some n => ret n | None => fail end.

Lemma nat_of_to : forall n, nat_of_string (Z_to_string (Z.of_nat n)) = Some n.
Proof.
  intro n. unfold nat_of_string. rewrite first_is_minus_nat, Z_of_to, Nat2Z.id. reflexivity.
Qed.

Lemma RT_nat : RT (fun _ => True) w_nat p_nat.
Proof. intros n rest _. unfold p_nat, w_nat, bind, p_word. rewrite nat_of_to. reflexivity. Qed.

(** [int bit; s >> bit; if (bit != 0) set else clear]  (Bit_Matrix) *)
Definition w_bit : writer bool := fun b rest => (if b then "1" else "0") :: rest.
Definition p_bit : parser bool :=
  w <- p_word ;; match Z_of_string w with Some z => ret (negb (Z.eqb z 0)) | None => fail end.
Lemma RT_bit : RT (fun _ => True) w_bit p_bit.
Proof. intros [|] rest _; reflexivity. Qed.

(** * Hexadecimal [unsigned] (interval info bit sets) *)
Definition N_to_hex (n : N) : string := HexadecimalString.NilZero.string_of_uint (N.to_hex_uint n).
Definition N_of_hex (s : string) : option N :=
  option_map N.of_hex_uint (HexadecimalString.NilZero.uint_of_string s).

Lemma N_hex_of_to : forall n, N_of_hex (N_to_hex n) = Some n.
Proof.
  intro n. unfold N_of_hex, N_to_hex.
  destruct n as [|p].
  - reflexivity.
  - rewrite HexadecimalString.NilZero.usu.
    + cbn [option_map]. rewrite HexadecimalN.Unsigned.of_to. reflexivity.
    + cbn. apply HexadecimalPos.Unsigned.to_uint_nonnil.
Qed.

Definition w_hexN : writer N := fun n rest => N_to_hex n :: rest.
Definition p_hexN : parser N := w <- p_word ;; match N_of_hex w with Some n => ret n | None => fail end.
Lemma RT_hexN : RT (fun _ => True) w_hexN p_hexN.
Proof. intros n rest _. unfold p_hexN, w_hexN, bind, p_word. rewrite N_hex_of_to. reflexivity. Qed.

(** * Rationals ([os << mpq_class]: "n" when the denominator is 1, "n/d" otherwise) *)

Record mpq := Mpq { qnum : Z; qden : positive }.

Definition mpq_canonical (q : mpq) : Prop := Z.gcd (qnum q) (Zpos (qden q)) = 1%Z.

Definition mpq_to_string (q : mpq) : string :=
  match qden q with
  | xH => Z_to_string (qnum q)
  | d => Z_to_string (qnum q) ++ String "/" (Z_to_string (Zpos d))
  end.

(** split a word at its first '/' *)
Fixpoint split_slash (s : string) : string * option string :=
  match s with
  | EmptyString => (EmptyString, None)
  | String c t =>
      if Ascii.eqb c "/" then (EmptyString, Some t)
      else let '(a, b) := split_slash t in (String c a, b)
  end.

Fixpoint no_slash (s : string) : bool :=
  match s with
  | EmptyString => true
  | String c t => negb (Ascii.eqb c "/") && no_slash t
  end.

Lemma split_slash_none : forall s, no_slash s = true -> split_slash s = (s, None).
Proof.
  induction s as [|c t IH]; cbn; intro H; [reflexivity|].
  apply andb_true_iff in H. destruct H as [H1 H2].
  destruct (Ascii.eqb c "/"); [discriminate|]. rewrite (IH H2). reflexivity.
Qed.

Lemma split_slash_app : forall s t, no_slash s = true -> split_slash (s ++ String "/" t) = (s, Some t).
Proof.
  induction s as [|c u IH]; cbn; intros t H; [reflexivity|].
  apply andb_true_iff in H. destruct H as [H1 H2].
  destruct (Ascii.eqb c "/"); [discriminate|]. rewrite (IH t H2). reflexivity.
Qed.

Lemma no_slash_uint : forall d, no_slash (DecimalString.NilEmpty.string_of_uint d) = true.
Proof. induction d; cbn; auto. Qed.

Lemma no_slash_Z : forall z, no_slash (Z_to_string z) = true.
Proof.
  intro z. unfold Z_to_string. destruct (Z.to_int z) as [d|d]; cbn.
  - destruct d; cbn; auto using no_slash_uint.
    all: try apply no_slash_uint.
  - destruct d; cbn; auto using no_slash_uint.
    all: try apply no_slash_uint.
Qed.

(** [is >> mpq_class] (GMP): "n" or "n/d", no canonicalisation; the model requires d > 0. *)
Definition mpq_of_string_native (s : string) : option mpq :=
  match split_slash s with
  | (a, None) => match Z_of_string a with Some n => Some (Mpq n 1) | None => None end
  | (a, Some b) =>
      match Z_of_string a, Z_of_string b with
      | Some n, Some (Zpos d) => Some (Mpq n d)
      | _, _ => None
      end
  end.

Lemma mpq_native_of_to : forall q, (qden q <> 1)%positive \/ True ->
  mpq_of_string_native (mpq_to_string q) = Some q.
Proof.
  intros [n d] _. unfold mpq_of_string_native, mpq_to_string. cbn [qnum qden].
  destruct d.
  - rewrite split_slash_app by apply no_slash_Z. rewrite !Z_of_to. reflexivity.
  - rewrite split_slash_app by apply no_slash_Z. rewrite !Z_of_to. reflexivity.
  - rewrite split_slash_none by apply no_slash_Z. rewrite Z_of_to. reflexivity.
Qed.

Definition w_mpq : writer mpq := fun q rest => mpq_to_string q :: rest.
Definition p_mpq_native : parser mpq :=
  w <- p_word ;; match mpq_of_string_native w with Some q => ret q | None => fail end.
Lemma RT_mpq_native : RT (fun _ => True) w_mpq p_mpq_native.
Proof.
  intros q rest _. unfold p_mpq_native, w_mpq, bind, p_word.
  rewrite mpq_native_of_to by (right; exact I). reflexivity.
Qed.

(** * Extended numbers ([Checked_Number<T, Extended_Number_Policy>], the DBM / OR-matrix entries) *)

Inductive ext (A : Type) := Fin (a : A) | PInf | MInf | NaN.
Arguments Fin {A} a. Arguments PInf {A}. Arguments MInf {A}. Arguments NaN {A}.

(** what [Checked::input_mpq] returns on one word: a canonical rational, an infinity, or NaN;
    [None] = V_CVT_STR_UNK (stream fails). *)
Definition lower_ascii (c : ascii) : ascii :=
  let n := nat_of_ascii c in
  if (65 <=? n)%nat && (n <=? 90)%nat then ascii_of_nat (n + 32) else c.
Fixpoint lower_string (s : string) : string :=
  match s with EmptyString => EmptyString | String c t => String (lower_ascii c) (lower_string t) end.

Definition canon (n : Z) (d : positive) : mpq :=
  let g := Z.gcd n (Zpos d) in
  match (Zpos d / g)%Z with
  | Zpos d' => Mpq (n / g) d'
  | _ => Mpq n d
  end.

Definition strip_plus (s : string) : string :=
  match s with
  | String c t => if Ascii.eqb c "+" then (if first_is_minus t then "x" else t) else s
  | EmptyString => s
  end.

Definition input_mpq (s : string) : option (ext mpq) :=
  let l := lower_string s in
  if String.eqb l "nan" then Some NaN
  else if String.eqb l "+inf" || String.eqb l "inf" then Some PInf
  else if String.eqb l "-inf" then Some MInf
  else
    match split_slash s with
    | (a, None) => match Z_of_string (strip_plus a) with Some n => Some (Fin (Mpq n 1)) | None => None end
    | (a, Some b) =>
        match Z_of_string (strip_plus a), Z_of_string (strip_plus b) with
        | Some n, Some (Zpos d) => Some (Fin (canon n d))
        | Some n, Some (Zneg d) => Some (Fin (canon (- n) d))
        | Some n, Some Z0 => Some NaN
        | _, _ => None
        end
    end.

(** [output_ext] for an extended rational *)
Definition ext_mpq_to_string (x : ext mpq) : string :=
  match x with Fin q => mpq_to_string q | PInf => "+inf" | MInf => "-inf" | NaN => "nan" end.

(** [output_ext] for an extended integer *)
Definition ext_Z_to_string (x : ext Z) : string :=
  match x with Fin z => Z_to_string z | PInf => "+inf" | MInf => "-inf" | NaN => "nan" end.

(** DB_Matrix / OR_Matrix entry reader:
    [Result r = input(x, s, ROUND_CHECK); if (result_relation(r) != VR_EQ || is_minus_infinity(x)) return false;]
    For [T = mpq_class] every finite rational is exact; for [T = mpz_class] the rational must be an
    integer. NaN and -inf are rejected. *)
Definition p_dbm_mpq : parser (ext mpq) :=
  w <- p_word ;;
  match input_mpq w with
  | Some (Fin q) => ret (Fin q)
  | Some PInf => ret PInf
  | _ => fail
  end.

Definition p_dbm_Z : parser (ext Z) :=
  w <- p_word ;;
  match input_mpq w with
  | Some (Fin q) => match qden q with xH => ret (Fin (qnum q)) | _ => fail end
  | Some PInf => ret PInf
  | _ => fail
  end.

Definition w_dbm_mpq : writer (ext mpq) := fun x rest => ext_mpq_to_string x :: rest.
Definition w_dbm_Z : writer (ext Z) := fun x rest => ext_Z_to_string x :: rest.

(** well-formed entries: canonical rationals, no -inf, no NaN (DB_Matrix::OK / OR_Matrix::OK) *)
Definition wf_dbm_mpq (x : ext mpq) : Prop :=
  match x with Fin q => mpq_canonical q | PInf => True | _ => False end.
Definition wf_dbm_Z (x : ext Z) : Prop :=
  match x with Fin _ => True | PInf => True | _ => False end.

(** the characters of a printed integer are digits or '-' : lower-casing and the special words
    cannot interfere *)
Definition digitish (c : ascii) : bool :=
  let n := nat_of_ascii c in ((48 <=? n)%nat && (n <=? 57)%nat) || Ascii.eqb c "-".
Fixpoint all_chars (f : ascii -> bool) (s : string) : bool :=
  match s with EmptyString => true | String c t => f c && all_chars f t end.

Lemma digitish_uint : forall d, all_chars digitish (DecimalString.NilEmpty.string_of_uint d) = true.
Proof. induction d; cbn; auto. Qed.

Lemma digitish_Z : forall z, all_chars digitish (Z_to_string z) = true.
Proof.
  intro z. unfold Z_to_string. destruct (Z.to_int z) as [d|d]; cbn.
  - destruct d; cbn; try apply digitish_uint; reflexivity.
  - destruct d; cbn; try apply digitish_uint; reflexivity.
Qed.

Lemma lower_digitish : forall c, digitish c = true -> lower_ascii c = c.
Proof.
  intros c H. unfold digitish in H. unfold lower_ascii.
  apply orb_true_iff in H. destruct H as [H|H].
  - apply andb_true_iff in H. destruct H as [H1 H2].
    apply Nat.leb_le in H1, H2.
    destruct (65 <=? nat_of_ascii c)%nat eqn:E; [apply Nat.leb_le in E; lia | reflexivity].
  - apply Ascii.eqb_eq in H. subst. reflexivity.
Qed.

Lemma lower_string_digitish : forall s, all_chars digitish s = true -> lower_string s = s.
Proof.
  induction s as [|c t IH]; cbn; intro H; [reflexivity|].
  apply andb_true_iff in H. destruct H. rewrite lower_digitish, IH; auto.
Qed.

(** a word made of digits, '-' and '/' only is none of the special words *)
Definition numish (c : ascii) : bool := digitish c || Ascii.eqb c "/".

Lemma lower_numish : forall c, numish c = true -> lower_ascii c = c.
Proof.
  intros c H. unfold numish in H. apply orb_true_iff in H. destruct H as [H|H].
  - apply lower_digitish; auto.
  - apply Ascii.eqb_eq in H. subst. reflexivity.
Qed.

Lemma lower_string_numish : forall s, all_chars numish s = true -> lower_string s = s.
Proof.
  induction s as [|c t IH]; cbn; intro H; [reflexivity|].
  apply andb_true_iff in H. destruct H. rewrite lower_numish, IH; auto.
Qed.

Lemma all_chars_app : forall f a b, all_chars f (a ++ b) = all_chars f a && all_chars f b.
Proof. induction a; cbn; intros; [reflexivity|]. rewrite IHa, andb_assoc. reflexivity. Qed.

Lemma all_chars_weaken : forall (f g : ascii -> bool) s,
  (forall c, f c = true -> g c = true) -> all_chars f s = true -> all_chars g s = true.
Proof.
  induction s as [|c t IH]; cbn; intros Hfg H; [reflexivity|].
  apply andb_true_iff in H. destruct H. rewrite Hfg, IH; auto.
Qed.

Lemma numish_mpq : forall q, all_chars numish (mpq_to_string q) = true.
Proof.
  intros [n d]. unfold mpq_to_string. cbn [qnum qden].
  assert (HZ : forall z, all_chars numish (Z_to_string z) = true).
  { intro z. eapply all_chars_weaken; [|apply digitish_Z]. intros c Hc. unfold numish. rewrite Hc. reflexivity. }
  destruct d; try apply HZ.
  all: rewrite all_chars_app; cbn [all_chars]; rewrite !HZ; reflexivity.
Qed.

(** a non-empty all-[numish] word differs from "nan", "+inf", "inf", "-inf" *)
Lemma numish_not_special : forall s, all_chars numish s = true ->
  String.eqb s "nan" = false /\ String.eqb s "+inf" = false /\ String.eqb s "inf" = false /\ String.eqb s "-inf" = false.
Proof.
  intros s H. repeat split.
  - destruct s as [|c t]; [reflexivity|]. cbn in H. apply andb_true_iff in H. destruct H as [H _].
    cbn. destruct (Ascii.eqb_spec c "n"); [subst; discriminate|reflexivity].
  - destruct s as [|c t]; [reflexivity|]. cbn in H. apply andb_true_iff in H. destruct H as [H _].
    cbn. destruct (Ascii.eqb_spec c "+"); [subst; discriminate|reflexivity].
  - destruct s as [|c t]; [reflexivity|]. cbn in H. apply andb_true_iff in H. destruct H as [H _].
    cbn. destruct (Ascii.eqb_spec c "i"); [subst; discriminate|reflexivity].
  - destruct s as [|c t]; [reflexivity|]. cbn in H. apply andb_true_iff in H. destruct H as [_ H].
    cbn. destruct (Ascii.eqb_spec c "-"); [|reflexivity].
    destruct t as [|c2 t2]; [reflexivity|]. cbn in H. apply andb_true_iff in H. destruct H as [H _].
    cbn. destruct (Ascii.eqb_spec c2 "i"); [subst; discriminate|reflexivity].
Qed.

Lemma strip_plus_Z : forall z, strip_plus (Z_to_string z) = Z_to_string z.
Proof.
  intro z. pose proof (digitish_Z z) as H. destruct (Z_to_string z) as [|c t]; [reflexivity|].
  cbn in H. apply andb_true_iff in H. destruct H as [H _]. cbn.
  destruct (Ascii.eqb_spec c "+"); [subst; discriminate|reflexivity].
Qed.

Lemma canon_canonical : forall n d, Z.gcd n (Zpos d) = 1%Z -> canon n d = Mpq n d.
Proof. intros n d H. unfold canon. rewrite H, !Z.div_1_r. reflexivity. Qed.

Lemma input_mpq_print : forall q, mpq_canonical q -> input_mpq (mpq_to_string q) = Some (Fin q).
Proof.
  intros q Hc. unfold input_mpq.
  rewrite (lower_string_numish _ (numish_mpq q)).
  destruct (numish_not_special _ (numish_mpq q)) as (E1 & E2 & E3 & E4).
  rewrite E1, E2, E3, E4. cbn [orb].
  destruct q as [n d]. unfold mpq_canonical in Hc. cbn [qnum qden] in Hc.
  unfold mpq_to_string. cbn [qnum qden].
  destruct d.
  - rewrite split_slash_app by apply no_slash_Z. rewrite !strip_plus_Z, !Z_of_to.
    rewrite canon_canonical by exact Hc. reflexivity.
  - rewrite split_slash_app by apply no_slash_Z. rewrite !strip_plus_Z, !Z_of_to.
    rewrite canon_canonical by exact Hc. reflexivity.
  - rewrite split_slash_none by apply no_slash_Z. rewrite strip_plus_Z, Z_of_to. reflexivity.
Qed.

Lemma RT_dbm_mpq : RT wf_dbm_mpq w_dbm_mpq p_dbm_mpq.
Proof.
  intros x rest H. unfold p_dbm_mpq, w_dbm_mpq, bind, p_word.
  destruct x; cbn in H; try contradiction.
  - cbn [ext_mpq_to_string]. rewrite input_mpq_print by exact H. reflexivity.
  - reflexivity.
Qed.

Lemma RT_dbm_Z : RT wf_dbm_Z w_dbm_Z p_dbm_Z.
Proof.
  intros x rest H. unfold p_dbm_Z, w_dbm_Z, bind, p_word.
  destruct x; cbn in H; try contradiction.
  - cbn [ext_Z_to_string].
    change (Z_to_string a) with (mpq_to_string (Mpq a 1)).
    rewrite input_mpq_print by (unfold mpq_canonical; cbn; apply Z.gcd_1_r). reflexivity.
  - reflexivity.
Qed.

Example wf_dbm_mpq_sat : wf_dbm_mpq (Fin (Mpq (-7) 2)) /\ wf_dbm_mpq PInf.
Proof. split; [reflexivity | exact I]. Qed.
