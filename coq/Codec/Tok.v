(** C15 -- token streams.

    [ascii_dump] writes words separated by blanks / newlines; [ascii_load] reads them back with
    [operator>>] on [std::string] and on numbers, which skips any white space first.  A dump is
    therefore modelled as the list of its white-space separated words ([stream]); the amount and
    kind of white space is not part of the model (byte-identity of the re-dump is checked on the
    real code by the harness).

    A reader is a [parser]: it consumes a prefix of the stream or fails.  A failed extraction puts
    the C++ stream in the fail state, after which every later extraction fails too, so "fails"
    needs no residual stream (the few places where the C++ ignores the result of a sub-loader are
    modelled explicitly in Rows.v).

    Writers are difference lists ([A -> stream -> stream]): [d a rest] is the dump of [a] followed
    by [rest]; this keeps the round-trip lemmas free of [app] re-association. *)
Require Import String Ascii List Bool Arith.
Import ListNotations.
Open Scope string_scope.
Open Scope list_scope.

Definition token := string.
Definition stream := list token.
Definition parser (A : Type) := stream -> option (A * stream).
Definition writer (A : Type) := A -> stream -> stream.

Definition ret {A} (a : A) : parser A := fun s => Some (a, s).
Definition fail {A} : parser A := fun _ => None.
Definition bind {A B} (p : parser A) (f : A -> parser B) : parser B :=
  fun s => match p s with None => None | Some (a, s') => f a s' end.

Notation "x <- p ;; q" := (bind p (fun x => q)) (at level 61, p at next level, right associativity).
Notation "p ;;; q" := (bind p (fun _ => q)) (at level 61, right associativity).

(** [s >> str] *)
Definition p_word : parser string :=
  fun s => match s with [] => None | w :: r => Some (w, r) end.

(** [if (!(s >> str) || str != k) return false;] *)
Definition p_kw (k : string) : parser unit :=
  w <- p_word ;; if String.eqb w k then ret tt else fail.

Definition guard (b : bool) : parser unit := if b then ret tt else fail.

(** the n-th word of a regenerated keyword list (see gen/Facts_Status.v) *)
Definition W (l : list string) (i : nat) : string := nth i l "<missing-keyword>".

(** [n] repetitions of a reader, results in order *)
Fixpoint p_many {A} (n : nat) (p : parser A) : parser (list A) :=
  match n with
  | O => ret []
  | S k => a <- p ;; l <- p_many k p ;; ret (a :: l)
  end.

Fixpoint w_many {A} (w : writer A) (l : list A) (rest : stream) : stream :=
  match l with
  | [] => rest
  | a :: t => w a (w_many w t rest)
  end.

(** Round-trip of a writer/reader pair on the values satisfying [P]. *)
Definition RT {A} (P : A -> Prop) (w : writer A) (p : parser A) : Prop :=
  forall a rest, P a -> p (w a rest) = Some (a, rest).

Lemma p_kw_ok : forall k k' rest, String.eqb k' k = true -> p_kw k (k' :: rest) = Some (tt, rest).
Proof. intros k k' rest H. unfold p_kw, bind, p_word. rewrite H. reflexivity. Qed.

Lemma p_kw_same : forall k rest, p_kw k (k :: rest) = Some (tt, rest).
Proof. intros. apply p_kw_ok. apply String.eqb_refl. Qed.

Lemma p_many_RT : forall A (P : A -> Prop) (w : writer A) (p : parser A),
  RT P w p -> forall l rest, Forall P l -> p_many (length l) p (w_many w l rest) = Some (l, rest).
Proof.
  intros A P w p H l. induction l as [|a t IH]; intros rest HF.
  - reflexivity.
  - inversion HF; subst. cbn [length p_many w_many]. unfold bind at 1.
    rewrite (H a _ H2). unfold bind at 1. rewrite (IH rest H3). reflexivity.
Qed.

(** a successful [p_many n] returns exactly [n] items *)
Lemma p_many_length : forall A (p : parser A) n s l s', p_many n p s = Some (l, s') -> length l = n.
Proof.
  intros A p n. induction n as [|n IH]; intros s l s' H.
  - cbn in H. inversion H. reflexivity.
  - cbn in H. unfold bind in H. destruct (p s) as [[a s1]|]; [|discriminate].
    destruct (p_many n p s1) as [[l1 s2]|] eqn:E; [|discriminate].
    inversion H; subst. cbn. f_equal. eapply IH; eauto.
Qed.

(** Writers that only prepend: [w a rest = w a [] ++ rest]. *)
Definition prepends {A} (w : writer A) : Prop := forall a rest, w a rest = w a [] ++ rest.

Lemma w_many_prepends : forall A (w : writer A), prepends w -> prepends (w_many w).
Proof.
  intros A w H l. induction l as [|a t IH]; intros rest.
  - reflexivity.
  - cbn [w_many]. rewrite (H a (w_many w t rest)), (H a (w_many w t [])), IH, app_assoc. reflexivity.
Qed.

(** From a round trip one gets injectivity of the writer for free. *)
Lemma RT_inj : forall A (P : A -> Prop) (w : writer A) (p : parser A),
  RT P w p -> forall a b, P a -> P b -> w a [] = w b [] -> a = b.
Proof.
  intros A P w p H a b Pa Pb E.
  pose proof (H a [] Pa) as Ha. pose proof (H b [] Pb) as Hb.
  rewrite E in Ha. rewrite Ha in Hb. inversion Hb. reflexivity.
Qed.

(** exhaustive search over a finite list, used for the status classes *)
Lemma find_none_all : forall A (f : A -> bool) l, find f l = None -> forall x, In x l -> f x = false.
Proof. intros. eapply find_none; eauto. Qed.

Lemma find_some_hit : forall A (f : A -> bool) l x, find f l = Some x -> In x l /\ f x = true.
Proof. intros. eapply find_some; eauto. Qed.
