(** C15 -- the semantic objects: Polyhedron, Grid, BD_Shape, Octagonal_Shape, Box.

    [Polyhedron::ascii_dump/ascii_load] (Polyhedron_public.cc), [Grid] (Grid_public.cc),
    [BD_Shape<T>] (BD_Shape_templates.hh), [Octagonal_Shape<T>] (Octagonal_Shape_templates.hh),
    [Box<ITV>] (Box_templates.hh).  None of these loaders resets the status word of the target
    before calling [status.ascii_load], so every [load_X] takes the target's status word; the other
    members are overwritten (or, for [Grid::dim_kinds], left alone when the loaded status says they
    are meaningless). *)
Require Import String Ascii List Bool Arith ZArith NArith Lia.
Require Import PPLV.Codec.Tok PPLV.Codec.Num PPLV.Codec.Status PPLV.Codec.Rows PPLV.Codec.Mats
               PPLV.gen.Facts_Status.
Import ListNotations.
Open Scope string_scope.
Open Scope list_scope.

(** * Polyhedron (C and NNC) *)
Record polyhedron := Poly {
  ph_dim : nat; ph_status : N;
  ph_con : linsys (R := crow); ph_gen : linsys (R := genrow);
  ph_satc : bitmat; ph_satg : bitmat }.

Definition ph_set_status (p : polyhedron) (st : N) : polyhedron :=
  Poly (ph_dim p) st (ph_con p) (ph_gen p) (ph_satc p) (ph_satg p).

Definition dump_polyhedron : writer polyhedron :=
  fun p rest =>
    let w := polyhedron_dump_words in
    let st := ph_status p in
    W w 0 :: w_nat (ph_dim p)
      (dump_status ph_class st
         (W w 1 :: paren (if ftest_any 2 st then W w 3 else W w 2)       (* constraints_are_up_to_date() *)
          :: dump_linsys constraint_class (ph_con p)
               (W w 4 :: paren (if ftest_any 4 st then W w 6 else W w 5)  (* generators_are_up_to_date() *)
                :: dump_linsys generator_class (ph_gen p)
                     (W w 7 :: dump_bitmat (ph_satc p) (W w 8 :: dump_bitmat (ph_satg p) rest))))).

Definition load_polyhedron (target_status : N) : parser polyhedron :=
  let w := polyhedron_load_words in
  p_kw (W w 0) ;;;
  dim <- p_nat ;;
  st <- load_status ph_class target_status ;;
  p_kw (W w 1) ;;;
  str <- p_word ;;
  guard (String.eqb str (paren (W w 2)) || String.eqb str (paren (W w 3))) ;;;
  con <- load_linsys constraint_class ;;
  p_kw (W w 4) ;;;
  str <- p_word ;;
  guard (String.eqb str (paren (W w 5)) || String.eqb str (paren (W w 6))) ;;;
  gen <- load_linsys generator_class ;;
  p_kw (W w 7) ;;;
  sc <- load_bitmat ;;
  p_kw (W w 8) ;;;
  sg <- load_bitmat ;;
  ret (Poly dim st con gen sc sg).

Definition wf_polyhedron (p : polyhedron) : Prop :=
  wf_linsys constraint_class (ph_con p) /\ wf_linsys generator_class (ph_gen p)
  /\ wf_bitmat (ph_satc p) /\ wf_bitmat (ph_satg p).

(** What loading the dump of [p] into a polyhedron whose status word is [tgt] produces. *)
Theorem load_polyhedron_char : forall tgt p rest, wf_polyhedron p ->
  load_polyhedron tgt (dump_polyhedron p rest)
  = match status_result ph_class tgt (ph_status p) with
    | Some x => Some (ph_set_status p x, rest)
    | None => None
    end.
Proof.
  intros tgt [dim st con gen sc sg] rest (Hc & Hg & Hsc & Hsg).
  cbn [ph_con ph_gen ph_satc ph_satg] in *.
  unfold load_polyhedron, dump_polyhedron, ph_set_status. cbn [ph_dim ph_status ph_con ph_gen ph_satc ph_satg].
  unfold bind at 1. rewrite p_kw_ok by (vm_compute; reflexivity).
  unfold bind at 1. rewrite (RT_nat dim _ I).
  unfold bind at 1. rewrite (load_status_char ph_class tgt st _ ph_arity).
  destruct (status_result ph_class tgt st) as [x|]; [|reflexivity].
  unfold bind at 1. rewrite p_kw_ok by (vm_compute; reflexivity).
  unfold bind at 1. unfold p_word at 1.
  assert (E1 : forall b : bool,
             (String.eqb (paren (if b then W polyhedron_dump_words 3 else W polyhedron_dump_words 2)) (paren (W polyhedron_load_words 2))
              || String.eqb (paren (if b then W polyhedron_dump_words 3 else W polyhedron_dump_words 2)) (paren (W polyhedron_load_words 3))) = true)
    by (intros [|]; vm_compute; reflexivity).
  unfold bind at 1. rewrite E1. unfold guard, ret at 1. cbv beta iota.
  unfold bind at 1. rewrite (RT_constraint_system con _ Hc).
  unfold bind at 1. rewrite p_kw_ok by (vm_compute; reflexivity).
  unfold bind at 1. unfold p_word at 1.
  assert (E2 : forall b : bool,
             (String.eqb (paren (if b then W polyhedron_dump_words 6 else W polyhedron_dump_words 5)) (paren (W polyhedron_load_words 5))
              || String.eqb (paren (if b then W polyhedron_dump_words 6 else W polyhedron_dump_words 5)) (paren (W polyhedron_load_words 6))) = true)
    by (intros [|]; vm_compute; reflexivity).
  unfold bind at 1. rewrite E2. unfold ret at 1. cbv beta iota.
  unfold bind at 1. rewrite (RT_generator_system gen _ Hg).
  unfold bind at 1. rewrite p_kw_ok by (vm_compute; reflexivity).
  unfold bind at 1. rewrite (RT_bitmat sc _ Hsc).
  unfold bind at 1. rewrite p_kw_ok by (vm_compute; reflexivity).
  unfold bind at 1. rewrite (RT_bitmat sg _ Hsg).
  reflexivity.
Qed.

Lemma ph_set_status_same : forall p, ph_set_status p (ph_status p) = p.
Proof. intros []; reflexivity. Qed.
Lemma ph_set_status_inj : forall p x, ph_set_status p x = p -> x = ph_status p.
Proof. intros [] x H. inversion H. reflexivity. Qed.

(** * Generic in the matrix entry / interval bound codec *)
Section WithEntries.
Context {E : Type} (wE : writer E) (pE : parser E) (PE : E -> Prop).
Hypothesis E_RT : RT PE wE pE.

(** ** BD_Shape<T> *)
Record bdshape := Bds { bd_status : N; bd_dbm : dbm (E := E); bd_red : bitmat }.
Definition bd_set_status (b : bdshape) (st : N) := Bds st (bd_dbm b) (bd_red b).

Definition dump_bdshape : writer bdshape :=
  fun b rest => dump_status bds_class (bd_status b) (dump_dbm wE (bd_dbm b) (dump_bitmat (bd_red b) rest)).

Definition load_bdshape (target_status : N) : parser bdshape :=
  st <- load_status bds_class target_status ;;
  d <- load_dbm pE ;;
  r <- load_bitmat ;;
  ret (Bds st d r).

Definition wf_bdshape (b : bdshape) : Prop := wf_dbm PE (bd_dbm b) /\ wf_bitmat (bd_red b).

Theorem load_bdshape_char : forall tgt b rest, wf_bdshape b ->
  load_bdshape tgt (dump_bdshape b rest)
  = match status_result bds_class tgt (bd_status b) with
    | Some x => Some (bd_set_status b x, rest)
    | None => None
    end.
Proof.
  intros tgt [st d r] rest [Hd Hr]. cbn [bd_dbm bd_red] in *.
  unfold load_bdshape, dump_bdshape, bd_set_status. cbn [bd_status bd_dbm bd_red].
  unfold bind at 1. rewrite (load_status_char bds_class tgt st _ bds_arity).
  destruct (status_result bds_class tgt st) as [x|]; [|reflexivity].
  unfold bind at 1. rewrite (RT_dbm wE pE PE E_RT d _ Hd).
  unfold bind at 1. rewrite (RT_bitmat r _ Hr).
  reflexivity.
Qed.

(** ** Octagonal_Shape<T> *)
Record octagon := Oct { oc_dim : nat; oc_status : N; oc_mat : orm (E := E) }.
Definition oc_set_status (o : octagon) (st : N) := Oct (oc_dim o) st (oc_mat o).

Definition dump_octagon : writer octagon :=
  fun o rest =>
    W octagon_dump_words 0 :: w_nat (oc_dim o) (dump_status og_class (oc_status o) (dump_orm wE (oc_mat o) rest)).

Definition load_octagon (target_status : N) : parser octagon :=
  p_kw (W octagon_load_words 0) ;;;
  dim <- p_nat ;;
  st <- load_status og_class target_status ;;
  m <- load_orm pE ;;
  ret (Oct dim st m).

Definition wf_octagon (o : octagon) : Prop := wf_orm PE (oc_mat o).

Theorem load_octagon_char : forall tgt o rest, wf_octagon o ->
  load_octagon tgt (dump_octagon o rest)
  = match status_result og_class tgt (oc_status o) with
    | Some x => Some (oc_set_status o x, rest)
    | None => None
    end.
Proof.
  intros tgt [dim st m] rest Hm. unfold wf_octagon in Hm. cbn [oc_mat] in Hm.
  unfold load_octagon, dump_octagon, oc_set_status. cbn [oc_dim oc_status oc_mat].
  unfold bind at 1. rewrite p_kw_ok by (vm_compute; reflexivity).
  unfold bind at 1. rewrite (RT_nat dim _ I).
  unfold bind at 1. rewrite (load_status_char og_class tgt st _ og_arity).
  destruct (status_result og_class tgt st) as [x|]; [|reflexivity].
  unfold bind at 1. rewrite (RT_orm wE pE PE E_RT m _ Hm).
  reflexivity.
Qed.

(** ** Box<ITV> *)
Record box := Box { bx_status : N; bx_seq : list (itv (E := E)) }.
Definition bx_set_status (b : box) (st : N) := Box st (bx_seq b).

Definition dump_box : writer box :=
  fun b rest =>
    dump_status box_class (bx_status b)
      (W box_obj_dump_words 0 :: w_nat (length (bx_seq b)) (w_many (dump_itv wE) (bx_seq b) rest)).

Definition load_box (target_status : N) : parser box :=
  st <- load_status box_class target_status ;;
  p_kw (W box_obj_load_words 0) ;;;
  space_dim <- p_nat ;;
  (* seq.clear(); *)
  seq <- p_many space_dim (load_itv pE) ;;
  ret (Box st seq).

Definition wf_box (b : box) : Prop := Forall (wf_itv PE) (bx_seq b).

Theorem load_box_char : forall tgt b rest, wf_box b ->
  load_box tgt (dump_box b rest)
  = match status_result box_class tgt (bx_status b) with
    | Some x => Some (bx_set_status b x, rest)
    | None => None
    end.
Proof.
  intros tgt [st seq] rest H. unfold wf_box in H. cbn [bx_seq] in H.
  unfold load_box, dump_box, bx_set_status. cbn [bx_status bx_seq].
  unfold bind at 1. rewrite (load_status_char box_class tgt st _ box_arity).
  destruct (status_result box_class tgt st) as [x|]; [|reflexivity].
  unfold bind at 1. rewrite p_kw_ok by (vm_compute; reflexivity).
  unfold bind at 1. rewrite (RT_nat (length seq) _ I).
  unfold bind at 1. rewrite (p_many_RT _ _ _ _ (RT_itv wE pE PE E_RT) seq rest H).
  reflexivity.
Qed.

End WithEntries.

Arguments Bds {E}. Arguments bd_status {E}. Arguments bd_dbm {E}. Arguments bd_red {E}.
Arguments Oct {E}. Arguments oc_dim {E}. Arguments oc_status {E}. Arguments oc_mat {E}.
Arguments Box {E}. Arguments bx_status {E}. Arguments bx_seq {E}.

(** * Grid *)
Record grid := Grid {
  gr_dim : nat; gr_status : N;
  gr_con : plainsys (R := cgrow); gr_gen : linsys (R := ggrow);
  gr_kinds : list nat }.     (* dim_kinds: 0 PARAMETER / CON_VIRTUAL, 1 LINE / PROPER_CONGRUENCE, 2 GEN_VIRTUAL / EQUALITY *)

(** [(generators_are_up_to_date() && generators_are_minimized())
     || (congruences_are_up_to_date() && congruences_are_minimized())] *)
Definition kinds_meaningful (st : N) : bool :=
  (ftest_any 4 st && ftest_any 16 st) || (ftest_any 2 st && ftest_any 8 st).

Definition dump_grid : writer grid :=
  fun g rest =>
    let w := grid_obj_dump_words in
    let st := gr_status g in
    W w 0 :: w_nat (gr_dim g)
      (dump_status grid_class st
         (W w 1 :: paren (if ftest_any 2 st then W w 3 else W w 2)
          :: dump_plainsys congruence_class (gr_con g)
               (W w 4 :: paren (if ftest_any 4 st then W w 6 else W w 5)
                :: dump_linsys grid_generator_class (gr_gen g)
                     (W w 7 :: (if kinds_meaningful st then w_many w_nat (gr_kinds g) rest else rest))))).

Definition p_kind : parser nat := k <- p_nat ;; guard (k <=? 2)%nat ;;; ret k.

(** the target contributes its status word and its [dim_kinds] *)
Definition load_grid (target_status : N) (target_kinds : list nat) : parser grid :=
  let w := grid_obj_load_words in
  p_kw (W w 0) ;;;
  dim <- p_nat ;;
  st <- load_status grid_class target_status ;;
  p_kw (W w 1) ;;;
  str <- p_word ;;
  st1 <- (if String.eqb str (paren (W w 2)) then ret (fset 2 st)         (* set_congruences_up_to_date() *)
          else if String.eqb str (paren (W w 3)) then ret st else fail) ;;
  con <- load_plainsys congruence_class ;;
  p_kw (W w 4) ;;;
  str <- p_word ;;
  st2 <- (if String.eqb str (paren (W w 5)) then ret (fset 4 st1)        (* set_generators_up_to_date() *)
          else if String.eqb str (paren (W w 6)) then ret st1 else fail) ;;
  gen <- load_linsys grid_generator_class ;;
  p_kw (W w 7) ;;;
  kinds <- (if negb (ftest_any 1 st2) && kinds_meaningful st2
            then p_many (dim + 1)%nat p_kind                                 (* dim_kinds.resize(space_dim + 1) *)
            else ret target_kinds) ;;
  ret (Grid dim st2 con gen kinds).

(** [dim_kinds] is carried by the model only when the status says it is meaningful (it is not
    dumped otherwise); [Grid::OK()] forbids a marked-empty grid with any other flag. *)
Definition wf_grid (fresh_kinds : list nat) (g : grid) : Prop :=
  in_range grid_class (gr_status g)
  /\ wf_plainsys congruence_class (gr_con g) /\ wf_linsys grid_generator_class (gr_gen g)
  /\ (ftest_any 1 (gr_status g) && kinds_meaningful (gr_status g) = false)
  /\ (if kinds_meaningful (gr_status g)
      then length (gr_kinds g) = (gr_dim g + 1)%nat /\ Forall (fun k => (k <= 2)%nat) (gr_kinds g)
      else gr_kinds g = fresh_kinds).

Lemma fset_idem_check :
  forallb (fun st => (if ftest_any 2 st then N.eqb (fset 2 st) st else true)
                     && (if ftest_any 4 st then N.eqb (fset 4 st) st else true)) (states 9) = true.
Proof. vm_compute. reflexivity. Qed.

Lemma fset_idem : forall st, in_range grid_class st ->
  (ftest_any 2 st = true -> fset 2 st = st) /\ (ftest_any 4 st = true -> fset 4 st = st).
Proof.
  intros st H. pose proof fset_idem_check as C. rewrite forallb_forall in C.
  specialize (C st (states_complete 9 st H)). apply andb_true_iff in C. destruct C as [C1 C2].
  split; intro T; [rewrite T in C1 | rewrite T in C2]; apply N.eqb_eq; assumption.
Qed.

Lemma RT_kind : RT (fun k => (k <= 2)%nat) w_nat p_kind.
Proof.
  intros k rest H. unfold p_kind. unfold bind at 1. rewrite (RT_nat k rest I).
  apply Nat.leb_le in H. rewrite H. reflexivity.
Qed.

Theorem load_grid_ok : forall tgt tk g rest, wf_grid tk g ->
  status_result grid_class tgt (gr_status g) = Some (gr_status g) ->
  load_grid tgt tk (dump_grid g rest) = Some (g, rest).
Proof.
  intros tgt tk [dim st con gen kinds] rest (Hr & Hc & Hg & He & Hk) HS.
  cbn [gr_dim gr_status gr_con gr_gen gr_kinds] in *.
  unfold load_grid, dump_grid. cbn [gr_dim gr_status gr_con gr_gen gr_kinds].
  unfold bind at 1. rewrite p_kw_ok by (vm_compute; reflexivity).
  unfold bind at 1. rewrite (RT_nat dim _ I).
  unfold bind at 1. rewrite (load_status_char grid_class tgt st _ grid_arity). rewrite HS.
  unfold bind at 1. rewrite p_kw_ok by (vm_compute; reflexivity).
  unfold bind at 1. unfold p_word at 1.
  destruct (fset_idem st Hr) as [I2 I4].
  assert (E1 : (if String.eqb (paren (if ftest_any 2 st then W grid_obj_dump_words 3 else W grid_obj_dump_words 2)) (paren (W grid_obj_load_words 2))
                then ret (fset 2 st)
                else if String.eqb (paren (if ftest_any 2 st then W grid_obj_dump_words 3 else W grid_obj_dump_words 2)) (paren (W grid_obj_load_words 3))
                     then ret st else fail) = @ret N st).
  { destruct (ftest_any 2 st) eqn:T.
    - rewrite <- (I2 eq_refl) at 3. vm_compute String.eqb. reflexivity.
    - vm_compute String.eqb. reflexivity. }
  unfold bind at 1. rewrite E1. unfold ret at 1.
  unfold bind at 1. rewrite (RT_congruence_system con _ Hc).
  unfold bind at 1. rewrite p_kw_ok by (vm_compute; reflexivity).
  unfold bind at 1. unfold p_word at 1.
  assert (E2 : (if String.eqb (paren (if ftest_any 4 st then W grid_obj_dump_words 6 else W grid_obj_dump_words 5)) (paren (W grid_obj_load_words 5))
                then ret (fset 4 st)
                else if String.eqb (paren (if ftest_any 4 st then W grid_obj_dump_words 6 else W grid_obj_dump_words 5)) (paren (W grid_obj_load_words 6))
                     then ret st else fail) = @ret N st).
  { destruct (ftest_any 4 st) eqn:T.
    - rewrite <- (I4 eq_refl) at 3. vm_compute String.eqb. reflexivity.
    - vm_compute String.eqb. reflexivity. }
  unfold bind at 1. rewrite E2. unfold ret at 1.
  unfold bind at 1. rewrite (RT_grid_generator_system gen _ Hg).
  unfold bind at 1. rewrite p_kw_ok by (vm_compute; reflexivity).
  destruct (kinds_meaningful st) eqn:K.
  - rewrite andb_true_r in He. rewrite He. cbn [negb andb].
    destruct Hk as [Hl Hf]. rewrite <- Hl.
    unfold bind at 1. rewrite (p_many_RT _ _ _ _ RT_kind kinds rest Hf). reflexivity.
  - rewrite andb_false_r. subst kinds. reflexivity.
Qed.

(** * Instances for the coefficient types modelled *)
Definition w_itv_mpq : writer mpq := w_mpq.
Definition dump_bds_mpq := dump_bdshape w_dbm_mpq.
Definition load_bds_mpq := load_bdshape p_dbm_mpq.
Definition dump_bds_Z := dump_bdshape w_dbm_Z.
Definition load_bds_Z := load_bdshape p_dbm_Z.
Definition dump_oct_mpq := dump_octagon w_dbm_mpq.
Definition load_oct_mpq := load_octagon p_dbm_mpq.
Definition dump_oct_Z := dump_octagon w_dbm_Z.
Definition load_oct_Z := load_octagon p_dbm_Z.
(** Rational_Box bounds: [mpq_class] through GMP's own [operator<<] / [operator>>];
    Z_Box bounds: [mpz_class] *)
Definition dump_box_mpq := dump_box w_mpq.
Definition load_box_mpq := load_box p_mpq_native.
Definition dump_box_Z := dump_box w_Z.
Definition load_box_Z := load_box p_Z.

Example wf_polyhedron_sat :
  wf_polyhedron (Poly 1 2 (LinSys false 1 false true 1 [CRow [0; 1]%Z false false])
                          (LinSys false 1 false true 0 []) (BitMat 0 0 []) (BitMat 0 0 [])).
Proof. repeat split; repeat constructor. Qed.

(** named instances of the system codecs (for extraction) *)
Definition dump_cs := dump_linsys constraint_class.
Definition load_cs := load_linsys constraint_class.
Definition dump_gs := dump_linsys generator_class.
Definition load_gs := load_linsys generator_class.
Definition dump_ggs := dump_linsys grid_generator_class.
Definition load_ggs := load_linsys grid_generator_class.
Definition dump_cgs := dump_plainsys congruence_class.
Definition load_cgs := load_plainsys congruence_class.
