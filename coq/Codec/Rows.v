(** C15 -- linear rows and systems of rows.

    [Linear_Expression_Impl<Row>::ascii_dump/ascii_load] (Linear_Expression_Impl_templates.hh),
    [Constraint] (Constraint.cc), [Generator] (Generator_inlines.hh), [Congruence] (Congruence.cc),
    [Grid_Generator] (Grid_Generator.cc), [Linear_System<Row>] (Linear_System_templates.hh),
    [Congruence_System] (Congruence_System.cc), following the C++ bodies statement by statement.
    A row is its coefficient vector ([row.get(i)] for [i < row.size()]; dense and sparse rows print
    alike) plus the kind / topology / modulus fields.  Keywords are taken from the regenerated
    word lists of gen/Facts_Status.v: the writer uses the writer's list, the reader the reader's. *)
Require Import String Ascii List Bool Arith ZArith Lia.
Require Import PPLV.Codec.Tok PPLV.Codec.Num PPLV.gen.Facts_Status.
Import ListNotations.
Open Scope string_scope.
Open Scope list_scope.

Definition paren (s : string) : string := "(" ++ s ++ ")".

(** * Linear_Expression_Impl *)
Definition dump_linexpr : writer (list Z) :=
  fun e rest => W linexpr_dump_words 0 :: w_nat (length e) (w_many w_Z e rest).

(** [Constraint], [Generator], [Congruence] call [expr.ascii_load(s)] and IGNORE its result.  When
    it failed on an extraction the stream is in the fail state and the next read fails ([LFail]);
    when it failed because the word read was not "size" the stream is still good and the caller
    carries on with the expression of a default-constructed row ([LBadKw]). *)
Inductive lres := LOk (e : list Z) (rest : stream) | LBadKw (rest : stream) | LFail.

Definition load_linexpr (s : stream) : lres :=
  match s with
  | [] => LFail
  | w :: r =>
      if String.eqb w (W linexpr_load_words 0) then
        match (n <- p_nat ;; p_many n p_Z) r with
        | Some (e, r') => LOk e r'
        | None => LFail
        end
      else LBadKw r
  end.

Lemma linexpr_kw_agree : String.eqb (W linexpr_dump_words 0) (W linexpr_load_words 0) = true.
Proof. vm_compute. reflexivity. Qed.

Lemma load_linexpr_RT : forall e rest, load_linexpr (dump_linexpr e rest) = LOk e rest.
Proof.
  intros e rest. unfold load_linexpr, dump_linexpr. rewrite linexpr_kw_agree.
  unfold bind at 1. rewrite (RT_nat (length e) _ I).
  rewrite (p_many_RT _ _ _ _ RT_Z e rest); [reflexivity|].
  apply Forall_forall. intros; exact I.
Qed.

(** expression of a default-constructed row (only reached on malformed input) *)
Definition default_expr : list Z := [0%Z].

Definition lenient {A} (k : list Z -> parser A) : parser A :=
  fun s => match load_linexpr s with
           | LOk e r => k e r
           | LBadKw r => k default_expr r
           | LFail => None
           end.

Definition strict {A} (k : list Z -> parser A) : parser A :=
  fun s => match load_linexpr s with
           | LOk e r => k e r
           | _ => None
           end.

(** * Constraint *)
Record crow := CRow { c_expr : list Z; c_eq : bool; c_nnc : bool }.

(** [Constraint::type()] rendered with the words of list [ws] at positions [i0..i0+2] *)
Definition c_type_word (ws : list string) (i0 : nat) (r : crow) : string :=
  if c_eq r then W ws i0
  else if c_nnc r && (last (c_expr r) 0 <? 0)%Z then W ws (i0 + 2)
  else W ws (i0 + 1).

Definition c_eps_ok (r : crow) : bool := c_eq r || negb (c_nnc r) || (2 <=? length (c_expr r))%nat.
Definition wf_crow (r : crow) : Prop := c_eps_ok r = true.

Definition dump_constraint : writer crow :=
  fun r rest =>
    dump_linexpr (c_expr r)
      (c_type_word constraint_dump_words 0 r
       :: paren (if c_nnc r then W constraint_dump_words 4 else W constraint_dump_words 3) :: rest).

Definition load_constraint : parser crow :=
  lenient (fun e =>
    str <- p_word ;;
    iseq <- (if String.eqb str (W constraint_load_words 0) then ret true
             else if String.eqb str (W constraint_load_words 1) || String.eqb str (W constraint_load_words 2)
                  then ret false else fail) ;;
    str2 <- p_word ;;
    nnc <- (if String.eqb str2 (paren (W constraint_load_words 3)) then ret true
            else if String.eqb str2 (paren (W constraint_load_words 4)) then ret false else fail) ;;
    let r := CRow e iseq nnc in
    (* type() of an NNC inequality reads the epsilon coefficient: on an expression with fewer than
       two coefficients Variable(space_dimension() - 1) throws std::length_error (load rejected) *)
    guard (c_eps_ok r) ;;;
    guard (String.eqb str (c_type_word constraint_load_words 5 r)) ;;; ret r).

Lemma RT_constraint : RT wf_crow dump_constraint load_constraint.
Proof.
  intros [e iseq nnc] rest Hw. unfold wf_crow, c_eps_ok in Hw. cbn [c_expr c_eq c_nnc] in Hw.
  unfold load_constraint, lenient, dump_constraint. cbn [c_expr c_eq c_nnc].
  rewrite load_linexpr_RT.
  unfold c_type_word; cbn [c_expr c_eq c_nnc].
  destruct iseq, nnc; try (destruct (last e 0 <? 0)%Z eqn:El);
    unfold bind, p_word, guard, c_type_word, c_eps_ok; cbn [c_expr c_eq c_nnc andb orb negb] in *;
    try rewrite El; try rewrite Hw; reflexivity.
Qed.

(** * Generator *)
Record genrow := GRow { g_expr : list Z; g_line : bool; g_nnc : bool }.

(** [Generator::type()]: words at [i0..i0+3] are L, R, P, C *)
Definition g_type_word (ws : list string) (i0 : nat) (r : genrow) : string :=
  if g_line r then W ws i0
  else if (hd 0 (g_expr r) =? 0)%Z then W ws (i0 + 1)
  else if g_nnc r && (last (g_expr r) 0 =? 0)%Z then W ws (i0 + 3)
  else W ws (i0 + 2).

Definition g_eps_ok (r : genrow) : bool :=
  g_line r || (hd 0 (g_expr r) =? 0)%Z || negb (g_nnc r) || (2 <=? length (g_expr r))%nat.
Definition wf_genrow (r : genrow) : Prop := g_eps_ok r = true.

Definition dump_generator : writer genrow :=
  fun r rest =>
    dump_linexpr (g_expr r)
      (g_type_word generator_dump_words 0 r
       :: paren (if g_nnc r then W generator_dump_words 5 else W generator_dump_words 4) :: rest).

Definition load_generator : parser genrow :=
  lenient (fun e =>
    str <- p_word ;;
    isline <- (if String.eqb str (W generator_load_words 0) then ret true
               else if String.eqb str (W generator_load_words 1) || String.eqb str (W generator_load_words 2)
                       || String.eqb str (W generator_load_words 3)
                    then ret false else fail) ;;
    str2 <- p_word ;;
    nnc <- (if String.eqb str2 (paren (W generator_load_words 4)) then ret false
            else if String.eqb str2 (paren (W generator_load_words 5)) then ret true else fail) ;;
    let r := GRow e isline nnc in
    guard (g_eps_ok r) ;;;          (* as for constraints: the epsilon coefficient must exist when type() reads it *)
    guard (String.eqb str (g_type_word generator_load_words 6 r)) ;;; ret r).

Lemma RT_generator : RT wf_genrow dump_generator load_generator.
Proof.
  intros [e isline nnc] rest Hw. unfold wf_genrow, g_eps_ok in Hw. cbn [g_expr g_line g_nnc] in Hw.
  unfold load_generator, lenient, dump_generator. cbn [g_expr g_line g_nnc].
  rewrite load_linexpr_RT.
  unfold g_type_word; cbn [g_expr g_line g_nnc].
  destruct isline, nnc; destruct (hd 0 e =? 0)%Z eqn:Eh; try (destruct (last e 0 =? 0)%Z eqn:El);
    unfold bind, p_word, guard, g_type_word, g_eps_ok; cbn [g_expr g_line g_nnc andb orb negb] in *;
    try rewrite Eh; try rewrite El; try rewrite Hw; reflexivity.
Qed.

(** * Congruence *)
Record cgrow := CgRow { cg_expr : list Z; cg_mod : Z }.

Definition dump_congruence : writer cgrow :=
  fun r rest => dump_linexpr (cg_expr r) (W congruence_dump_words 0 :: w_Z (cg_mod r) rest).

Definition load_congruence : parser cgrow :=
  lenient (fun e => p_kw (W congruence_load_words 0) ;;; m <- p_Z ;; ret (CgRow e m)).

Lemma RT_congruence : RT (fun _ => True) dump_congruence load_congruence.
Proof.
  intros [e m] rest _. unfold load_congruence, lenient, dump_congruence. cbn [cg_expr cg_mod].
  rewrite load_linexpr_RT. unfold bind at 1. rewrite p_kw_ok by (vm_compute; reflexivity).
  unfold bind. rewrite (RT_Z m rest I). reflexivity.
Qed.

(** * Grid_Generator *)
Record ggrow := GgRow { gg_expr : list Z; gg_line : bool }.

(** [Grid_Generator::type()]: dump words are L, Q, P *)
Definition dump_grid_generator : writer ggrow :=
  fun r rest =>
    dump_linexpr (gg_expr r)
      ((if gg_line r then W grid_generator_dump_words 0
        else if (hd 0 (gg_expr r) =? 0)%Z then W grid_generator_dump_words 1
        else W grid_generator_dump_words 2) :: rest).

Definition load_grid_generator : parser ggrow :=
  strict (fun e =>
    str <- p_word ;;
    isline <- (if String.eqb str (W grid_generator_load_words 0) then ret true
               else if String.eqb str (W grid_generator_load_words 1) || String.eqb str (W grid_generator_load_words 2)
                    then ret false else fail) ;;
    ret (GgRow e isline)).

Lemma RT_grid_generator : RT (fun _ => True) dump_grid_generator load_grid_generator.
Proof.
  intros [e isline] rest _. unfold load_grid_generator, strict, dump_grid_generator. cbn [gg_expr gg_line].
  rewrite load_linexpr_RT.
  destruct isline; [|destruct (hd 0 e =? 0)%Z]; reflexivity.
Qed.

(** * Growth of a row when it is inserted into a system of larger space dimension
    ([set_space_dimension_no_ok], growing case only; equal dimension is the identity). *)
Definition grow_plain (n : nat) (e : list Z) : list Z := e ++ repeat 0%Z (n - length e).
(** rows whose last coefficient is special (epsilon / parameter divisor): it stays last *)
Definition grow_keep_last (n : nat) (e : list Z) : list Z :=
  if (length e <? n)%nat then removelast e ++ repeat 0%Z (n - length e) ++ [last e 0%Z] else e.

Lemma grow_plain_same : forall e, grow_plain (length e) e = e.
Proof. intro e. unfold grow_plain. rewrite Nat.sub_diag. cbn. apply app_nil_r. Qed.
Lemma grow_keep_last_same : forall e, grow_keep_last (length e) e = e.
Proof. intro e. unfold grow_keep_last. rewrite Nat.ltb_irrefl. reflexivity. Qed.

Record row_class (R : Type) := {
  rc_dump : writer R;
  rc_load : parser R;
  rc_space_dim : R -> nat;            (* Row::space_dimension() *)
  rc_grow : nat -> R -> R;            (* Row::set_space_dimension_no_ok(d), d >= space_dimension() *)
  rc_wf : R -> Prop;                  (* the row can be dumped at all (type() does not throw) *)
  rc_min_ok : R -> bool;              (* enough coefficients for Row::space_dimension() not to wrap around *)
}.
Arguments rc_dump {R}. Arguments rc_load {R}. Arguments rc_space_dim {R}. Arguments rc_grow {R}. Arguments rc_wf {R}.
Arguments rc_min_ok {R}.

Definition constraint_class : row_class crow :=
  {| rc_dump := dump_constraint; rc_load := load_constraint;
     rc_space_dim := fun r => length (c_expr r) - 1 - (if c_nnc r then 1 else 0);
     rc_grow := fun d r => if c_nnc r then CRow (grow_keep_last (d + 2) (c_expr r)) (c_eq r) (c_nnc r)
                           else CRow (grow_plain (d + 1) (c_expr r)) (c_eq r) (c_nnc r);
     rc_wf := wf_crow;
     rc_min_ok := fun r => ((if c_nnc r then 2 else 1) <=? length (c_expr r))%nat |}.
Definition generator_class : row_class genrow :=
  {| rc_dump := dump_generator; rc_load := load_generator;
     rc_space_dim := fun r => length (g_expr r) - 1 - (if g_nnc r then 1 else 0);
     rc_grow := fun d r => if g_nnc r then GRow (grow_keep_last (d + 2) (g_expr r)) (g_line r) (g_nnc r)
                           else GRow (grow_plain (d + 1) (g_expr r)) (g_line r) (g_nnc r);
     rc_wf := wf_genrow;
     rc_min_ok := fun r => ((if g_nnc r then 2 else 1) <=? length (g_expr r))%nat |}.
Definition congruence_class : row_class cgrow :=
  {| rc_dump := dump_congruence; rc_load := load_congruence;
     rc_space_dim := fun r => length (cg_expr r) - 1;
     rc_grow := fun d r => CgRow (grow_plain (d + 1) (cg_expr r)) (cg_mod r);
     rc_wf := fun _ => True;
     rc_min_ok := fun r => (1 <=? length (cg_expr r))%nat |}.
Definition grid_generator_class : row_class ggrow :=
  {| rc_dump := dump_grid_generator; rc_load := load_grid_generator;
     rc_space_dim := fun r => length (gg_expr r) - 2;
     rc_grow := fun d r => GgRow (grow_keep_last (d + 2) (gg_expr r)) (gg_line r);
     rc_wf := fun _ => True;
     rc_min_ok := fun r => (2 <=? length (gg_expr r))%nat |}.

(** a row is well-formed for a system of dimension [d] when its own dimension is [d] and it has
    at least the special columns (so that the subtraction above is exact) *)
Definition row_fits {R} (C : row_class R) (d : nat) (r : R) : Prop :=
  rc_space_dim C r = d /\ rc_grow C d r = r /\ rc_wf C r /\ rc_min_ok C r = true.

Lemma crow_fits : forall d r, length (c_expr r) = d + 1 + (if c_nnc r then 1 else 0) -> row_fits constraint_class d r.
Proof.
  intros d [e q n] H. cbn [c_expr c_nnc] in H. unfold row_fits. cbn [rc_space_dim rc_grow rc_wf rc_min_ok constraint_class c_expr c_eq c_nnc]. split; [|split; [|split]].
  - destruct n; lia.
  - destruct n.
    + replace (d + 2) with (length e) by lia. rewrite grow_keep_last_same. reflexivity.
    + replace (d + 1) with (length e) by lia. rewrite grow_plain_same. reflexivity.
  - unfold wf_crow, c_eps_ok. cbn [c_expr c_eq c_nnc]. destruct q, n; cbn [orb negb]; try reflexivity.
    apply Nat.leb_le. lia.
  - apply Nat.leb_le. destruct n; lia.
Qed.
Lemma genrow_fits : forall d r, length (g_expr r) = d + 1 + (if g_nnc r then 1 else 0) -> row_fits generator_class d r.
Proof.
  intros d [e q n] H. cbn [g_expr g_nnc] in H. unfold row_fits. cbn [rc_space_dim rc_grow rc_wf rc_min_ok generator_class g_expr g_line g_nnc]. split; [|split; [|split]].
  - destruct n; lia.
  - destruct n.
    + replace (d + 2) with (length e) by lia. rewrite grow_keep_last_same. reflexivity.
    + replace (d + 1) with (length e) by lia. rewrite grow_plain_same. reflexivity.
  - unfold wf_genrow, g_eps_ok. cbn [g_expr g_line g_nnc]. destruct q, n, (hd 0 e =? 0)%Z; cbn [orb negb]; try reflexivity.
    apply Nat.leb_le. lia.
  - apply Nat.leb_le. destruct n; lia.
Qed.
Lemma cgrow_fits : forall d r, length (cg_expr r) = d + 1 -> row_fits congruence_class d r.
Proof.
  intros d [e m] H. cbn [cg_expr] in H. unfold row_fits. cbn [rc_space_dim rc_grow rc_wf rc_min_ok congruence_class cg_expr cg_mod]. split; [lia|split; [|split; [exact I|apply Nat.leb_le; lia]]].
  replace (d + 1) with (length e) by lia. rewrite grow_plain_same. reflexivity.
Qed.
Lemma ggrow_fits : forall d r, length (gg_expr r) = d + 2 -> row_fits grid_generator_class d r.
Proof.
  intros d [e m] H. cbn [gg_expr] in H. unfold row_fits. cbn [rc_space_dim rc_grow rc_wf rc_min_ok grid_generator_class gg_expr gg_line]. split; [lia|split; [|split; [exact I|apply Nat.leb_le; lia]]].
  replace (d + 2) with (length e) by lia. rewrite grow_keep_last_same. reflexivity.
Qed.

(** * Row insertion ([Linear_System::insert_pending_no_ok], [Congruence_System::insert_verbatim]) *)
Section Systems.
Context {R : Type} (C : row_class R).
Hypothesis C_RT : RT (rc_wf C) (rc_dump C) (rc_load C).

Definition sys_insert (st : nat * list R) (r : R) : nat * list R :=
  let '(sd, rows) := st in
  let d := rc_space_dim C r in
  if (sd <? d)%nat then (d, map (rc_grow C d) rows ++ [r])
  else (sd, rows ++ [rc_grow C sd r]).

Fixpoint load_rows (n : nat) (st : nat * list R) : parser (nat * list R) :=
  match n with
  | O => ret st
  | S k => r <- rc_load C ;;
           (* with too few coefficients Row::space_dimension() wraps around and the insertion throws
              std::length_error (or, for a row of size 0, crashes: a known finding) *)
           guard (rc_min_ok C r) ;;; load_rows k (sys_insert st r)
  end.

Lemma load_rows_RT : forall l sd acc rest, Forall (row_fits C sd) l ->
  load_rows (length l) (sd, acc) (w_many (rc_dump C) l rest) = Some ((sd, acc ++ l), rest).
Proof.
  induction l as [|r t IH]; intros sd acc rest HF.
  - cbn. rewrite app_nil_r. reflexivity.
  - inversion HF as [|? ? Hfit HF']; subst. destruct Hfit as (Hd & Hg & Hw & Hm).
    cbn [length load_rows w_many]. unfold bind. rewrite (C_RT r _ Hw). rewrite Hm. unfold guard, ret.
    unfold sys_insert. rewrite Hd, Nat.ltb_irrefl, Hg.
    rewrite (IH sd (acc ++ [r]) rest HF'). rewrite <- app_assoc. reflexivity.
Qed.

(** * Linear_System<Row> *)
Record linsys := LinSys {
  ls_nnc : bool;            (* topology *)
  ls_dim : nat;             (* space_dimension_ *)
  ls_sparse : bool;         (* representation_ *)
  ls_sorted : bool;
  ls_pending : nat;         (* index_first_pending *)
  ls_rows : list R }.

Definition w_repr (ws : list string) : writer bool := fun sparse rest => (if sparse then W ws 1 else W ws 0) :: rest.
Definition p_repr (ws : list string) : parser bool :=
  w <- p_word ;; if String.eqb w (W ws 0) then ret false else if String.eqb w (W ws 1) then ret true else fail.

Lemma RT_repr : RT (fun _ => True) (w_repr representation_dump_words) (p_repr representation_load_words).
Proof. intros [|] rest _; reflexivity. Qed.

Definition dump_linsys : writer linsys :=
  fun x rest =>
    W linsys_dump_words 0
    :: (if ls_nnc x then W linsys_dump_words 2 else W linsys_dump_words 1)
    :: w_nat (length (ls_rows x))
         (W linsys_dump_words 3
          :: w_nat (ls_dim x)
               (w_repr representation_dump_words (ls_sparse x)
                  (paren (if ls_sorted x then W linsys_dump_words 4 else W linsys_dump_words 5)
                   :: W linsys_dump_words 6
                   :: w_nat (ls_pending x) (w_many (rc_dump C) (ls_rows x) rest)))).

(** [Linear_System::ascii_load]: after the first two words the target is [clear()]ed, every field
    is then overwritten, so the result does not depend on the target. *)
Definition load_linsys : parser linsys :=
  p_kw (W linsys_load_words 0) ;;;
  str <- p_word ;;
  (* clear(); *)
  t <- (if String.eqb str (W linsys_load_words 1) then ret false
        else if String.eqb str (W linsys_load_words 2) then ret true else fail) ;;
  nrows <- p_nat ;;
  p_kw (W linsys_load_words 3) ;;;
  space_dims <- p_nat ;;
  repr <- p_repr representation_load_words ;;
  str <- p_word ;;
  guard (String.eqb str (paren (W linsys_load_words 4)) || String.eqb str (paren (W linsys_load_words 5))) ;;;
  let sortedness := String.eqb str (paren (W linsys_load_words 6)) in
  p_kw (W linsys_load_words 7) ;;;
  index <- p_nat ;;
  st <- load_rows nrows (space_dims, []) ;;
  ret (LinSys t (fst st) repr sortedness index (snd st)).

Definition wf_linsys (x : linsys) : Prop := Forall (row_fits C (ls_dim x)) (ls_rows x).

Lemma RT_linsys : RT wf_linsys dump_linsys load_linsys.
Proof.
  intros [nnc dim sparse sorted pending rows] rest H. unfold wf_linsys in H. cbn [ls_dim ls_rows] in H.
  unfold load_linsys, dump_linsys. cbn [ls_nnc ls_dim ls_sparse ls_sorted ls_pending ls_rows].
  unfold bind at 1. rewrite p_kw_ok by (vm_compute; reflexivity).
  unfold bind at 1. unfold p_word at 1.
  assert (Et : (if String.eqb (if nnc then W linsys_dump_words 2 else W linsys_dump_words 1) (W linsys_load_words 1)
                then ret false
                else if String.eqb (if nnc then W linsys_dump_words 2 else W linsys_dump_words 1) (W linsys_load_words 2)
                     then ret true else fail) = @ret bool nnc) by (destruct nnc; reflexivity).
  unfold bind at 1. rewrite Et. unfold ret at 1.
  unfold bind at 1. rewrite (RT_nat (length rows) _ I).
  unfold bind at 1. rewrite p_kw_ok by (vm_compute; reflexivity).
  unfold bind at 1. rewrite (RT_nat dim _ I).
  unfold bind at 1. rewrite (RT_repr sparse _ I).
  unfold bind at 1. unfold p_word at 1.
  assert (Eg : (String.eqb (paren (if sorted then W linsys_dump_words 4 else W linsys_dump_words 5)) (paren (W linsys_load_words 4))
                || String.eqb (paren (if sorted then W linsys_dump_words 4 else W linsys_dump_words 5)) (paren (W linsys_load_words 5))) = true)
    by (destruct sorted; reflexivity).
  unfold bind at 1. rewrite Eg. unfold guard, ret at 1.
  assert (Es : String.eqb (paren (if sorted then W linsys_dump_words 4 else W linsys_dump_words 5)) (paren (W linsys_load_words 6)) = sorted)
    by (destruct sorted; reflexivity).
  rewrite Es.
  unfold bind at 1. rewrite p_kw_ok by (vm_compute; reflexivity).
  unfold bind at 1. rewrite (RT_nat pending _ I).
  unfold bind at 1. rewrite (load_rows_RT rows dim [] rest H).
  reflexivity.
Qed.

(** * Congruence_System-style system: "n x d REPR" then the rows *)
Record plainsys := PlainSys { ps_dim : nat; ps_sparse : bool; ps_rows : list R }.

Definition dump_plainsys : writer plainsys :=
  fun x rest =>
    w_nat (length (ps_rows x))
      (W cgsys_dump_words 0
       :: w_nat (ps_dim x) (w_repr representation_dump_words (ps_sparse x) (w_many (rc_dump C) (ps_rows x) rest))).

Definition load_plainsys : parser plainsys :=
  nrows <- p_nat ;;
  p_kw (W cgsys_load_words 0) ;;;
  space_dim <- p_nat ;;
  (* clear(); space_dimension_ = space_dim; *)
  repr <- p_repr representation_load_words ;;
  st <- load_rows nrows (space_dim, []) ;;
  ret (PlainSys (fst st) repr (snd st)).

Definition wf_plainsys (x : plainsys) : Prop := Forall (row_fits C (ps_dim x)) (ps_rows x).

Lemma RT_plainsys : RT wf_plainsys dump_plainsys load_plainsys.
Proof.
  intros [dim sparse rows] rest H. unfold wf_plainsys in H. cbn [ps_dim ps_rows] in H.
  unfold load_plainsys, dump_plainsys. cbn [ps_dim ps_sparse ps_rows].
  unfold bind at 1. rewrite (RT_nat (length rows) _ I).
  unfold bind at 1. rewrite p_kw_ok by (vm_compute; reflexivity).
  unfold bind at 1. rewrite (RT_nat dim _ I).
  unfold bind at 1. rewrite (RT_repr sparse _ I).
  unfold bind at 1. rewrite (load_rows_RT rows dim [] rest H).
  reflexivity.
Qed.

End Systems.

Arguments LinSys {R}. Arguments PlainSys {R}.
Arguments ls_nnc {R}. Arguments ls_dim {R}. Arguments ls_sparse {R}. Arguments ls_sorted {R}.
Arguments ls_pending {R}. Arguments ls_rows {R}.
Arguments ps_dim {R}. Arguments ps_sparse {R}. Arguments ps_rows {R}.

(** the four concrete systems *)
Definition RT_constraint_system := RT_linsys constraint_class RT_constraint.
Definition RT_generator_system := RT_linsys generator_class RT_generator.
Definition RT_grid_generator_system := RT_linsys grid_generator_class (fun r rest _ => RT_grid_generator r rest I).
Definition RT_congruence_system := RT_plainsys congruence_class (fun r rest _ => RT_congruence r rest I).

Example wf_linsys_sat :
  wf_linsys constraint_class
    (LinSys true 2 false true 1 [CRow [3; -1; -1; 0]%Z false true; CRow [1; 0; 0; -1]%Z false true]).
Proof. repeat constructor. Qed.

Example wf_crow_sat : wf_crow (CRow [1; 0; -1]%Z false true) /\ wf_genrow (GRow [1; 1; 2; 1]%Z false true).
Proof. split; reflexivity. Qed.
