(** C15 -- how floating-point matrix entries are printed and read back.

    [output_float] (checked_float_inlines.hh) prints a finite non-zero float exactly, through
    [Checked::float_mpq_to_string] (checked.cc): the float is the dyadic rational n / 2^k
    (n odd or k = 0); the text is the decimal numeral of n * 5^k with a decimal point inserted k
    digits from the right, or "0." followed by zeros when there are not enough digits.  The C++
    measures "enough digits" with [strlen] of the numeral; before the fix that numeral INCLUDED a
    leading '-' (transcribed as is, selected by a regenerated fact).
    [decimal_of_string] reads back an optionally signed decimal numeral with an optional point
    (the part of [parse_number_part] that such text exercises), as the value m / 10^f. *)
Require Import String Ascii List Bool Arith ZArith Lia.
Require Import PPLV.Codec.Tok PPLV.Codec.Num PPLV.gen.Facts_Status.
Import ListNotations.
Open Scope string_scope.

Fixpoint zeros (n : nat) : string := match n with O => "" | S m => String "0" (zeros m) end.

(** the layout of [float_mpq_to_string], applied to the numeral [buf] of the scaled numerator *)
Definition place_point (buf : string) (k : nat) : string :=
  let len := String.length buf in
  if (k <? len)%nat
  then substring 0 (len - k) buf ++ String "." (substring (len - k) k buf)
  else "0." ++ zeros (k - len) ++ buf.

(** [float_mpq_to_string] for the value n / 2^k.  Whether the C++ lays out the digits of |n| and
    prepends the sign, or lays out the signed numeral as it is (counting '-' as a digit), is the
    regenerated fact [float_print_sign_separate] (gen/Facts_Status.v). *)
Definition float_mpq_to_string (n : Z) (k : nat) : string :=
  if float_print_sign_separate then
    let body := match k with
                | O => Z_to_string (Z.abs n)
                | _ => place_point (Z_to_string (Z.abs n * 5 ^ Z.of_nat k)) k
                end in
    if (n <? 0)%Z then String "-" body else body
  else
    match k with
    | O => Z_to_string n
    | _ => place_point (Z_to_string (n * 5 ^ Z.of_nat k)) k
    end.

(** split at the first '.' *)
Fixpoint split_dot (s : string) : string * option string :=
  match s with
  | EmptyString => (EmptyString, None)
  | String c t => if Ascii.eqb c "." then (EmptyString, Some t)
                  else let '(a, b) := split_dot t in (String c a, b)
  end.

Fixpoint all_digits (s : string) : bool :=
  match s with
  | EmptyString => true
  | String c t => let n := nat_of_ascii c in (48 <=? n)%nat && (n <=? 57)%nat && all_digits t
  end.

(** [sign] digits [. digits] with at least one digit overall; value = (m, f) meaning m / 10^f *)
Definition decimal_of_string (s : string) : option (Z * nat) :=
  let '(neg, body) := match s with
                      | String c t => if Ascii.eqb c "-" then (true, t) else if Ascii.eqb c "+" then (false, t) else (false, s)
                      | EmptyString => (false, s)
                      end in
  let '(ip, fp) := split_dot body in
  let fr := match fp with Some f => f | None => EmptyString end in
  if all_digits ip && all_digits fr && negb (Nat.eqb (String.length ip + String.length fr) 0) then
    match Z_of_string (String "0" (ip ++ fr)) with
    | Some m => Some ((if neg then - m else m)%Z, String.length fr)
    | None => None
    end
  else None.

(** the text denotes the value it was printed from: m / 10^f = n / 2^k *)
Definition reads_back (n : Z) (k : nat) : bool :=
  match decimal_of_string (float_mpq_to_string n k) with
  | Some (m, f) => (m * 2 ^ Z.of_nat k =? n * 10 ^ Z.of_nat f)%Z
  | None => false
  end.

(** the misprint condition: negative, and the numeral of |n| * 5^k has fewer than k digits *)
Definition misprinted (n : Z) (k : nat) : bool :=
  negb float_print_sign_separate
  && (n <? 0)%Z && (String.length (Z_to_string (Z.abs n * 5 ^ Z.of_nat k)) <? k)%nat.

(** -1/16: printed "0.-625" (does not read back) by the sign-as-digit layout, "-0.0625" otherwise *)
Definition neg_sixteenth_statement : Prop :=
  if float_print_sign_separate
  then float_mpq_to_string (-1) 4 = "-0.0625" /\ reads_back (-1) 4 = true
  else float_mpq_to_string (-1) 4 = "0.-625" /\ reads_back (-1) 4 = false.
Lemma float_print_decided : neg_sixteenth_statement.
Proof. vm_compute. split; reflexivity. Qed.

(** Bounded exhaustive characterisation: for every odd numerator |n| < 512 and every k <= 12
    (and every odd integer with k = 0) the text reads back to the same value EXCEPT exactly
    in the misprint case. *)
Definition odd_range : list Z := map (fun i => (2 * Z.of_nat i + 1)%Z) (seq 0 256).
Definition bounded_check : bool :=
  forallb (fun a =>
    forallb (fun k => Bool.eqb (reads_back a k) (negb (misprinted a k))
                      && Bool.eqb (reads_back (- a) k) (negb (misprinted (- a) k))) (seq 0 13)) odd_range.

Lemma bounded_check_true : bounded_check = true.
Proof. vm_compute. reflexivity. Qed.

Theorem float_print_bounded : forall i k, (i < 256)%nat -> (k <= 12)%nat ->
  let a := (2 * Z.of_nat i + 1)%Z in
  reads_back a k = negb (misprinted a k) /\ reads_back (- a) k = negb (misprinted (- a) k).
Proof.
  intros i k Hi Hk a. pose proof bounded_check_true as H. unfold bounded_check in H.
  rewrite forallb_forall in H. specialize (H a).
  assert (In a odd_range) as Ha.
  { unfold odd_range. apply in_map_iff. exists i. split; [reflexivity|]. apply in_seq. lia. }
  specialize (H Ha). rewrite forallb_forall in H. specialize (H k).
  assert (In k (seq 0 13)) as Hk' by (apply in_seq; lia).
  specialize (H Hk'). apply andb_true_iff in H. destruct H as [H1 H2].
  split; apply Bool.eqb_prop; assumption.
Qed.

(** the full statement (every dyadic rational); only the bounded instance above is proved *)
Definition float_print_full : Prop :=
  forall n k, (k = O \/ Z.odd n = true) -> reads_back n k = negb (misprinted n k).

Example misprinted_sat : misprinted (-1) 4 = negb float_print_sign_separate /\ misprinted (-1) 1 = false /\ misprinted 3 7 = false.
Proof. repeat split; vm_compute; reflexivity. Qed.
