(** C15 -- the round-trip, injectivity and load-into-a-used-object statements, per class. *)
Require Import String Ascii List Bool Arith ZArith NArith Lia.
Require Import PPLV.Codec.Tok PPLV.Codec.Num PPLV.Codec.Status PPLV.Codec.Rows PPLV.Codec.Mats
               PPLV.Codec.Objs PPLV.gen.Facts_Status.
Import ListNotations.
Open Scope list_scope.

(** * Status words *)
Lemma status_dump_inj : forall C, cex_from C 0%N = None ->
  forall st st', in_range C st -> in_range C st' ->
  dump_status C st [] = dump_status C st' [] -> st = st'.
Proof.
  intros C H. apply (RT_inj _ (in_range C) (dump_status C) (load_status C 0%N)).
  intros st rest Hr. apply roundtrip_from; assumption.
Qed.

(** * Objects whose loader is characterised by [status_result] *)
Section StatusObjects.
Context {X : Type} (C : status_class) (dump : writer X) (load : N -> parser X)
        (wf : X -> Prop) (status : X -> N) (set_status : X -> N -> X).
Hypothesis HA : same_arity C.
Hypothesis char : forall tgt x rest, wf x ->
  load tgt (dump x rest) = match status_result C tgt (status x) with
                           | Some s => Some (set_status x s, rest) | None => None end.
Hypothesis set_same : forall x, set_status x (status x) = x.
Hypothesis set_inj : forall x s, set_status x s = x -> s = status x.

Lemma obj_into_ok : forall tgt x rest, wf x ->
  status_result C tgt (status x) = Some (status x) -> load tgt (dump x rest) = Some (x, rest).
Proof. intros tgt x rest Hw Hs. rewrite char by assumption. rewrite Hs, set_same. reflexivity. Qed.

Lemma obj_into_fails : forall tgt x rest, wf x ->
  status_result C tgt (status x) <> Some (status x) -> load tgt (dump x rest) <> Some (x, rest).
Proof.
  intros tgt x rest Hw Hs E. rewrite char in E by assumption.
  destruct (status_result C tgt (status x)) as [s|]; [|discriminate].
  inversion E as [E']. apply set_inj in E'. subst s. apply Hs. reflexivity.
Qed.

(** loading into an object whose status word is [tgt]: decided by the search over status words *)
Definition obj_from_statement (tgt : N) : Prop :=
  match cex_from C tgt with
  | None => forall x rest, wf x -> in_range C (status x) -> load tgt (dump x rest) = Some (x, rest)
  | Some s => forall x rest, wf x -> status x = s -> load tgt (dump x rest) <> Some (x, rest)
  end.

Lemma obj_from_decided : forall tgt, obj_from_statement tgt.
Proof.
  intro tgt. unfold obj_from_statement. destruct (cex_from C tgt) as [s|] eqn:E.
  - intros x rest Hw Hs. apply obj_into_fails; [assumption|]. rewrite Hs.
    apply cex_from_some_result; assumption.
  - intros x rest Hw Hr. apply obj_into_ok; [assumption|]. apply cex_from_none_result; assumption.
Qed.

Definition obj_into_any_statement : Prop :=
  match cex_any C with
  | None => forall tgt x rest, in_range C tgt -> wf x -> in_range C (status x) ->
            load tgt (dump x rest) = Some (x, rest)
  | Some (t, s) => forall x rest, wf x -> status x = s -> load t (dump x rest) <> Some (x, rest)
  end.

Lemma obj_into_any_decided : obj_into_any_statement.
Proof.
  unfold obj_into_any_statement.
  pose proof (into_any_decided C) as D. unfold into_any_statement in D.
  destruct (cex_any C) as [[t s]|].
  - intros x rest Hw Hs. apply obj_into_fails; [assumption|]. rewrite Hs.
    intro E. apply D. apply status_result_iff; assumption.
  - intros tgt x rest Ht Hw Hr. apply obj_into_ok; [assumption|].
    unfold status_result. rewrite (D tgt (status x) [] Ht Hr). reflexivity.
Qed.

Lemma obj_fresh : cex_from C 0%N = None ->
  forall x rest, wf x -> in_range C (status x) -> load 0%N (dump x rest) = Some (x, rest).
Proof.
  intros H x rest Hw Hr. apply obj_into_ok; [assumption|]. apply cex_from_none_result; assumption.
Qed.

Lemma obj_dump_inj : cex_from C 0%N = None ->
  forall x y, wf x -> in_range C (status x) -> wf y -> in_range C (status y) ->
  dump x [] = dump y [] -> x = y.
Proof.
  intros H x y Hx Hrx Hy Hry E.
  apply (RT_inj _ (fun x => wf x /\ in_range C (status x)) dump (load 0%N)); auto.
  intros a rest [Ha Hra]. apply obj_fresh; assumption.
Qed.

End StatusObjects.

(** * Polyhedron *)
Definition poly_fresh := obj_fresh ph_class dump_polyhedron load_polyhedron wf_polyhedron ph_status ph_set_status
  load_polyhedron_char ph_set_status_same ph_fresh_none.
Definition poly_inj := obj_dump_inj ph_class dump_polyhedron load_polyhedron wf_polyhedron ph_status ph_set_status
  load_polyhedron_char ph_set_status_same ph_fresh_none.
Definition poly_any := obj_into_any_decided ph_class dump_polyhedron load_polyhedron wf_polyhedron ph_status ph_set_status
  ph_arity load_polyhedron_char ph_set_status_same ph_set_status_inj.

(** * BD_Shape, Octagonal_Shape, Box over rationals and integers *)
Lemma bd_set_same : forall E (b : bdshape (E := E)), bd_set_status b (bd_status b) = b.
Proof. intros E []; reflexivity. Qed.
Lemma bd_set_inj : forall E (b : bdshape (E := E)) s, bd_set_status b s = b -> s = bd_status b.
Proof. intros E [] s H. inversion H. reflexivity. Qed.
Lemma oc_set_same : forall E (o : octagon (E := E)), oc_set_status o (oc_status o) = o.
Proof. intros E []; reflexivity. Qed.
Lemma oc_set_inj : forall E (o : octagon (E := E)) s, oc_set_status o s = o -> s = oc_status o.
Proof. intros E [] s H. inversion H. reflexivity. Qed.
Lemma bx_set_same : forall E (b : box (E := E)), bx_set_status b (bx_status b) = b.
Proof. intros E []; reflexivity. Qed.
Lemma bx_set_inj : forall E (b : box (E := E)) s, bx_set_status b s = b -> s = bx_status b.
Proof. intros E [] s H. inversion H. reflexivity. Qed.

Definition RT_mpq_bound : RT (fun _ : mpq => True) w_mpq p_mpq_native := RT_mpq_native.

Section PerEntry.
Context {E : Type} (wE : writer E) (pE : parser E) (PE : E -> Prop) (E_RT : RT PE wE pE).

Definition bds_fresh := obj_fresh bds_class (dump_bdshape wE) (load_bdshape pE) (wf_bdshape PE) bd_status (@bd_set_status E)
  (load_bdshape_char wE pE PE E_RT) (bd_set_same E) bds_fresh_none.
Definition bds_inj := obj_dump_inj bds_class (dump_bdshape wE) (load_bdshape pE) (wf_bdshape PE) bd_status (@bd_set_status E)
  (load_bdshape_char wE pE PE E_RT) (bd_set_same E) bds_fresh_none.
Definition bds_any := obj_into_any_decided bds_class (dump_bdshape wE) (load_bdshape pE) (wf_bdshape PE) bd_status (@bd_set_status E)
  bds_arity (load_bdshape_char wE pE PE E_RT) (bd_set_same E) (bd_set_inj E).

Definition oct_fresh := obj_fresh og_class (dump_octagon wE) (load_octagon pE) (wf_octagon PE) oc_status (@oc_set_status E)
  (load_octagon_char wE pE PE E_RT) (oc_set_same E) og_fresh_none.
Definition oct_inj := obj_dump_inj og_class (dump_octagon wE) (load_octagon pE) (wf_octagon PE) oc_status (@oc_set_status E)
  (load_octagon_char wE pE PE E_RT) (oc_set_same E) og_fresh_none.
Definition oct_any := obj_into_any_decided og_class (dump_octagon wE) (load_octagon pE) (wf_octagon PE) oc_status (@oc_set_status E)
  og_arity (load_octagon_char wE pE PE E_RT) (oc_set_same E) (oc_set_inj E).

(** [Box]: into a status word with no flag set (not reachable through a constructor) ... *)
Definition box_none := obj_fresh box_class (dump_box wE) (load_box pE) (wf_box PE) bx_status (@bx_set_status E)
  (load_box_char wE pE PE E_RT) (bx_set_same E) box_fresh_none.
Definition box_inj := obj_dump_inj box_class (dump_box wE) (load_box pE) (wf_box PE) bx_status (@bx_set_status E)
  (load_box_char wE pE PE E_RT) (bx_set_same E) box_fresh_none.
(** ... and into a default-constructed [Box] (status word EMPTY_UP_TO_DATE): decided by the facts *)
Definition box_fresh := obj_from_decided box_class (dump_box wE) (load_box pE) (wf_box PE) bx_status (@bx_set_status E)
  box_arity (load_box_char wE pE PE E_RT) (bx_set_same E) (bx_set_inj E) box_fresh_object_status.
Definition box_any := obj_into_any_decided box_class (dump_box wE) (load_box pE) (wf_box PE) bx_status (@bx_set_status E)
  box_arity (load_box_char wE pE PE E_RT) (bx_set_same E) (bx_set_inj E).
End PerEntry.

(** * Grid *)
Lemma grid_fresh : forall g rest, wf_grid [] g -> load_grid 0%N [] (dump_grid g rest) = Some (g, rest).
Proof.
  intros g rest H. apply load_grid_ok; [assumption|].
  apply cex_from_none_result; [exact grid_fresh_none|]. destruct H as [H _]. exact H.
Qed.

Lemma grid_inj : forall g g', wf_grid [] g -> wf_grid [] g' -> dump_grid g [] = dump_grid g' [] -> g = g'.
Proof.
  apply (RT_inj _ (wf_grid []) dump_grid (load_grid 0%N [])). intros g rest H. apply grid_fresh; assumption.
Qed.

Lemma grid_into : forall tgt tk g rest, wf_grid tk g ->
  status_result grid_class tgt (gr_status g) = Some (gr_status g) ->
  load_grid tgt tk (dump_grid g rest) = Some (g, rest).
Proof. exact load_grid_ok. Qed.

(** * Systems and matrices: injectivity from the round trip *)
Definition cs_inj := RT_inj _ _ _ _ RT_constraint_system.
Definition gs_inj := RT_inj _ _ _ _ RT_generator_system.
Definition ggs_inj := RT_inj _ _ _ _ RT_grid_generator_system.
Definition cgs_inj := RT_inj _ _ _ _ RT_congruence_system.
Definition bitmat_inj := RT_inj _ _ _ _ RT_bitmat.
