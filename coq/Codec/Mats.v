(** C15 -- bit matrices, difference-bound matrices, octagonal matrices, intervals.

    [Bit_Matrix::ascii_dump/ascii_load] (Bit_Matrix.cc), [DB_Matrix<T>] (DB_Matrix_templates.hh),
    [OR_Matrix<T>] (OR_Matrix_templates.hh), [Interval<Boundary, Info>] (Interval_inlines.hh) with
    [Interval_Info_Bitset] (Interval_Info_inlines.hh).  All four loaders resize the target and then
    assign every element, so their result does not depend on the target. *)
Require Import String Ascii List Bool Arith ZArith NArith Lia.
Require Import PPLV.Codec.Tok PPLV.Codec.Num PPLV.gen.Facts_Status.
Import ListNotations.
Open Scope string_scope.
Open Scope list_scope.

(** rows of prescribed sizes *)
Fixpoint p_sized {A} (sizes : list nat) (p : parser A) : parser (list (list A)) :=
  match sizes with
  | [] => ret []
  | n :: t => r <- p_many n p ;; rs <- p_sized t p ;; ret (r :: rs)
  end.

Lemma p_sized_RT : forall A (P : A -> Prop) (w : writer A) (p : parser A), RT P w p ->
  forall rows rest, Forall (Forall P) rows ->
  p_sized (map (@length A) rows) p (w_many (w_many w) rows rest) = Some (rows, rest).
Proof.
  intros A P w p H rows. induction rows as [|r t IH]; intros rest HF.
  - reflexivity.
  - inversion HF; subst. cbn [map p_sized w_many]. unfold bind at 1.
    rewrite (p_many_RT _ _ _ _ H r _ H2). unfold bind at 1. rewrite (IH rest H3). reflexivity.
Qed.

(** * Bit_Matrix *)
Record bitmat := BitMat { bm_nrows : nat; bm_ncols : nat; bm_bits : list (list bool) }.

Definition wf_bitmat (m : bitmat) : Prop :=
  map (@length bool) (bm_bits m) = repeat (bm_ncols m) (bm_nrows m).

Definition dump_bitmat : writer bitmat :=
  fun m rest =>
    w_nat (bm_nrows m) (W bit_matrix_dump_words 0 :: w_nat (bm_ncols m) (w_many (w_many w_bit) (bm_bits m) rest)).

Definition load_bitmat : parser bitmat :=
  nrows <- p_nat ;;
  p_kw (W bit_matrix_load_words 0) ;;;
  ncols <- p_nat ;;
  (* resize(nrows, ncols); every bit is then set or cleared *)
  bits <- p_sized (repeat ncols nrows) p_bit ;;
  ret (BitMat nrows ncols bits).

Lemma RT_bitmat : RT wf_bitmat dump_bitmat load_bitmat.
Proof.
  intros [r c bits] rest H. unfold wf_bitmat in H. cbn [bm_nrows bm_ncols bm_bits] in H.
  unfold load_bitmat, dump_bitmat. cbn [bm_nrows bm_ncols bm_bits].
  unfold bind at 1. rewrite (RT_nat r _ I).
  unfold bind at 1. rewrite p_kw_ok by (vm_compute; reflexivity).
  unfold bind at 1. rewrite (RT_nat c _ I).
  unfold bind at 1. rewrite <- H.
  rewrite (p_sized_RT _ _ _ _ RT_bit bits rest); [reflexivity|].
  apply Forall_forall. intros x _. apply Forall_forall. intros; exact I.
Qed.

Example wf_bitmat_sat : wf_bitmat (BitMat 2 3 [[true; false; true]; [false; false; true]]).
Proof. reflexivity. Qed.

(** * Matrices of extended numbers, generic in the entry codec *)
Section Entries.
Context {E : Type} (wE : writer E) (pE : parser E) (PE : E -> Prop).
Hypothesis E_RT : RT PE wE pE.

(** ** DB_Matrix: "n" then n rows of n entries *)
Record dbm := Dbm { db_n : nat; db_rows : list (list E) }.

Definition wf_dbm (m : dbm) : Prop :=
  map (@length E) (db_rows m) = repeat (db_n m) (db_n m) /\ Forall (Forall PE) (db_rows m).

Definition dump_dbm : writer dbm :=
  fun m rest => w_nat (db_n m) (w_many (w_many wE) (db_rows m) rest).

Definition load_dbm : parser dbm :=
  nrows <- p_nat ;;
  (* resize_no_copy(nrows) *)
  rows <- p_sized (repeat nrows nrows) pE ;;
  ret (Dbm nrows rows).

Lemma RT_dbm : RT wf_dbm dump_dbm load_dbm.
Proof.
  intros [n rows] rest [H1 H2]. cbn [db_n db_rows] in *.
  unfold load_dbm, dump_dbm. cbn [db_n db_rows].
  unfold bind at 1. rewrite (RT_nat n _ I).
  unfold bind at 1. rewrite <- H1.
  rewrite (p_sized_RT _ _ _ _ E_RT rows rest H2). reflexivity.
Qed.

(** ** OR_Matrix: "space_dim" then 2*space_dim rows, row i of size (i | 1) + 1 *)
Definition or_row_size (i : nat) : nat := if Nat.even i then i + 2 else i + 1.
Definition or_sizes (dim : nat) : list nat := map or_row_size (seq 0 (2 * dim)).

Record orm := Orm { or_dim : nat; or_rows : list (list E) }.

Definition wf_orm (m : orm) : Prop :=
  map (@length E) (or_rows m) = or_sizes (or_dim m) /\ Forall (Forall PE) (or_rows m).

Definition dump_orm : writer orm :=
  fun m rest => w_nat (or_dim m) (w_many (w_many wE) (or_rows m) rest).

Definition load_orm : parser orm :=
  space <- p_nat ;;
  (* resize_no_copy(space) *)
  rows <- p_sized (or_sizes space) pE ;;
  ret (Orm space rows).

Lemma RT_orm : RT wf_orm dump_orm load_orm.
Proof.
  intros [n rows] rest [H1 H2]. cbn [or_dim or_rows] in *.
  unfold load_orm, dump_orm. cbn [or_dim or_rows].
  unfold bind at 1. rewrite (RT_nat n _ I).
  unfold bind at 1. rewrite <- H1.
  rewrite (p_sized_RT _ _ _ _ E_RT rows rest H2). reflexivity.
Qed.

(** ** Interval with an [Interval_Info_Bitset]: "info" hex "lower" bound "upper" bound *)
Record itv := Itv { i_info : N; i_lower : E; i_upper : E }.

Definition wf_itv (i : itv) : Prop := PE (i_lower i) /\ PE (i_upper i).

Definition dump_itv : writer itv :=
  fun i rest =>
    W interval_dump_words 0
    :: w_hexN (i_info i) (W interval_dump_words 1 :: wE (i_lower i) (W interval_dump_words 2 :: wE (i_upper i) rest)).

Definition load_itv : parser itv :=
  p_kw (W interval_load_words 0) ;;;
  info <- p_hexN ;;
  p_kw (W interval_load_words 1) ;;;
  lo <- pE ;;
  p_kw (W interval_load_words 2) ;;;
  up <- pE ;;
  ret (Itv info lo up).

Lemma RT_itv : RT wf_itv dump_itv load_itv.
Proof.
  intros [info lo up] rest [H1 H2]. cbn [i_lower i_upper] in *.
  unfold load_itv, dump_itv. cbn [i_info i_lower i_upper].
  unfold bind at 1. rewrite p_kw_ok by (vm_compute; reflexivity).
  unfold bind at 1. rewrite (RT_hexN info _ I).
  unfold bind at 1. rewrite p_kw_ok by (vm_compute; reflexivity).
  unfold bind at 1. rewrite (E_RT lo _ H1).
  unfold bind at 1. rewrite p_kw_ok by (vm_compute; reflexivity).
  unfold bind at 1. rewrite (E_RT up _ H2).
  reflexivity.
Qed.

End Entries.

Arguments Dbm {E}. Arguments db_n {E}. Arguments db_rows {E}.
Arguments Orm {E}. Arguments or_dim {E}. Arguments or_rows {E}.
Arguments Itv {E}. Arguments i_info {E}. Arguments i_lower {E}. Arguments i_upper {E}.

Example or_sizes_2 : or_sizes 2 = [2; 2; 4; 4]. Proof. reflexivity. Qed.

Example wf_orm_sat : wf_orm wf_dbm_mpq (Orm 1 [[PInf; Fin (Mpq (-1) 1)]; [PInf; PInf]]).
Proof. split; [reflexivity|]. repeat constructor. Qed.
