(* Extraction for the C06 judge: reference solver, verified claim checks, status machine, and the
   Base functions they use, all in one module (ocaml/gen/mip.ml). ExtrOcamlBasic only. *)
From Coq Require Import QArith Qround.
Require Import PPLV.Base.FM PPLV.Base.Sys PPLV.Base.Sup PPLV.MIP.MipSpec PPLV.MIP.MipRef PPLV.MIP.MipMachine.
Require Extraction.
Require Import ExtrOcamlBasic.
Extraction Language OCaml.
Cd "../ocaml/gen".
Extraction "mip.ml"
  mip_ref bnb sup_expr find_point claim_ok sat_claim_ok feasible_b sat_sys_b ints_ok_b integral_b sys_of sobj objv pt_of
  step fresh init_data apply_data final_data abs_out is_mutator
  nonempty_sys sys_of_cons
  Qcompare Qeq_bool Qle_bool Qplus Qmult Qminus Qdiv Qopp Qred inject_Z Qfloor.
Cd "../../coq".
