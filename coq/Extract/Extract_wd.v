(* C19: extraction of the executable Watchdog model (ExtrOcamlBasic only). *)
Require Import PPLV.Watchdog.TimeSpec PPLV.gen.Facts_Time PPLV.Watchdog.Time PPLV.Watchdog.WD PPLV.Watchdog.TW.
Require Extraction.
Require Import ExtrOcamlBasic.
Extraction Language OCaml.
Cd "../ocaml/gen".
Extraction "wd.ml" do_event init cmp_src cmp_int yield_no src_cmp_intended tdo tinit.
Cd "../../coq".
