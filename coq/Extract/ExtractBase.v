Require Import PPLV.Base.FM PPLV.Base.Sys PPLV.Base.Gens.
Require Extraction.
Require Import ExtrOcamlBasic.
Extraction Language OCaml.
Cd "../ocaml/gen".
Extraction "base.ml" nonempty_cons incl_cons equiv_cons dd_pair cons_of_gens equiv_sys incl_sys nonempty_sys sys_of_cons elim_vars implies_c implies_e.
Cd "../../coq".
