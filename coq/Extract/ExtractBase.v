(* Extraction of the verified oracle and the reference models used by the judges.
   ExtrOcamlBasic only: bool, option, list, prod, unit, sumbool map to OCaml's; Z / positive / nat / Q
   stay the extracted inductive types. No Extract Constant / Extract Inductive of our own. *)
From Coq Require Import QArith.
Require Import PPLV.Base.FM PPLV.Base.Sys PPLV.Base.Gens PPLV.Poly.PolyOps PPLV.Base.Sup PPLV.Poly.PolyQuery PPLV.Poly.PolyCg PPLV.Poly.GensLeast PPLV.Poly.PolyGenOps PPLV.Poly.PolyOpsLhs PPLV.Poly.PosTimeElapse PPLV.Poly.PolyDiff PPLV.Poly.Simplify.
Require Extraction.
Require Import ExtrOcamlBasic.
Extraction Language OCaml.
Cd "../ocaml/gen".
Extraction "base.ml"
  nonempty_cons incl_cons equiv_cons dd_pair cons_of_gens equiv_sys incl_sys nonempty_sys sys_of_cons
  elim_vars elim_sys implies_c implies_e simplify
  union_sys affine_image affine_preimage generalized_affine_image generalized_affine_preimage
  bounded_affine_image bounded_affine_preimage unconstrain unconstrain_set remove_higher project_dims
  relax rename_sys concatenate map_dims expand fresh_b lvar ladd lscale lneg
  sup_expr inf_expr
  q_is_empty q_is_universe q_contains q_strictly_contains q_is_disjoint q_equals
  rel_is_disjoint rel_is_included rel_saturates rel_strictly_intersects
  q_maximize q_minimize q_constant q_is_discrete q_bounds_above q_bounds_below q_is_bounded q_is_closed q_constrains
  cg_intersects cg_included te_gens fold_gens covered_by_union generalized_affine_image_lhs generalized_affine_preimage_lhs pos_time_elapse diff_pieces suc_check suc_flag
  empty_sys false_sys Qcompare Qeq_bool Qplus Qmult Qminus Qdiv Qopp Qle_bool inject_Z.
Cd "../../coq".
