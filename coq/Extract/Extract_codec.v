Require Import PPLV.Codec.Tok PPLV.Codec.Num PPLV.Codec.Status PPLV.Codec.Rows PPLV.Codec.Mats PPLV.Codec.Objs.
Require Extraction.
Require Import ExtrOcamlBasic.
Extraction Language OCaml.
Cd "../ocaml/gen".
Extraction "codec.ml"
  load_polyhedron dump_polyhedron load_grid dump_grid
  load_bds_mpq dump_bds_mpq load_bds_Z dump_bds_Z
  load_oct_mpq dump_oct_mpq load_oct_Z dump_oct_Z
  load_box_mpq dump_box_mpq load_box_Z dump_box_Z
  load_cs dump_cs load_gs dump_gs load_ggs dump_ggs load_cgs dump_cgs
  box_fresh_object_status.
Cd "../../coq".
