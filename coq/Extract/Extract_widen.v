(* Extraction for the C08 judge (ocaml/judge_widen.ml): the verified oracle of Base together with the
   certificate transcriptions and the reference wrappers, in ONE module (ocaml/gen/widen.ml) so that they share
   the number types.  ExtrOcamlBasic only. *)
From Coq Require Import QArith.
Require Import PPLV.Base.FM PPLV.Base.Sys PPLV.Base.Gens PPLV.Poly.PolyOps PPLV.Base.Sup PPLV.Poly.PolyQuery.
Require Import PPLV.Widen.Cert PPLV.Widen.Generic PPLV.Widen.PolyW PPLV.Widen.PSet.
Require Extraction.
Require Import ExtrOcamlBasic.
Extraction Language OCaml.
Cd "../ocaml/gen".
Extraction "widen.ml"
  nonempty_sys incl_sys equiv_sys sys_of_cons union_sys cons_of_gens dd_pair empty_sys false_sys
  bhrz03_compare bhrz03_compare_ph bhrz03_is_stabilizing bhrz03_ok bhrz03_grows_b bhrz03_of
  h79_compare h79_compare_ph h79_is_stabilizing h79_grows_b h79_of
  grid_compare grid_compare_gr grid_is_stabilizing grid_of
  entails_b limited_ref tok_keeps_x tok_after
  ms_insert ms_of_list ms_stabilizing.
Cd "../../coq".
