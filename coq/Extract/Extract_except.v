(* C14: extraction of the precondition ladders and of the allocation-trace functions (ExtrOcamlBasic only). *)
Require Import PPLV.Except.Precond PPLV.Except.Alloc PPLV.Except.AllocProgs PPLV.Except.AllocTraceMip.
Require Import NArith List.
Require Extraction.
Require Import ExtrOcamlBasic.
Extraction Language OCaml.
Cd "../ocaml/gen".
Extraction "except.ml"
  check map_check mip_check box_add_constraint_check mip_add_constraint_check mip_add_constraints_check
  tr_init tr_iter_ctor tr_old_iter_ctor tr_copy_ctor tr_assign tr_rebuild_bigger tr_dense_resize tr_dense_copy tr_dense_copy_sized tr_dense_copy_cap tr_dense_resize2 tr_dense_from_sparse tr_sv_reserve
  tr_mip_add tr_mip_add_at tr_pip_copy tr_assign_valid tr_old_assign tr_old_assign_valid
  N.add N.sub N.mul N.of_nat N.compare.
Cd "../../coq".
