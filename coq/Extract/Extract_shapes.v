(* Extraction for the C03 / C04 judge (ocaml/judge_shapes.ml): the verified polyhedral oracle
   (Base), the reference operators and queries (Poly), and the shape models (Shapes), all in ONE
   module so that they share the number types.  ExtrOcamlBasic only. *)
From Coq Require Import QArith.
Require Import PPLV.Base.FM PPLV.Base.Sys PPLV.Base.Gens PPLV.Poly.PolyOps PPLV.Base.Sup PPLV.Poly.PolyQuery.
Require Import PPLV.Shapes.ExtNum PPLV.Shapes.DBM PPLV.Shapes.DBMExact PPLV.Shapes.Templ PPLV.Shapes.ToSys PPLV.Shapes.Oct PPLV.Shapes.DBMSound PPLV.Shapes.DBMClosed PPLV.Shapes.DBMDisjoint.
Require Extraction.
Require Import ExtrOcamlBasic.
Extraction Language OCaml.
Cd "../ocaml/gen".
Extraction "shapes.ml"
  nonempty_cons incl_cons equiv_cons dd_pair cons_of_gens equiv_sys incl_sys nonempty_sys sys_of_cons
  elim_vars elim_sys implies_c implies_e simplify neg_c
  union_sys affine_image affine_preimage generalized_affine_image generalized_affine_preimage
  bounded_affine_image bounded_affine_preimage unconstrain unconstrain_set remove_higher project_dims
  relax rename_sys concatenate map_dims expand fresh_b lvar ladd lscale lneg rel_sys dvar_minus exists_old move_sys
  sup_expr inf_expr
  q_is_empty q_is_universe q_contains q_strictly_contains q_is_disjoint q_equals
  rel_is_disjoint rel_is_included rel_saturates rel_strictly_intersects
  q_maximize q_minimize q_bounds_above q_bounds_below q_is_bounded q_is_closed q_constrains
  empty_sys false_sys Qcompare Qeq_bool Qplus Qmult Qminus Qdiv Qopp Qle_bool inject_Z Qred
  Qc mat_of_rows rows_of_mat closure inc_closure closed_b meet join forget add_dbm_constraint
  code_contains code_is_disjoint code_equal
  sys_of_pairs alpha_t zip_max tb_max
  sys_of_dbm dbm_pairs alpha_bds bds_templates
  sys_of_oct oct_pairs alpha_oct oct_templates
  sys_of_box box_pairs alpha_box box_templates
  strong_closure incremental_strong_closure rows_of_oct oct_code_is_disjoint oct_code_contains oct_is_disjoint_op oct_contains_op oct_upper_bound_op oct_closed_b fixed_is_disjoint oct_fixed_is_disjoint.
Cd "../../coq".
