Require Import PPLV.Grid.QVec PPLV.Grid.IntLin PPLV.Grid.GridSem PPLV.Grid.GridRef PPLV.Grid.GridFreq PPLV.Grid.GridOps2 PPLV.Grid.GridOpsSpec PPLV.Grid.GridOpsSpec2.
Require Extraction.
Require Import ExtrOcamlBasic.
Extraction Language OCaml.
Cd "../ocaml/gen".
Extraction "grid.ml" cgs_to_gens gens_add_cgs gens_incl gens_equiv dd_agree dims_ok is_empty_b is_universe_b
  contains_b is_disjoint_b relation_cg is_discrete_b is_bounded_b join add_gen affine_image affine_preimage
  add_dims_embed project_cgs remove_higher gens_of_ppl qgens_sat_cgs qgens_of mem alat_of frequency unconstrain time_elapse gen_image gen_preimage subsumes map_dims concat shift_cg rename_cg gen_image_lhs gen_preimage_lhs.
Cd "../../coq".
