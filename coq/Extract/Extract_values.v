(* Extraction for the C13 judge: the verified equivalence of constraint systems (Base/Sys.v) and the verified
   comparison of finite unions of polyhedra (Values/Cover.v), in ONE module so that they share number types.
   ExtrOcamlBasic only; no Extract Constant / Extract Inductive of our own. *)
From Coq Require Import QArith.
Require Import PPLV.Base.FM PPLV.Base.Sys PPLV.Values.Cover.
Require Extraction.
Require Import ExtrOcamlBasic.
Extraction Language OCaml.
Cd "../ocaml/gen".
Extraction "values.ml" equiv_sys incl_sys nonempty_sys sys_of_cons cover_equiv cover_incl.
Cd "../../coq".
