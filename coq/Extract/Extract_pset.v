(* Extraction for the C09 judge (ocaml/judge_pset.ml): the verified oracle, the reference polyhedron
   operators, the generic powerset model instantiated with the reference polyhedra, the exact tests on
   finite unions, and the copy-on-write heap model.  ExtrOcamlBasic only. *)
From Coq Require Import QArith.
Require Import PPLV.Base.FM PPLV.Base.Sys PPLV.Base.Gens PPLV.Poly.PolyOps PPLV.Base.Sup PPLV.Poly.PolyQuery.
Require Import PPLV.Powerset.PS PPLV.Powerset.PSDom PPLV.Powerset.UnionIncl PPLV.Powerset.PSPoly PPLV.Powerset.Cow.
(* grid disjuncts: the verified lattice engine (Grid/*.v) through the wrappers of Product/PRPJudge.v: exact membership of a rational
   point in a congruence, exact inclusion of grids, generators of a congruence system *)
Require Import PPLV.Grid.GridSem PPLV.Grid.GridRef PPLV.Product.PRP PPLV.Product.PRPJudge.
Require Extraction.
Require Import ExtrOcamlBasic.
Extraction Language OCaml.
Cd "../ocaml/gen".
Extraction "pset.ml"
  nonempty_cons incl_cons equiv_cons dd_pair cons_of_gens equiv_sys incl_sys nonempty_sys sys_of_cons
  union_sys affine_image affine_preimage generalized_affine_image generalized_affine_preimage
  unconstrain unconstrain_set remove_higher project_dims relax rename_sys concatenate map_dims expand
  q_is_empty q_is_universe q_contains q_is_disjoint q_equals empty_sys false_sys
  poly_dom Omega Collapse CollapseN AddDisjunct Lub Meet PairwiseApply Entails IsBottom IsTop MapAssign
  PairwiseReduce CheckReduced never mk_ps seq reduced is_omega_reduced add_end strictly_contains_ps StrictlyContains q_strictly_contains concatenate_ps always
  mem_pcg_b j_grid_gens j_grid_incl j_grid_empty j_qadd j_qmul j_qmake j_affine_image j_affine_preimage j_remove_higher
  union_incl unions_incl unions_equiv unions_disjoint is_difference
  run_cow run_values read_cow read_val step stepv init initv count hs heap refs pset.
Cd "../../coq".
