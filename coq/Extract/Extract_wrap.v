(* Extraction of everything the C17 judge needs (verified oracle of Base included) into ocaml/gen/wrap.ml.
   ExtrOcamlBasic only; Z / positive / nat / Q stay the extracted inductive types. *)
From Coq Require Import QArith Qround.
Require Import PPLV.Base.FM PPLV.Base.Sys PPLV.Base.Gens PPLV.Poly.PolyOps PPLV.Base.Sup PPLV.Poly.PolyQuery.
Require Import PPLV.Wrap.WrapSpec PPLV.Wrap.WrapGeneric PPLV.Wrap.WrapRef PPLV.Wrap.IntPts.
Require Extraction.
Require Import ExtrOcamlBasic.
Extraction Language OCaml.
Cd "../ocaml/gen".
Extraction "wrap.ml"
  nonempty_cons incl_cons equiv_cons incl_sys equiv_sys nonempty_sys sys_of_cons union_sys
  sup_expr inf_expr lvar empty_sys
  modulus min_value max_value wrap in_range_b quadrant targets_b
  pt_of sat_con_b sat_cons_b sat_sys_b sat_cg_b
  ref_wrap rden_b
  int_search contains_integer_point no_int_point_violating
  Qcompare Qeq_bool Qle_bool Qplus Qmult Qminus Qdiv Qopp Qred inject_Z Qfloor Qceiling.
Cd "../../coq".
