(* Extraction of everything ocaml/judge_prp.ml calls (C10): the transcribed shrink arithmetic, the exact
   decisions on constraint systems, the lattice engine for grids, point membership.  ExtrOcamlBasic only. *)
From Coq Require Import QArith.
Require Import PPLV.Base.FM PPLV.Base.Sys PPLV.Base.Sup PPLV.Grid.GridSem PPLV.Grid.GridRef.
Require Import PPLV.Product.PRPArith PPLV.Product.PRP PPLV.Product.PRPJudge.
Require Extraction.
Require Import ExtrOcamlBasic.
Extraction Language OCaml.
Cd "../ocaml/gen".
Extraction "prp.ml"
  shrink_decide eq_con ge_con
  j_sys j_false j_meet j_nonempty j_incl j_equiv j_sup j_inf j_relax j_implies_con j_disjoint_con j_saturates
  j_is_bounded j_affine_image j_affine_preimage j_unconstrain j_remove_higher j_project j_concatenate j_neg_con
  j_gen_image j_gen_preimage j_bounded_image j_bounded_preimage j_unconstrain_set j_map_dims j_expand
  mem_con_b mem_pcg_b j_grid_gens j_grid_incl j_grid_empty j_qadd j_qmul j_qmake
  Qcompare Qeq_bool Qle_bool Qplus Qmult Qminus Qopp Qred inject_Z.
Cd "../../coq".
