(* Extraction of the C11 checked-arithmetic model (ExtrOcamlBasic only; Z / positive / nat stay Coq's). *)
Require Import PPLV.gen.Facts_Result PPLV.Checked.Mach PPLV.Checked.Result PPLV.Checked.Int PPLV.Checked.Ext
               PPLV.Checked.Program.
Require Extraction.
Require Import ExtrOcamlBasic.
Extraction Language OCaml.
Cd "../ocaml/gen".
Extraction "checked.ml"
  assign_int_int classify_int
  neg_int abs_int add_int sub_int mul_int div_int idiv_int rem_int add_mul_int sub_mul_int
  add_2exp_int sub_2exp_int mul_2exp_int div_2exp_int smod_2exp_int umod_2exp_int sqrt_int gcd_int lcm_int lcm_int_native cmp_int
  assign_ext neg_ext abs_ext add_ext sub_ext mul_ext div_ext idiv_ext rem_ext add_mul_ext sub_mul_ext add_mul_ext_nat sub_mul_ext_nat
  add_2exp_ext sub_2exp_ext mul_2exp_ext div_2exp_ext smod_2exp_ext umod_2exp_ext sqrt_ext gcd_ext lcm_ext cmp_ext
  handle eval_checked eval_Z.
Cd "../../coq".
