Require Import PPLV.Base.Sys PPLV.PIP.PipSpec PPLV.PIP.PipTree PPLV.PIP.PipRef PPLV.PIP.PipCert.
Require Extraction.
Require Import ExtrOcamlBasic.
Extraction Language OCaml.
Cd "../ocaml/gen".
Extraction "pip.ml" lexmin_ref res_answer eval_tree wf_treeb contextb ponly proj nonempty_cons tree_cert_b.
Cd "../../coq".
