(* Extraction of everything the C18 judge calls: the transcribed encodings of termination.cc, the verified
   validation procedures of Term/Check.v and the Base decision procedures they are built on.
   ExtrOcamlBasic only; Z / positive / nat / Q stay the extracted inductive types. *)
From Coq Require Import QArith.
Require Import PPLV.Base.FM PPLV.Base.Sys PPLV.Base.Gens PPLV.Poly.PolyOps PPLV.Base.Sup.
Require Import PPLV.Term.RankSpec PPLV.Term.Encode PPLV.Term.Check PPLV.Term.Spaces.
Require Extraction.
Require Import ExtrOcamlBasic.
Extraction Language OCaml.
Cd "../ocaml/gen".
Extraction "term.ml"
  nonempty_cons incl_cons equiv_cons equiv_sys incl_sys nonempty_sys sys_of_cons implies_c
  sup_expr inf_expr
  assign_all_inequalities_approximation assign_all_inequalities_approximation_C
  assign_all_inequalities_approximation_2 shift_con
  fill_constraint_systems_MS ms_mip fill_constraint_system_PR fill_constraint_system_PR_original
  pr_mip pr_all pro_mip pro_all le_le_m1 le_lt_0
  check_rank check_weak check_bound check_decr same_cons_b ms_space pr_space pro_space
  Qcompare Qeq_bool Qle_bool inject_Z.
Cd "../../coq".
