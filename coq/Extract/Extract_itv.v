Require Import PPLV.Itv.Boundary PPLV.Itv.Interval PPLV.Itv.QCarrier PPLV.Itv.Api.
Require Extraction.
Require Import ExtrOcamlBasic.
Extraction Language OCaml.
Cd "../ocaml/gen".
Extraction "itv.ml" q_mk q_lower q_upper q_is_empty q_is_singleton q_lower_is_open q_upper_is_open
  q_neg q_add q_sub q_mul q_mul_diag q_div q_join1 q_join2 q_int1 q_int2 q_dif1 q_dif2 q_rex q_run.
Cd "../../coq".
