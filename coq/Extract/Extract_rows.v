(* C16: extraction of the row / tree models (ExtrOcamlBasic only). *)
Require Import PPLV.gen.Facts_COTree PPLV.Rows.COTree PPLV.Rows.SparseTree.
Require Import PPLV.Rows.Abs PPLV.Rows.Dense PPLV.Rows.Sparse PPLV.Rows.Expr.
Require Import ZArith NArith.
Require Extraction.
Require Import ExtrOcamlBasic.
Extraction Language OCaml.
Cd "../ocaml/gen".
Extraction "rows.ml"
  empty_tree insert insert_key insert_hint erase_key erase_pos erase_element_and_shift_left
  increase_keys_from fast_shift bisect bisect_near lower_bound lower_bound_near find find_near get
  t_begin t_end next_pos prev_pos scan_up scan_down fuel_of abs_tree layout tree_ok of_list key_at dat_at
  mkS reset_after resize reset_range swap_coefficients delete_element_and_shift add_zeroes_and_shift
  linear_combine linear_combine_range erase_if_mod copy_resized srow_ok set_dat
  step init_state getr abs_e esize ecoef is_sparse to_dense
  max_density_percent min_density_percent min_leaf_density_percent
  Z.opp Z.div Z.modulo Z.add Z.mul Z.sub Z.gcd Z.abs Z.sgn Z.compare Z.eqb N.add N.sub N.mul N.compare.
Cd "../../coq".
