(* Soundness of the BD_Shape difference-bound-matrix model of DBM.v, for ANY carrier satisfying the
   upward-rounding laws of ExtNum.v (C03: "for every coefficient type").
   The key invariant: every assignment of the closure loops replaces m[i][j] by
   xmin (m i j) (add_up a b) with Fin a = m i k, Fin b = m k j; for a point p of the denotation
   p j - p i = (p k - p i) + (p j - p k) <= val a + val b <= value of add_up a b (law add_up_ok),
   and xmin only lowers an entry, so the denotation is preserved in both directions. *)
From Coq Require Import List ZArith QArith Qminmax Lqa Bool Arith Lia.
Require Import PPLV.Shapes.ExtNum PPLV.Shapes.DBM.
Import ListNotations.
Local Open Scope Q_scope.

Section Sound.
  Context {T : Type} (C : carrier T).

  (* PPL keeps +infinity on the main diagonal: PPL_ASSERT(is_plus_infinity(x.dbm[h][h])) *)
  Definition diag_ok (n : nat) (m : mat) : Prop := forall h, (h <= n)%nat -> qle 0 (xv C (m h h)).

  (* ---- same denotation ---- *)
  Definition deq (n : nat) (m m' : mat) : Prop := forall p, den C n m p <-> den C n m' p.

  Lemma deq_refl n m : deq n m m.
  Proof. intros p. tauto. Qed.
  Lemma deq_trans n m1 m2 m3 : deq n m1 m2 -> deq n m2 m3 -> deq n m1 m3.
  Proof. intros H1 H2 p. rewrite (H1 p). apply H2. Qed.

  Lemma fold_deq {A : Type} n (f : mat -> A -> mat) (l : list A) :
    (forall m x, In x l -> deq n m (f m x)) -> forall m, deq n m (fold_left f l m).
  Proof.
    induction l as [|x l IH]; intros H m; cbn [fold_left].
    - apply deq_refl.
    - eapply deq_trans; [apply (H m x); left; reflexivity|].
      apply IH. intros m0 y Hy. apply H. right. exact Hy.
  Qed.

  (* ---- a single assignment ---- *)
  Lemma den_mupd_fwd n (m : mat) i j v p :
    den C n m p -> qle (p j - p i) (xv C v) -> den C n (mupd m i j v) p.
  Proof.
    intros [H0 H] Hv. split; [exact H0|]. intros a b Ha Hb.
    destruct (Nat.eq_dec a i) as [->|Na]; [destruct (Nat.eq_dec b j) as [->|Nb]|].
    - rewrite mupd_same. exact Hv.
    - rewrite mupd_other by (right; exact Nb). apply H; assumption.
    - rewrite mupd_other by (left; exact Na). apply H; assumption.
  Qed.

  Lemma den_mupd_bwd n (m : mat) i j v p :
    ole (xv C v) (xv C (m i j)) -> den C n (mupd m i j v) p -> den C n m p.
  Proof.
    intros Hle [H0 H]. split; [exact H0|]. intros a b Ha Hb. specialize (H a b Ha Hb).
    destruct (Nat.eq_dec a i) as [->|Na]; [destruct (Nat.eq_dec b j) as [->|Nb]|].
    - rewrite mupd_same in H. eapply qle_trans; [exact H|exact Hle].
    - rewrite mupd_other in H by (right; exact Nb). exact H.
    - rewrite mupd_other in H by (left; exact Na). exact H.
  Qed.

  (* the tightening step of every closure loop: implied by the two entries it combines *)
  Lemma tighten_deq n (m : mat) i j k a b :
    (i <= n)%nat -> (j <= n)%nat -> (k <= n)%nat -> m i k = Fin a -> m k j = Fin b ->
    deq n m (mupd m i j (xmin C (m i j) (add_up C a b))).
  Proof.
    intros Hi Hj Hk Ea Eb p. split.
    - intros D. apply den_mupd_fwd; [exact D|]. destruct D as [_ H].
      apply xmin_glb; [apply H; assumption|].
      pose proof (H i k Hi Hk) as H1. pose proof (H k j Hk Hj) as H2.
      rewrite Ea in H1. rewrite Eb in H2. cbn [xv qle] in H1, H2.
      apply (qle_mono (val C a + val C b)); [lra|].
      exact (add_up_ok C a b).
    - apply den_mupd_bwd. apply xmin_le_l.
  Qed.

  Lemma tighten_opt n (m : mat) i j k :
    (i <= n)%nat -> (j <= n)%nat -> (k <= n)%nat ->
    deq n m (match m i k, m k j with
             | Fin a, Fin b => mupd m i j (xmin C (m i j) (add_up C a b))
             | _, _ => m end).
  Proof.
    intros Hi Hj Hk. destruct (m i k) as [a|] eqn:Ea; [|apply deq_refl].
    destruct (m k j) as [b|] eqn:Eb; [|apply deq_refl].
    apply (tighten_deq n m i j k a b); assumption.
  Qed.

  Lemma tighten_opt' n (m : mat) i j k :
    (i <= n)%nat -> (j <= n)%nat -> (k <= n)%nat ->
    deq n m (match m k j, m i k with
             | Fin b, Fin a => mupd m i j (xmin C (m i j) (add_up C a b))
             | _, _ => m end).
  Proof.
    intros Hi Hj Hk. destruct (m k j) as [b|] eqn:Eb; [|apply deq_refl].
    destruct (m i k) as [a|] eqn:Ea; [|apply deq_refl].
    apply (tighten_deq n m i j k a b); assumption.
  Qed.

  (* ---- fill_diag ---- *)
  Lemma fill_fold_other (v : ext T) l : forall (m : mat) a b,
    (a <> b \/ ~ In a l) -> fold_left (fun m h => mupd m h h v) l m a b = m a b.
  Proof.
    induction l as [|x l IH]; intros m a b H; cbn [fold_left]; [reflexivity|].
    rewrite IH.
    - apply mupd_other. destruct H as [H|H].
      + destruct (Nat.eq_dec a x) as [->|N]; [right; intros ->; apply H; reflexivity|left; exact N].
      + left. intros ->. apply H. left. reflexivity.
    - destruct H as [H|H]; [left; exact H|right]. intros Hin. apply H. right. exact Hin.
  Qed.

  Lemma fill_fold_in (v : ext T) l : forall (m : mat) a,
    In a l -> fold_left (fun m h => mupd m h h v) l m a a = v.
  Proof.
    induction l as [|x l IH]; intros m a H; cbn [fold_left].
    - destruct H.
    - destruct (in_dec Nat.eq_dec a l) as [Hin|Hnin].
      + apply IH. exact Hin.
      + destruct H as [->|H]; [|contradiction].
        rewrite fill_fold_other by (right; exact Hnin). apply mupd_same.
  Qed.

  Lemma fill_diag_diag n (v : ext T) (m : mat) h : (h <= n)%nat -> fill_diag n v m h h = v.
  Proof. intros H. unfold fill_diag. apply fill_fold_in. apply in_down. exact H. Qed.

  Lemma fill_diag_off n (v : ext T) (m : mat) a b : a <> b -> fill_diag n v m a b = m a b.
  Proof. intros H. unfold fill_diag. apply fill_fold_other. left. exact H. Qed.

  Lemma fill_diag_deq n v (m : mat) : diag_ok n m -> qle 0 (xv C v) -> deq n m (fill_diag n v m).
  Proof.
    intros Hd Hv p. split; intros [H0 H]; (split; [exact H0|]); intros a b Ha Hb;
      destruct (Nat.eq_dec a b) as [E|N].
    - subst b. rewrite fill_diag_diag by exact Ha. apply (qle_mono 0); [lra|exact Hv].
    - rewrite fill_diag_off by exact N. apply H; assumption.
    - subst b. apply (qle_mono 0); [lra|]. apply Hd. exact Ha.
    - specialize (H a b Ha Hb). rewrite fill_diag_off in H by exact N. exact H.
  Qed.

  Lemma czero_nonneg : qle 0 (xv C (Fin (czero C))).
  Proof. cbn [xv qle]. pose proof (czero_ok C) as H. lra. Qed.

  (* ---- has_neg_diag ---- *)
  Lemma has_neg_diag_false n (m : mat) : has_neg_diag C n m = false -> diag_ok n m.
  Proof.
    intros H h Hh. destruct (m h h) as [a|] eqn:E; cbn [xv qle]; [|exact I].
    destruct (Qlt_le_dec (val C a) 0) as [L|L]; [|exact L]. exfalso.
    assert (has_neg_diag C n m = true) as H1; [|congruence].
    unfold has_neg_diag. apply existsb_exists. exists h. split; [apply in_down; exact Hh|].
    rewrite E. cbn [xneg_sign]. apply (cneg_ok C). exact L.
  Qed.

  Lemma has_neg_diag_true n (m : mat) : has_neg_diag C n m = true -> forall p, ~ den C n m p.
  Proof.
    intros H p [_ D]. unfold has_neg_diag in H. apply existsb_exists in H.
    destruct H as [h [Hin Hs]]. apply in_down in Hin. apply xneg_sign_spec in Hs.
    destruct Hs as [q [Eq Lq]]. specialize (D h h Hin Hin). rewrite Eq in D. cbn [qle] in D. lra.
  Qed.

  (* ---- the Floyd-Warshall loops ---- *)
  Lemma fw_body_deq n k i (m : mat) j :
    (k <= n)%nat -> (i <= n)%nat -> (j <= n)%nat -> deq n m (fw_body C k i m j).
  Proof. intros Hk Hi Hj. unfold fw_body. apply (tighten_opt' n m i j k); assumption. Qed.

  Lemma fw_row_deq n k (m : mat) i : (k <= n)%nat -> (i <= n)%nat -> deq n m (fw_row C n k m i).
  Proof.
    intros Hk Hi. unfold fw_row. destruct (is_pinf (m i k)); [apply deq_refl|].
    apply fold_deq. intros m0 j Hj. apply in_down in Hj. apply fw_body_deq; assumption.
  Qed.

  Lemma fw_k_deq n (m : mat) k : (k <= n)%nat -> deq n m (fw_k C n m k).
  Proof.
    intros Hk. unfold fw_k. apply fold_deq. intros m0 i Hi. apply in_down in Hi.
    apply fw_row_deq; assumption.
  Qed.

  Lemma fw_loops_deq n (m : mat) : deq n m (fw_loops C n m).
  Proof.
    unfold fw_loops. apply fold_deq. intros m0 k Hk. apply in_down in Hk. apply fw_k_deq. exact Hk.
  Qed.

  Lemma closure_pre_deq n (m : mat) :
    diag_ok n m -> deq n m (fw_loops C n (fill_diag n (Fin (czero C)) m)).
  Proof.
    intros Hd. eapply deq_trans; [apply fill_diag_deq; [exact Hd|apply czero_nonneg]|].
    apply fw_loops_deq.
  Qed.

  Theorem closure_sound n m m' :
    diag_ok n m -> closure C n m = Some m' -> forall p, den C n m p <-> den C n m' p.
  Proof.
    intros Hd. unfold closure. cbv zeta.
    destruct (has_neg_diag C n (fw_loops C n (fill_diag n (Fin (czero C)) m))) eqn:E; [discriminate|].
    intros [= <-]. change (deq n m (fill_diag n PInf (fw_loops C n (fill_diag n (Fin (czero C)) m)))).
    eapply deq_trans; [apply closure_pre_deq; exact Hd|].
    apply fill_diag_deq; [apply has_neg_diag_false; exact E|exact I].
  Qed.

  Theorem closure_empty_sound n m :
    diag_ok n m -> closure C n m = None -> forall p, ~ den C n m p.
  Proof.
    intros Hd. unfold closure. cbv zeta.
    destruct (has_neg_diag C n (fw_loops C n (fill_diag n (Fin (czero C)) m))) eqn:E; [|discriminate].
    intros _ p D. apply (closure_pre_deq n m Hd p) in D. exact (has_neg_diag_true _ _ E p D).
  Qed.

  (* ---- the incremental closure ---- *)
  Lemma inc_step1_body_deq n v k ba bb (m : mat) i :
    (v <= n)%nat -> (k <= n)%nat -> (i <= n)%nat -> deq n m (inc_step1_body C v k ba bb m i).
  Proof.
    intros Hv Hk Hi. unfold inc_step1_body. cbv zeta.
    set (m1 := if ba then _ else m).
    assert (deq n m m1) as H1.
    { subst m1. destruct ba; [|apply deq_refl]. apply (tighten_opt n m i v k); assumption. }
    eapply deq_trans; [exact H1|]. destruct bb; [|apply deq_refl].
    apply (tighten_opt' n m1 v i k); assumption.
  Qed.

  Lemma inc_step1_deq n v (m : mat) k : (v <= n)%nat -> (k <= n)%nat -> deq n m (inc_step1 C n v m k).
  Proof.
    intros Hv Hk. unfold inc_step1. cbv zeta.
    destruct (negb (is_pinf (m k v)) || negb (is_pinf (m v k)))%bool; [|apply deq_refl].
    apply fold_deq. intros m0 i Hi. apply in_down in Hi. apply inc_step1_body_deq; assumption.
  Qed.

  Lemma inc_step2_row_deq n v (m : mat) i : (v <= n)%nat -> (i <= n)%nat -> deq n m (inc_step2_row C n v m i).
  Proof.
    intros Hv Hi. unfold inc_step2_row. destruct (is_pinf (m i v)); [apply deq_refl|].
    apply fold_deq. intros m0 j Hj. apply in_down in Hj. apply (tighten_opt' n m0 i j v); assumption.
  Qed.

  Lemma inc_loops_deq n v (m : mat) : (v <= n)%nat -> deq n m (inc_loops C n v m).
  Proof.
    intros Hv. unfold inc_loops. apply (deq_trans n m (fold_left (inc_step1 C n v) (down n) m)).
    - apply fold_deq. intros m0 k Hk. apply in_down in Hk. apply inc_step1_deq; assumption.
    - apply fold_deq. intros m0 i Hi. apply in_down in Hi. apply inc_step2_row_deq; assumption.
  Qed.

  Lemma inc_pre_deq n v (m : mat) :
    diag_ok n m -> (v <= n)%nat -> deq n m (inc_loops C n v (fill_diag n (Fin (czero C)) m)).
  Proof.
    intros Hd Hv. eapply deq_trans; [apply fill_diag_deq; [exact Hd|apply czero_nonneg]|].
    apply inc_loops_deq. exact Hv.
  Qed.

  Theorem inc_closure_sound n v m m' :
    diag_ok n m -> (v <= n)%nat -> inc_closure C n v m = Some m' -> forall p, den C n m p <-> den C n m' p.
  Proof.
    intros Hd Hv. unfold inc_closure. cbv zeta.
    destruct (has_neg_diag C n (inc_loops C n v (fill_diag n (Fin (czero C)) m))) eqn:E; [discriminate|].
    intros [= <-]. change (deq n m (fill_diag n PInf (inc_loops C n v (fill_diag n (Fin (czero C)) m)))).
    eapply deq_trans; [exact (inc_pre_deq n v m Hd Hv)|].
    apply fill_diag_deq; [apply has_neg_diag_false; exact E|exact I].
  Qed.

  Theorem inc_closure_empty_sound n v m :
    diag_ok n m -> (v <= n)%nat -> inc_closure C n v m = None -> forall p, ~ den C n m p.
  Proof.
    intros Hd Hv. unfold inc_closure. cbv zeta.
    destruct (has_neg_diag C n (inc_loops C n v (fill_diag n (Fin (czero C)) m))) eqn:E; [|discriminate].
    intros _ p D. apply (inc_pre_deq n v m Hd Hv p) in D. exact (has_neg_diag_true _ _ E p D).
  Qed.

  (* ---- add_dbm_constraint ---- *)
  Lemma xlt_true_ole x y : xlt C x y = true -> ole (xv C x) (xv C y).
  Proof.
    destruct x as [a|], y as [b|]; cbn [xlt xv ole]; intros H; try exact I; try discriminate.
    apply (cltb_ok C) in H. lra.
  Qed.

  Theorem refine_sound n m i j k b p :
    (i <= n)%nat -> (j <= n)%nat -> qle b (xv C k) -> den C n m p -> p j - p i <= b ->
    den C n (add_dbm_constraint C m i j k) p.
  Proof.
    intros Hi Hj Hb D Hp. unfold add_dbm_constraint. destruct (xlt C k (m i j)); [|exact D].
    apply den_mupd_fwd; [exact D|]. apply (qle_mono b); assumption.
  Qed.

  Theorem refine_only_tightens n m i j k p :
    den C n (add_dbm_constraint C m i j k) p -> den C n m p.
  Proof.
    unfold add_dbm_constraint. destruct (xlt C k (m i j)) eqn:E; [|exact (fun D => D)].
    apply den_mupd_bwd. apply xlt_true_ole. exact E.
  Qed.

  Theorem refine_q_sound n m i j num d p :
    (i <= n)%nat -> (j <= n)%nat -> d <> 0%Z -> den C n m p ->
    p j - p i <= inject_Z num / inject_Z d ->
    den C n (add_dbm_constraint_q C m i j num d) p.
  Proof.
    intros Hi Hj Hd D Hp. unfold add_dbm_constraint_q.
    apply (refine_sound n m i j (div_up C num d) (inject_Z num / inject_Z d) p); try assumption.
    exact (div_up_ok C num d Hd).
  Qed.

  (* ---- meet / join ---- *)
  Theorem meet_sound n x y p : den C n (meet C x y) p <-> den C n x p /\ den C n y p.
  Proof.
    split.
    - intros [H0 H]. split; (split; [exact H0|]); intros i j Hi Hj; specialize (H i j Hi Hj);
        change (meet C x y i j) with (xmin C (x i j) (y i j)) in H.
      + eapply qle_trans; [exact H|apply xmin_le_l].
      + eapply qle_trans; [exact H|apply xmin_le_r].
    - intros [[H0 Hx] [_ Hy]]. split; [exact H0|]. intros i j Hi Hj.
      change (meet C x y i j) with (xmin C (x i j) (y i j)).
      apply xmin_glb; [apply Hx|apply Hy]; assumption.
  Qed.

  Theorem ub_sound n x y p : den C n x p \/ den C n y p -> den C n (join C x y) p.
  Proof.
    intros [[H0 H]|[H0 H]]; (split; [exact H0|]); intros i j Hi Hj;
      change (join C x y i j) with (xmax C (x i j) (y i j)).
    - eapply qle_trans; [apply H; assumption|apply xmax_ge_l].
    - eapply qle_trans; [apply H; assumption|apply xmax_ge_r].
  Qed.

  (* ---- forget ---- *)
  Theorem forget_sound n v m p w :
    (0 < v)%nat -> den C n m p -> den C n (forget v m) (fun i => if Nat.eqb i v then w else p i).
  Proof.
    intros Hv [H0 H]. split.
    - destruct (Nat.eqb_spec 0 v) as [E|N]; [lia|exact H0].
    - intros a b Ha Hb. unfold forget.
      destruct (Nat.eqb a v) eqn:Ea; [exact I|]. destruct (Nat.eqb b v) eqn:Eb; [exact I|].
      cbn [orb]. apply H; assumption.
  Qed.

  Theorem forget_superset n v m p : den C n m p -> den C n (forget v m) p.
  Proof.
    intros [H0 H]. split; [exact H0|]. intros a b Ha Hb. unfold forget.
    destruct (Nat.eqb a v || Nat.eqb b v)%bool; [exact I|apply H; assumption].
  Qed.

  (* ---- comparisons ---- *)
  Theorem contains_sound n x y :
    code_contains C n x y = true -> forall p, den C n y p -> den C n x p.
  Proof.
    intros Hc p [H0 H]. split; [exact H0|]. intros i j Hi Hj.
    unfold code_contains in Hc. rewrite all_pairs_spec in Hc. specialize (Hc i j Hi Hj).
    apply negb_true_iff in Hc. apply xlt_false in Hc.
    eapply qle_trans; [apply H; assumption|exact Hc].
  Qed.

  Theorem disjoint_sound n x y :
    neg_exact C -> code_is_disjoint C n x y = true -> forall p, den C n x p -> den C n y p -> False.
  Proof.
    intros Hn Hc p [_ Hx] [_ Hy]. unfold code_is_disjoint in Hc. rewrite any_pair_spec in Hc.
    destruct Hc as [i [j [Hi [Hj Hc]]]].
    specialize (Hx i j Hi Hj). specialize (Hy j i Hj Hi).
    destruct (y j i) as [b|]; [|discriminate].
    destruct (Hn b) as [t [Et Vt]]. rewrite Et in Hc.
    destruct (x i j) as [c|]; cbn [xlt] in Hc; [|discriminate].
    apply (cltb_ok C) in Hc. cbn [xv qle] in Hx, Hy. lra.
  Qed.

  Theorem equal_sound n x y :
    code_equal C n x y = true -> forall p, den C n x p <-> den C n y p.
  Proof.
    intros Hc. unfold code_equal in Hc. rewrite all_pairs_spec in Hc.
    assert (code_contains C n x y = true) as H1.
    { unfold code_contains. apply all_pairs_spec. intros i j Hi Hj.
      specialize (Hc i j Hi Hj). apply andb_true_iff in Hc. apply Hc. }
    assert (code_contains C n y x = true) as H2.
    { unfold code_contains. apply all_pairs_spec. intros i j Hi Hj.
      specialize (Hc i j Hi Hj). apply andb_true_iff in Hc. apply Hc. }
    intros p. split; [apply (contains_sound n y x H2)|apply (contains_sound n x y H1)].
  Qed.
End Sound.

(* ---------------------------------------------------------------------------------------- *)
(* non-vacuity: the hypotheses of the theorems are satisfiable on the exact rational carrier *)
Definition ex_top : @mat Q := fun _ _ => PInf.
Definition ex_le1 : @mat Q := fun i j => match i, j with 0%nat, 1%nat => Fin 1 | _, _ => PInf end.
Definition ex_negcycle : @mat Q :=
  fun i j => match i, j with 0%nat, 1%nat => Fin (-1) | 1%nat, 0%nat => Fin 0 | _, _ => PInf end.

Lemma ex_diag_ok_top : diag_ok Qc 1 ex_top.
Proof. intros h _. exact I. Qed.
Lemma ex_diag_ok_le1 : diag_ok Qc 1 ex_le1.
Proof. intros h Hh. destruct h as [|[|h]]; cbn; try exact I. Qed.
Lemma ex_diag_ok_negcycle : diag_ok Qc 1 ex_negcycle.
Proof. intros h Hh. destruct h as [|[|h]]; cbn; try exact I. Qed.

Example closure_sound_nonvacuous : exists m m', diag_ok Qc 1 m /\ closure Qc 1 m = Some m'.
Proof. exists ex_le1. eexists. split; [exact ex_diag_ok_le1|]. vm_compute. reflexivity. Qed.

Example closure_sound_nonvacuous_top : exists m m', diag_ok Qc 1 m /\ closure Qc 1 m = Some m'.
Proof. exists ex_top. eexists. split; [exact ex_diag_ok_top|]. vm_compute. reflexivity. Qed.

Example closure_empty_sound_nonvacuous : exists m, diag_ok Qc 1 m /\ closure Qc 1 m = None.
Proof. exists ex_negcycle. split; [exact ex_diag_ok_negcycle|]. vm_compute. reflexivity. Qed.

Example inc_closure_sound_nonvacuous :
  exists m m', diag_ok Qc 1 m /\ (1 <= 1)%nat /\ inc_closure Qc 1 1 m = Some m'.
Proof. exists ex_le1. eexists. split; [exact ex_diag_ok_le1|]. split; [lia|]. vm_compute. reflexivity. Qed.

Example inc_closure_empty_sound_nonvacuous :
  exists m, diag_ok Qc 1 m /\ (1 <= 1)%nat /\ inc_closure Qc 1 1 m = None.
Proof. exists ex_negcycle. split; [exact ex_diag_ok_negcycle|]. split; [lia|]. vm_compute. reflexivity. Qed.

(* the denotation of the example is inhabited, so closure_sound speaks about a real point *)
Example den_le1_inhabited : den Qc 1 ex_le1 (fun _ => 0).
Proof.
  split; [reflexivity|]. intros i j Hi Hj.
  destruct i as [|[|i]], j as [|[|j]]; cbn; try exact I; try lra.
Qed.

Example contains_nonvacuous : code_contains Qc 1 ex_top ex_le1 = true.
Proof. vm_compute. reflexivity. Qed.

Example disjoint_nonvacuous :
  neg_exact Qc /\ code_is_disjoint Qc 1 ex_le1
     (fun i j => match i, j with 1%nat, 0%nat => Fin (-2) | _, _ => PInf end) = true.
Proof. split; [exact Qc_neg_exact|]. vm_compute. reflexivity. Qed.

Example equal_nonvacuous : code_equal Qc 1 ex_le1 ex_le1 = true.
Proof. vm_compute. reflexivity. Qed.
