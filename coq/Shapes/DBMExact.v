(* C04: over exact rationals the shortest-path-closed form of a difference-bound matrix is TIGHT
   (every finite entry is attained by a point of the shape, every +infinity entry is unbounded),
   hence the entry-wise comparisons on closed matrices (is_empty, contains, operator==) are exact.
   The pairwise test of BD_Shape::is_disjoint_from is NOT exact: a counterexample is given.
   The statements are semantic (about [den]), so they hold for every carrier. *)
From Coq Require Import List ZArith QArith Qminmax Lqa Bool Arith Lia.
Require Import PPLV.Shapes.ExtNum PPLV.Shapes.DBM.
Import ListNotations.
Local Open Scope Q_scope.

(* ---------------------------------------------------------------------------------------- *)
(* minimum of finitely many optional rationals, with an explicit initial value *)
Definition qmin (a b : Q) : Q := if Qlt_le_dec a b then a else b.
Lemma qmin_l a b : qmin a b <= a.
Proof. unfold qmin. destruct (Qlt_le_dec a b); lra. Qed.
Lemma qmin_r a b : qmin a b <= b.
Proof. unfold qmin. destruct (Qlt_le_dec a b); lra. Qed.
Lemma qmin_cases a b : qmin a b = a \/ qmin a b = b.
Proof. unfold qmin. destruct (Qlt_le_dec a b); auto. Qed.

Definition omin1 (o : option Q) (q : Q) : Q := match o with Some v => qmin v q | None => q end.
Lemma omin1_le_r o q : omin1 o q <= q.
Proof. destruct o; cbn [omin1]; [apply qmin_r|lra]. Qed.
Lemma omin1_le_l v q : omin1 (Some v) q <= v.
Proof. cbn [omin1]. apply qmin_l. Qed.
Lemma omin1_cases o q : omin1 o q = q \/ exists v, o = Some v /\ omin1 o q = v.
Proof.
  destruct o as [v|]; cbn [omin1]; [|left; reflexivity].
  destruct (qmin_cases v q) as [E|E]; [right; exists v; split; [reflexivity|exact E]|left; exact E].
Qed.

Fixpoint pmin (f : nat -> option Q) (init : Q) (n : nat) : Q :=
  match n with
  | O => omin1 (f O) init
  | S n' => omin1 (f (S n')) (pmin f init n')
  end.

Lemma pmin_le f init n l v : (l <= n)%nat -> f l = Some v -> pmin f init n <= v.
Proof.
  induction n; intros Hl Hf; cbn [pmin].
  - assert (l = 0%nat) by lia. subst l. rewrite Hf. apply omin1_le_l.
  - destruct (Nat.eq_dec l (S n)) as [->|Hne].
    + rewrite Hf. apply omin1_le_l.
    + eapply Qle_trans; [apply omin1_le_r|]. apply IHn; [lia|exact Hf].
Qed.

Lemma pmin_att f init n :
  pmin f init n = init \/ exists l v, (l <= n)%nat /\ f l = Some v /\ pmin f init n = v.
Proof.
  induction n; cbn [pmin].
  - destruct (omin1_cases (f 0%nat) init) as [E|[v [E1 E2]]]; [left; exact E|].
    right. exists 0%nat, v. split; [lia|split; assumption].
  - destruct (omin1_cases (f (S n)) (pmin f init n)) as [E|[v [E1 E2]]].
    + rewrite E. destruct IHn as [H|[l [v [Hl [Hf Hv]]]]]; [left; exact H|].
      right. exists l, v. split; [lia|split; assumption].
    + right. exists (S n), v. split; [lia|split; assumption].
Qed.

(* a rational M with  B - M <= f l  for every l <= n with f l finite *)
Lemma bound_exists (f : nat -> option Q) (B : Q) n :
  exists M, forall l, (l <= n)%nat -> qle (B - M) (f l).
Proof.
  induction n.
  - destruct (f 0%nat) as [v|] eqn:E.
    + exists (B - v). intros l Hl. assert (l = 0%nat) by lia. subst l. rewrite E. cbn [qle]. lra.
    + exists 0. intros l Hl. assert (l = 0%nat) by lia. subst l. rewrite E. exact I.
  - destruct IHn as [M HM]. destruct (f (S n)) as [v|] eqn:E.
    + exists (if Qlt_le_dec M (B - v) then B - v else M). intros l Hl.
      destruct (Nat.eq_dec l (S n)) as [->|Hne].
      * rewrite E. cbn [qle]. destruct (Qlt_le_dec M (B - v)); lra.
      * eapply qle_mono; [|apply HM; lia]. destruct (Qlt_le_dec M (B - v)); lra.
    + exists M. intros l Hl. destruct (Nat.eq_dec l (S n)) as [->|Hne]; [rewrite E; exact I|apply HM; lia].
Qed.

(* the potential  P k = min_l (c l + w l k)  of a weight function satisfying the triangle inequality *)
Lemma potential n (w : nat -> nat -> option Q) (c : nat -> Q) :
  (forall a, w a a = Some 0) ->
  (forall a b k, (a <= n)%nat -> (b <= n)%nat -> (k <= n)%nat -> ole (w a b) (oadd (w a k) (w k b))) ->
  exists P : nat -> Q,
    (forall l k v, (l <= n)%nat -> w l k = Some v -> P k <= c l + v) /\
    (forall k, (k <= n)%nat -> exists l v, (l <= n)%nat /\ w l k = Some v /\ P k == c l + v) /\
    (forall a b, (a <= n)%nat -> (b <= n)%nat -> qle (P b - P a) (w a b)).
Proof.
  intros Hrefl Htri.
  set (cand := fun k l => match w l k with Some v => Some (c l + v) | None => None end).
  set (P := fun k => pmin (cand k) (c k) n).
  assert (H1 : forall l k v, (l <= n)%nat -> w l k = Some v -> P k <= c l + v).
  { intros l k v Hl Hw. unfold P. apply pmin_le with (l := l); [exact Hl|].
    unfold cand. rewrite Hw. reflexivity. }
  assert (H2 : forall k, (k <= n)%nat -> exists l v, (l <= n)%nat /\ w l k = Some v /\ P k == c l + v).
  { intros k Hk. unfold P.
    destruct (pmin_att (cand k) (c k) n) as [E|[l [v [Hl [Hf Hv]]]]].
    - exists k, 0. split; [exact Hk|split; [apply Hrefl|]]. rewrite E. lra.
    - unfold cand in Hf. destruct (w l k) as [u|] eqn:E; [|discriminate].
      injection Hf as Hf. exists l, u. split; [exact Hl|split; [exact E|]].
      rewrite Hv, <- Hf. lra. }
  exists P. split; [exact H1|split; [exact H2|]].
  intros a b Ha Hb. destruct (w a b) as [d|] eqn:Eab; [|exact I]. cbn [qle].
  destruct (H2 a Ha) as [l [v [Hl [Hw HP]]]].
  pose proof (Htri l b a Hl Hb Ha) as Ht. rewrite Hw, Eab in Ht. cbn [oadd ole] in Ht.
  destruct (w l b) as [u|] eqn:Elb; [|contradiction].
  pose proof (H1 l b u Hl Elb). lra.
Qed.

(* ---------------------------------------------------------------------------------------- *)
Section Tight.
  Context {T : Type} (C : carrier T).

  (* the matrix with the diagonal read as 0 *)
  Definition sm (m : mat (T:=T)) (i j : nat) : option Q :=
    if Nat.eqb i j then Some 0 else xv C (m i j).
  (* shortest-path closed and consistent: i = j gives 0 <= m i k + m k i (no negative 2-cycle);
     together with the triangle inequality there is no negative cycle at all *)
  Definition closed (n : nat) (m : mat (T:=T)) : Prop :=
    forall i j k, (i <= n)%nat -> (j <= n)%nat -> (k <= n)%nat ->
                  ole (sm m i j) (oadd (sm m i k) (sm m k j)).
  Definition diag_inf (n : nat) (m : mat (T:=T)) : Prop := forall h, (h <= n)%nat -> m h h = PInf.

  Lemma sm_refl m a : sm m a a = Some 0.
  Proof. unfold sm. now rewrite Nat.eqb_refl. Qed.
  Lemma sm_ne m a b : a <> b -> sm m a b = xv C (m a b).
  Proof. intros H. unfold sm. destruct (Nat.eqb_spec a b); [contradiction|reflexivity]. Qed.

  (* a potential of a closed matrix, normalised at the zero variable, is a point of the shape *)
  Lemma potential_den n m (P : nat -> Q) :
    diag_inf n m ->
    (forall a b, (a <= n)%nat -> (b <= n)%nat -> qle (P b - P a) (sm m a b)) ->
    den C n m (fun k => P k - P 0%nat).
  Proof.
    intros Hd H3. split; [cbv beta; lra|].
    intros a b Ha Hb. cbv beta.
    destruct (Nat.eq_dec a b) as [->|Hab]; [rewrite (Hd b Hb); exact I|].
    pose proof (H3 a b Ha Hb) as H. rewrite (sm_ne m a b Hab) in H.
    eapply qle_mono; [|exact H]. lra.
  Qed.

  Theorem fw_tight n m i j B :
    closed n m -> diag_inf n m -> (i <= n)%nat -> (j <= n)%nat -> i <> j -> qle B (xv C (m i j)) ->
    exists p, den C n m p /\ B <= p j - p i.
  Proof.
    intros Hc Hd Hi Hj Hne HB.
    destruct (bound_exists (fun l => sm m l j) B n) as [M HM].
    destruct (potential n (sm m) (fun l => if Nat.eqb l i then 0 else M) (sm_refl m) Hc)
      as [P [H1 [H2 H3]]].
    exists (fun k => P k - P 0%nat). split; [apply potential_den; assumption|].
    cbv beta.
    assert (Pi : P i <= 0).
    { pose proof (H1 i i 0 Hi (sm_refl m i)) as H. cbv beta in H. rewrite Nat.eqb_refl in H. lra. }
    assert (Pj : B <= P j).
    { destruct (H2 j Hj) as [l [v [Hl [Hw HP]]]]. cbv beta in HP.
      destruct (Nat.eqb_spec l i) as [->|Hli].
      - rewrite (sm_ne m i j Hne) in Hw. rewrite Hw in HB. cbn [qle] in HB. lra.
      - pose proof (HM l Hl) as H. cbv beta in H. rewrite Hw in H. cbn [qle] in H. lra. }
    lra.
  Qed.

  Theorem tight_attained n m i j t :
    closed n m -> diag_inf n m -> (i <= n)%nat -> (j <= n)%nat -> i <> j -> m i j = Fin t ->
    exists p, den C n m p /\ p j - p i == val C t.
  Proof.
    intros Hc Hd Hi Hj Hne E.
    destruct (fw_tight n m i j (val C t) Hc Hd Hi Hj Hne) as [p [Hp HB]].
    { rewrite E. cbn [xv qle]. lra. }
    exists p. split; [exact Hp|].
    destruct Hp as [_ Hp]. pose proof (Hp i j Hi Hj) as H. rewrite E in H. cbn [xv qle] in H. lra.
  Qed.

  Theorem tight_unbounded n m i j :
    closed n m -> diag_inf n m -> (i <= n)%nat -> (j <= n)%nat -> i <> j -> m i j = PInf ->
    forall B, exists p, den C n m p /\ B <= p j - p i.
  Proof.
    intros Hc Hd Hi Hj Hne E B. apply fw_tight; try assumption. rewrite E. exact I.
  Qed.

  (* is_empty is exact on closed forms: a closed form is never empty *)
  Theorem closed_nonempty n m : closed n m -> diag_inf n m -> exists p, den C n m p.
  Proof.
    intros Hc Hd.
    destruct (potential n (sm m) (fun _ => 0) (sm_refl m) Hc) as [P [_ [_ H3]]].
    exists (fun k => P k - P 0%nat). apply potential_den; assumption.
  Qed.

  Lemma contains_sound n x y :
    code_contains C n x y = true -> forall p, den C n y p -> den C n x p.
  Proof.
    intros H p [H0 Hp]. unfold code_contains in H. rewrite all_pairs_spec in H.
    split; [exact H0|]. intros i j Hi Hj.
    specialize (H i j Hi Hj). apply negb_true_iff in H. apply xlt_false in H.
    eapply qle_trans; [apply Hp; assumption|exact H].
  Qed.

  Theorem contains_exact n x y :
    closed n y -> diag_inf n y -> diag_inf n x ->
    (code_contains C n x y = true <-> forall p, den C n y p -> den C n x p).
  Proof.
    intros Hc Hdy Hdx. split; [apply contains_sound|].
    intros H. unfold code_contains. apply all_pairs_spec. intros i j Hi Hj.
    destruct (xlt C (x i j) (y i j)) eqn:E; [exfalso|reflexivity].
    destruct (Nat.eq_dec i j) as [->|Hne].
    { rewrite (Hdx j Hj) in E. cbn [xlt] in E. discriminate. }
    destruct (x i j) as [a|] eqn:Ex; [|cbn [xlt] in E; discriminate].
    destruct (y i j) as [b|] eqn:Ey; cbn [xlt] in E.
    - apply (cltb_ok C) in E.
      destruct (fw_tight n y i j (val C b) Hc Hdy Hi Hj Hne) as [p [Hp HB]].
      { rewrite Ey. cbn [xv qle]. lra. }
      destruct (H p Hp) as [_ Hx]. specialize (Hx i j Hi Hj). rewrite Ex in Hx. cbn [xv qle] in Hx. lra.
    - destruct (fw_tight n y i j (val C a + 1) Hc Hdy Hi Hj Hne) as [p [Hp HB]].
      { rewrite Ey. exact I. }
      destruct (H p Hp) as [_ Hx]. specialize (Hx i j Hi Hj). rewrite Ex in Hx. cbn [xv qle] in Hx. lra.
  Qed.

  Lemma code_equal_contains n x y :
    code_equal C n x y = true <-> code_contains C n x y = true /\ code_contains C n y x = true.
  Proof.
    unfold code_equal, code_contains. rewrite !all_pairs_spec. split.
    - intros H. split; intros i j Hi Hj; specialize (H i j Hi Hj); apply andb_true_iff in H; tauto.
    - intros [H1 H2] i j Hi Hj. apply andb_true_iff. split; [apply H1|apply H2]; assumption.
  Qed.

  Theorem equals_exact n x y :
    closed n x -> closed n y -> diag_inf n x -> diag_inf n y ->
    (code_equal C n x y = true <-> forall p, den C n x p <-> den C n y p).
  Proof.
    intros Hcx Hcy Hdx Hdy. rewrite code_equal_contains.
    rewrite (contains_exact n x y Hcy Hdy Hdx), (contains_exact n y x Hcx Hdx Hdy).
    split.
    - intros [H1 H2] p. split; [apply H2|apply H1].
    - intros H. split; intros p Hp; apply H; exact Hp.
  Qed.
End Tight.

(* ---------------------------------------------------------------------------------------- *)
(* the rational carrier: an executable check of [closed], and the counterexample to the
   pairwise disjointness test *)
Definition ole_b (x y : option Q) : bool :=
  match y with
  | None => true
  | Some b => match x with Some a => Qle_bool a b | None => false end
  end.
Lemma ole_b_ok x y : ole_b x y = true -> ole x y.
Proof.
  destruct x as [a|], y as [b|]; cbn [ole_b ole]; intros H; try exact I; try discriminate.
  now apply Qle_bool_iff.
Qed.

Definition closed_b (n : nat) (m : mat (T:=Q)) : bool :=
  forallb (fun i => forallb (fun j => forallb (fun k =>
     ole_b (sm Qc m i j) (oadd (sm Qc m i k) (sm Qc m k j))) (down n)) (down n)) (down n).

Lemma closed_b_ok n m : closed_b n m = true -> closed Qc n m.
Proof.
  unfold closed_b. intros H i j k Hi Hj Hk.
  rewrite forallb_forall in H. specialize (H i (proj2 (in_down n i) Hi)).
  rewrite forallb_forall in H. specialize (H j (proj2 (in_down n j) Hj)).
  rewrite forallb_forall in H. specialize (H k (proj2 (in_down n k) Hk)).
  now apply ole_b_ok.
Qed.

(* x = { A <= 0, C - B <= 0 },  y = { B - A <= 0, -C <= -1 }  (A=1, B=2, C=3, index 0 the zero variable) *)
Definition cex_x : mat (T:=Q) :=
  mat_of_rows [ [PInf; Fin 0; PInf; PInf];
                [PInf; PInf;  PInf; PInf];
                [PInf; PInf;  PInf; Fin 0];
                [PInf; PInf;  PInf; PInf] ].
Definition cex_y : mat (T:=Q) :=
  mat_of_rows [ [PInf; PInf; PInf; PInf];
                [PInf; PInf; Fin 0; PInf];
                [PInf; PInf; PInf; PInf];
                [Fin (-1); PInf; PInf; PInf] ].

Lemma diag_inf_3 (m : mat (T:=Q)) :
  m 0%nat 0%nat = PInf -> m 1%nat 1%nat = PInf -> m 2%nat 2%nat = PInf -> m 3%nat 3%nat = PInf ->
  diag_inf 3 m.
Proof.
  intros H0 H1 H2 H3 h Hh.
  do 4 (destruct h as [|h]; [assumption|]). lia.
Qed.

(* BD_Shape::is_disjoint_from (BD_Shape_templates.hh:689..740) only looks for a pair of opposite
   constraints  x[i][j] < -y[j][i] ; two closed shapes whose intersection is empty because of a
   longer alternating negative cycle (here 0 -> A -> B -> C -> 0 of weight -1) are not detected *)
Theorem is_disjoint_pairwise_refuted :
  exists (x y : nat -> nat -> ext Q),
    closed Qc 3 x /\ closed Qc 3 y /\ diag_inf 3 x /\ diag_inf 3 y /\
    code_is_disjoint Qc 3 x y = false /\
    (forall p, den Qc 3 x p -> den Qc 3 y p -> False).
Proof.
  exists cex_x, cex_y.
  split; [apply closed_b_ok; vm_compute; reflexivity|].
  split; [apply closed_b_ok; vm_compute; reflexivity|].
  split; [apply diag_inf_3; reflexivity|].
  split; [apply diag_inf_3; reflexivity|].
  split; [vm_compute; reflexivity|].
  intros p [Hx0 Hx] [_ Hy].
  pose proof (Hx 0%nat 1%nat ltac:(lia) ltac:(lia)) as A1.
  pose proof (Hx 2%nat 3%nat ltac:(lia) ltac:(lia)) as A2.
  pose proof (Hy 1%nat 2%nat ltac:(lia) ltac:(lia)) as A3.
  pose proof (Hy 3%nat 0%nat ltac:(lia) ltac:(lia)) as A4.
  change (p 1%nat - p 0%nat <= 0) in A1.
  change (p 3%nat - p 2%nat <= 0) in A2.
  change (p 2%nat - p 1%nat <= 0) in A3.
  change (p 0%nat - p 3%nat <= -1) in A4.
  lra.
Qed.

(* the hypotheses of fw_tight are satisfiable: { x1 <= 2, x2 - x1 <= 1, x2 <= 3, -x1 <= 0 } closed *)
Definition ex_closed : mat (T:=Q) :=
  mat_of_rows [ [PInf;  Fin 2; Fin 3];
                [Fin 0; PInf;  Fin 1];
                [PInf;  PInf;  PInf] ].

Example fw_tight_nonvacuous : exists m, closed Qc 2 m /\ diag_inf 2 m.
Proof.
  exists ex_closed. split; [apply closed_b_ok; vm_compute; reflexivity|].
  intros h Hh. do 3 (destruct h as [|h]; [reflexivity|]). lia.
Qed.
