(* Octagonal shapes as in Octagonal_Shape<T> (src/Octagonal_Shape_defs.hh, _inlines.hh, _templates.hh;
   the matrix is an OR_Matrix<N>, src/OR_Matrix_defs.hh).

   CONVENTION (checked against Octagonal_Shape<T>::constraints(), Octagonal_Shape_templates.hh:7357-7457,
   matrix_at, Octagonal_Shape_inlines.hh:369-388, and is_disjoint_from, templates.hh:1235-1286):
   an octagon over x_0..x_{n-1} is a 2n x 2n matrix over the signed variables
        V_{2k} = + x_k        V_{2k+1} = - x_k ;
   the entry m[i][j] is an upper bound of   V_j - V_i .
   Only the entries with  j < row_size(i) = i + 2 - i%2  (OR_Matrix_inlines.hh:45-47), that is
   j <= (i lor 1), are stored; the others are read through coherence,
        m[i][j]  ==  m[cj][ci]     with  ci = coherent_index(i) = i xor 1  (inlines.hh:49-51).
   For a stored entry (j < row_size(i)), with k = i/2 and l = j/2:
        i = 2k,   j = 2k+1 :   -2 x_k        <= m[i][j]      (constraints(): c_i_ii,  "-a*x <= b", a doubled)
        i = 2k+1, j = 2k   :   +2 x_k        <= m[i][j]      (c_ii_i)
        i = 2k,   j = 2l   :   x_l - x_k     <= m[i][j]      (c_i_j,   l < k)
        i = 2k+1, j = 2l+1 :   x_k - x_l     <= m[i][j]      (c_ii_jj)
        i = 2k+1, j = 2l   :   x_l + x_k     <= m[i][j]      (c_ii_j)
        i = 2k,   j = 2l+1 :   - x_l - x_k   <= m[i][j]      (c_i_jj)
        i = j              :   0 <= m[i][i]  (kept at +infinity by the library)

   This file holds the MODEL (definitions following the code statement by statement, executable),
   the denotation, and the soundness theorems for ANY carrier (property C03).  The statements about
   exactness (C04) that are not proved are plain [Definition ... : Prop] named ..._full.

   Matrices are functions nat -> nat -> ext T as in DBM.v; [mupd] is the in-place assignment. *)
From Coq Require Import List ZArith QArith Qminmax Lqa Bool Arith Lia.
Require Import PPLV.Shapes.ExtNum PPLV.Shapes.DBM.
Import ListNotations.
Local Open Scope Q_scope.

(* ---------------------------------------------------------------------------------------- *)
(* index arithmetic *)

(* coherent_index(i) = (i % 2 != 0) ? i - 1 : i + 1 *)
Definition cidx (i : nat) : nat := if Nat.even i then S i else Nat.pred i.
(* OR_Matrix::row_size(k) = k + 2 - k % 2  =  (k lor 1) + 1 *)
Definition row_size (i : nat) : nat := if Nat.even i then (i + 2)%nat else (i + 1)%nat.
(* the cell (i, j) is stored:  j < row_size(i)  <->  j <= (i lor 1) *)
Definition stored (i j : nat) : bool := (j <? row_size i)%nat.
(* the values taken by  for (k = 0; k < n_rows; k += 2) *)
Definition evens (n : nat) : list nat := map (fun h => (2 * h)%nat) (seq 0 n).

(* value of the signed variable V_i at the point p (p indexes the real variables from 0) *)
Definition sv (p : nat -> Q) (i : nat) : Q :=
  if Nat.even i then p (Nat.div2 i) else - p (Nat.div2 i).

(* the point p with x_v := w *)
Definition pupd (p : nat -> Q) (v : nat) (w : Q) : nat -> Q := fun k => if Nat.eqb k v then w else p k.

Lemma parity i :
  (exists k, i = (2 * k)%nat /\ Nat.even i = true /\ Nat.div2 i = k /\ cidx i = (2 * k + 1)%nat
             /\ row_size i = (2 * k + 2)%nat /\ forall p, sv p i = p k)
  \/ (exists k, i = (2 * k + 1)%nat /\ Nat.even i = false /\ Nat.div2 i = k /\ cidx i = (2 * k)%nat
             /\ row_size i = (2 * k + 2)%nat /\ forall p, sv p i = - p k).
Proof.
  unfold cidx, row_size, sv. destruct (Nat.even i) eqn:E.
  - left. pose proof E as E'. apply Nat.even_spec in E'. destruct E' as [k Hk]. exists k.
    assert (D : Nat.div2 i = k) by (rewrite Hk; apply Nat.div2_double).
    rewrite D. repeat split; try lia; try exact Hk; try reflexivity.
  - right. pose proof E as E'. rewrite <- Nat.negb_odd in E'. apply negb_false_iff in E'.
    apply Nat.odd_spec in E'. destruct E' as [k Hk]. exists k.
    assert (D : Nat.div2 i = k) by (rewrite Hk, Nat.add_1_r; apply Nat.div2_succ_double).
    rewrite D. repeat split; try lia; try exact Hk; try reflexivity.
Qed.

Ltac par i :=
  let k := fresh "k" in let Hk := fresh "Hk" in let He := fresh "He" in let Hd := fresh "Hd" in
  let Hc := fresh "Hc" in let Hr := fresh "Hr" in let Hs := fresh "Hs" in
  destruct (parity i) as [[k [Hk [He [Hd [Hc [Hr Hs]]]]]]|[k [Hk [He [Hd [Hc [Hr Hs]]]]]]].

Lemma cidx_invol i : cidx (cidx i) = i.
Proof. par i; par (cidx i); lia. Qed.
Lemma cidx_lt n i : (i < 2 * n)%nat -> (cidx i < 2 * n)%nat.
Proof. par i; lia. Qed.
Lemma cidx_even_S k : Nat.even k = true -> cidx k = S k.
Proof. intros E. unfold cidx. now rewrite E. Qed.
Lemma cidx_S_even k : Nat.even k = true -> cidx (S k) = k.
Proof. intros E. par k; [|congruence]. par (S k); lia. Qed.
Lemma row_size_le n i : (i < 2 * n)%nat -> (row_size i <= 2 * n)%nat.
Proof. par i; lia. Qed.
Lemma row_size_even k : Nat.even k = true -> row_size k = (k + 2)%nat.
Proof. intros E. unfold row_size. now rewrite E. Qed.
Lemma row_size_S_even k : Nat.even k = true -> row_size (S k) = (k + 2)%nat.
Proof. intros E. par k; [|congruence]. par (S k); lia. Qed.
Lemma stored_diag i : stored i i = true.
Proof. unfold stored. apply Nat.ltb_lt. par i; lia. Qed.
Lemma stored_i_ci i : stored i (cidx i) = true.
Proof. unfold stored. apply Nat.ltb_lt. par i; lia. Qed.
Lemma stored_cj_j j : stored (cidx j) j = true.
Proof. unfold stored. apply Nat.ltb_lt. par j; par (cidx j); lia. Qed.
Lemma stored_lt i j : (j <= i)%nat -> stored i j = true.
Proof. intros H. unfold stored. apply Nat.ltb_lt. par i; lia. Qed.
(* a cell that is not stored is read at the coherent cell, which is *)
Lemma stored_cidx i j : stored i j = false -> stored (cidx j) (cidx i) = true.
Proof.
  unfold stored. rewrite Nat.ltb_ge, Nat.ltb_lt. intros H. par i; par j; par (cidx j); lia.
Qed.
(* the coherent cell of a stored cell (the one is_disjoint_from reads in y) *)
Lemma stored_ci_cj i j : stored i j = true -> stored (cidx i) (cidx j) = true.
Proof.
  unfold stored. rewrite !Nat.ltb_lt. intros H. par i; par j; par (cidx i); lia.
Qed.
Lemma stored_false_lt i j : stored i j = false -> (i < j)%nat.
Proof. unfold stored. rewrite Nat.ltb_ge. par i; lia. Qed.

Lemma sv_cidx p i : sv p (cidx i) == - sv p i.
Proof.
  par i; par (cidx i); rewrite Hs, Hs0; try (exfalso; lia);
    (assert (E : k0 = k) by lia); rewrite E; lra.
Qed.
Lemma sv_S_even p k : Nat.even k = true -> sv p (S k) == - sv p k.
Proof. intros E. rewrite <- (cidx_even_S k E). apply sv_cidx. Qed.

Lemma in_evens n k : In k (evens n) -> Nat.even k = true /\ (k < 2 * n)%nat.
Proof.
  unfold evens. rewrite in_map_iff. intros [h [<- H]]. apply in_seq in H. split; [|lia].
  rewrite Nat.even_mul. reflexivity.
Qed.

Lemma qle_oadd q1 q2 x y : qle q1 x -> qle q2 y -> qle (q1 + q2) (oadd x y).
Proof. destruct x, y; cbn [qle oadd]; intros; try exact I. lra. Qed.

(* ---------------------------------------------------------------------------------------- *)
Section Oct.
  Context {T : Type} (C : carrier T).
  Notation N := (ext T).
  Notation mat := (nat -> nat -> ext T).

  (* matrix_at(i, j): the full-matrix view *)
  Definition full (m : mat) (i j : nat) : N := if stored i j then m i j else m (cidx j) (cidx i).

  (* x is an upper bound of V_j - V_i at the point p *)
  Definition bnd (p : nat -> Q) (i j : nat) (x : N) : Prop := qle (sv p j - sv p i) (xv C x).

  (* ---- denotation ---- *)
  Definition den_oct (n : nat) (m : mat) (p : nat -> Q) : Prop :=
    forall i j, (i < 2 * n)%nat -> (j < 2 * n)%nat -> stored i j = true ->
                qle (sv p j - sv p i) (xv C (m i j)).

  (* the stored diagonal entries are not negative (the library keeps +infinity there) *)
  Definition oct_diag_ok (n : nat) (m : mat) : Prop :=
    forall i, (i < 2 * n)%nat -> xneg_sign C (m i i) = false.

  (* ================= the MODEL ================= *)

  (* ---- strong_closure_assign (Octagonal_Shape_templates.hh:2549-2697) ---- *)
  (* for (row_iterator i = m_begin; i != m_end; ++i) assign_r(( *i)[i.index()], v, ROUND_NOT_NEEDED) *)
  Definition oct_fill_diag (n : nat) (v : N) (m : mat) : mat :=
    fold_left (fun m h => mupd m h h v) (seq 0 (2 * n)) m.

  (* the snapshot vectors vec_k, vec_ck taken at the top of iteration k (k even, ck = k + 1):
       h < k + 2 :  vec_k[h] = x_k[h]        vec_ck[h] = x_ck[h]
       h >= k + 2:  vec_k[h] = x_ch[ck]      vec_ck[h] = x_ch[k]        (ch = coherent_index(h))
     They are functions of the matrix at the time of the snapshot, hence are not affected by
     the later assignments of the iteration. *)
  Definition snap_k (m : mat) (k : nat) : nat -> N :=
    fun h => if (h <? k + 2)%nat then m k h else m (cidx h) (S k).
  Definition snap_ck (m : mat) (k : nat) : nat -> N :=
    fun h => if (h <? k + 2)%nat then m (S k) h else m (cidx h) k.

  (* one (half) iteration of the unrolled j loop:
       add_assign_r(sum1, vec_ck_ci, vec_k[j], ROUND_UP); add_assign_r(sum2, vec_k_ci, vec_ck[j], ROUND_UP);
       min_assign(sum1, sum2); min_assign( *iter_ij, sum1);                                         *)
  Definition fw_cell (vk vck : nat -> N) (i : nat) (m : mat) (j : nat) : mat :=
    let ci := cidx i in
    let sum1 := xadd C (vck ci) (vk j) in
    let sum2 := xadd C (vk ci) (vck j) in
    mupd m i j (xmin C (m i j) (xmin C sum1 sum2)).
  (* the unrolled loop  for (j = 0; j <= i; ) { ..; ++j; ..; ++j; }  visits j = 0 .. row_size(i) - 1 *)
  Definition fw_row (vk vck : nat -> N) (m : mat) (i : nat) : mat :=
    fold_left (fw_cell vk vck i) (seq 0 (row_size i)) m.
  Definition fw_k (n : nat) (m : mat) (k : nat) : mat :=
    fold_left (fw_row (snap_k m k) (snap_ck m k)) (seq 0 (2 * n)) m.
  Definition fw_pass (n : nat) (m : mat) : mat := fold_left (fw_k n) (evens n) m.
  (* for (int twice = 0; twice < 2; ++twice) *)
  Definition oct_fw_loops (n : nat) (m : mat) : mat := fw_pass n (fw_pass n m).

  Definition oct_has_neg_diag (n : nat) (m : mat) : bool :=
    existsb (fun i => xneg_sign C (m i i)) (seq 0 (2 * n)).

  (* ---- strong_coherence_assign (templates.hh:2699-2729) ----
     x_i_ci is a reference into the row being modified and matrix[cj][j] is read from the
     current matrix: both are read again at every iteration.  The test !is_plus_infinity(x_i_ci)
     made once before the j loop is kept in [sc_row]; repeating it inside [sc_body] is harmless
     (a finite entry stays finite under min_assign). *)
  Definition sc_body (i : nat) (m : mat) (j : nat) : mat :=
    if Nat.eqb i j then m else
    match m i (cidx i) with
    | PInf => m
    | Fin a => match m (cidx j) j with
               | PInf => m
               | Fin b =>
                 let semi_sum := match add_up C a b with Fin s => half_up C s | PInf => PInf end in
                 mupd m i j (xmin C (m i j) semi_sum)
               end
    end.
  Definition sc_row (m : mat) (i : nat) : mat :=
    if is_pinf (m i (cidx i)) then m else fold_left (sc_body i) (seq 0 (row_size i)) m.
  Definition strong_coherence (n : nat) (m : mat) : mat := fold_left sc_row (seq 0 (2 * n)) m.

  (* None = the octagon has been found empty (set_empty()) *)
  Definition strong_closure (n : nat) (m : mat) : option mat :=
    let m1 := oct_fw_loops n (oct_fill_diag n (Fin (czero C)) m) in
    if oct_has_neg_diag n m1 then None
    else Some (strong_coherence n (oct_fill_diag n PInf m1)).

  (* ---- is_strong_coherent (templates.hh:1595-1629), the check made by OK() ---- *)
  Definition oct_is_strong_coherent (n : nat) (m : mat) : bool :=
    forallb (fun i => forallb (fun j =>
      if Nat.eqb i j then true else
      match m i (cidx i), m (cidx j) j with
      | Fin a, Fin b =>
        negb (xlt C (match add_up C a b with Fin s => half_up C s | PInf => PInf end) (m i j))
      | _, _ => true
      end) (rev (seq 0 (row_size i)))) (rev (seq 0 (2 * n))).

  (* ---- incremental_strong_closure_assign(var), v = 2 * var.id()  (templates.hh:2781-2922) ----
     cells are accessed as (j < rs_i) ? x_i[j] : x_cj[ci], i.e. through the full view, for
     reading and for writing *)
  Definition fset (m : mat) (i j : nat) (x : N) : mat :=
    if stored i j then mupd m i j x else mupd m (cidx j) (cidx i) x.
  (* if a, b finite: sum = a + b (ROUND_UP); min_assign(cell(i, j), sum) *)
  Definition relax (m : mat) (i j : nat) (a b : N) : mat :=
    match a, b with
    | Fin a', Fin b' => fset m i j (xmin C (full m i j) (add_up C a' b'))
    | _, _ => m
    end.
  Definition inc1_body (v k : nat) (m : mat) (i : nat) : mat :=
    let cv := S v in
    let m1 := relax m i v (full m i k) (full m k v) in
    let m2 := relax m1 i cv (full m1 i k) (full m1 k cv) in
    let m3 := relax m2 v i (full m2 v k) (full m2 k i) in
    relax m3 cv i (full m3 cv k) (full m3 k i).
  Definition inc1 (n v : nat) (m : mat) (k : nat) : mat := fold_left (inc1_body v k) (seq 0 (2 * n)) m.
  Definition inc2_body (v i : nat) (m : mat) (j : nat) : mat :=
    let cv := S v in
    let m1 := relax m i j (full m i v) (full m v j) in
    relax m1 i j (full m1 i cv) (full m1 cv j).
  Definition inc2 (n v : nat) (m : mat) (i : nat) : mat := fold_left (inc2_body v i) (seq 0 (2 * n)) m.
  Definition oct_inc_loops (n v : nat) (m : mat) : mat :=
    fold_left (inc2 n v) (seq 0 (2 * n)) (fold_left (inc1 n v) (seq 0 (2 * n)) m).
  Definition incremental_strong_closure (n v : nat) (m : mat) : option mat :=
    let m1 := oct_inc_loops n v (oct_fill_diag n (Fin (czero C)) m) in
    if oct_has_neg_diag n m1 then None
    else Some (strong_coherence n (oct_fill_diag n PInf m1)).

  (* ---- add_octagonal_constraint(i, j, k): if (r_i_j > k) r_i_j = k  (inlines.hh:399-415) ---- *)
  Definition oct_add_constraint (m : mat) (i j : nat) (k : N) : mat :=
    if xlt C k (m i j) then mupd m i j k else m.
  (* add_octagonal_constraint(i, j, numer, denom): div_round_up then the above (inlines.hh:419-434) *)
  Definition oct_add_constraint_q (m : mat) (i j : nat) (num den : Z) : mat :=
    oct_add_constraint m i j (div_up C num den).

  (* ---- intersection_assign: if (y_elem < elem) elem = y_elem  (templates.hh:3765-3803);
          upper_bound_assign: max_assign(elem, y_elem) on strongly closed operands (3196-3225) ---- *)
  Definition oct_meet (x y : mat) : mat := fun i j => if xlt C (y i j) (x i j) then y i j else x i j.
  Definition oct_join (x y : mat) : mat := fun i j => xmax C (x i j) (y i j).

  (* ---- forget_all_octagonal_constraints(v_id) (templates.hh:4421-4440): the rows 2v, 2v+1 are
          filled with +infinity, and so are the columns 2v, 2v+1 of the following rows; on the
          stored cells this is: every cell with i/2 = v or j/2 = v ---- *)
  Definition oct_forget (v : nat) (m : mat) : mat :=
    fun a b => if (Nat.eqb (Nat.div2 a) v || Nat.eqb (Nat.div2 b) v)%bool then PInf else m a b.

  (* ---- contains (templates.hh:1194-1231): element-wise, no element of x is < the one of y ---- *)
  Definition all_stored (n : nat) (f : nat -> nat -> bool) : bool :=
    forallb (fun i => forallb (fun j => f i j) (seq 0 (row_size i))) (seq 0 (2 * n)).
  Definition oct_code_contains (n : nat) (x y : mat) : bool :=
    all_stored n (fun i j => negb (xlt C (x i j) (y i j))).
  Definition oct_code_equal (n : nat) (x y : mat) : bool :=
    all_stored n (fun i j => negb (xlt C (x i j) (y i j)) && negb (xlt C (y i j) (x i j)))%bool.

  (* ---- is_disjoint_from (templates.hh:1235-1286), as written:
       m_i_j   = (j < rs_i) ? m_i[j]    : m_cj[ci];
       y_ci_cj = (j < rs_i) ? y_ci[cj]  : y_j[i];
       neg_assign_r(neg_y_ci_cj, y_ci_cj, ROUND_UP);  if (m_i_j < neg_y_ci_cj) return true;
     (the negation of +infinity is -infinity: the comparison is then false) ---- *)
  Definition oct_code_is_disjoint (n : nat) (x y : mat) : bool :=
    existsb (fun i => existsb (fun j =>
      let m_i_j := if stored i j then x i j else x (cidx j) (cidx i) in
      let y_ci_cj := if stored i j then y (cidx i) (cidx j) else y j i in
      match y_ci_cj with PInf => false | Fin b => xlt C m_i_j (neg_up C b) end)
      (seq 0 (2 * n))) (seq 0 (2 * n)).

  (* ================= basic facts ================= *)

  Definition deq (n : nat) (m m' : mat) : Prop := forall p, den_oct n m p <-> den_oct n m' p.
  Lemma deq_refl n m : deq n m m.
  Proof. intros p. tauto. Qed.
  Lemma deq_trans n a b c : deq n a b -> deq n b c -> deq n a c.
  Proof. intros H1 H2 p. rewrite (H1 p). apply H2. Qed.

  Lemma fold_deq {A} n (f : mat -> A -> mat) (l : list A) m0 :
    (forall m a, In a l -> deq n m0 m -> deq n m0 (f m a)) ->
    forall m, deq n m0 m -> deq n m0 (fold_left f l m).
  Proof.
    induction l as [|a l IH]; intros Hf m Hm; cbn [fold_left]; [exact Hm|].
    apply IH.
    - intros m' a' Hin. apply Hf. right. exact Hin.
    - apply Hf; [left; reflexivity|exact Hm].
  Qed.

  Lemma bnd_cidx p i j x : bnd p (cidx j) (cidx i) x <-> bnd p i j x.
  Proof.
    unfold bnd. pose proof (sv_cidx p i). pose proof (sv_cidx p j).
    destruct (xv C x); cbn [qle]; [|tauto]. split; intros; lra.
  Qed.

  Lemma den_full n m p i j :
    den_oct n m p -> (i < 2 * n)%nat -> (j < 2 * n)%nat -> bnd p i j (full m i j).
  Proof.
    intros H Hi Hj. unfold full. destruct (stored i j) eqn:E.
    - apply H; assumption.
    - apply bnd_cidx. apply H; [apply cidx_lt; exact Hj|apply cidx_lt; exact Hi|apply stored_cidx; exact E].
  Qed.

  (* the generic assignment  min_assign(m[i][j], s)  with s a bound of V_j - V_i on the denotation *)
  Lemma upd_min_deq n m i j s :
    (forall p, den_oct n m p -> bnd p i j s) -> deq n m (mupd m i j (xmin C (m i j) s)).
  Proof.
    intros Hs p. split; intros H a b Ha Hb Hst.
    - destruct (Nat.eq_dec a i) as [->|Na]; [destruct (Nat.eq_dec b j) as [->|Nb]|].
      + rewrite mupd_same. apply xmin_glb; [apply H; assumption|apply Hs; exact H].
      + rewrite mupd_other by (right; exact Nb). apply H; assumption.
      + rewrite mupd_other by (left; exact Na). apply H; assumption.
    - specialize (H a b Ha Hb Hst).
      destruct (Nat.eq_dec a i) as [->|Na]; [destruct (Nat.eq_dec b j) as [->|Nb]|].
      + rewrite mupd_same in H. eapply qle_trans; [exact H|apply xmin_le_l].
      + rewrite mupd_other in H by (right; exact Nb). exact H.
      + rewrite mupd_other in H by (left; exact Na). exact H.
  Qed.

  Lemma bnd_xadd p i j q1 q2 x y :
    qle q1 (xv C x) -> qle q2 (xv C y) -> q1 + q2 == sv p j - sv p i -> bnd p i j (xadd C x y).
  Proof.
    intros H1 H2 E. unfold bnd. eapply qle_trans; [|apply xadd_ok].
    eapply qle_mono; [|apply qle_oadd; [exact H1|exact H2]]. lra.
  Qed.

  Lemma bnd_semi_sum p i j a b :
    sv p (cidx i) - sv p i <= val C a -> sv p j - sv p (cidx j) <= val C b ->
    bnd p i j (match add_up C a b with Fin s => half_up C s | PInf => PInf end).
  Proof.
    intros H1 H2. unfold bnd. pose proof (sv_cidx p i). pose proof (sv_cidx p j).
    pose proof (add_up_ok C a b) as Ha. destruct (add_up C a b) as [s|]; [|exact I].
    pose proof (half_up_ok C s) as Hh. destruct (half_up C s) as [t|]; [|exact I].
    cbn [qle xv] in *. change (val C s / 2) with (val C s * (1 # 2)) in Hh. lra.
  Qed.

  Lemma xneg_false x : xneg_sign C x = false -> qle 0 (xv C x).
  Proof.
    destruct x as [t|]; cbn [xneg_sign xv qle]; [|trivial]. intros H.
    destruct (Qlt_le_dec (val C t) 0) as [L|L]; [|exact L]. apply (cneg_ok C) in L. congruence.
  Qed.

  (* ---- the diagonal ---- *)
  Lemma fill_list_spec l v (m : mat) a b :
    fold_left (fun m h => mupd m h h v) l m a b
    = if (Nat.eqb a b && existsb (Nat.eqb a) l)%bool then v else m a b.
  Proof.
    revert m. induction l as [|x l IH]; intros m; cbn [fold_left existsb].
    - now rewrite andb_false_r.
    - rewrite IH. unfold mupd.
      destruct (Nat.eqb_spec a b) as [->|Nab]; cbn [andb].
      + destruct (Nat.eqb b x), (existsb (Nat.eqb b) l); reflexivity.
      + destruct (Nat.eqb_spec a x), (Nat.eqb_spec b x); cbn [andb]; try reflexivity. congruence.
  Qed.
  Lemma fill_diag_spec n v m a b :
    (a < 2 * n)%nat -> oct_fill_diag n v m a b = if Nat.eqb a b then v else m a b.
  Proof.
    intros Ha. unfold oct_fill_diag. rewrite fill_list_spec.
    assert (E : existsb (Nat.eqb a) (seq 0 (2 * n)) = true).
    { apply existsb_exists. exists a. split; [apply in_seq; lia|apply Nat.eqb_refl]. }
    rewrite E, andb_true_r. reflexivity.
  Qed.

  Lemma fill_deq n v m : qle 0 (xv C v) -> oct_diag_ok n m -> deq n m (oct_fill_diag n v m).
  Proof.
    intros Hv Hd p. split; intros H a b Ha Hb Hst.
    - rewrite fill_diag_spec by exact Ha. destruct (Nat.eqb_spec a b) as [->|Nab].
      + apply (qle_mono 0); [lra|exact Hv].
      + apply H; assumption.
    - specialize (H a b Ha Hb Hst). rewrite fill_diag_spec in H by exact Ha.
      destruct (Nat.eqb_spec a b) as [->|Nab]; [|exact H].
      apply (qle_mono 0); [lra|]. apply xneg_false. apply Hd. exact Hb.
  Qed.

  Lemma neg_diag_empty n m p : oct_has_neg_diag n m = true -> ~ den_oct n m p.
  Proof.
    unfold oct_has_neg_diag. rewrite existsb_exists. intros [i [Hi Hn]] H.
    apply in_seq in Hi. apply xneg_sign_spec in Hn. destruct Hn as [v [Ev Hv]].
    assert (Hi' : (i < 2 * n)%nat) by lia.
    specialize (H i i Hi' Hi' (stored_diag i)). rewrite Ev in H. cbn [qle] in H. lra.
  Qed.
  Lemma no_neg_diag_ok n m : oct_has_neg_diag n m = false -> oct_diag_ok n m.
  Proof.
    intros H i Hi. destruct (xneg_sign C (m i i)) eqn:E; [|reflexivity].
    assert (X : oct_has_neg_diag n m = true).
    { apply existsb_exists. exists i. split; [apply in_seq; lia|exact E]. }
    congruence.
  Qed.

  (* ---- the Floyd-Warshall loops ---- *)
  Lemma snap_k_full m k h : Nat.even k = true -> snap_k m k h = full m k h.
  Proof.
    intros E. unfold snap_k, full, stored. rewrite (row_size_even k E), (cidx_even_S k E). reflexivity.
  Qed.
  Lemma snap_ck_full m k h : Nat.even k = true -> snap_ck m k h = full m (S k) h.
  Proof.
    intros E. unfold snap_ck, full, stored. rewrite (row_size_S_even k E), (cidx_S_even k E). reflexivity.
  Qed.

  Lemma fw_cell_deq n m0 vk vck k i j m :
    Nat.even k = true ->
    (forall p h, den_oct n m0 p -> (h < 2 * n)%nat -> bnd p k h (vk h)) ->
    (forall p h, den_oct n m0 p -> (h < 2 * n)%nat -> bnd p (S k) h (vck h)) ->
    (i < 2 * n)%nat -> (j < 2 * n)%nat -> deq n m0 m -> deq n m0 (fw_cell vk vck i m j).
  Proof.
    intros Ek Hk Hck Hi Hj Hm. eapply deq_trans; [exact Hm|]. unfold fw_cell. apply upd_min_deq.
    intros p Hp. apply Hm in Hp. pose proof (cidx_lt n i Hi) as Hci.
    pose proof (Hk p (cidx i) Hp Hci) as A1. pose proof (Hk p j Hp Hj) as A2.
    pose proof (Hck p (cidx i) Hp Hci) as B1. pose proof (Hck p j Hp Hj) as B2.
    pose proof (sv_cidx p i) as Si. pose proof (sv_S_even p k Ek) as Sk.
    unfold bnd. apply xmin_glb.
    - apply (bnd_xadd p i j _ _ _ _ B1 A2). lra.
    - apply (bnd_xadd p i j _ _ _ _ A1 B2). lra.
  Qed.

  Lemma fw_k_deq n m0 m k :
    Nat.even k = true -> (k < 2 * n)%nat -> deq n m0 m -> deq n m0 (fw_k n m k).
  Proof.
    intros Ek Hk Hm. eapply deq_trans; [exact Hm|]. unfold fw_k.
    assert (HSk : (S k < 2 * n)%nat) by (par k; [lia|congruence]).
    apply fold_deq; [|apply deq_refl]. intros m1 i Hi Hm1. apply in_seq in Hi.
    unfold fw_row. apply fold_deq; [|exact Hm1]. intros m2 j Hj Hm2. apply in_seq in Hj.
    assert (Hi' : (i < 2 * n)%nat) by lia. pose proof (row_size_le n i Hi').
    apply (fw_cell_deq n m (snap_k m k) (snap_ck m k) k); try assumption; try lia.
    - intros p h Hp Hh. rewrite snap_k_full by exact Ek. apply (den_full n m p k h); assumption.
    - intros p h Hp Hh. rewrite snap_ck_full by exact Ek. apply (den_full n m p (S k) h); assumption.
  Qed.

  Lemma fw_pass_deq n m0 m : deq n m0 m -> deq n m0 (fw_pass n m).
  Proof.
    intros Hm. unfold fw_pass. apply fold_deq; [|exact Hm]. intros m1 k Hk Hm1.
    apply in_evens in Hk. destruct Hk as [Ek Hk]. apply fw_k_deq; assumption.
  Qed.

  Lemma oct_fw_loops_deq n m : deq n m (oct_fw_loops n m).
  Proof. unfold oct_fw_loops. apply fw_pass_deq, fw_pass_deq, deq_refl. Qed.

  (* ---- strong coherence ---- *)
  Lemma sc_body_deq n m0 i j m :
    (i < 2 * n)%nat -> (j < 2 * n)%nat -> deq n m0 m -> deq n m0 (sc_body i m j).
  Proof.
    intros Hi Hj Hm. unfold sc_body. destruct (Nat.eqb i j); [exact Hm|].
    destruct (m i (cidx i)) as [a|] eqn:Ea; [|exact Hm].
    destruct (m (cidx j) j) as [b|] eqn:Eb; [|exact Hm].
    eapply deq_trans; [exact Hm|]. apply upd_min_deq. intros p Hp.
    pose proof (Hp i (cidx i) Hi (cidx_lt n i Hi) (stored_i_ci i)) as H1.
    pose proof (Hp (cidx j) j (cidx_lt n j Hj) Hj (stored_cj_j j)) as H2.
    rewrite Ea in H1. rewrite Eb in H2. cbn [xv qle] in H1, H2.
    apply bnd_semi_sum; assumption.
  Qed.

  Lemma strong_coherence_deq n m : deq n m (strong_coherence n m).
  Proof.
    unfold strong_coherence. apply fold_deq; [|apply deq_refl]. intros m1 i Hi Hm1. apply in_seq in Hi.
    unfold sc_row. destruct (is_pinf (m1 i (cidx i))); [exact Hm1|].
    apply fold_deq; [|exact Hm1]. intros m2 j Hj Hm2. apply in_seq in Hj.
    assert (Hi' : (i < 2 * n)%nat) by lia. pose proof (row_size_le n i Hi').
    apply sc_body_deq; try assumption; lia.
  Qed.

  (* ================= THEOREMS (any carrier: C03) ================= *)

  Theorem strong_closure_sound n m m' :
    oct_diag_ok n m -> strong_closure n m = Some m' -> forall p, den_oct n m p <-> den_oct n m' p.
  Proof.
    intros Hd. unfold strong_closure.
    set (m1 := oct_fw_loops n (oct_fill_diag n (Fin (czero C)) m)).
    destruct (oct_has_neg_diag n m1) eqn:E; [discriminate|]. intros [= <-].
    assert (H1 : deq n m m1).
    { eapply deq_trans; [|apply oct_fw_loops_deq]. apply fill_deq; [|exact Hd].
      cbn [xv qle]. rewrite (czero_ok C). lra. }
    eapply deq_trans; [exact H1|]. eapply deq_trans; [|apply strong_coherence_deq].
    apply fill_deq; [exact I|]. apply no_neg_diag_ok. exact E.
  Qed.

  Theorem strong_closure_empty_sound n m :
    oct_diag_ok n m -> strong_closure n m = None -> forall p, ~ den_oct n m p.
  Proof.
    intros Hd. unfold strong_closure.
    set (m1 := oct_fw_loops n (oct_fill_diag n (Fin (czero C)) m)).
    destruct (oct_has_neg_diag n m1) eqn:E; [|discriminate]. intros _ p Hp.
    apply (neg_diag_empty n m1 p E).
    assert (H1 : deq n m m1).
    { eapply deq_trans; [|apply oct_fw_loops_deq]. apply fill_deq; [|exact Hd].
      cbn [xv qle]. rewrite (czero_ok C). lra. }
    apply H1. exact Hp.
  Qed.

  (* the result of the closure keeps a non-negative (indeed +infinity) diagonal *)
  Lemma strong_coherence_diag n m i : strong_coherence n m i i = m i i.
  Proof.
    unfold strong_coherence. generalize (seq 0 (2 * n)). intros l. revert m.
    induction l as [|a l IH]; intros m; cbn [fold_left]; [reflexivity|]. rewrite IH.
    unfold sc_row. destruct (is_pinf (m a (cidx a))); [reflexivity|].
    generalize (seq 0 (row_size a)). intros l'. revert m. clear IH.
    induction l' as [|b l' IH']; intros m; cbn [fold_left]; [reflexivity|]. rewrite IH'.
    unfold sc_body. destruct (Nat.eqb_spec a b) as [->|Nab]; [reflexivity|].
    destruct (m a (cidx a)); [|reflexivity]. destruct (m (cidx b) b); [|reflexivity].
    apply mupd_other. lia.
  Qed.

  Theorem strong_closure_diag n m m' :
    strong_closure n m = Some m' -> forall i, (i < 2 * n)%nat -> m' i i = PInf.
  Proof.
    unfold strong_closure. destruct (oct_has_neg_diag n _); [discriminate|]. intros [= <-] i Hi.
    rewrite strong_coherence_diag, fill_diag_spec by exact Hi. now rewrite Nat.eqb_refl.
  Qed.

  (* ---- meet, join, forget, refine ---- *)
  Theorem oct_meet_sound n x y p : den_oct n (oct_meet x y) p <-> den_oct n x p /\ den_oct n y p.
  Proof.
    unfold oct_meet. split.
    - intros H. split; intros i j Hi Hj Hs; specialize (H i j Hi Hj Hs); cbn beta in H.
      + eapply qle_trans; [exact H|]. apply (xmin_le_l C (x i j) (y i j)).
      + eapply qle_trans; [exact H|]. apply (xmin_le_r C (x i j) (y i j)).
    - intros [Hx Hy] i j Hi Hj Hs. apply (xmin_glb C _ (x i j) (y i j)); [apply Hx|apply Hy]; assumption.
  Qed.

  Theorem oct_join_sound n x y p : den_oct n x p \/ den_oct n y p -> den_oct n (oct_join x y) p.
  Proof.
    unfold oct_join. intros [H|H] i j Hi Hj Hs; specialize (H i j Hi Hj Hs).
    - eapply qle_trans; [exact H|apply xmax_ge_l].
    - eapply qle_trans; [exact H|apply xmax_ge_r].
  Qed.

  Theorem oct_forget_sound n v m p w : den_oct n m p -> den_oct n (oct_forget v m) (pupd p v w).
  Proof.
    intros H a b Ha Hb Hs. unfold oct_forget.
    destruct (Nat.eqb (Nat.div2 a) v) eqn:Ea; [exact I|].
    destruct (Nat.eqb (Nat.div2 b) v) eqn:Eb; [exact I|]. cbn [orb].
    assert (Sa : sv (pupd p v w) a = sv p a) by (unfold sv, pupd; now rewrite Ea).
    assert (Sb : sv (pupd p v w) b = sv p b) by (unfold sv, pupd; now rewrite Eb).
    rewrite Sa, Sb. apply H; assumption.
  Qed.

  (* the cells of the other variables are untouched: nothing else is lost *)
  Theorem oct_forget_other v m a b :
    Nat.div2 a <> v -> Nat.div2 b <> v -> oct_forget v m a b = m a b.
  Proof.
    intros Ha Hb. unfold oct_forget. apply Nat.eqb_neq in Ha, Hb. now rewrite Ha, Hb.
  Qed.

  Theorem oct_add_constraint_sound n m i j k p :
    (i < 2 * n)%nat -> (j < 2 * n)%nat -> stored i j = true ->
    (den_oct n (oct_add_constraint m i j k) p <-> den_oct n m p /\ bnd p i j k).
  Proof.
    intros Hi Hj Hs. unfold oct_add_constraint. destruct (xlt C k (m i j)) eqn:E.
    - assert (Hle : ole (xv C k) (xv C (m i j))).
      { pose proof (xmin_le_l C (m i j) k) as X. unfold xmin in X. now rewrite E in X. }
      split.
      + intros H. split.
        * intros a b Ha Hb Hst. specialize (H a b Ha Hb Hst).
          destruct (Nat.eq_dec a i) as [->|Na]; [destruct (Nat.eq_dec b j) as [->|Nb]|].
          -- rewrite mupd_same in H. eapply qle_trans; [exact H|exact Hle].
          -- rewrite mupd_other in H by (right; exact Nb). exact H.
          -- rewrite mupd_other in H by (left; exact Na). exact H.
        * specialize (H i j Hi Hj Hs). rewrite mupd_same in H. exact H.
      + intros [H Hk] a b Ha Hb Hst.
        destruct (Nat.eq_dec a i) as [->|Na]; [destruct (Nat.eq_dec b j) as [->|Nb]|].
        * rewrite mupd_same. exact Hk.
        * rewrite mupd_other by (right; exact Nb). apply H; assumption.
        * rewrite mupd_other by (left; exact Na). apply H; assumption.
    - apply xlt_false in E. split.
      + intros H. split; [exact H|]. unfold bnd. eapply qle_trans; [|exact E]. apply H; assumption.
      + tauto.
  Qed.

  (* refinement with a bound num/den rounded upwards: every point of the octagon satisfying the
     exact constraint  V_j - V_i <= num/den  is kept, and the result is included in the operand *)
  Theorem oct_refine_sound n m i j num den p :
    (i < 2 * n)%nat -> (j < 2 * n)%nat -> stored i j = true -> den <> 0%Z ->
    den_oct n m p -> sv p j - sv p i <= inject_Z num / inject_Z den ->
    den_oct n (oct_add_constraint_q m i j num den) p.
  Proof.
    intros Hi Hj Hs Hden H Hc. unfold oct_add_constraint_q.
    apply oct_add_constraint_sound; try assumption. split; [exact H|].
    unfold bnd. pose proof (div_up_ok C num den Hden) as X. unfold xv.
    destruct (div_up C num den) as [t|]; cbn [qle] in *; [lra|exact I].
  Qed.
  Theorem oct_refine_tightens n m i j num den p :
    (i < 2 * n)%nat -> (j < 2 * n)%nat -> stored i j = true ->
    den_oct n (oct_add_constraint_q m i j num den) p -> den_oct n m p.
  Proof.
    intros Hi Hj Hs H. unfold oct_add_constraint_q in H.
    apply oct_add_constraint_sound in H; try assumption. tauto.
  Qed.

  (* ---- contains, is_disjoint_from ---- *)
  Lemma all_stored_spec n f :
    all_stored n f = true <->
    forall i j, (i < 2 * n)%nat -> stored i j = true -> f i j = true.
  Proof.
    unfold all_stored, stored. rewrite forallb_forall. split.
    - intros H i j Hi Hj. apply Nat.ltb_lt in Hj.
      assert (Hin : In i (seq 0 (2 * n))) by (apply in_seq; lia).
      specialize (H i Hin). rewrite forallb_forall in H. apply H. apply in_seq. lia.
    - intros H i Hi. apply in_seq in Hi. apply forallb_forall. intros j Hj. apply in_seq in Hj.
      apply H; [lia|]. apply Nat.ltb_lt. lia.
  Qed.

  Theorem oct_contains_sound n x y :
    oct_code_contains n x y = true -> forall p, den_oct n y p -> den_oct n x p.
  Proof.
    unfold oct_code_contains. rewrite all_stored_spec. intros H p Hy i j Hi Hj Hs.
    specialize (H i j Hi Hs). apply negb_true_iff in H. apply xlt_false in H.
    eapply qle_trans; [|exact H]. apply Hy; assumption.
  Qed.

  Theorem oct_equal_sound n x y :
    oct_code_equal n x y = true -> forall p, den_oct n x p <-> den_oct n y p.
  Proof.
    unfold oct_code_equal. rewrite all_stored_spec. intros H p.
    split; intros Hd i j Hi Hj Hs; specialize (H i j Hi Hs); apply andb_true_iff in H;
      destruct H as [H1 H2]; apply negb_true_iff in H1, H2; apply xlt_false in H1, H2;
      (eapply qle_trans; [apply Hd; assumption|assumption]).
  Qed.

  Theorem oct_disjoint_sound n x y :
    neg_exact C -> oct_code_is_disjoint n x y = true ->
    forall p, den_oct n x p -> den_oct n y p -> False.
  Proof.
    intros Hneg H p Hx Hy. unfold oct_code_is_disjoint in H.
    apply existsb_exists in H. destruct H as [i [Hi H]].
    apply existsb_exists in H. destruct H as [j [Hj H]].
    apply in_seq in Hi, Hj. assert (Hi' : (i < 2 * n)%nat) by lia. assert (Hj' : (j < 2 * n)%nat) by lia.
    pose proof (den_full n x p i j Hx Hi' Hj') as Bx. unfold full in Bx.
    assert (By : bnd p j i (if stored i j then y (cidx i) (cidx j) else y j i)).
    { destruct (stored i j) eqn:E.
      - apply bnd_cidx. apply Hy; [apply cidx_lt; exact Hi'|apply cidx_lt; exact Hj'|].
        apply stored_ci_cj. exact E.
      - apply Hy; try assumption. apply stored_lt. apply stored_false_lt in E. lia. }
    cbv zeta in H.
    destruct (if stored i j then y (cidx i) (cidx j) else y j i) as [b|]; [|discriminate].
    destruct (Hneg b) as [t [Et Vt]]. rewrite Et in H. apply xlt_spec in H. apply H. clear H.
    unfold bnd in Bx, By. cbn [xv qle] in By |- *.
    destruct (xv C (if stored i j then x i j else x (cidx j) (cidx i))) as [a|]; cbn [ole qle] in *; [|exact I].
    lra.
  Qed.

  (* ---- the incremental closure ---- *)
  Lemma relax_deq n m0 m i j a b :
    deq n m0 m ->
    (forall p, den_oct n m p ->
       exists q1 q2, qle q1 (xv C a) /\ qle q2 (xv C b) /\ q1 + q2 == sv p j - sv p i) ->
    deq n m0 (relax m i j a b).
  Proof.
    intros Hm Hab. unfold relax. destruct a as [a'|]; [|exact Hm]. destruct b as [b'|]; [|exact Hm].
    eapply deq_trans; [exact Hm|].
    assert (Hs : forall p, den_oct n m p -> bnd p i j (add_up C a' b')).
    { intros p Hp. destruct (Hab p Hp) as [q1 [q2 [H1 [H2 E]]]].
      change (add_up C a' b') with (xadd C (Fin a') (Fin b')). exact (bnd_xadd p i j q1 q2 _ _ H1 H2 E). }
    unfold fset, full. destruct (stored i j).
    - apply upd_min_deq. exact Hs.
    - apply upd_min_deq. intros p Hp. apply bnd_cidx. apply Hs. exact Hp.
  Qed.

  Lemma relax_full_deq n m0 m i j k :
    (i < 2 * n)%nat -> (j < 2 * n)%nat -> (k < 2 * n)%nat ->
    deq n m0 m -> deq n m0 (relax m i j (full m i k) (full m k j)).
  Proof.
    intros Hi Hj Hk Hm. apply relax_deq; [exact Hm|]. intros p Hp.
    exists (sv p k - sv p i), (sv p j - sv p k).
    split; [apply (den_full n m p i k Hp Hi Hk)|]. split; [apply (den_full n m p k j Hp Hk Hj)|]. lra.
  Qed.

  Lemma oct_inc_loops_deq n v m : (S v < 2 * n)%nat -> deq n m (oct_inc_loops n v m).
  Proof.
    intros Hv. assert (Hv' : (v < 2 * n)%nat) by lia. unfold oct_inc_loops.
    apply fold_deq.
    - intros m1 i Hi Hm1. apply in_seq in Hi. unfold inc2. apply fold_deq; [|exact Hm1].
      intros m2 j Hj Hm2. apply in_seq in Hj. unfold inc2_body. cbv zeta.
      apply relax_full_deq; try lia. apply relax_full_deq; try lia. exact Hm2.
    - apply fold_deq; [|apply deq_refl]. intros m1 k Hk Hm1. apply in_seq in Hk.
      unfold inc1. apply fold_deq; [|exact Hm1]. intros m2 i Hi Hm2. apply in_seq in Hi.
      unfold inc1_body. cbv zeta.
      apply relax_full_deq; try lia. apply relax_full_deq; try lia.
      apply relax_full_deq; try lia. apply relax_full_deq; try lia. exact Hm2.
  Qed.

  (* the common frame of the two closures *)
  Lemma closure_frame_sound n (loops : mat -> mat) m m' :
    (forall m, deq n m (loops m)) -> oct_diag_ok n m ->
    (let m1 := loops (oct_fill_diag n (Fin (czero C)) m) in
     if oct_has_neg_diag n m1 then None else Some (strong_coherence n (oct_fill_diag n PInf m1))) = Some m' ->
    deq n m m'.
  Proof.
    intros Hl Hd. cbv zeta. set (m1 := loops (oct_fill_diag n (Fin (czero C)) m)).
    destruct (oct_has_neg_diag n m1) eqn:E; [discriminate|]. intros [= <-].
    assert (H1 : deq n m m1).
    { eapply deq_trans; [|apply Hl]. apply fill_deq; [|exact Hd].
      cbn [xv qle]. rewrite (czero_ok C). lra. }
    eapply deq_trans; [exact H1|]. eapply deq_trans; [|apply strong_coherence_deq].
    apply fill_deq; [exact I|]. apply no_neg_diag_ok. exact E.
  Qed.
  Lemma closure_frame_empty n (loops : mat -> mat) m :
    (forall m, deq n m (loops m)) -> oct_diag_ok n m ->
    (let m1 := loops (oct_fill_diag n (Fin (czero C)) m) in
     if oct_has_neg_diag n m1 then None else Some (strong_coherence n (oct_fill_diag n PInf m1))) = None ->
    forall p, ~ den_oct n m p.
  Proof.
    intros Hl Hd. cbv zeta. set (m1 := loops (oct_fill_diag n (Fin (czero C)) m)).
    destruct (oct_has_neg_diag n m1) eqn:E; [|discriminate]. intros _ p Hp.
    apply (neg_diag_empty n m1 p E).
    assert (H1 : deq n m m1).
    { eapply deq_trans; [|apply Hl]. apply fill_deq; [|exact Hd].
      cbn [xv qle]. rewrite (czero_ok C). lra. }
    apply H1. exact Hp.
  Qed.

  Theorem incremental_strong_closure_sound n v m m' :
    (S v < 2 * n)%nat -> oct_diag_ok n m -> incremental_strong_closure n v m = Some m' ->
    forall p, den_oct n m p <-> den_oct n m' p.
  Proof.
    intros Hv Hd H. apply (closure_frame_sound n (oct_inc_loops n v)); try assumption.
    intros m0. apply oct_inc_loops_deq. exact Hv.
  Qed.
  Theorem incremental_strong_closure_empty_sound n v m :
    (S v < 2 * n)%nat -> oct_diag_ok n m -> incremental_strong_closure n v m = None ->
    forall p, ~ den_oct n m p.
  Proof.
    intros Hv Hd H. apply (closure_frame_empty n (oct_inc_loops n v)); try assumption.
    intros m0. apply oct_inc_loops_deq. exact Hv.
  Qed.
End Oct.

(* ---------------------------------------------------------------------------------------- *)
(* executable helpers for the judge.
   A dump of the OR_Matrix is the list of its rows, row i having row_size i = (i lor 1) + 1 entries:
   [mat_of_rows] of DBM.v reads it as is (cells outside the rows read +infinity and are never
   looked at by the definitions above, which only access stored cells); [oct_of_rows] is a synonym. *)
Definition oct_of_rows {T} (rows : list (list (ext T))) : nat -> nat -> ext T := mat_of_rows rows.
Definition rows_of_oct {T} (n : nat) (m : nat -> nat -> ext T) : list (list (ext T)) :=
  map (fun i => map (fun j => m i j) (seq 0 (row_size i))) (seq 0 (2 * n)).
Definition oct_universe {T} : nat -> nat -> ext T := fun _ _ => PInf.

Lemma oct_rows_roundtrip {T} n (m : nat -> nat -> ext T) i j :
  (i < 2 * n)%nat -> stored i j = true -> oct_of_rows (rows_of_oct n m) i j = m i j.
Proof.
  intros Hi Hj. unfold stored in Hj. apply Nat.ltb_lt in Hj. unfold oct_of_rows, mat_of_rows, rows_of_oct.
  rewrite (nth_indep _ [] (map (fun j => m 0%nat j) (seq 0 (row_size 0)))) by (rewrite map_length, seq_length; lia).
  rewrite (map_nth (fun i => map (fun j => m i j) (seq 0 (row_size i))) (seq 0 (2 * n)) 0%nat i).
  rewrite seq_nth by lia. cbn [Nat.add].
  rewrite (nth_indep _ PInf (m i 0%nat)) by (rewrite map_length, seq_length; lia).
  rewrite (map_nth (fun j => m i j) (seq 0 (row_size i)) 0%nat j).
  rewrite seq_nth by lia. reflexivity.
Qed.

(* the denotation only looks at the stored cells of the first 2n rows *)
Lemma den_oct_ext {T} (C : carrier T) n (m m' : nat -> nat -> ext T) :
  (forall i j, (i < 2 * n)%nat -> stored i j = true -> m i j = m' i j) ->
  forall p, den_oct C n m p <-> den_oct C n m' p.
Proof.
  intros H p. split; intros Hd i j Hi Hj Hs.
  - rewrite <- H by assumption. apply Hd; assumption.
  - rewrite H by assumption. apply Hd; assumption.
Qed.

(* m is a fixpoint of the model's strong closure (checked with the code's own comparison) *)
Definition oct_closed_b {T} (C : carrier T) (n : nat) (m : nat -> nat -> ext T) : bool :=
  match strong_closure C n m with Some m' => oct_code_equal C n m m' | None => false end.
Definition oct_nonempty_b {T} (C : carrier T) (n : nat) (m : nat -> nat -> ext T) : bool :=
  match strong_closure C n m with Some _ => true | None => false end.

(* ---- whole operations on non-marked-empty operands of dimension n > 0, closures included,
        as the code composes them (None / an empty closure = marked_empty()) ---- *)
Section OctOps.
  Context {T : Type} (C : carrier T).
  Notation mat := (nat -> nat -> ext T).

  (* upper_bound_assign (templates.hh:3196-3225): y.strong_closure_assign(); if y is empty return;
     strong_closure_assign(); if *this is empty, *this = y; else pointwise max.
     The result is the new matrix of *this; [None] = *this is (marked) empty. *)
  Definition oct_upper_bound_op (n : nat) (x y : mat) : option mat :=
    match strong_closure C n y with
    | None => Some x
    | Some y' => match strong_closure C n x with
                 | None => Some y'
                 | Some x' => Some (oct_join C x' y')
                 end
    end.

  (* contains (templates.hh:1194-1231): y.strong_closure_assign(); y empty -> true;
     is_empty() (closes *this) -> false; else the element-wise comparison of the two closed matrices *)
  Definition oct_contains_op (n : nat) (x y : mat) : bool :=
    match strong_closure C n y with
    | None => true
    | Some y' => match strong_closure C n x with
                 | None => false
                 | Some x' => oct_code_contains C n x' y'
                 end
    end.

  (* is_disjoint_from (templates.hh:1235-1286) *)
  Definition oct_is_disjoint_op (n : nat) (x y : mat) : bool :=
    match strong_closure C n x with
    | None => true
    | Some x' => match strong_closure C n y with
                 | None => true
                 | Some y' => oct_code_is_disjoint C n x' y'
                 end
    end.

  Theorem oct_upper_bound_op_sound n x y r p :
    oct_diag_ok C n x -> oct_diag_ok C n y -> oct_upper_bound_op n x y = Some r ->
    den_oct C n x p \/ den_oct C n y p -> den_oct C n r p.
  Proof.
    intros Hx Hy. unfold oct_upper_bound_op.
    destruct (strong_closure C n y) as [y'|] eqn:Ey.
    - destruct (strong_closure C n x) as [x'|] eqn:Ex; intros [= <-] [H|H].
      + apply oct_join_sound. left. apply (strong_closure_sound C n x x' Hx Ex). exact H.
      + apply oct_join_sound. right. apply (strong_closure_sound C n y y' Hy Ey). exact H.
      + exfalso. exact (strong_closure_empty_sound C n x Hx Ex p H).
      + apply (strong_closure_sound C n y y' Hy Ey). exact H.
    - intros [= <-] [H|H]; [exact H|]. exfalso. exact (strong_closure_empty_sound C n y Hy Ey p H).
  Qed.

  Theorem oct_contains_op_sound n x y :
    oct_diag_ok C n x -> oct_diag_ok C n y -> oct_contains_op n x y = true ->
    forall p, den_oct C n y p -> den_oct C n x p.
  Proof.
    intros Hx Hy. unfold oct_contains_op.
    destruct (strong_closure C n y) as [y'|] eqn:Ey.
    - destruct (strong_closure C n x) as [x'|] eqn:Ex; [|discriminate]. intros H p Hp.
      apply (strong_closure_sound C n x x' Hx Ex). apply (oct_contains_sound C n x' y' H).
      apply (strong_closure_sound C n y y' Hy Ey). exact Hp.
    - intros _ p Hp. exfalso. exact (strong_closure_empty_sound C n y Hy Ey p Hp).
  Qed.

  Theorem oct_is_disjoint_op_sound n x y :
    neg_exact C -> oct_diag_ok C n x -> oct_diag_ok C n y -> oct_is_disjoint_op n x y = true ->
    forall p, den_oct C n x p -> den_oct C n y p -> False.
  Proof.
    intros Hn Hx Hy. unfold oct_is_disjoint_op.
    destruct (strong_closure C n x) as [x'|] eqn:Ex.
    - destruct (strong_closure C n y) as [y'|] eqn:Ey.
      + intros H p Px Py. apply (oct_disjoint_sound C n x' y' Hn H p).
        * apply (strong_closure_sound C n x x' Hx Ex). exact Px.
        * apply (strong_closure_sound C n y y' Hy Ey). exact Py.
      + intros _ p _ Py. exact (strong_closure_empty_sound C n y Hy Ey p Py).
    - intros _ p Px _. exact (strong_closure_empty_sound C n x Hx Ex p Px).
  Qed.
End OctOps.

(* row_size(i) = (i lor 1) + 1 *)
Lemma row_size_lor i : row_size i = S (Nat.lor i 1).
Proof.
  assert (T1 : forall a, Nat.testbit 1 (S a) = false).
  { intros a. change 1%nat with (2 * 0 + 1)%nat. rewrite Nat.testbit_odd_succ by lia. apply Nat.bits_0. }
  par i; rewrite Hr; f_equal.
  - (* i = 2k: i lor 1 = 2k + 1 *)
    replace (2 * k + 2)%nat with (S (2 * k + 1)) by lia. f_equal. apply Nat.bits_inj. intros a.
    rewrite Nat.lor_spec, Hk. destruct a as [|a].
    + rewrite Nat.testbit_odd_0, Nat.testbit_even_0. reflexivity.
    + rewrite Nat.testbit_odd_succ, Nat.testbit_even_succ, T1 by lia. now rewrite orb_false_r.
  - replace (2 * k + 2)%nat with (S (2 * k + 1)) by lia. f_equal. apply Nat.bits_inj. intros a.
    rewrite Nat.lor_spec, Hk. destruct a as [|a].
    + rewrite Nat.testbit_odd_0. reflexivity.
    + rewrite Nat.testbit_odd_succ, T1 by lia. now rewrite orb_false_r.
Qed.
Lemma stored_lor i j : stored i j = (j <=? Nat.lor i 1)%nat.
Proof.
  unfold stored. rewrite row_size_lor.
  destruct (Nat.ltb_spec j (S (Nat.lor i 1))), (Nat.leb_spec j (Nat.lor i 1)); try reflexivity; lia.
Qed.

(* ---------------------------------------------------------------------------------------- *)
(* the hypotheses of the theorems are satisfiable: { 0 <= x_0 <= 1 } over the rationals *)
Definition oct_ex1 : nat -> nat -> ext Q :=
  oct_add_constraint Qc (oct_add_constraint Qc oct_universe 0 1 (Fin 0)) 1 0 (Fin 2).
Example oct_ex1_hyps : oct_diag_ok Qc 1 oct_ex1 /\ exists m', strong_closure Qc 1 oct_ex1 = Some m'.
Proof.
  split.
  - intros i Hi. destruct i as [|[|i]]; [reflexivity|reflexivity|lia].
  - assert (H : oct_nonempty_b Qc 1 oct_ex1 = true) by (vm_compute; reflexivity).
    unfold oct_nonempty_b in H. destruct (strong_closure Qc 1 oct_ex1) as [m'|]; [|discriminate].
    exists m'. reflexivity.
Qed.
Example oct_ex1_closed : oct_closed_b Qc 1 oct_ex1 = true.
Proof. vm_compute. reflexivity. Qed.
(* and an empty one: { x_0 <= 0, x_0 >= 1 } *)
Example oct_ex_empty :
  strong_closure Qc 1 (oct_add_constraint Qc (oct_add_constraint Qc oct_universe 0 1 (Fin (-2))) 1 0 (Fin 0)) = None.
Proof. vm_compute. reflexivity. Qed.

(* ---------------------------------------------------------------------------------------- *)
(* C04: REFUTATION of the exactness of is_disjoint_from as written (only pairwise opposed bounds
   are compared).  Variables A = 0, B = 1, C = 2:
     x = { 0 <= B <= 1, A + C >= 2 }        y = { A + B <= -1, A <= 4, C <= -1 }
   B >= 0 and A + B <= -1 give A <= -1; with C <= -1, A + C <= -2 < 2: the octagons are disjoint,
   both are non-empty and strongly closed, and the code answers false. *)
Definition oct_wx0 : nat -> nat -> ext Q :=
  oct_add_constraint Qc (oct_add_constraint Qc (oct_add_constraint Qc oct_universe
    2 3 (Fin 0))          (* -2B <= 0 *)
    3 2 (Fin 2))          (*  2B <= 2 *)
    4 1 (Fin (-2)).       (* -A - C <= -2 *)
Definition oct_wy0 : nat -> nat -> ext Q :=
  oct_add_constraint Qc (oct_add_constraint Qc (oct_add_constraint Qc oct_universe
    3 0 (Fin (-1)))       (* A + B <= -1 *)
    1 0 (Fin 8))          (* 2A <= 8 *)
    5 4 (Fin (-2)).       (* 2C <= -2 *)
(* their strong closures, computed by the model *)
Definition oct_wx_rows : list (list (ext Q)) :=
  Eval vm_compute in match strong_closure Qc 3 oct_wx0 with Some m => rows_of_oct 3 m | None => [] end.
Definition oct_wy_rows : list (list (ext Q)) :=
  Eval vm_compute in match strong_closure Qc 3 oct_wy0 with Some m => rows_of_oct 3 m | None => [] end.
Definition oct_wx : nat -> nat -> ext Q := oct_of_rows oct_wx_rows.
Definition oct_wy : nat -> nat -> ext Q := oct_of_rows oct_wy_rows.

(* they are the closures of the two constraint systems *)
Lemma oct_wx_is_closure :
  match strong_closure Qc 3 oct_wx0 with Some m => oct_code_equal Qc 3 m oct_wx | None => false end = true.
Proof. vm_compute. reflexivity. Qed.
Lemma oct_wy_is_closure :
  match strong_closure Qc 3 oct_wy0 with Some m => oct_code_equal Qc 3 m oct_wy | None => false end = true.
Proof. vm_compute. reflexivity. Qed.

Theorem oct_is_disjoint_pairwise_refuted :
  exists x y : nat -> nat -> ext Q,
    oct_closed_b Qc 3 x = true /\ oct_closed_b Qc 3 y = true /\
    oct_code_is_disjoint Qc 3 x y = false /\
    forall p, den_oct Qc 3 x p -> den_oct Qc 3 y p -> False.
Proof.
  exists oct_wx, oct_wy.
  split; [vm_compute; reflexivity|]. split; [vm_compute; reflexivity|]. split; [vm_compute; reflexivity|].
  intros p Hx Hy.
  assert (H1 : - p 1%nat - p 1%nat <= 0) by exact (Hx 2%nat 3%nat ltac:(lia) ltac:(lia) eq_refl).
  assert (H2 : - p 0%nat - p 2%nat <= -2) by exact (Hx 4%nat 1%nat ltac:(lia) ltac:(lia) eq_refl).
  assert (H3 : p 0%nat - - p 1%nat <= -1) by exact (Hy 3%nat 0%nat ltac:(lia) ltac:(lia) eq_refl).
  assert (H4 : p 2%nat - - p 2%nat <= -2) by exact (Hy 5%nat 4%nat ltac:(lia) ltac:(lia) eq_refl).
  lra.
Qed.

(* the two operands are non-empty (so the answer "false" is not excused by an empty operand) *)
Lemma oct_wx_nonempty : den_oct Qc 3 oct_wx (fun k => match k with 0%nat => 2 | 1%nat => 0 | _ => 0 end).
Proof.
  intros i j Hi Hj Hs.
  destruct i as [|[|[|[|[|[|i]]]]]]; try lia;
    destruct j as [|[|[|[|[|[|j]]]]]]; try lia; try discriminate Hs; vm_compute; try exact I; discriminate.
Qed.
Lemma oct_wy_nonempty : den_oct Qc 3 oct_wy (fun k => match k with 0%nat => -1 | 1%nat => 0 | _ => -1 end).
Proof.
  intros i j Hi Hj Hs.
  destruct i as [|[|[|[|[|[|i]]]]]]; try lia;
    destruct j as [|[|[|[|[|[|j]]]]]]; try lia; try discriminate Hs; vm_compute; try exact I; discriminate.
Qed.

(* ---------------------------------------------------------------------------------------- *)
(* C04 statements NOT proved here (plain propositions, never used as hypotheses above).
   They are stated for the exact rational carrier Qc. *)

(* a non-empty result of the closure has a point *)
Definition strong_closure_nonempty_full : Prop :=
  forall n m m', oct_diag_ok Qc n m -> strong_closure Qc n m = Some m' -> exists p, den_oct Qc n m' p.

(* every finite stored entry (off the diagonal) of the strongly closed form is attained by a point
   of the octagon: the closed form is the tightest one *)
Definition strong_closure_tight_full : Prop :=
  forall n m m', oct_diag_ok Qc n m -> strong_closure Qc n m = Some m' ->
  forall i j, (i < 2 * n)%nat -> (j < 2 * n)%nat -> stored i j = true -> i <> j ->
  forall v, m' i j = Fin v -> exists p, den_oct Qc n m' p /\ sv p j - sv p i == v.

(* and an infinite entry is unbounded on the octagon *)
Definition strong_closure_unbounded_full : Prop :=
  forall n m m', oct_diag_ok Qc n m -> strong_closure Qc n m = Some m' ->
  forall i j, (i < 2 * n)%nat -> (j < 2 * n)%nat -> stored i j = true -> i <> j ->
  m' i j = PInf -> forall b, exists p, den_oct Qc n m' p /\ b < sv p j - sv p i.

(* the closure is idempotent on its results *)
Definition strong_closure_idempotent_full : Prop :=
  forall n m m', oct_diag_ok Qc n m -> strong_closure Qc n m = Some m' -> oct_closed_b Qc n m' = true.

(* contains is exact when the argument is strongly closed and non-empty *)
Definition oct_contains_complete_full : Prop :=
  forall n x y, oct_closed_b Qc n y = true ->
  (forall p, den_oct Qc n y p -> den_oct Qc n x p) -> oct_code_contains Qc n x y = true.

(* the pointwise maximum of strongly closed operands is the least octagon containing both *)
Definition oct_join_least_full : Prop :=
  forall n x y z, oct_closed_b Qc n x = true -> oct_closed_b Qc n y = true ->
  (forall p, den_oct Qc n x p -> den_oct Qc n z p) -> (forall p, den_oct Qc n y p -> den_oct Qc n z p) ->
  forall p, den_oct Qc n (oct_join Qc x y) p -> den_oct Qc n z p.

(* the result of the closure passes the check made by OK() *)
Definition strong_closure_coherent_full : Prop :=
  forall n m m', oct_diag_ok Qc n m -> strong_closure Qc n m = Some m' -> oct_is_strong_coherent Qc n m' = true.

(* the incremental closure agrees with the full one when only the constraints on the variable
   v/2 have been tightened since the matrix was strongly closed *)
Definition incremental_strong_closure_agrees_full : Prop :=
  forall n v m0 m, Nat.even v = true -> (v < 2 * n)%nat -> oct_closed_b Qc n m0 = true ->
  (forall i j, (i < 2 * n)%nat -> stored i j = true -> Nat.div2 i <> Nat.div2 v -> Nat.div2 j <> Nat.div2 v -> m i j = m0 i j) ->
  (forall i j, (i < 2 * n)%nat -> stored i j = true -> ole (xv Qc (m i j)) (xv Qc (m0 i j))) ->
  match incremental_strong_closure Qc n v m, strong_closure Qc n m with
  | Some a, Some b => oct_code_equal Qc n a b = true
  | None, None => True
  | _, _ => False
  end.
