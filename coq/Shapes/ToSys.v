(* The denotation of a dumped BD-shape matrix, octagon matrix or box as a TEMPLATE SET (Templ.v),
   hence (sys_of_pairs) as a constraint system of the verified oracle.  The judge reads the
   implementation's private matrix / interval sequence (bounds as exact rationals) and obtains
   gamma(result) through these functions; the theorems say the translation is exact. *)
From Coq Require Import List ZArith QArith Qminmax Lqa Bool Arith Lia.
Require Import PPLV.Base.FM PPLV.Base.Sys PPLV.Base.Sup PPLV.Poly.PolyOps.
Require Import PPLV.Shapes.ExtNum PPLV.Shapes.DBM PPLV.Shapes.Templ.
Import ListNotations.
Local Open Scope Q_scope.

Definition tb_of (x : ext Q) : tbound := match x with Fin v => Some (v, false) | PInf => None end.
Lemma holds_tb_of x v : holds x (tb_of v) <-> qle x (xv Qc v).
Proof. destruct v; cbn; tauto. Qed.
Lemma holds_ext x y b : x == y -> holds x b -> holds y b.
Proof. intros E. destruct b as [[q st]|]; cbn [holds]; [|auto]. destruct st; intros; lra. Qed.

(* ---------------------------------------------------------------------------------------- *)
(* BD shapes: index 0 is the zero variable, index k+1 is space dimension k *)
Definition vterm (i : nat) : lin := match i with O => lconst 0 | S k => lvar k end.
Definition ext0 (q : point) : nat -> Q := fun i => match i with O => 0 | S k => q k end.
Lemma leval_vterm i q : leval (vterm i) q == ext0 q i.
Proof. destruct i; cbn [vterm ext0]; [now rewrite leval_lconst|apply leval_lvar]. Qed.
Definition dexpr (i j : nat) : lin := ladd (vterm j) (lneg (vterm i)).
Lemma leval_dexpr i j q : leval (dexpr i j) q == ext0 q j - ext0 q i.
Proof. unfold dexpr. rewrite leval_ladd, leval_lneg, !leval_vterm. ring. Qed.

Definition idx_pairs (n : nat) : list (nat * nat) :=
  flat_map (fun i => map (fun j => (i, j)) (seq 0 (S n))) (seq 0 (S n)).
Lemma in_idx_pairs n i j : In (i, j) (idx_pairs n) <-> (i <= n)%nat /\ (j <= n)%nat.
Proof.
  unfold idx_pairs. rewrite in_flat_map. split.
  - intros [i' [Hi Hj]]. apply in_map_iff in Hj. destruct Hj as [j' [E Hj]]. injection E as -> ->.
    apply in_seq in Hi, Hj. lia.
  - intros [Hi Hj]. exists i. split; [apply in_seq; lia|]. apply in_map_iff. exists j. split; [reflexivity|apply in_seq; lia].
Qed.

Definition bds_templates (n : nat) : list lin := map (fun ij => dexpr (fst ij) (snd ij)) (idx_pairs n).
Definition dbm_pairs (n : nat) (m : nat -> nat -> ext Q) : list (lin * tbound) :=
  map (fun ij => (dexpr (fst ij) (snd ij), tb_of (m (fst ij) (snd ij)))) (idx_pairs n).
Definition sys_of_dbm (n : nat) (m : nat -> nat -> ext Q) : sys := sys_of_pairs (dbm_pairs n m).

Theorem dbm_pairs_den n m q : gamma_l (dbm_pairs n m) q <-> den Qc n m (ext0 q).
Proof.
  unfold gamma_l, dbm_pairs, den. split.
  - intros H. split; [reflexivity|]. intros i j Hi Hj.
    apply holds_tb_of. apply (holds_ext _ _ _ (leval_dexpr i j q)). apply H.
    apply in_map_iff. exists (i, j). split; [reflexivity|]. now apply in_idx_pairs.
  - intros [_ H] e b Hin. apply in_map_iff in Hin. destruct Hin as [[i j] [E Hij]]. cbn [fst snd] in E.
    injection E as <- <-. apply in_idx_pairs in Hij. destruct Hij as [Hi Hj].
    apply (holds_ext (ext0 q j - ext0 q i)); [symmetry; apply leval_dexpr|]. apply holds_tb_of. now apply H.
Qed.

Theorem sys_of_dbm_sat n m q : sat_sys (sys_of_dbm n m) q <-> den Qc n m (ext0 q).
Proof. unfold sys_of_dbm. now rewrite sys_of_pairs_sat, dbm_pairs_den. Qed.

(* every BD shape is a template set over bds_templates with non-strict bounds: alpha_t_least applies to all of them *)
Lemma dbm_pairs_templ n m e b : In (e, b) (dbm_pairs n m) ->
  In e (bds_templates n) /\ (false = false -> forall q st, b = Some (q, st) -> st = false).
Proof.
  unfold dbm_pairs, bds_templates. intros H. apply in_map_iff in H. destruct H as [[i j] [E Hij]]. cbn [fst snd] in E.
  injection E as <- <-. split.
  - apply in_map_iff. exists (i, j). split; [reflexivity|exact Hij].
  - intros _ q st Hb. destruct (m i j); cbn in Hb; [now injection Hb as _ <-|discriminate].
Qed.

(* the best BD shape containing a constraint-defined set *)
Definition alpha_bds (n : nat) (E : sys) : option (list (lin * tbound)) := alpha_t false n E (bds_templates n).

Theorem alpha_bds_best n E l : alpha_bds n E = Some l ->
  (forall q, sat_sys E q -> gamma_l l q) /\
  (forall m : nat -> nat -> ext Q, (forall q, sat_sys E q -> den Qc n m (ext0 q)) ->
     forall q, gamma_l l q -> den Qc n m (ext0 q)).
Proof.
  intros A. split; [now apply (alpha_t_sound _ _ _ _ _ A)|].
  intros m Hm q Hq. apply dbm_pairs_den.
  apply (alpha_t_least _ _ _ _ _ A (dbm_pairs n m)); [apply dbm_pairs_templ| |exact Hq].
  intros p Hp. apply dbm_pairs_den. now apply Hm.
Qed.

(* ---------------------------------------------------------------------------------------- *)
(* octagons: 2n signed variables V_{2k} = +x_k, V_{2k+1} = -x_k; entry m[i][j], stored for
   j <= cbar i = (i lor 1), bounds V_j - V_i *)
Definition cbar (i : nat) : nat := if Nat.even i then S i else i.
Definition sexpr (i : nat) : lin := if Nat.even i then lvar (Nat.div2 i) else lneg (lvar (Nat.div2 i)).
Definition sval (q : point) (i : nat) : Q := if Nat.even i then q (Nat.div2 i) else - q (Nat.div2 i).
Lemma leval_sexpr i q : leval (sexpr i) q == sval q i.
Proof. unfold sexpr, sval. destruct (Nat.even i); [apply leval_lvar|]. now rewrite leval_lneg, leval_lvar. Qed.
Definition oexpr (i j : nat) : lin := ladd (sexpr j) (lneg (sexpr i)).
Lemma leval_oexpr i j q : leval (oexpr i j) q == sval q j - sval q i.
Proof. unfold oexpr. rewrite leval_ladd, leval_lneg, !leval_sexpr. ring. Qed.

Definition oct_idx (n : nat) : list (nat * nat) :=
  flat_map (fun i => map (fun j => (i, j)) (seq 0 (S (cbar i)))) (seq 0 (2 * n)).
Lemma in_oct_idx n i j : In (i, j) (oct_idx n) <-> (i < 2 * n)%nat /\ (j <= cbar i)%nat.
Proof.
  unfold oct_idx. rewrite in_flat_map. split.
  - intros [i' [Hi Hj]]. apply in_map_iff in Hj. destruct Hj as [j' [E Hj]]. injection E as -> ->.
    apply in_seq in Hi, Hj. lia.
  - intros [Hi Hj]. exists i. split; [apply in_seq; lia|]. apply in_map_iff. exists j. split; [reflexivity|apply in_seq; lia].
Qed.

Definition oct_templates (n : nat) : list lin := map (fun ij => oexpr (fst ij) (snd ij)) (oct_idx n).
Definition oct_pairs (n : nat) (m : nat -> nat -> ext Q) : list (lin * tbound) :=
  map (fun ij => (oexpr (fst ij) (snd ij), tb_of (m (fst ij) (snd ij)))) (oct_idx n).
Definition sys_of_oct (n : nat) (m : nat -> nat -> ext Q) : sys := sys_of_pairs (oct_pairs n m).

(* the denotation of the stored (pseudo-triangular) part of an octagon matrix *)
Definition den_oct_stored (n : nat) (m : nat -> nat -> ext Q) (q : point) : Prop :=
  forall i j, (i < 2 * n)%nat -> (j <= cbar i)%nat -> qle (sval q j - sval q i) (xv Qc (m i j)).

Theorem oct_pairs_den n m q : gamma_l (oct_pairs n m) q <-> den_oct_stored n m q.
Proof.
  unfold gamma_l, oct_pairs, den_oct_stored. split.
  - intros H i j Hi Hj. apply holds_tb_of. apply (holds_ext _ _ _ (leval_oexpr i j q)). apply H.
    apply in_map_iff. exists (i, j). split; [reflexivity|]. now apply in_oct_idx.
  - intros H e b Hin. apply in_map_iff in Hin. destruct Hin as [[i j] [E Hij]]. cbn [fst snd] in E.
    injection E as <- <-. apply in_oct_idx in Hij. destruct Hij as [Hi Hj].
    apply (holds_ext (sval q j - sval q i)); [symmetry; apply leval_oexpr|]. apply holds_tb_of. now apply H.
Qed.
Theorem sys_of_oct_sat n m q : sat_sys (sys_of_oct n m) q <-> den_oct_stored n m q.
Proof. unfold sys_of_oct. now rewrite sys_of_pairs_sat, oct_pairs_den. Qed.

Lemma oct_pairs_templ n m e b : In (e, b) (oct_pairs n m) ->
  In e (oct_templates n) /\ (false = false -> forall q st, b = Some (q, st) -> st = false).
Proof.
  unfold oct_pairs, oct_templates. intros H. apply in_map_iff in H. destruct H as [[i j] [E Hij]]. cbn [fst snd] in E.
  injection E as <- <-. split.
  - apply in_map_iff. exists (i, j). split; [reflexivity|exact Hij].
  - intros _ q st Hb. destruct (m i j); cbn in Hb; [now injection Hb as _ <-|discriminate].
Qed.

Definition alpha_oct (n : nat) (E : sys) : option (list (lin * tbound)) := alpha_t false n E (oct_templates n).

Theorem alpha_oct_best n E l : alpha_oct n E = Some l ->
  (forall q, sat_sys E q -> gamma_l l q) /\
  (forall m : nat -> nat -> ext Q, (forall q, sat_sys E q -> den_oct_stored n m q) ->
     forall q, gamma_l l q -> den_oct_stored n m q).
Proof.
  intros A. split; [now apply (alpha_t_sound _ _ _ _ _ A)|].
  intros m Hm q Hq. apply oct_pairs_den.
  apply (alpha_t_least _ _ _ _ _ A (oct_pairs n m)); [apply oct_pairs_templ| |exact Hq].
  intros p Hp. apply oct_pairs_den. now apply Hm.
Qed.

(* ---------------------------------------------------------------------------------------- *)
(* boxes: one interval per space dimension, bounds finite (closed or open) or infinite *)
Inductive bnd := BInf | BVal (q : Q) (op : bool).
Inductive itv := IEmpty | IBounds (lo hi : bnd).

Definition lower_holds (x : Q) (b : bnd) : Prop := match b with BInf => True | BVal q op => if op then q < x else q <= x end.
Definition upper_holds (x : Q) (b : bnd) : Prop := match b with BInf => True | BVal q op => if op then x < q else x <= q end.
Definition in_itv (x : Q) (i : itv) : Prop :=
  match i with IEmpty => False | IBounds lo hi => lower_holds x lo /\ upper_holds x hi end.
Definition den_box (l : list itv) (p : point) : Prop := forall k i, nth_error l k = Some i -> in_itv (p k) i.

Definition ub_tb (b : bnd) : tbound := match b with BInf => None | BVal q op => Some (q, op) end.
Definition lb_tb (b : bnd) : tbound := match b with BInf => None | BVal q op => Some (- q, op) end.
Definition itv_pairs (k : nat) (i : itv) : list (lin * tbound) :=
  match i with
  | IEmpty => [(lconst 0, Some (-(1), false))]
  | IBounds lo hi => [(lvar k, ub_tb hi); (lneg (lvar k), lb_tb lo)]
  end.
Fixpoint box_pairs_from (k : nat) (l : list itv) : list (lin * tbound) :=
  match l with [] => [] | i :: r => itv_pairs k i ++ box_pairs_from (S k) r end.
Definition box_pairs (l : list itv) : list (lin * tbound) := box_pairs_from 0 l.
Definition sys_of_box (l : list itv) : sys := sys_of_pairs (box_pairs l).

Lemma itv_pairs_ok k i q : gamma_l (itv_pairs k i) q <-> in_itv (q k) i.
Proof.
  unfold gamma_l. destruct i as [|lo hi]; cbn [itv_pairs in_itv].
  - split; [|tauto]. intros H. specialize (H _ _ (or_introl eq_refl)). cbn [holds] in H. rewrite leval_lconst in H.
    change (inject_Z 0) with 0 in H. lra.
  - split.
    + intros H. split.
      * specialize (H (lneg (lvar k)) (lb_tb lo) (or_intror (or_introl eq_refl))).
        destruct lo as [|v op]; cbn [lb_tb holds lower_holds] in *; [exact I|].
        pose proof (leval_lneg (lvar k) q) as E. rewrite leval_lvar in E. destruct op; lra.
      * specialize (H (lvar k) (ub_tb hi) (or_introl eq_refl)).
        destruct hi as [|v op]; cbn [ub_tb holds upper_holds] in *; [exact I|].
        pose proof (leval_lvar k q) as E. destruct op; lra.
    + intros [Hl Hu] e b [E|[E|[]]]; injection E as <- <-.
      * destruct hi as [|v op]; cbn [ub_tb holds upper_holds] in *; [exact I|].
        pose proof (leval_lvar k q) as E. destruct op; lra.
      * destruct lo as [|v op]; cbn [lb_tb holds lower_holds] in *; [exact I|].
        pose proof (leval_lneg (lvar k) q) as E. rewrite leval_lvar in E. destruct op; lra.
Qed.

Lemma box_pairs_from_den : forall l k q,
  gamma_l (box_pairs_from k l) q <-> forall j i, nth_error l j = Some i -> in_itv (q (k + j)%nat) i.
Proof.
  induction l as [|i0 r IH]; intros k q; cbn [box_pairs_from].
  - split; [intros _ j i Hj; destruct j; discriminate|intros _ e b []].
  - split.
    + intros H j i Hj. destruct j as [|j]; cbn [nth_error] in Hj.
      * injection Hj as <-. rewrite Nat.add_0_r. apply itv_pairs_ok. intros e b Hin. apply H. apply in_or_app. now left.
      * replace (k + S j)%nat with (S k + j)%nat by lia. apply (IH (S k) q); [|exact Hj].
        intros e b Hin. apply H. apply in_or_app. now right.
    + intros H e b Hin. apply in_app_or in Hin. destruct Hin as [Hin|Hin].
      * revert e b Hin. apply itv_pairs_ok. specialize (H 0%nat i0 eq_refl). now rewrite Nat.add_0_r in H.
      * revert e b Hin. apply (IH (S k) q). intros j i Hj. replace (S k + j)%nat with (k + S j)%nat by lia. now apply H.
Qed.

Theorem box_pairs_den l q : gamma_l (box_pairs l) q <-> den_box l q.
Proof. unfold box_pairs, den_box. rewrite box_pairs_from_den. cbn [Nat.add]. tauto. Qed.
Theorem sys_of_box_sat l q : sat_sys (sys_of_box l) q <-> den_box l q.
Proof. unfold sys_of_box. now rewrite sys_of_pairs_sat, box_pairs_den. Qed.

Definition box_templates (n : nat) : list lin := flat_map (fun k => [lvar k; lneg (lvar k)]) (seq 0 n).
Definition no_empty_itv (l : list itv) : Prop := forall i, In i l -> i <> IEmpty.
Definition closed_itvs (l : list itv) : Prop :=
  forall lo hi, In (IBounds lo hi) l -> (forall q op, lo = BVal q op -> op = false) /\ (forall q op, hi = BVal q op -> op = false).

Lemma box_pairs_from_templ : forall l k e b, no_empty_itv l -> In (e, b) (box_pairs_from k l) ->
  exists j, (k <= j < k + length l)%nat /\ (e = lvar j \/ e = lneg (lvar j)).
Proof.
  induction l as [|i0 r IH]; intros k e b NE Hin; cbn [box_pairs_from] in Hin; [destruct Hin|].
  apply in_app_or in Hin. destruct Hin as [Hin|Hin].
  - destruct i0 as [|lo hi]; [exfalso; apply (NE IEmpty); [now left|reflexivity]|].
    cbn [itv_pairs] in Hin. exists k. cbn [length]. split; [lia|].
    destruct Hin as [E|[E|[]]]; injection E as <- _; auto.
  - destruct (IH (S k) e b) as [j [Hj He]]; [intros i Hi; apply NE; now right|exact Hin|].
    exists j. cbn [length]. split; [lia|exact He].
Qed.

Lemma in_box_templates n j : (j < n)%nat -> In (lvar j) (box_templates n) /\ In (lneg (lvar j)) (box_templates n).
Proof.
  intros Hj. unfold box_templates. split; apply in_flat_map; exists j; (split; [apply in_seq; lia|]); cbn; auto.
Qed.

(* keep = true: rational boxes with open/closed bounds *)
Definition alpha_box (keep : bool) (n : nat) (E : sys) : option (list (lin * tbound)) := alpha_t keep n E (box_templates n).

Lemma box_pairs_from_closed : forall l k e q st, closed_itvs l -> In (e, Some (q, st)) (box_pairs_from k l) -> no_empty_itv l -> st = false.
Proof.
  induction l as [|i0 r IH]; intros k e q st CL Hin NE; cbn [box_pairs_from] in Hin; [destruct Hin|].
  apply in_app_or in Hin. destruct Hin as [Hin|Hin].
  - destruct i0 as [|lo hi]; [exfalso; apply (NE IEmpty); [now left|reflexivity]|].
    destruct (CL lo hi (or_introl eq_refl)) as [C1 C2].
    cbn [itv_pairs] in Hin. destruct Hin as [E|[E|[]]]; injection E as _ E.
    + destruct hi as [|v op]; cbn [ub_tb] in E; [discriminate|]. injection E as _ <-. now apply (C2 v).
    + destruct lo as [|v op]; cbn [lb_tb] in E; [discriminate|]. injection E as _ <-. now apply (C1 v).
  - apply (IH (S k) e q st); auto.
    + intros lo hi Hi. apply CL. now right.
    + intros i Hi. apply NE. now right.
Qed.

Theorem alpha_box_best keep n E l : alpha_box keep n E = Some l ->
  (forall q, sat_sys E q -> gamma_l l q) /\
  (forall b : list itv, length b = n -> no_empty_itv b -> (keep = false -> closed_itvs b) ->
     (forall q, sat_sys E q -> den_box b q) -> forall q, gamma_l l q -> den_box b q).
Proof.
  intros A. split; [now apply (alpha_t_sound _ _ _ _ _ A)|].
  intros b Hlen NE CL Hb q Hq. apply box_pairs_den.
  apply (alpha_t_least _ _ _ _ _ A (box_pairs b)); [| |exact Hq].
  - intros e tb Hin. split.
    + destruct (box_pairs_from_templ b 0 e tb NE Hin) as [j [Hj He]]. rewrite Hlen in Hj.
      destruct (in_box_templates n j) as [I1 I2]; [lia|]. destruct He as [->| ->]; assumption.
    + intros K qq st ->. apply (box_pairs_from_closed b 0 e qq st (CL K) Hin NE).
  - intros p Hp. apply box_pairs_den. now apply Hb.
Qed.
