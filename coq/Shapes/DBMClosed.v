(* C04: correctness of the in-place Floyd-Warshall loops of BD_Shape<T>::shortest_path_closure_assign
   (the model [closure] of DBM.v) over an EXACT carrier: when the code does not find the shape empty,
   the matrix it leaves is shortest-path closed in the sense of DBMExact.v ([closed]: triangle
   inequality with the diagonal read as 0), hence tight.

   Proof by invariant on the triangle inequality (no paths):
     - every assignment only lowers an entry ([mle]), so a negative diagonal entry, once present, stays;
     - one pass of the two inner loops for a pivot k whose diagonal entry is 0 computes, for every cell,
       min(m i j, m i k + m k j) of the values BEFORE the pass ([pass_spec]), although the matrix is
       updated in place: row k and column k keep their values during the pass;
     - such a pass extends the set of pivots for which the triangle inequality holds ([inv_step]);
     - since one cannot know during the run that no negative diagonal entry will appear, the loop
       invariant is the disjunction [Dinv]. *)
From Coq Require Import List ZArith QArith Qminmax Lqa Bool Arith Lia.
Require Import PPLV.Shapes.ExtNum PPLV.Shapes.DBM PPLV.Shapes.DBMExact.
Import ListNotations.
Local Open Scope Q_scope.

(* ---------------------------------------------------------------------------------------- *)
(* option Q as an ordered monoid up to [oeq]; [ismin z x y]: z is the minimum of x and y *)
Definition ismin (z x y : option Q) : Prop := ole z x /\ ole z y /\ (oeq z x \/ oeq z y).

Lemma oeq_refl x : oeq x x.
Proof. destruct x; cbn [oeq]; [reflexivity|exact I]. Qed.
Lemma oeq_sym x y : oeq x y -> oeq y x.
Proof. destruct x, y; cbn [oeq]; intros H; try exact H. lra. Qed.
Lemma oeq_trans x y z : oeq x y -> oeq y z -> oeq x z.
Proof. destruct x, y, z; cbn [oeq]; intros H1 H2; try contradiction; try exact I. lra. Qed.
Lemma oeq_ole x y : oeq x y -> ole x y.
Proof. destruct x, y; cbn [oeq ole]; intros H; try contradiction; try exact I. lra. Qed.
Lemma ole_oeq_l x x' y : oeq x x' -> ole x y -> ole x' y.
Proof. destruct x, x', y; cbn [oeq ole]; intros H1 H2; try contradiction; try exact I. lra. Qed.
Lemma ole_oeq_r x y y' : oeq y y' -> ole x y -> ole x y'.
Proof. destruct x, y, y'; cbn [oeq ole]; intros H1 H2; try contradiction; try exact I. lra. Qed.
Lemma oadd_oeq x x' y y' : oeq x x' -> oeq y y' -> oeq (oadd x y) (oadd x' y').
Proof. destruct x, x', y, y'; cbn [oeq oadd]; intros H1 H2; try contradiction; try exact I. lra. Qed.

Lemma ismin_oeq z x y x' y' : ismin z x y -> oeq x x' -> oeq y y' -> ismin z x' y'.
Proof.
  intros [H1 [H2 H3]] Hx Hy. split; [|split].
  - eapply ole_oeq_r; eassumption.
  - eapply ole_oeq_r; eassumption.
  - destruct H3 as [H3|H3]; [left|right]; eapply oeq_trans; eassumption.
Qed.
Lemma ismin_none_r z x : oeq z x -> ismin z x None.
Proof.
  intros H. split; [apply oeq_ole; exact H|split; [|left; exact H]].
  destruct z; exact I.
Qed.
Lemma ismin_add0_l d z x : oeq d (Some 0) -> ismin z x (oadd d x) -> oeq z x.
Proof.
  intros Hd [H1 [H2 H3]]. destruct H3 as [H3|H3]; [exact H3|].
  destruct d as [d|]; [|contradiction]. destruct z, x; cbn [oeq oadd ole] in *; try contradiction; try exact I. lra.
Qed.
Lemma ismin_add0_r d z x : oeq d (Some 0) -> ismin z x (oadd x d) -> oeq z x.
Proof.
  intros Hd [H1 [H2 H3]]. destruct H3 as [H3|H3]; [exact H3|].
  destruct d as [d|]; [|contradiction]. destruct z, x; cbn [oeq oadd ole] in *; try contradiction; try exact I. lra.
Qed.

Ltac od x := destruct x as [?|]; cbn [oadd ole oeq] in *; try tauto.

(* the arithmetic core of [inv_step]: x.. are the values before the pass for pivot k0, z.. after *)
Lemma tri_new (xij xik xkj xik0 xk0j xk0k xkk0 d zij zik zkj : option Q) :
  oeq d (Some 0) ->
  ismin zij xij (oadd xik0 xk0j) -> ismin zik xik (oadd xik0 xk0k) -> ismin zkj xkj (oadd xkk0 xk0j) ->
  ole xij (oadd xik xkj) -> ole xk0j (oadd xk0k xkj) -> ole xik0 (oadd xik xkk0) -> ole d (oadd xk0k xkk0) ->
  ole zij (oadd zik zkj).
Proof.
  unfold ismin. intros H0 [A1 [A2 A3]] [B1 [B2 B3]] [C1 [C2 C3]] T1 T2 T3 T4.
  od zik. od zkj. od d.
  od xik; od xkj; od xik0; od xk0k; od xkk0; od xk0j; od xij; od zij;
    destruct A3 as [A3|A3]; destruct B3 as [B3|B3]; destruct C3 as [C3|C3]; try contradiction; lra.
Qed.

(* ---------------------------------------------------------------------------------------- *)
Lemma nodup_down n : NoDup (down n).
Proof. unfold down. apply NoDup_rev, seq_NoDup. Qed.

Section Closed.
  Context {T : Type} (C : carrier T) (Hex : add_exact C).
  Notation mat := (mat (T:=T)).

  (* raw semantic entries (during the loops the diagonal holds real entries) *)
  Definition ev (m : mat) (i j : nat) : option Q := xv C (m i j).

  Lemma xmin_ismin x s : ismin (xv C (xmin C x s)) (xv C x) (xv C s).
  Proof.
    split; [apply xmin_le_l|split; [apply xmin_le_r|]].
    unfold xmin. destruct (xlt C s x); [right|left]; apply oeq_refl.
  Qed.

  (* generic facts on folds *)
  Lemma fold_pres {A} (P : mat -> Prop) (f : mat -> A -> mat) L :
    (forall m x, P m -> P (f m x)) -> forall m, P m -> P (fold_left f L m).
  Proof. intros Hf. induction L as [|x L IH]; intros m Hm; cbn [fold_left]; [exact Hm|]. apply IH, Hf, Hm. Qed.

  (* ---- fill_diag ---- *)
  Lemma fill_off v L : forall (m : mat) i j, i <> j -> fold_left (fun m h => mupd m h h v) L m i j = m i j.
  Proof.
    induction L as [|a L IH]; intros m i j Hij; cbn [fold_left]; [reflexivity|].
    rewrite IH by exact Hij. apply mupd_other. lia.
  Qed.
  Lemma fill_on v L : forall (m : mat) h, m h h = v \/ In h L -> fold_left (fun m h => mupd m h h v) L m h h = v.
  Proof.
    induction L as [|a L IH]; intros m h H; cbn [fold_left].
    - destruct H as [H|H]; [exact H|destruct H].
    - apply IH. destruct (Nat.eq_dec h a) as [->|Hne].
      + left. apply mupd_same.
      + destruct H as [H|H].
        * left. rewrite mupd_other by lia. exact H.
        * destruct H as [H|H]; [congruence|right; exact H].
  Qed.
  Lemma fill_diag_off n v (m : mat) i j : i <> j -> fill_diag n v m i j = m i j.
  Proof. apply fill_off. Qed.
  Lemma fill_diag_on n v (m : mat) h : (h <= n)%nat -> fill_diag n v m h h = v.
  Proof. intros H. apply fill_on. right. now apply in_down. Qed.

  (* ---- one assignment of the innermost loop ---- *)
  Lemma body_other k i (m : mat) j a b : (a <> i \/ b <> j) -> fw_body C k i m j a b = m a b.
  Proof.
    intros H. unfold fw_body. destruct (m k j); [|reflexivity]. destruct (m i k); [|reflexivity].
    apply mupd_other. exact H.
  Qed.
  Lemma body_cell k i (m : mat) j :
    ismin (ev (fw_body C k i m j) i j) (ev m i j) (oadd (ev m i k) (ev m k j)).
  Proof.
    unfold fw_body, ev.
    destruct (m k j) as [b|] eqn:Ekj; destruct (m i k) as [a|] eqn:Eik; cbn [xv oadd];
      try (apply ismin_none_r, oeq_refl).
    rewrite mupd_same. destruct (Hex a b) as [t [Et Hv]]. rewrite Et.
    eapply ismin_oeq; [apply xmin_ismin|apply oeq_refl|]. cbn [xv oeq]. exact Hv.
  Qed.

  (* ---- step 1: entries only decrease ---- *)
  Definition mle (m' m : mat) : Prop := forall a b, ole (ev m' a b) (ev m a b).
  Lemma mle_refl m : mle m m.
  Proof. intros a b. apply ole_refl. Qed.
  Lemma mle_trans m1 m2 m3 : mle m1 m2 -> mle m2 m3 -> mle m1 m3.
  Proof. intros H1 H2 a b. eapply ole_trans; [apply H1|apply H2]. Qed.
  Lemma fold_mle {A} (f : mat -> A -> mat) L :
    (forall m x, mle (f m x) m) -> forall m, mle (fold_left f L m) m.
  Proof.
    intros Hf. induction L as [|x L IH]; intros m; cbn [fold_left]; [apply mle_refl|].
    eapply mle_trans; [apply IH|apply Hf].
  Qed.
  Lemma body_mle k i m j : mle (fw_body C k i m j) m.
  Proof.
    intros a b. destruct (Nat.eq_dec a i) as [->|Ha]; [destruct (Nat.eq_dec b j) as [->|Hb]|].
    - apply (body_cell k i m j).
    - unfold ev. rewrite body_other by lia. apply ole_refl.
    - unfold ev. rewrite body_other by lia. apply ole_refl.
  Qed.
  Lemma row_mle n k m i : mle (fw_row C n k m i) m.
  Proof. unfold fw_row. destruct (is_pinf (m i k)); [apply mle_refl|]. apply fold_mle. intros; apply body_mle. Qed.
  Lemma fwk_mle n m k : mle (fw_k C n m k) m.
  Proof. unfold fw_k. apply fold_mle. intros; apply row_mle. Qed.
  Lemma loops_mle n m : mle (fw_loops C n m) m.
  Proof. unfold fw_loops. apply fold_mle. intros; apply fwk_mle. Qed.

  (* ---- step 2: one pass for a pivot k with a zero diagonal entry ---- *)
  Section Pass.
    Context (n k : nat) (m0 : mat) (Hkk : oeq (ev m0 k k) (Some 0)).

    (* row k and column k hold the values they had at the beginning of the pass *)
    Definition RC (m : mat) : Prop :=
      (forall b, oeq (ev m k b) (ev m0 k b)) /\ (forall a, oeq (ev m a k) (ev m0 a k)).
    Definition newv (m : mat) (i j : nat) : Prop :=
      ismin (ev m i j) (ev m0 i j) (oadd (ev m0 i k) (ev m0 k j)).

    Lemma RC_kk m : RC m -> oeq (ev m k k) (Some 0).
    Proof. intros [R1 _]. eapply oeq_trans; [apply R1|exact Hkk]. Qed.

    Lemma body_RC i m j : RC m -> RC (fw_body C k i m j).
    Proof.
      intros HR. pose proof (RC_kk m HR) as H0. destruct HR as [R1 R2]. split.
      - intros b. destruct (Nat.eq_dec i k) as [->|Hi]; [destruct (Nat.eq_dec j b) as [->|Hj]|].
        + eapply oeq_trans; [|apply R1]. eapply ismin_add0_l; [exact H0|apply body_cell].
        + unfold ev. rewrite body_other by lia. apply R1.
        + unfold ev. rewrite body_other by lia. apply R1.
      - intros a. destruct (Nat.eq_dec i a) as [->|Hi]; [destruct (Nat.eq_dec j k) as [->|Hj]|].
        + eapply oeq_trans; [|apply R2]. eapply ismin_add0_r; [exact H0|apply body_cell].
        + unfold ev. rewrite body_other by lia. apply R2.
        + unfold ev. rewrite body_other by lia. apply R2.
    Qed.
    Lemma row_RC m i : RC m -> RC (fw_row C n k m i).
    Proof.
      intros HR. unfold fw_row. destruct (is_pinf (m i k)); [exact HR|].
      apply fold_pres; [|exact HR]. intros m1 j. apply body_RC.
    Qed.

    (* inner loop: the visited cells of row i hold the new value, the others are untouched *)
    Lemma jfold_spec i : forall L m, NoDup L -> RC m ->
      (forall j, In j L -> oeq (ev m i j) (ev m0 i j)) ->
      (forall a b, a <> i \/ ~ In b L -> fold_left (fw_body C k i) L m a b = m a b) /\
      (forall j, In j L -> newv (fold_left (fw_body C k i) L m) i j).
    Proof.
      induction L as [|j L IH]; intros m ND HR Hold; cbn [fold_left].
      - split; [reflexivity|intros j Hj; destruct Hj].
      - inversion ND as [|x l Hnin ND']; subst.
        destruct (IH (fw_body C k i m j) ND' (body_RC i m j HR)) as [I1 I2].
        { intros j' Hj'. unfold ev at 1. rewrite body_other by (right; intros ->; contradiction).
          apply Hold. right. exact Hj'. }
        split.
        + intros a b Hab. rewrite I1 by (cbn [In] in Hab; tauto).
          apply body_other. destruct Hab as [Hab|Hab]; [left; exact Hab|].
          right. intros ->. apply Hab. left. reflexivity.
        + intros j' Hj'. destruct Hj' as [<-|Hj']; [|apply I2; exact Hj'].
          unfold newv. unfold ev at 1. rewrite I1 by (right; exact Hnin).
          destruct HR as [R1 R2].
          eapply ismin_oeq; [apply body_cell|apply Hold; left; reflexivity|].
          apply oadd_oeq; [apply R2|apply R1].
    Qed.

    Lemma row_spec i m : RC m -> (forall j, (j <= n)%nat -> oeq (ev m i j) (ev m0 i j)) ->
      (forall a b, a <> i -> fw_row C n k m i a b = m a b) /\
      (forall j, (j <= n)%nat -> newv (fw_row C n k m i) i j).
    Proof.
      intros HR Hold. unfold fw_row. destruct (m i k) as [t|] eqn:E; cbn [is_pinf].
      - destruct (jfold_spec i (down n) m (nodup_down n) HR) as [I1 I2].
        { intros j Hj. apply Hold. now apply in_down. }
        split; [intros a b Ha; apply I1; left; exact Ha|].
        intros j Hj. apply I2. now apply in_down.
      - split; [reflexivity|]. intros j Hj. unfold newv.
        destruct HR as [_ R2]. pose proof (R2 i) as Hik. unfold ev in Hik at 1. rewrite E in Hik. cbn [xv] in Hik.
        destruct (ev m0 i k); [contradiction|]. cbn [oadd]. apply ismin_none_r. apply Hold. exact Hj.
    Qed.

    (* outer loop: the visited rows hold the new values, the others are untouched *)
    Lemma ifold_spec : forall L m, NoDup L -> RC m ->
      (forall i, In i L -> forall j, (j <= n)%nat -> oeq (ev m i j) (ev m0 i j)) ->
      (forall a b, ~ In a L -> fold_left (fw_row C n k) L m a b = m a b) /\
      (forall i, In i L -> forall j, (j <= n)%nat -> newv (fold_left (fw_row C n k) L m) i j).
    Proof.
      induction L as [|i L IH]; intros m ND HR Hold; cbn [fold_left].
      - split; [reflexivity|intros i Hi; destruct Hi].
      - inversion ND as [|x l Hnin ND']; subst.
        destruct (row_spec i m HR) as [W1 W2]. { intros j Hj. apply Hold; [left; reflexivity|exact Hj]. }
        destruct (IH (fw_row C n k m i) ND' (row_RC m i HR)) as [I1 I2].
        { intros i' Hi' j Hj. unfold ev at 1. rewrite W1 by (intros ->; contradiction).
          apply Hold; [right; exact Hi'|exact Hj]. }
        split.
        + intros a b Ha. rewrite I1 by (cbn [In] in Ha; tauto). apply W1.
          intros ->. apply Ha. left. reflexivity.
        + intros i' Hi' j Hj. destruct Hi' as [<-|Hi']; [|apply I2; assumption].
          unfold newv. unfold ev at 1. rewrite I1 by exact Hnin. apply W2. exact Hj.
    Qed.

    Lemma pass_spec_sec i j : (i <= n)%nat -> (j <= n)%nat -> newv (fw_k C n m0 k) i j.
    Proof.
      intros Hi Hj. unfold fw_k.
      destruct (ifold_spec (down n) m0 (nodup_down n)) as [_ I2].
      - split; intros; apply oeq_refl.
      - intros; apply oeq_refl.
      - apply I2; [now apply in_down|exact Hj].
    Qed.
  End Pass.

  (* [fw_pass_spec]: although done in place, the pass for pivot k computes min(m i j, m i k + m k j)
     of the values BEFORE the pass *)
  Theorem fw_pass_spec n k (m : mat) : oeq (ev m k k) (Some 0) ->
    forall i j, (i <= n)%nat -> (j <= n)%nat ->
      ismin (ev (fw_k C n m k) i j) (ev m i j) (oadd (ev m i k) (ev m k j)).
  Proof. intros H i j Hi Hj. exact (pass_spec_sec n k m H i j Hi Hj). Qed.

  (* ---- step 3: the triangle invariant ---- *)
  Section Inv.
    Context (n : nat).

    Definition negd (m : mat) : Prop := exists h, (h <= n)%nat /\ exists v, ev m h h = Some v /\ v < 0.
    Definition diag0 (m : mat) : Prop := forall h, (h <= n)%nat -> oeq (ev m h h) (Some 0).
    (* triangle inequality through the pivots of P *)
    Definition InvP (P : nat -> Prop) (m : mat) : Prop :=
      forall i j k, (i <= n)%nat -> (j <= n)%nat -> (k <= n)%nat -> P k ->
                    ole (ev m i j) (oadd (ev m i k) (ev m k j)).
    Definition Dinv (P : nat -> Prop) (m : mat) : Prop := negd m \/ (diag0 m /\ InvP P m).

    Lemma negd_mono m' m : mle m' m -> negd m -> negd m'.
    Proof.
      intros Hle [h [Hh [v [Ev Hv]]]]. exists h. split; [exact Hh|].
      pose proof (Hle h h) as H. rewrite Ev in H. destruct (ev m' h h) as [w|]; cbn [ole] in H; [|contradiction].
      exists w. split; [reflexivity|lra].
    Qed.

    Lemma has_neg_diag_spec m : has_neg_diag C n m = true <-> negd m.
    Proof.
      unfold has_neg_diag, negd. rewrite existsb_exists. split.
      - intros [h [Hh H]]. exists h. split; [now apply in_down|]. apply xneg_sign_spec in H. exact H.
      - intros [h [Hh H]]. exists h. split; [now apply in_down|]. apply xneg_sign_spec. exact H.
    Qed.

    Theorem inv_step P m k0 : (k0 <= n)%nat -> diag0 m -> InvP P m ->
      InvP (fun k => k = k0 \/ P k) (fw_k C n m k0).
    Proof.
      intros Hk0 Hd HI i j k Hi Hj Hk HP.
      pose proof (fw_pass_spec n k0 m (Hd k0 Hk0)) as PS.
      destruct HP as [->|HP].
      - pose proof (PS i j Hi Hj) as [_ [A2 _]].
        pose proof (ismin_add0_r _ _ _ (Hd k0 Hk0) (PS i k0 Hi Hk0)) as B.
        pose proof (ismin_add0_l _ _ _ (Hd k0 Hk0) (PS k0 j Hk0 Hj)) as D.
        eapply ole_oeq_r; [|exact A2]. apply oadd_oeq; apply oeq_sym; assumption.
      - eapply (tri_new (ev m i j) (ev m i k) (ev m k j) (ev m i k0) (ev m k0 j) (ev m k0 k) (ev m k k0) (ev m k0 k0)).
        + apply Hd; exact Hk0.
        + apply PS; assumption.
        + apply PS; assumption.
        + apply PS; assumption.
        + apply HI; assumption.
        + apply HI; assumption.
        + apply HI; assumption.
        + apply HI; assumption.
    Qed.

    Lemma Dinv_ext (P Q : nat -> Prop) m : (forall k, Q k -> P k) -> Dinv P m -> Dinv Q m.
    Proof.
      intros HPQ [H|[Hd HI]]; [left; exact H|right; split; [exact Hd|]].
      intros i j k Hi Hj Hk HQ. apply HI; auto.
    Qed.

    Lemma dstep P m k0 : (k0 <= n)%nat -> Dinv P m -> Dinv (fun k => k = k0 \/ P k) (fw_k C n m k0).
    Proof.
      intros Hk [Hn|[Hd HI]].
      - left. eapply negd_mono; [apply fwk_mle|exact Hn].
      - destruct (has_neg_diag C n (fw_k C n m k0)) eqn:E.
        + left. apply has_neg_diag_spec. exact E.
        + right. split; [|apply inv_step; assumption].
          assert (Hnn : ~ negd (fw_k C n m k0)).
          { intros H. apply has_neg_diag_spec in H. congruence. }
          intros h Hh. pose proof (fwk_mle n m k0 h h) as Hm. pose proof (Hd h Hh) as Hz.
          destruct (ev (fw_k C n m k0) h h) as [v|] eqn:Ev; destruct (ev m h h) as [q|];
            cbn [ole oeq] in *; try contradiction.
          destruct (Qlt_le_dec v 0) as [L|L]; [|lra].
          exfalso. apply Hnn. exists h. split; [exact Hh|]. exists v. split; [exact Ev|exact L].
    Qed.

    Lemma dfold : forall L m P, (forall k, In k L -> (k <= n)%nat) -> Dinv P m ->
      Dinv (fun k => In k L \/ P k) (fold_left (fw_k C n) L m).
    Proof.
      induction L as [|a L IH]; intros m P HL HD; cbn [fold_left].
      - eapply Dinv_ext; [|exact HD]. intros k [H|H]; [destruct H|exact H].
      - eapply Dinv_ext; [|apply (IH (fw_k C n m a) (fun k => k = a \/ P k))].
        + intros k [H|H]; [|right; right; exact H].
          destruct H as [H|H]; [right; left; symmetry; exact H|left; exact H].
        + intros k Hk. apply HL. right. exact Hk.
        + apply dstep; [apply HL; left; reflexivity|exact HD].
    Qed.

    Lemma loops_Dinv m : diag0 m -> Dinv (fun k => (k <= n)%nat) (fw_loops C n m).
    Proof.
      intros Hd. unfold fw_loops.
      eapply Dinv_ext; [|apply (dfold (down n) m (fun _ => False))].
      - intros k Hk. left. now apply in_down.
      - intros k Hk. now apply in_down.
      - right. split; [exact Hd|]. intros i j k _ _ _ F. destruct F.
    Qed.
  End Inv.

  (* ---- step 4: the matrix left by the code's closure is closed ---- *)
  Theorem closure_closed_gen n (m m' : mat) :
    closure C n m = Some m' -> closed C n m' /\ diag_inf n m'.
  Proof.
    unfold closure. set (m1 := fw_loops C n (fill_diag n (Fin (czero C)) m)).
    destruct (has_neg_diag C n m1) eqn:E; [discriminate|]. intros [= <-].
    split; [|intros h Hh; apply fill_diag_on; exact Hh].
    assert (HD : Dinv n (fun k => (k <= n)%nat) m1).
    { apply loops_Dinv. intros h Hh. unfold ev. rewrite fill_diag_on by exact Hh. cbn [xv oeq]. apply czero_ok. }
    destruct HD as [Hn|[Hd HI]].
    { apply has_neg_diag_spec in Hn. congruence. }
    assert (Hsm : forall i j, (i <= n)%nat -> (j <= n)%nat -> oeq (sm C (fill_diag n PInf m1) i j) (ev m1 i j)).
    { intros i j Hi Hj. unfold sm. destruct (Nat.eqb_spec i j) as [->|Hne].
      - apply oeq_sym. apply Hd. exact Hj.
      - rewrite fill_diag_off by exact Hne. apply oeq_refl. }
    intros i j k Hi Hj Hk.
    eapply ole_oeq_l; [apply oeq_sym, Hsm; assumption|].
    eapply ole_oeq_r; [apply oadd_oeq; apply oeq_sym, Hsm; assumption|].
    apply HI; assumption.
  Qed.
End Closed.

Theorem closure_closed {T} (C : carrier T) n m m' :
  add_exact C -> diag_inf n m -> closure C n m = Some m' -> closed C n m' /\ diag_inf n m'.
Proof. intros Hex _ H. exact (closure_closed_gen C Hex n m m' H). Qed.

(* the code's closure never returns a matrix denoting the empty set (is_empty is decided by the
   negative-diagonal test alone) *)
Theorem closure_some_nonempty {T} (C : carrier T) n m m' :
  add_exact C -> diag_inf n m -> closure C n m = Some m' -> exists p, den C n m' p.
Proof.
  intros Hex Hd H. destruct (closure_closed C n m m' Hex Hd H) as [Hc Hd'].
  exact (closed_nonempty C n m' Hc Hd').
Qed.

(* the result is tight: every finite off-diagonal entry is attained *)
Corollary closure_tight {T} (C : carrier T) n m m' i j t :
  add_exact C -> diag_inf n m -> closure C n m = Some m' ->
  (i <= n)%nat -> (j <= n)%nat -> i <> j -> m' i j = Fin t ->
  exists p, den C n m' p /\ p j - p i == val C t.
Proof.
  intros Hex Hd H Hi Hj Hne E. destruct (closure_closed C n m m' Hex Hd H) as [Hc Hd'].
  exact (tight_attained C n m' i j t Hc Hd' Hi Hj Hne E).
Qed.

(* ---------------------------------------------------------------------------------------- *)
(* sanity over Qc: { x1 <= 2, x2 <= 5, -x1 <= 0, x2 - x1 <= 1, x1 - x2 <= 4 } is not closed
   (x2 <= 5 is improved to 3 through x1); the code's closure is *)
Definition ex_open : nat -> nat -> ext Q :=
  mat_of_rows [ [PInf;  Fin 2; Fin 5];
                [Fin 0; PInf;  Fin 1];
                [PInf;  Fin 4; PInf] ].

Example ex_open_not_closed : closed_b 2 ex_open = false.
Proof. vm_compute. reflexivity. Qed.

Example closure_ex_closed :
  match closure Qc 2 ex_open with Some m' => closed_b 2 m' | None => false end = true.
Proof. vm_compute. reflexivity. Qed.

Example closure_ex_idempotent :
  match closure Qc 2 ex_open with
  | Some m' => match closure Qc 2 m' with
               | Some m'' => code_equal Qc 2 m' m''
               | None => false end
  | None => false end = true.
Proof. vm_compute. reflexivity. Qed.

(* an inconsistent system is found empty: x1 <= 0 and -x1 <= -1 *)
Example closure_ex_empty :
  closure Qc 1 (mat_of_rows [ [PInf; Fin 0]; [Fin (-1); PInf] ]) = None.
Proof. vm_compute. reflexivity. Qed.
