(* Extended numbers over an abstract carrier: the bound type [N] of BD_Shape<T> / Octagonal_Shape<T>
   (Checked_Number<T, WRD_Extended_Number_Policy>): a finite value of the carrier or +infinity.
   A [carrier] packs the operations the shape code uses on finite operands together with their
   ROUNDING LAWS: the result of an upward-rounded operation is +infinity or a value whose exact
   rational value is >= the exact result.  Every theorem of DBM.v / DBMSound.v / Oct.v quantifies
   over an arbitrary [carrier]: that is the "for every coefficient type" quantifier of C03.
   [Qc] is the exact rational instance (mpq_class); it also shows the laws are satisfiable. *)
From Coq Require Import ZArith QArith Qminmax Lqa Bool.
Local Open Scope Q_scope.

Inductive ext (T : Type) : Type := Fin (t : T) | PInf.
Arguments Fin {T} t.
Arguments PInf {T}.

(* semantic extended rationals: None = +infinity *)
Definition qle (q : Q) (x : option Q) : Prop := match x with Some v => q <= v | None => True end.
Definition ole (x y : option Q) : Prop :=
  match y with None => True | Some b => match x with Some a => a <= b | None => False end end.
Definition oadd (x y : option Q) : option Q :=
  match x, y with Some a, Some b => Some (a + b) | _, _ => None end.
Definition oeq (x y : option Q) : Prop :=
  match x, y with Some a, Some b => a == b | None, None => True | _, _ => False end.

Lemma qle_trans q x y : qle q x -> ole x y -> qle q y.
Proof. destruct x, y; cbn; intros; try lra; tauto. Qed.
Lemma qle_mono q q' x : q' <= q -> qle q x -> qle q' x.
Proof. destruct x; cbn; intros; try lra; tauto. Qed.
Lemma ole_refl x : ole x x.
Proof. destruct x; cbn; [lra|exact I]. Qed.
Lemma ole_trans x y z : ole x y -> ole y z -> ole x z.
Proof. destruct x, y, z; cbn; intros; try lra; tauto. Qed.
Lemma qle_ole q x : qle q x <-> ole (Some q) x.
Proof. destruct x; cbn; tauto. Qed.

Record carrier (T : Type) : Type := {
  val : T -> Q;                          (* exact rational value of a finite bound *)
  czero : T;                             (* assign_r(x, 0, ROUND_NOT_NEEDED) *)
  add_up : T -> T -> ext T;              (* add_assign_r(.., ROUND_UP) on finite operands *)
  neg_up : T -> ext T;                   (* neg_assign_r(.., ROUND_UP) *)
  div_up : Z -> Z -> ext T;              (* div_round_up(k, numer, denom) *)
  half_up : T -> ext T;                  (* div_2exp_assign_r(.., 1, ROUND_UP) *)
  cltb : T -> T -> bool;                 (* exact comparison  a < b *)
  cneg : T -> bool;                      (* sgn(a) < 0 *)
  czero_ok : val czero == 0;
  add_up_ok : forall a b, qle (val a + val b) (match add_up a b with Fin t => Some (val t) | PInf => None end);
  neg_up_ok : forall a, qle (- val a) (match neg_up a with Fin t => Some (val t) | PInf => None end);
  div_up_ok : forall n d, d <> 0%Z ->
     qle (inject_Z n / inject_Z d) (match div_up n d with Fin t => Some (val t) | PInf => None end);
  half_up_ok : forall a, qle (val a / 2) (match half_up a with Fin t => Some (val t) | PInf => None end);
  cltb_ok : forall a b, cltb a b = true <-> val a < val b;
  cneg_ok : forall a, cneg a = true <-> val a < 0
}.
Arguments val {T} c. Arguments czero {T} c. Arguments add_up {T} c. Arguments neg_up {T} c.
Arguments div_up {T} c. Arguments half_up {T} c. Arguments cltb {T} c. Arguments cneg {T} c.
Arguments czero_ok {T} c. Arguments add_up_ok {T} c. Arguments neg_up_ok {T} c. Arguments div_up_ok {T} c.
Arguments half_up_ok {T} c. Arguments cltb_ok {T} c. Arguments cneg_ok {T} c.

(* the negation used by is_disjoint_from must not round: true of every PPL carrier (the finite range
   of the bounded integers is symmetric, negation of a float or of a rational is exact) *)
Definition neg_exact {T} (C : carrier T) : Prop :=
  forall a, exists t, neg_up C a = Fin t /\ val C t == - val C a.

Section Ext.
  Context {T : Type} (C : carrier T).

  Definition xv (x : ext T) : option Q := match x with Fin t => Some (val C t) | PInf => None end.

  (* x < y on extended numbers, +infinity the greatest element *)
  Definition xlt (x y : ext T) : bool :=
    match x, y with Fin a, Fin b => cltb C a b | Fin _, PInf => true | PInf, _ => false end.
  (* min_assign(x, s): x becomes s when s < x *)
  Definition xmin (x s : ext T) : ext T := if xlt s x then s else x.
  (* max_assign *)
  Definition xmax (x s : ext T) : ext T := if xlt x s then s else x.
  Definition xadd (x y : ext T) : ext T :=
    match x, y with Fin a, Fin b => add_up C a b | _, _ => PInf end.
  Definition xneg_sign (x : ext T) : bool := match x with Fin a => cneg C a | PInf => false end.
  Definition is_pinf (x : ext T) : bool := match x with PInf => true | _ => false end.

  Lemma xlt_spec x y : xlt x y = true <-> ~ ole (xv y) (xv x).
  Proof.
    destruct x as [a|], y as [b|]; cbn.
    - rewrite (cltb_ok C). split; intros; lra.
    - split; [tauto|reflexivity].
    - split; [discriminate|tauto].
    - split; [discriminate|tauto].
  Qed.

  Lemma xlt_false x y : xlt x y = false <-> ole (xv y) (xv x).
  Proof.
    destruct (xlt x y) eqn:E.
    - apply xlt_spec in E. split; [discriminate|tauto].
    - split; [intros _|reflexivity].
      destruct x as [a|], y as [b|]; cbn in *; try exact I; try discriminate.
      destruct (Qlt_le_dec (val C a) (val C b)) as [L|L]; [|exact L].
      apply (cltb_ok C) in L. congruence.
  Qed.

  Lemma xmin_le_l x s : ole (xv (xmin x s)) (xv x).
  Proof.
    unfold xmin. destruct (xlt s x) eqn:E; [|apply ole_refl].
    destruct s as [a|], x as [b|]; cbn in *; try exact I; try discriminate.
    apply (cltb_ok C) in E. lra.
  Qed.
  Lemma xmin_le_r x s : ole (xv (xmin x s)) (xv s).
  Proof.
    unfold xmin. destruct (xlt s x) eqn:E; [apply ole_refl|]. now apply xlt_false in E.
  Qed.
  Lemma xmin_glb q x s : qle q (xv x) -> qle q (xv s) -> qle q (xv (xmin x s)).
  Proof. unfold xmin. destruct (xlt s x); auto. Qed.
  Lemma xmax_ge_l x s : ole (xv x) (xv (xmax x s)).
  Proof.
    unfold xmax. destruct (xlt x s) eqn:E; [|apply ole_refl].
    destruct x as [a|], s as [b|]; cbn in *; try exact I; try discriminate.
    apply (cltb_ok C) in E. lra.
  Qed.
  Lemma xmax_ge_r x s : ole (xv s) (xv (xmax x s)).
  Proof.
    unfold xmax. destruct (xlt x s) eqn:E; [apply ole_refl|]. now apply xlt_false in E.
  Qed.
  Lemma xadd_ok x y : ole (oadd (xv x) (xv y)) (xv (xadd x y)).
  Proof.
    destruct x as [a|], y as [b|]; cbn; try exact I.
    pose proof (add_up_ok C a b) as H. destruct (add_up C a b); cbn in *; [exact H|exact I].
  Qed.
  Lemma xneg_sign_spec x : xneg_sign x = true <-> exists v, xv x = Some v /\ v < 0.
  Proof.
    destruct x as [a|]; cbn.
    - rewrite (cneg_ok C). split; [intros H; eexists; split; [reflexivity|exact H]|intros [v [[= <-] H]]; exact H].
    - split; [discriminate|intros [v [H _]]; discriminate].
  Qed.
End Ext.

(* ---------------------------------------------------------------------------------------- *)
(* the exact rational carrier (mpq_class): every operation is exact *)
Definition Qltb (a b : Q) : bool := negb (Qle_bool b a).
Lemma Qltb_ok a b : Qltb a b = true <-> a < b.
Proof.
  unfold Qltb. rewrite negb_true_iff. split.
  - intros H. destruct (Qlt_le_dec a b) as [L|L]; [exact L|]. apply Qle_bool_iff in L. congruence.
  - intros H. destruct (Qle_bool b a) eqn:E; [|reflexivity]. apply Qle_bool_iff in E. lra.
Qed.

Definition Qc : carrier Q.
Proof.
  refine {| val := fun q => q; czero := 0; add_up := fun a b => Fin (a + b); neg_up := fun a => Fin (- a);
            div_up := fun n d => Fin (inject_Z n / inject_Z d); half_up := fun a => Fin (a / 2);
            cltb := Qltb; cneg := fun a => Qltb a 0 |}.
  - reflexivity.
  - intros; cbn; lra.
  - intros; cbn; lra.
  - intros; cbn; lra.
  - intros; cbn; lra.
  - exact Qltb_ok.
  - intros a. apply Qltb_ok.
Defined.

Lemma Qc_neg_exact : neg_exact Qc.
Proof. intros a. exists (- a). split; reflexivity. Qed.

(* exactness of a carrier's addition (true of Qc): used by the C04 statements about the code's closure *)
Definition add_exact {T} (C : carrier T) : Prop :=
  forall a b, exists t, add_up C a b = Fin t /\ val C t == val C a + val C b.
Lemma Qc_add_exact : add_exact Qc.
Proof. intros a b. exists (a + b). split; reflexivity. Qed.
