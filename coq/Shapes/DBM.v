(* Difference-bound matrices as in BD_Shape<T> (src/BD_Shape_defs.hh, BD_Shape_templates.hh):
   a square matrix of extended numbers indexed 0..n, index 0 being the "zero variable";
   entry m[i][j] is an upper bound of  x_j - x_i .  This file holds the MODEL (definitions that
   follow the code statement by statement, executable) and the denotation; the theorems are in
   DBMSound.v (any carrier: C03) and DBMExact.v (rational carrier: C04).

   Matrices are functions nat -> nat -> ext T; an in-place assignment dbm[i][j] = v is [mupd].
   Loops running `for (h = n + 1; h-- > 0; )` are folds over [down n] = [n; n-1; ...; 0]. *)
From Coq Require Import List ZArith QArith Qminmax Lqa Bool Arith Lia.
Require Import PPLV.Shapes.ExtNum.
Import ListNotations.
Local Open Scope Q_scope.

Definition down (n : nat) : list nat := rev (seq 0 (S n)).

Lemma in_down n i : In i (down n) <-> (i <= n)%nat.
Proof. unfold down. rewrite <- in_rev, in_seq. lia. Qed.

Section DBM.
  Context {T : Type} (C : carrier T).
  Notation N := (ext T).

  Definition mat := nat -> nat -> N.

  Definition mupd (m : mat) (i j : nat) (v : N) : mat :=
    fun a b => if (Nat.eqb a i && Nat.eqb b j)%bool then v else m a b.

  (* ---- denotation: p 0 is the zero variable ---- *)
  Definition den (n : nat) (m : mat) (p : nat -> Q) : Prop :=
    p 0%nat == 0 /\ forall i j, (i <= n)%nat -> (j <= n)%nat -> qle (p j - p i) (xv C (m i j)).

  (* ---- shortest_path_closure_assign (BD_Shape_templates.hh:1881) ---- *)
  Definition fill_diag (n : nat) (v : N) (m : mat) : mat :=
    fold_left (fun m h => mupd m h h v) (down n) m.

  (* body of the innermost loop: x_dbm_k_j finite -> sum = x_i_k + x_k_j (ROUND_UP); min_assign(x_i_j, sum).
     x_dbm_i_k is a live reference to dbm[i][k]: it is read again on every iteration *)
  Definition fw_body (k i : nat) (m : mat) (j : nat) : mat :=
    match m k j with
    | PInf => m
    | Fin b => match m i k with
               | PInf => m
               | Fin a => mupd m i j (xmin C (m i j) (add_up C a b))
               end
    end.
  Definition fw_row (n k : nat) (m : mat) (i : nat) : mat :=
    if is_pinf (m i k) then m else fold_left (fw_body k i) (down n) m.
  Definition fw_k (n : nat) (m : mat) (k : nat) : mat := fold_left (fw_row n k) (down n) m.
  Definition fw_loops (n : nat) (m : mat) : mat := fold_left (fw_k n) (down n) m.

  Definition has_neg_diag (n : nat) (m : mat) : bool := existsb (fun h => xneg_sign C (m h h)) (down n).

  (* None = the shape has been found empty (set_empty()) *)
  Definition closure (n : nat) (m : mat) : option mat :=
    let m1 := fw_loops n (fill_diag n (Fin (czero C)) m) in
    if has_neg_diag n m1 then None else Some (fill_diag n PInf m1).

  (* ---- incremental_shortest_path_closure_assign(var)  (v = var.id() + 1) ---- *)
  Definition inc_step1_body (v k : nat) (both_a both_b : bool) (m : mat) (i : nat) : mat :=
    (* both_a: x_k_v finite (first update enabled); both_b: x_v_k finite (second update enabled) *)
    let m1 := if both_a then
                match m i k, m k v with
                | Fin a, Fin b => mupd m i v (xmin C (m i v) (add_up C a b))
                | _, _ => m end
              else m in
    if both_b then
      match m1 k i, m1 v k with
      | Fin b, Fin a => mupd m1 v i (xmin C (m1 v i) (add_up C a b))
      | _, _ => m1 end
    else m1.
  Definition inc_step1 (n v : nat) (m : mat) (k : nat) : mat :=
    let fa := negb (is_pinf (m k v)) in
    let fb := negb (is_pinf (m v k)) in
    if (fa || fb)%bool then fold_left (inc_step1_body v k fa fb) (down n) m else m.
  Definition inc_step2_row (n v : nat) (m : mat) (i : nat) : mat :=
    if is_pinf (m i v) then m
    else fold_left (fun m j => match m v j, m i v with
                               | Fin b, Fin a => mupd m i j (xmin C (m i j) (add_up C a b))
                               | _, _ => m end) (down n) m.
  Definition inc_loops (n v : nat) (m : mat) : mat :=
    fold_left (inc_step2_row n v) (down n) (fold_left (inc_step1 n v) (down n) m).
  Definition inc_closure (n v : nat) (m : mat) : option mat :=
    let m1 := inc_loops n v (fill_diag n (Fin (czero C)) m) in
    if has_neg_diag n m1 then None else Some (fill_diag n PInf m1).

  (* ---- add_dbm_constraint(i, j, k): if (dbm_ij > k) dbm_ij = k ---- *)
  Definition add_dbm_constraint (m : mat) (i j : nat) (k : N) : mat :=
    if xlt C k (m i j) then mupd m i j k else m.
  (* add_dbm_constraint(i, j, numer, denom): div_round_up then the above *)
  Definition add_dbm_constraint_q (m : mat) (i j : nat) (num den : Z) : mat :=
    add_dbm_constraint m i j (div_up C num den).

  (* ---- intersection_assign: pointwise min; upper_bound_assign: pointwise max (on closed operands) ---- *)
  Definition meet (x y : mat) : mat := fun i j => if xlt C (y i j) (x i j) then y i j else x i j.
  Definition join (x y : mat) : mat := fun i j => if xlt C (x i j) (y i j) then y i j else x i j.

  (* ---- forget_all_dbm_constraints(v) ---- *)
  Definition forget (v : nat) (m : mat) : mat :=
    fun a b => if (Nat.eqb a v || Nat.eqb b v)%bool then PInf else m a b.

  (* ---- the comparisons of contains / is_disjoint_from / operator== on the two matrices ---- *)
  Definition all_pairs (n : nat) (f : nat -> nat -> bool) : bool :=
    forallb (fun i => forallb (fun j => f i j) (down n)) (down n).
  Definition any_pair (n : nat) (f : nat -> nat -> bool) : bool :=
    existsb (fun i => existsb (fun j => f i j) (down n)) (down n).
  (* contains: no cell of x is < the cell of y   (y closed, both non-empty) *)
  Definition code_contains (n : nat) (x y : mat) : bool := all_pairs n (fun i j => negb (xlt C (x i j) (y i j))).
  (* is_disjoint_from, as written at BD_Shape_templates.hh:689..: some x[i][j] < -y[j][i] *)
  Definition code_is_disjoint (n : nat) (x y : mat) : bool :=
    any_pair n (fun i j => match y j i with PInf => false | Fin b => xlt C (x i j) (neg_up C b) end).
  Definition code_equal (n : nat) (x y : mat) : bool :=
    all_pairs n (fun i j => negb (xlt C (x i j) (y i j)) && negb (xlt C (y i j) (x i j)))%bool.

  (* ---- basic facts ---- *)
  Lemma all_pairs_spec n f : all_pairs n f = true <-> forall i j, (i <= n)%nat -> (j <= n)%nat -> f i j = true.
  Proof.
    unfold all_pairs. rewrite forallb_forall. split.
    - intros H i j Hi Hj. apply in_down in Hi. specialize (H i Hi). rewrite forallb_forall in H. apply H. now apply in_down.
    - intros H i Hi. apply forallb_forall. intros j Hj. apply H; now apply in_down.
  Qed.
  Lemma any_pair_spec n f : any_pair n f = true <-> exists i j, (i <= n)%nat /\ (j <= n)%nat /\ f i j = true.
  Proof.
    unfold any_pair. rewrite existsb_exists. split.
    - intros [i [Hi H]]. apply existsb_exists in H. destruct H as [j [Hj H]]. exists i, j. rewrite <- !in_down. auto.
    - intros [i [j [Hi [Hj H]]]]. exists i. split; [now apply in_down|]. apply existsb_exists. exists j. split; [now apply in_down|exact H].
  Qed.

  Lemma mupd_same m i j v : mupd m i j v i j = v.
  Proof. unfold mupd. now rewrite !Nat.eqb_refl. Qed.
  Lemma mupd_other m i j v a b : (a <> i \/ b <> j) -> mupd m i j v a b = m a b.
  Proof.
    unfold mupd. intros H. destruct (Nat.eqb_spec a i), (Nat.eqb_spec b j); cbn; try reflexivity. lia.
  Qed.
End DBM.

(* ---------------------------------------------------------------------------------------- *)
(* matrices given as lists of rows (the dumps of the harness), and back *)
Definition mat_of_rows {T} (rows : list (list (ext T))) : nat -> nat -> ext T :=
  fun i j => nth j (nth i rows []) PInf.
Definition rows_of_mat {T} (n : nat) (m : nat -> nat -> ext T) : list (list (ext T)) :=
  map (fun i => map (fun j => m i j) (seq 0 (S n))) (seq 0 (S n)).

Lemma mat_rows_roundtrip {T} n (m : nat -> nat -> ext T) i j :
  (i <= n)%nat -> (j <= n)%nat -> mat_of_rows (rows_of_mat n m) i j = m i j.
Proof.
  intros Hi Hj. unfold mat_of_rows, rows_of_mat.
  rewrite (nth_indep _ [] (map (fun j => m 0%nat j) (seq 0 (S n)))) by (rewrite map_length, seq_length; lia).
  rewrite (map_nth (fun i => map (fun j => m i j) (seq 0 (S n))) (seq 0 (S n)) 0%nat i).
  rewrite seq_nth by lia. cbn [Nat.add].
  rewrite (nth_indep _ PInf (m i 0%nat)) by (rewrite map_length, seq_length; lia).
  rewrite (map_nth (fun j => m i j) (seq 0 (S n)) 0%nat j).
  rewrite seq_nth by lia. reflexivity.
Qed.
