(* The octagon denotation of the model (Oct.v, den_oct) coincides with the denotation the judge builds
   from the dumped pseudo-triangular matrix (ToSys.v, den_oct_stored / sys_of_oct). *)
From Coq Require Import List ZArith QArith Lqa Bool Arith Lia.
Require Import PPLV.Base.FM PPLV.Base.Sys.
Require Import PPLV.Shapes.ExtNum PPLV.Shapes.DBM PPLV.Shapes.Templ PPLV.Shapes.ToSys PPLV.Shapes.Oct.
Local Open Scope Q_scope.

Lemma stored_cbar i j : stored i j = true <-> (j <= cbar i)%nat.
Proof.
  unfold stored, row_size, cbar. destruct (Nat.even i); rewrite Nat.ltb_lt; lia.
Qed.

Lemma cbar_lt n i : (i < 2 * n)%nat -> (cbar i < 2 * n)%nat.
Proof.
  unfold cbar. intros H. destruct (Nat.even i) eqn:E; [|exact H].
  apply Nat.even_spec in E. destruct E as [k ->]. lia.
Qed.

Lemma sv_sval q i : sv q i = sval q i.
Proof. reflexivity. Qed.

Theorem den_oct_bridge n (m : nat -> nat -> ext Q) q : den_oct Qc n m q <-> den_oct_stored n m q.
Proof.
  unfold den_oct, den_oct_stored. split.
  - intros H i j Hi Hj. rewrite <- !sv_sval. apply H; [exact Hi| |now apply stored_cbar].
    pose proof (cbar_lt n i Hi). lia.
  - intros H i j Hi Hj St. rewrite !sv_sval. apply H; [exact Hi|now apply stored_cbar].
Qed.

Theorem sys_of_oct_den n m q : sat_sys (sys_of_oct n m) q <-> den_oct Qc n m q.
Proof. rewrite sys_of_oct_sat. symmetry. apply den_oct_bridge. Qed.
