(* Template sets: conjunctions of bounds  e(p) <= q  /  e(p) < q  on linear expressions.
   Boxes (+-x_i), BD shapes (x_j - x_i, +-x_i) and octagons (+-x_i +- x_j) denote template sets;
   [sys_of_pairs] turns one into a constraint system of the verified oracle (Base/Sys.v), and
   [alpha_t] computes the BEST template set containing a constraint-defined set, entry by entry,
   with the verified exact supremum [sup_expr] (Base/Sup.v).
   Theorems: sys_of_pairs_sat (exact), alpha_t_best (E is contained in gamma(alpha E) and gamma(alpha E)
   is contained in every template set over the same expressions that contains E). *)
From Coq Require Import List ZArith QArith Qminmax Lqa Bool Arith Lia.
Require Import PPLV.Base.FM PPLV.Base.Sys PPLV.Base.Sup PPLV.Poly.PolyOps.
Import ListNotations.
Local Open Scope Q_scope.

(* a bound: None = unbounded; Some (q, st): e <= q (st = false) or e < q (st = true) *)
Definition tbound := option (Q * bool).
Definition holds (x : Q) (b : tbound) : Prop :=
  match b with None => True | Some (q, st) => if st then x < q else x <= q end.
Definition gamma_l (l : list (lin * tbound)) (p : point) : Prop :=
  forall e b, In (e, b) l -> holds (leval e p) b.

(* the constraint  e(p) <= a/b  as  0 <= a - b * e(p) *)
Definition lconst (a : Z) : lin := {| lcoefs := []; lcst := a |}.
Lemma leval_lconst a p : leval (lconst a) p == inject_Z a.
Proof. unfold leval, lconst; cbn [lcoefs lcst dot]. ring. Qed.

Definition bound_cstr (e : lin) (q : Q) (st : bool) : cstr :=
  c_of (ladd (lconst (Qnum q)) (lscale (- Zpos (Qden q)) e)) st.

Lemma bound_cstr_sat e q st p : sat (bound_cstr e q st) p <-> holds (leval e p) (Some (q, st)).
Proof.
  unfold bound_cstr. rewrite sat_c_of. cbn [holds].
  pose proof (leval_ladd (lconst (Qnum q)) (lscale (- Z.pos (Qden q)) e) p) as E1.
  rewrite leval_lscale, leval_lconst in E1.
  set (z := leval (ladd (lconst (Qnum q)) (lscale (- Z.pos (Qden q)) e)) p) in *. clearbody z.
  set (x := leval e p) in *. clearbody x.
  destruct q as [a b]. cbn [Qnum Qden] in *.
  pose proof (Qmake_Qdiv a b) as E.
  assert (Hb : 0 < inject_Z (Zpos b)) by (change 0 with (inject_Z 0); rewrite <- Zlt_Qlt; reflexivity).
  rewrite inject_Z_opp in E1.
  set (B := inject_Z (Zpos b)) in *. set (A := inject_Z a) in *. clearbody A B.
  assert (D : (A / B) * B == A) by (field; lra).
  set (y := A / B) in *. clearbody y.
  set (w := a # b) in *. clearbody w.
  destruct st; split; intros H; nra.
Qed.

Definition cstrs_of_pairs (l : list (lin * tbound)) : list cstr :=
  flat_map (fun eb => match snd eb with None => [] | Some (q, st) => [bound_cstr (fst eb) q st] end) l.
Definition sys_of_pairs (l : list (lin * tbound)) : sys := {| eqs := []; ineqs := cstrs_of_pairs l |}.

Theorem sys_of_pairs_sat l p : sat_sys (sys_of_pairs l) p <-> gamma_l l p.
Proof.
  unfold sat_sys, sys_of_pairs, sat_eqs, sat_all, gamma_l, cstrs_of_pairs; cbn [eqs ineqs]. split.
  - intros [_ H] e b Hin. destruct b as [[q st]|]; [|exact I].
    apply bound_cstr_sat. apply H. apply in_flat_map. exists (e, Some (q, st)). split; [exact Hin|]. now left.
  - intros H. split; [intros e []|]. intros c Hc. apply in_flat_map in Hc. destruct Hc as [[e b] [Hin Hc]].
    cbn [fst snd] in Hc. destruct b as [[q st]|]; [|destruct Hc]. destruct Hc as [<-|[]].
    apply bound_cstr_sat. now apply H.
Qed.

(* ---------------------------------------------------------------------------------------- *)
(* best abstraction.  keep = true: a supremum that is not attained becomes a strict bound
   (rational boxes with open bounds); keep = false: bounds are never strict (BD shapes, octagons,
   closed boxes): the best CLOSED template set. *)
Definition bound_of_sup (keep : bool) (r : supres) : option tbound :=
  match r with
  | SupEmpty => None
  | SupUnbounded => Some None
  | SupVal m att => Some (Some (m, (keep && negb att)%bool))
  end.

Fixpoint alpha_t (keep : bool) (n : nat) (E : sys) (es : list lin) : option (list (lin * tbound)) :=
  match es with
  | [] => Some []
  | e :: es' =>
      match sup_expr n e E with
      | Some r => match bound_of_sup keep r, alpha_t keep n E es' with
                  | Some b, Some l => Some ((e, b) :: l)
                  | _, _ => None
                  end
      | None => None
      end
  end.

Lemma alpha_t_in keep n E : forall es l, alpha_t keep n E es = Some l ->
  forall e b, In (e, b) l -> exists r, sup_spec E e r /\ bound_of_sup keep r = Some b.
Proof.
  induction es as [|e0 es IH]; intros l H e b Hin.
  - cbn in H. injection H as <-. destruct Hin.
  - cbn [alpha_t] in H. destruct (sup_expr n e0 E) as [r|] eqn:S; [|discriminate].
    destruct (bound_of_sup keep r) as [b0|] eqn:B; [|discriminate].
    destruct (alpha_t keep n E es) as [l0|] eqn:A; [|discriminate]. injection H as <-.
    destruct Hin as [Heq|Hin].
    + injection Heq as <- <-. exists r. split; [now apply (sup_expr_exact n)|exact B].
    + now apply (IH l0).
Qed.

Lemma alpha_t_fst keep n E : forall es l, alpha_t keep n E es = Some l -> map fst l = es.
Proof.
  induction es as [|e0 es IH]; intros l H.
  - cbn in H. now injection H as <-.
  - cbn [alpha_t] in H. destruct (sup_expr n e0 E) as [r|]; [|discriminate].
    destruct (bound_of_sup keep r) as [b0|]; [|discriminate].
    destruct (alpha_t keep n E es) as [l0|] eqn:A; [|discriminate]. injection H as <-.
    cbn [map fst]. f_equal. now apply IH.
Qed.

(* E is contained in gamma (alpha E) *)
Theorem alpha_t_sound keep n E es l : alpha_t keep n E es = Some l -> forall p, sat_sys E p -> gamma_l l p.
Proof.
  intros A p Hp e b Hin. destruct (alpha_t_in _ _ _ _ _ A e b Hin) as [r [S B]].
  destruct r as [| |m att]; cbn [bound_of_sup] in B; try discriminate.
  - injection B as <-. exact I.
  - injection B as <-. cbn [sup_spec] in S. destruct S as [_ [S1 [_ S3]]]. cbn [holds].
    destruct keep, att; cbn [andb negb]; try (apply S1; exact Hp).
    destruct (S3 eq_refl) as [T _]. now apply T.
Qed.

(* ... and it is the least one among the template sets over expressions of [es]
   (with non-strict bounds only when keep = false) *)
Theorem alpha_t_least keep n E es l : alpha_t keep n E es = Some l ->
  forall l', (forall e b, In (e, b) l' -> In e es /\ (keep = false -> forall q st, b = Some (q, st) -> st = false)) ->
  (forall p, sat_sys E p -> gamma_l l' p) ->
  forall p, gamma_l l p -> gamma_l l' p.
Proof.
  intros A l' Hl' Hsup p Hp e b' Hin'.
  destruct (Hl' e b' Hin') as [He Hst].
  assert (Hex : exists b, In (e, b) l).
  { rewrite <- (alpha_t_fst _ _ _ _ _ A) in He. apply in_map_iff in He. destruct He as [[e1 b1] [E1 I1]].
    cbn [fst] in E1. subst e1. now exists b1. }
  destruct Hex as [b Hin]. specialize (Hp e b Hin).
  destruct (alpha_t_in _ _ _ _ _ A e b Hin) as [r [S B]].
  destruct b' as [[q' st']|]; [|exact I].
  assert (Hall : forall x, sat_sys E x -> holds (leval e x) (Some (q', st'))) by (intros x Hx; now apply (Hsup x Hx e)).
  cbn [holds] in *.
  destruct r as [| |m att]; cbn [bound_of_sup] in B; try discriminate.
  - (* unbounded above on E: no finite bound can contain E *)
    cbn [sup_spec] in S. destruct S as [_ S]. destruct (S q') as [x [Hx Hlt]]. specialize (Hall x Hx).
    destruct st'; lra.
  - injection B as <-. cbn [sup_spec] in S. destruct S as [_ [S1 [S2 S3]]]. cbn [holds] in Hp.
    destruct att.
    + destruct (S2 eq_refl) as [x [Hx Ex]]. specialize (Hall x Hx).
      rewrite andb_false_r in Hp. destruct st'; lra.
    + destruct (S3 eq_refl) as [T1 T2].
      assert (Hm : m <= q').
      { destruct (Qlt_le_dec q' m) as [L|L]; [|exact L]. exfalso.
        destruct (T2 (m - q')) as [x [Hx Hlt]]; [lra|]. specialize (Hall x Hx). destruct st'; lra. }
      destruct keep; cbn [andb negb] in Hp.
      * destruct st'; lra.
      * rewrite (Hst eq_refl q' st' eq_refl). lra.
Qed.

(* gamma (alpha E) is empty-free: alpha_t answers None exactly when E is empty or a supremum is undecided *)
Lemma alpha_t_nonempty keep n E e es l : alpha_t keep n E (e :: es) = Some l -> exists p, sat_sys E p.
Proof.
  cbn [alpha_t]. destruct (sup_expr n e E) as [r|] eqn:S; [|discriminate].
  apply sup_expr_exact in S. destruct r as [| |m att]; cbn [bound_of_sup sup_spec] in *; try discriminate.
  - intros _. now destruct S.
  - intros _. now destruct S.
Qed.

(* union of pieces: the best template set containing E1 u E2 has the pointwise larger bounds *)
Definition tb_le (a b : tbound) : Prop := forall x, holds x a -> holds x b.
Definition tb_max (a b : tbound) : tbound :=
  match a, b with
  | None, _ | _, None => None
  | Some (qa, sa), Some (qb, sb) =>
      match Qcompare qa qb with
      | Lt => b | Gt => a
      | Eq => Some (qa, (sa && sb)%bool)
      end
  end.
Lemma tb_max_l a b : tb_le a (tb_max a b).
Proof.
  destruct a as [[qa sa]|], b as [[qb sb]|]; intros x; cbn [tb_max holds]; auto.
  destruct (Qcompare qa qb) eqn:Cmp; cbn [holds].
  - destruct sa, sb; cbn [andb]; intros; lra.
  - apply Qlt_alt in Cmp. destruct sa, sb; intros; lra.
  - tauto.
Qed.
Lemma tb_max_r a b : tb_le b (tb_max a b).
Proof.
  destruct a as [[qa sa]|], b as [[qb sb]|]; intros x; cbn [tb_max holds]; auto.
  destruct (Qcompare qa qb) eqn:Cmp; cbn [holds].
  - apply Qeq_alt in Cmp. destruct sa, sb; cbn [andb]; intros; lra.
  - tauto.
  - apply Qgt_alt in Cmp. destruct sa, sb; intros; lra.
Qed.
Lemma tb_max_lub a b c : tb_le a c -> tb_le b c -> tb_le (tb_max a b) c.
Proof.
  destruct a as [[qa sa]|], b as [[qb sb]|]; cbn [tb_max]; intros Ha Hb.
  - destruct (Qcompare qa qb) eqn:Cmp; auto.
    apply Qeq_alt in Cmp. destruct sa, sb; cbn [andb]; auto.
    intros x Hx. apply Hb. cbn [holds] in *. lra.
  - (* b unbounded: c must be unbounded *)
    exact Hb.
  - exact Ha.
  - exact Ha.
Qed.

Fixpoint zip_max (l1 l2 : list (lin * tbound)) : list (lin * tbound) :=
  match l1, l2 with
  | (e, a) :: r1, (_, b) :: r2 => (e, tb_max a b) :: zip_max r1 r2
  | _, _ => []
  end.

Lemma zip_max_in : forall l1 l2, map fst l1 = map fst l2 -> forall e c, In (e, c) (zip_max l1 l2) ->
  exists a b, In (e, a) l1 /\ In (e, b) l2 /\ c = tb_max a b.
Proof.
  induction l1 as [|[e1 a1] r1 IH]; intros [|[e2 b2] r2] Hm e c Hin; cbn [zip_max] in Hin; try destruct Hin as [].
  - cbn [map fst] in Hm. injection Hm as -> Hm. exists a1, b2. injection H as <- <-. repeat split; now left.
  - cbn [map fst] in Hm. injection Hm as -> Hm. destruct (IH r2 Hm e c H) as [a [b [Ia [Ib Ec]]]].
    exists a, b. repeat split; auto; now right.
Qed.

Theorem zip_max_sound l1 l2 p : map fst l1 = map fst l2 -> (gamma_l l1 p \/ gamma_l l2 p) -> gamma_l (zip_max l1 l2) p.
Proof.
  intros Hm H e c Hin. destruct (zip_max_in _ _ Hm e c Hin) as [a [b [Ia [Ib ->]]]].
  destruct H as [H|H].
  - apply tb_max_l. now apply H.
  - apply tb_max_r. now apply H.
Qed.
