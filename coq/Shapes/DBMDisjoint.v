(* BD_Shape::is_disjoint_from AFTER the repair (corpus/C04/fix-9-is-disjoint-from.diff): the two shapes are
   closed (an empty one answers true), then the intersection is formed, closed, and tested for emptiness.
   Over an exact carrier the answer is exact; over any carrier a "true" answer is trustworthy. *)
From Coq Require Import List ZArith QArith Lqa Bool Arith Lia.
Require Import PPLV.Shapes.ExtNum PPLV.Shapes.DBM PPLV.Shapes.DBMSound PPLV.Shapes.DBMExact PPLV.Shapes.DBMClosed.
Local Open Scope Q_scope.

Section Fixed.
  Context {T : Type} (C : carrier T).

  Definition fixed_is_disjoint (n : nat) (x y : mat) : bool :=
    match closure C n (meet C x y) with None => true | Some _ => false end.

  Lemma meet_diag_inf n (x y : mat) : diag_inf n x -> diag_inf n y -> diag_inf n (meet C x y).
  Proof.
    intros Hx Hy h Hh. unfold meet. rewrite (Hx h Hh), (Hy h Hh). now destruct (xlt C PInf PInf).
  Qed.

  Lemma diag_inf_ok n (m : mat) : diag_inf n m -> diag_ok C n m.
  Proof. intros H h Hh. rewrite (H h Hh). exact I. Qed.

  (* any carrier: a definite answer is trustworthy (C03) *)
  Theorem fixed_is_disjoint_sound n x y :
    diag_inf n x -> diag_inf n y -> fixed_is_disjoint n x y = true ->
    forall p, den C n x p -> den C n y p -> False.
  Proof.
    intros Hx Hy H p Px Py. unfold fixed_is_disjoint in H.
    destruct (closure C n (meet C x y)) eqn:E; [discriminate|].
    apply (closure_empty_sound C n (meet C x y) (diag_inf_ok n _ (meet_diag_inf n x y Hx Hy)) E p).
    apply meet_sound. now split.
  Qed.

  (* exact carrier: the answer is exact (C04) *)
  Theorem is_disjoint_exact n x y :
    add_exact C -> diag_inf n x -> diag_inf n y ->
    (fixed_is_disjoint n x y = true <-> forall p, den C n x p -> den C n y p -> False).
  Proof.
    intros Hex Hx Hy. split; [now apply fixed_is_disjoint_sound|].
    intros H. unfold fixed_is_disjoint.
    destruct (closure C n (meet C x y)) as [m'|] eqn:E; [|reflexivity]. exfalso.
    pose proof (meet_diag_inf n x y Hx Hy) as Hd.
    destruct (closure_some_nonempty C n (meet C x y) m' Hex Hd E) as [p Hp].
    apply (closure_sound C n (meet C x y) m' (diag_inf_ok n _ Hd) E p) in Hp.
    apply meet_sound in Hp. destruct Hp as [Px Py]. exact (H p Px Py).
  Qed.
End Fixed.

(* the former counterexample is now answered correctly *)
Example fixed_is_disjoint_on_cex : fixed_is_disjoint Qc 3 cex_x cex_y = true.
Proof. vm_compute. reflexivity. Qed.

(* ---- octagons: Octagonal_Shape::is_disjoint_from after the same repair ---- *)
Require Import PPLV.Shapes.Oct.
Section FixedOct.
  Context {T : Type} (C : carrier T).

  Definition oct_fixed_is_disjoint (n : nat) (x y : nat -> nat -> ext T) : bool :=
    match strong_closure C n (oct_meet C x y) with None => true | Some _ => false end.

  Lemma oct_meet_diag_ok n x y : oct_diag_ok C n x -> oct_diag_ok C n y -> oct_diag_ok C n (oct_meet C x y).
  Proof.
    intros Hx Hy i Hi. unfold oct_meet. destruct (xlt C (y i i) (x i i)); [now apply Hy|now apply Hx].
  Qed.

  (* any carrier: a definite answer is trustworthy *)
  Theorem oct_fixed_is_disjoint_sound n x y :
    oct_diag_ok C n x -> oct_diag_ok C n y -> oct_fixed_is_disjoint n x y = true ->
    forall p, den_oct C n x p -> den_oct C n y p -> False.
  Proof.
    intros Hx Hy H p Px Py. unfold oct_fixed_is_disjoint in H.
    destruct (strong_closure C n (oct_meet C x y)) eqn:E; [discriminate|].
    apply (strong_closure_empty_sound C n (oct_meet C x y) (oct_meet_diag_ok n x y Hx Hy) E p).
    apply oct_meet_sound. now split.
  Qed.
End FixedOct.

(* exactness for octagons needs the tightness of the strong closure, which is not proved (Oct.strong_closure_nonempty_full) *)
Definition oct_is_disjoint_exact_full : Prop :=
  forall n (x y : nat -> nat -> ext Q), oct_diag_ok Qc n x -> oct_diag_ok Qc n y ->
    (oct_fixed_is_disjoint Qc n x y = true <-> forall p, den_oct Qc n x p -> den_oct Qc n y p -> False).

(* the former octagon counterexample is now answered correctly *)
Example oct_fixed_is_disjoint_on_cex : oct_fixed_is_disjoint Qc 3 oct_wx oct_wy = true.
Proof. vm_compute. reflexivity. Qed.
