(* C20 -- The C interface is a faithful, exception-tight wrapper of the C++ library.
   Audited statements only; proofs are in CIface/{Exn,Entries,C20}.v.  [entries], [prototypes],
   [enum_error_code] are regenerated from the working tree on every run (gen/Facts_CIface.v). *)
From Coq Require Import List String ZArith Bool.
Require Import PPLV.CIface.Exn PPLV.CIface.Entries PPLV.CIface.Spec PPLV.gen.Facts_CIface PPLV.CIface.C20 PPLV.CIface.TimeoutSpec PPLV.CIface.Timeouts PPLV.CIface.PFunc.
Import ListNotations.

(* --- generic theorems about C++ catch semantics (any chain) --- *)

(* a chain containing `catch (...)` handles every exception, whatever its set of bases *)
Theorem handles_total_generic : forall ch, has_ellipsis ch = true ->
  forall e, exists cl, handles ch e = Some cl /\ In cl ch.
Proof. exact handles_total. Qed.

(* clause ORDER: in a well-ordered chain (no base before a derived class, `...` last) an exception of
   class c selects the clause of its NEAREST ancestor that has one, else the `...` clause *)
Theorem chain_order_generic : forall ch, well_ordered ch = true -> no_unknown ch = true ->
  forall c, handles ch (of_class c) = spec_handles ch c.
Proof. exact handles_is_nearest. Qed.

(* --- instantiated on the regenerated chains --- *)

Theorem chain_total : forall ch, In ch nonempty_chains ->
  forall e : exn, exists cl, handles ch e = Some cl /\ In cl ch.
Proof. exact chain_total_all. Qed.

Theorem chain_documented : forall ch, In ch nonempty_chains ->
  (forall c : cls, code_of (handles ch (of_class c)) = Some (documented_code c)) /\
  code_of (handles ch foreign) = Some ERROR_UNEXPECTED_ERROR.
Proof. exact chain_documented_all. Qed.

(* the same per entry point: whatever class the body throws, the documented enumerator is returned *)
Theorem entry_returns_documented_code : forall en, In en entries -> e_has_try en = true -> forall c,
  exists cl, handles (e_chain en) (of_class c) = Some cl /\ reported (Some cl) = Some (documented_code c).
Proof. exact entry_returns_documented. Qed.

(* --- the entry points --- *)

(* FULL statements (no exempted entry since ppl_io_wrap_string has a function-try-block) *)
Theorem all_entries_tight : forall en, In en entries -> tight en = true.
Proof. intros en H. apply all_entries_tight_partial_l; [exact H | exact (fun x => x)]. Qed.

Theorem never_escapes : forall en, In en entries ->
  forall o, admissible en o ->
  match o with
  | Returns v => run_entry en o = (Returned v, [])
  | Throws e => exists c z, error_result (fst (run_entry en o)) c /\ In (E_notify c) (snd (run_entry en o))
                            /\ value_of enum_error_code c = Some z /\ (z < 0)%Z
  end.
Proof. intros en H. apply never_escapes_partial_l; [exact H | exact (fun x => x)]. Qed.

(* the hypotheses are satisfiable: a real entry, a throwing outcome *)
Example never_escapes_inhabited :
  exists en, In en entries /\ ~ In (e_name en) exempt_untight /\ admissible en (Throws (of_class BadAlloc)).
Proof.
  destruct (find (fun x => e_has_try x && negb (str_mem (e_name x) exempt_untight)) entries) as [en|] eqn:F;
    [|vm_compute in F; discriminate F].
  apply find_some in F as [F1 F2]. apply andb_prop in F2 as [F2 F3]. exists en. split; [exact F1|]. split.
  - intros M. apply str_mem_In in M. rewrite M in F3. discriminate.
  - left. exact F2.
Qed.

Theorem every_body_returns : forall en, In en entries -> e_body_returns en = true.
Proof. intros en H. pose proof all_return as A. rewrite forallb_forall in A. exact (A en H). Qed.

(* FULL statement (no exempted prototype since ppl_new_Linear_Expression_from_Grid_Generator is defined again) *)
Theorem declared_are_defined : forall p, In p prototypes -> In p entry_names.
Proof. intros p H. apply declared_defined; [exact H | exact (fun x => x)]. Qed.

Theorem defined_are_declared : forall n, In n entry_names -> In n prototypes.
Proof. exact defined_declared. Qed.

Theorem error_codes_negative_distinct :
  (forall c, exists z, value_of enum_error_code c = Some z /\ (z < 0)%Z /\ z = documented_value c)
  /\ NoDup (map snd enum_error_code).
Proof.
  destruct (codes_ok_spec _ enum_ok) as [A B]. split; [|exact B].
  intros c. destruct (A c) as [z [Z1 Z2]]. exists z. repeat split; auto.
  pose proof enum_documented as D. rewrite forallb_forall in D.
  assert (In c all_ecodes) by (destruct c; cbn; tauto).
  specialize (D c H). rewrite Z1 in D. now apply Z.eqb_eq.
Qed.

(* the time-out handlers disarm the watchdog before notifying, in every chain *)
Theorem timeout_handlers_reset : forallb (forallb resets_before_notify) nonempty_chains = true.
Proof. exact chains_timeouts_reset. Qed.

(* no entry point other than the known `get_<representation>` family stores the address of a
   temporary / local through an output parameter (facts: g++ -Wdangling-pointer=2 on the regenerated sources, plus the
   translator's syntactic rule `*out = ... &local ...`) *)
Theorem no_dangling_outputs_partial : forall n, In n dangling_outputs -> exempt_getter n = true.
Proof. intros n H. pose proof dangling_only_getters as A. rewrite forallb_forall in A. exact (A n H). Qed.

(* time-outs (full statement since /repo 5150800): ppl_set_timeout registers a timeout_exception and
   ppl_set_deterministic_timeout a deterministic_timeout_exception; both are reported as PPL_TIMEOUT_EXCEPTION
   and the handler selected for the registered class disarms the watchdog that expired before notifying *)
Theorem timeouts_reported_as_timeout :
  timeout_registrations = [("ppl_set_deterministic_timeout", CT_class DetTimeout); ("ppl_set_timeout", CT_class Timeout)]
  /\ forallb (fun p => match snd p with CT_class c => ecode_eqb (documented_code c) TIMEOUT_EXCEPTION | _ => false end)
              timeout_registrations = true
  /\ forallb resets_own_watchdog timeout_registrations = true.
Proof.
  split; [exact timeout_registration_holds|]. split;
  [exact (proj1 timeout_registrations_timeout_class) | exact registered_handlers_reset_own_watchdog].
Qed.

(* call SEQUENCES of the four registration entries (set/reset x wall-clock/deterministic), in any order, repeated, with
   expiries in between: the machine driven by the regenerated bodies of the entries, of the reset helpers and by the handler
   the regenerated chain selects on expiry ends in exactly the state of the specification machine -- each watchdog armed iff
   the last event of ITS kind armed it, with the exception class of its kind and its last budget, nothing leaked, no other
   pointer touched -- and is interrupted exactly when the specification says. *)
Theorem timeout_sequences : forall ch, In ch nonempty_chains -> forall (l : list tev) (s : sstate),
  code_run ch (embed s) l = (embed (fst (spec_run s l)), snd (spec_run s l)).
Proof. exact timeout_sequences_l. Qed.

(* the partial-function wrapper given to map_space_dimensions (model; the real class is compared with it exhaustively on
   small arrays): empty codomain iff nothing is mapped; max_in_codomain is an upper bound of the images and is attained *)
Theorem pfunc_has_empty_codomain : forall v, has_empty_codomain v = true <-> forall i, PFunc.maps v i = None.
Proof. exact has_empty_codomain_spec. Qed.

Theorem pfunc_max_in_codomain : forall v,
  (forall i j, PFunc.maps v i = Some j -> j <= max_in_codomain v)
  /\ (has_empty_codomain v = false -> exists i, PFunc.maps v i = Some (max_in_codomain v)).
Proof. intros v; split; [exact (max_in_codomain_upper v) | exact (max_in_codomain_attained v)]. Qed.
