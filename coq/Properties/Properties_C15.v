(** C15 -- ascii_dump / ascii_load round-trips every object in every internal state.

    Audited obligations.  [load_X tgt (dump_X x rest) = Some (x, rest)] : loading the dump of [x],
    followed by any further text [rest], into a target whose status word is [tgt] succeeds,
    yields exactly [x] and leaves [rest] unread ([rest := []] is the statement of the property).
    "Fresh" targets have status word 0 (default-constructed polyhedron, grid, BD shape, octagonal
    shape) except [Box], whose constructors all set EMPTY_UP_TO_DATE (status word 1).
    Statements whose truth depends on the source text of the status loaders (whether a field has an
    [else] branch) are given in DECIDED form: a [match] on the result of an exhaustive search over
    the regenerated field lists; `Eval vm_compute` of the scrutinee (printed in the evidence) tells
    which branch is the one proved for the current tree. *)
Require Import String List NArith ZArith.
Require Import PPLV.Codec.Tok PPLV.Codec.Num PPLV.Codec.Status PPLV.Codec.Rows PPLV.Codec.Mats
               PPLV.Codec.Objs PPLV.Codec.Thms PPLV.Codec.Float.
Import ListNotations.

(** ** Status words: every one of the 2^n flag combinations *)
Theorem roundtrip_Ph_Status : forall st rest, in_range ph_class st ->
  load_status ph_class 0 (dump_status ph_class st rest) = Some (st, rest).
Proof. exact Status.roundtrip_Ph_Status. Qed.
Theorem roundtrip_Grid_Status : forall st rest, in_range grid_class st ->
  load_status grid_class 0 (dump_status grid_class st rest) = Some (st, rest).
Proof. exact Status.roundtrip_Grid_Status. Qed.
Theorem roundtrip_BDS_Status : forall st rest, in_range bds_class st ->
  load_status bds_class 0 (dump_status bds_class st rest) = Some (st, rest).
Proof. exact Status.roundtrip_BDS_Status. Qed.
Theorem roundtrip_Og_Status : forall st rest, in_range og_class st ->
  load_status og_class 0 (dump_status og_class st rest) = Some (st, rest).
Proof. exact Status.roundtrip_Og_Status. Qed.
Theorem roundtrip_Box_Status : forall st rest, in_range box_class st ->
  load_status box_class 0 (dump_status box_class st rest) = Some (st, rest).
Proof. exact Status.roundtrip_Box_Status. Qed.

Theorem dump_inj_Ph_Status : forall st st', in_range ph_class st -> in_range ph_class st' ->
  dump_status ph_class st [] = dump_status ph_class st' [] -> st = st'.
Proof. exact (status_dump_inj ph_class ph_fresh_none). Qed.
Theorem dump_inj_Grid_Status : forall st st', in_range grid_class st -> in_range grid_class st' ->
  dump_status grid_class st [] = dump_status grid_class st' [] -> st = st'.
Proof. exact (status_dump_inj grid_class grid_fresh_none). Qed.
Theorem dump_inj_BDS_Status : forall st st', in_range bds_class st -> in_range bds_class st' ->
  dump_status bds_class st [] = dump_status bds_class st' [] -> st = st'.
Proof. exact (status_dump_inj bds_class bds_fresh_none). Qed.
Theorem dump_inj_Og_Status : forall st st', in_range og_class st -> in_range og_class st' ->
  dump_status og_class st [] = dump_status og_class st' [] -> st = st'.
Proof. exact (status_dump_inj og_class og_fresh_none). Qed.
Theorem dump_inj_Box_Status : forall st st', in_range box_class st -> in_range box_class st' ->
  dump_status box_class st [] = dump_status box_class st' [] -> st = st'.
Proof. exact (status_dump_inj box_class box_fresh_none). Qed.

(** loading into a USED status word: holds for all pairs, or the search result is a counterexample *)
Theorem roundtrip_into_any_Ph_Status_decided : into_any_statement ph_class.
Proof. exact (into_any_decided ph_class). Qed.
Theorem roundtrip_into_any_Grid_Status_decided : into_any_statement grid_class.
Proof. exact (into_any_decided grid_class). Qed.
Theorem roundtrip_into_any_BDS_Status_decided : into_any_statement bds_class.
Proof. exact (into_any_decided bds_class). Qed.
Theorem roundtrip_into_any_Og_Status_decided : into_any_statement og_class.
Proof. exact (into_any_decided og_class). Qed.
Theorem roundtrip_into_any_Box_Status_decided : into_any_statement box_class.
Proof. exact (into_any_decided box_class). Qed.
(** the status word of a constructed box as target *)
Theorem roundtrip_Box_Status_constructed_decided : from_statement box_class box_fresh_object_status.
Proof. exact (from_decided box_class box_fresh_object_status). Qed.

(** ** Rows *)
Theorem roundtrip_Constraint : forall r rest, wf_crow r -> load_constraint (dump_constraint r rest) = Some (r, rest).
Proof. exact RT_constraint. Qed.
Theorem roundtrip_Generator : forall r rest, wf_genrow r -> load_generator (dump_generator r rest) = Some (r, rest).
Proof. exact RT_generator. Qed.
Theorem roundtrip_Congruence : forall r rest, load_congruence (dump_congruence r rest) = Some (r, rest).
Proof. exact (fun r rest => RT_congruence r rest I). Qed.
Theorem roundtrip_Grid_Generator : forall r rest, load_grid_generator (dump_grid_generator r rest) = Some (r, rest).
Proof. exact (fun r rest => RT_grid_generator r rest I). Qed.

(** ** Systems (any topology, representation, sortedness flag, index_first_pending) *)
Theorem roundtrip_Constraint_System : forall x rest, wf_linsys constraint_class x ->
  load_linsys constraint_class (dump_linsys constraint_class x rest) = Some (x, rest).
Proof. exact RT_constraint_system. Qed.
Theorem roundtrip_Generator_System : forall x rest, wf_linsys generator_class x ->
  load_linsys generator_class (dump_linsys generator_class x rest) = Some (x, rest).
Proof. exact RT_generator_system. Qed.
Theorem roundtrip_Grid_Generator_System : forall x rest, wf_linsys grid_generator_class x ->
  load_linsys grid_generator_class (dump_linsys grid_generator_class x rest) = Some (x, rest).
Proof. exact RT_grid_generator_system. Qed.
Theorem roundtrip_Congruence_System : forall x rest, wf_plainsys congruence_class x ->
  load_plainsys congruence_class (dump_plainsys congruence_class x rest) = Some (x, rest).
Proof. exact RT_congruence_system. Qed.

Theorem dump_inj_Constraint_System : forall a b, wf_linsys constraint_class a -> wf_linsys constraint_class b ->
  dump_linsys constraint_class a [] = dump_linsys constraint_class b [] -> a = b.
Proof. exact cs_inj. Qed.
Theorem dump_inj_Generator_System : forall a b, wf_linsys generator_class a -> wf_linsys generator_class b ->
  dump_linsys generator_class a [] = dump_linsys generator_class b [] -> a = b.
Proof. exact gs_inj. Qed.
Theorem dump_inj_Grid_Generator_System : forall a b, wf_linsys grid_generator_class a -> wf_linsys grid_generator_class b ->
  dump_linsys grid_generator_class a [] = dump_linsys grid_generator_class b [] -> a = b.
Proof. exact ggs_inj. Qed.
Theorem dump_inj_Congruence_System : forall a b, wf_plainsys congruence_class a -> wf_plainsys congruence_class b ->
  dump_plainsys congruence_class a [] = dump_plainsys congruence_class b [] -> a = b.
Proof. exact cgs_inj. Qed.

(** ** Matrices and intervals *)
Theorem roundtrip_Bit_Matrix : forall m rest, wf_bitmat m -> load_bitmat (dump_bitmat m rest) = Some (m, rest).
Proof. exact RT_bitmat. Qed.
Theorem roundtrip_DB_Matrix_mpq : forall m rest, wf_dbm wf_dbm_mpq m ->
  load_dbm p_dbm_mpq (dump_dbm w_dbm_mpq m rest) = Some (m, rest).
Proof. exact (RT_dbm w_dbm_mpq p_dbm_mpq wf_dbm_mpq RT_dbm_mpq). Qed.
Theorem roundtrip_DB_Matrix_mpz : forall m rest, wf_dbm wf_dbm_Z m ->
  load_dbm p_dbm_Z (dump_dbm w_dbm_Z m rest) = Some (m, rest).
Proof. exact (RT_dbm w_dbm_Z p_dbm_Z wf_dbm_Z RT_dbm_Z). Qed.
Theorem roundtrip_OR_Matrix_mpq : forall m rest, wf_orm wf_dbm_mpq m ->
  load_orm p_dbm_mpq (dump_orm w_dbm_mpq m rest) = Some (m, rest).
Proof. exact (RT_orm w_dbm_mpq p_dbm_mpq wf_dbm_mpq RT_dbm_mpq). Qed.
Theorem roundtrip_Interval_mpq : forall i rest,
  load_itv p_mpq_native (dump_itv w_mpq i rest) = Some (i, rest).
Proof. exact (fun i rest => RT_itv w_mpq p_mpq_native (fun _ => True) RT_mpq_native i rest (conj I I)). Qed.
Theorem roundtrip_Interval_mpz : forall i rest,
  load_itv p_Z (dump_itv w_Z i rest) = Some (i, rest).
Proof. exact (fun i rest => RT_itv w_Z p_Z (fun _ => True) RT_Z i rest (conj I I)). Qed.

(** ** Polyhedron (C and NNC): every status word, pending rows, unsorted systems *)
Theorem roundtrip_Polyhedron : forall p rest, wf_polyhedron p -> in_range ph_class (ph_status p) ->
  load_polyhedron 0 (dump_polyhedron p rest) = Some (p, rest).
Proof. exact poly_fresh. Qed.
Theorem dump_inj_Polyhedron : forall p q, wf_polyhedron p -> in_range ph_class (ph_status p) ->
  wf_polyhedron q -> in_range ph_class (ph_status q) ->
  dump_polyhedron p [] = dump_polyhedron q [] -> p = q.
Proof. exact poly_inj. Qed.
(** [obj_into_any_statement C dump load wf status] (Codec/Thms.v) unfolds to
      match cex_any C with
      | None => forall tgt x rest, in_range C tgt -> wf x -> in_range C (status x) -> load tgt (dump x rest) = Some (x, rest)
      | Some (t, s) => forall x rest, wf x -> status x = s -> load t (dump x rest) <> Some (x, rest)
      end
    It is stated through the definition because [cex_any ph_class] is a search over 512 x 512 pairs that the
    kernel must not be asked to run by plain conversion when it has no early exit. *)
Theorem roundtrip_into_any_Polyhedron_decided :
  obj_into_any_statement ph_class dump_polyhedron load_polyhedron wf_polyhedron ph_status.
Proof. exact poly_any. Qed.

(** ** BD_Shape<mpq_class>, BD_Shape<mpz_class> *)
Theorem roundtrip_BD_Shape_mpq : forall b rest, wf_bdshape wf_dbm_mpq b -> in_range bds_class (bd_status b) ->
  load_bds_mpq 0 (dump_bds_mpq b rest) = Some (b, rest).
Proof. exact (bds_fresh w_dbm_mpq p_dbm_mpq wf_dbm_mpq RT_dbm_mpq). Qed.
Theorem roundtrip_BD_Shape_mpz : forall b rest, wf_bdshape wf_dbm_Z b -> in_range bds_class (bd_status b) ->
  load_bds_Z 0 (dump_bds_Z b rest) = Some (b, rest).
Proof. exact (bds_fresh w_dbm_Z p_dbm_Z wf_dbm_Z RT_dbm_Z). Qed.
Theorem dump_inj_BD_Shape_mpq : forall a b, wf_bdshape wf_dbm_mpq a -> in_range bds_class (bd_status a) ->
  wf_bdshape wf_dbm_mpq b -> in_range bds_class (bd_status b) ->
  dump_bds_mpq a [] = dump_bds_mpq b [] -> a = b.
Proof. exact (bds_inj w_dbm_mpq p_dbm_mpq wf_dbm_mpq RT_dbm_mpq). Qed.
Theorem roundtrip_into_any_BD_Shape_mpq_decided :
  match cex_any bds_class with
  | None => forall tgt b rest, in_range bds_class tgt -> wf_bdshape wf_dbm_mpq b -> in_range bds_class (bd_status b) ->
            load_bds_mpq tgt (dump_bds_mpq b rest) = Some (b, rest)
  | Some (t, s) => forall b rest, wf_bdshape wf_dbm_mpq b -> bd_status b = s ->
            load_bds_mpq t (dump_bds_mpq b rest) <> Some (b, rest)
  end.
Proof. exact (bds_any w_dbm_mpq p_dbm_mpq wf_dbm_mpq RT_dbm_mpq). Qed.

(** ** Octagonal_Shape<mpq_class> *)
Theorem roundtrip_Octagonal_Shape_mpq : forall o rest, wf_octagon wf_dbm_mpq o -> in_range og_class (oc_status o) ->
  load_oct_mpq 0 (dump_oct_mpq o rest) = Some (o, rest).
Proof. exact (oct_fresh w_dbm_mpq p_dbm_mpq wf_dbm_mpq RT_dbm_mpq). Qed.
Theorem dump_inj_Octagonal_Shape_mpq : forall a b, wf_octagon wf_dbm_mpq a -> in_range og_class (oc_status a) ->
  wf_octagon wf_dbm_mpq b -> in_range og_class (oc_status b) ->
  dump_oct_mpq a [] = dump_oct_mpq b [] -> a = b.
Proof. exact (oct_inj w_dbm_mpq p_dbm_mpq wf_dbm_mpq RT_dbm_mpq). Qed.
Theorem roundtrip_into_any_Octagonal_Shape_mpq_decided :
  match cex_any og_class with
  | None => forall tgt o rest, in_range og_class tgt -> wf_octagon wf_dbm_mpq o -> in_range og_class (oc_status o) ->
            load_oct_mpq tgt (dump_oct_mpq o rest) = Some (o, rest)
  | Some (t, s) => forall o rest, wf_octagon wf_dbm_mpq o -> oc_status o = s ->
            load_oct_mpq t (dump_oct_mpq o rest) <> Some (o, rest)
  end.
Proof. exact (oct_any w_dbm_mpq p_dbm_mpq wf_dbm_mpq RT_dbm_mpq). Qed.

(** ** Box: Rational_Box and Z_Box.
    Into a DEFAULT-CONSTRUCTED box (status word 1): decided by the facts -- on a tree where
    [Box::Status::ascii_load] has no [else] branch for EUP the second branch is the one proved
    (any box whose status word is the witness does NOT load back). *)
Theorem roundtrip_Rational_Box_decided :
  match cex_from box_class box_fresh_object_status with
  | None => forall b rest, wf_box (fun _ : mpq => True) b -> in_range box_class (bx_status b) ->
            load_box_mpq box_fresh_object_status (dump_box_mpq b rest) = Some (b, rest)
  | Some s => forall b rest, wf_box (fun _ : mpq => True) b -> bx_status b = s ->
            load_box_mpq box_fresh_object_status (dump_box_mpq b rest) <> Some (b, rest)
  end.
Proof. exact (box_fresh w_mpq p_mpq_native (fun _ => True) RT_mpq_native). Qed.
Theorem roundtrip_Z_Box_decided :
  match cex_from box_class box_fresh_object_status with
  | None => forall b rest, wf_box (fun _ : Z => True) b -> in_range box_class (bx_status b) ->
            load_box_Z box_fresh_object_status (dump_box_Z b rest) = Some (b, rest)
  | Some s => forall b rest, wf_box (fun _ : Z => True) b -> bx_status b = s ->
            load_box_Z box_fresh_object_status (dump_box_Z b rest) <> Some (b, rest)
  end.
Proof. exact (box_fresh w_Z p_Z (fun _ => True) RT_Z). Qed.
(** into a box whose status word has no flag set (the loader logic alone) *)
Theorem roundtrip_Rational_Box_into_blank_status : forall b rest,
  wf_box (fun _ : mpq => True) b -> in_range box_class (bx_status b) ->
  load_box_mpq 0 (dump_box_mpq b rest) = Some (b, rest).
Proof. exact (box_none w_mpq p_mpq_native (fun _ => True) RT_mpq_native). Qed.
Theorem dump_inj_Rational_Box : forall a b, wf_box (fun _ : mpq => True) a -> in_range box_class (bx_status a) ->
  wf_box (fun _ : mpq => True) b -> in_range box_class (bx_status b) ->
  dump_box_mpq a [] = dump_box_mpq b [] -> a = b.
Proof. exact (box_inj w_mpq p_mpq_native (fun _ => True) RT_mpq_native). Qed.
Theorem roundtrip_into_any_Rational_Box_decided :
  match cex_any box_class with
  | None => forall tgt b rest, in_range box_class tgt -> wf_box (fun _ : mpq => True) b -> in_range box_class (bx_status b) ->
            load_box_mpq tgt (dump_box_mpq b rest) = Some (b, rest)
  | Some (t, s) => forall b rest, wf_box (fun _ : mpq => True) b -> bx_status b = s ->
            load_box_mpq t (dump_box_mpq b rest) <> Some (b, rest)
  end.
Proof. exact (box_any w_mpq p_mpq_native (fun _ => True) RT_mpq_native). Qed.

(** ** Grid (congruence system, grid generator system, dim_kinds when meaningful) *)
Theorem roundtrip_Grid : forall g rest, wf_grid [] g -> load_grid 0 [] (dump_grid g rest) = Some (g, rest).
Proof. exact grid_fresh. Qed.
Theorem dump_inj_Grid : forall g g', wf_grid [] g -> wf_grid [] g' -> dump_grid g [] = dump_grid g' [] -> g = g'.
Proof. exact grid_inj. Qed.
Theorem roundtrip_into_Grid_partial : forall tgt tk g rest, wf_grid tk g ->
  status_result grid_class tgt (gr_status g) = Some (gr_status g) ->
  load_grid tgt tk (dump_grid g rest) = Some (g, rest).
Proof. exact grid_into. Qed.
(** the full into-any statement for grids (not proved in the refuting direction at object level;
    the status-level theorem [roundtrip_into_any_Grid_Status_decided] decides it for the status word) *)
Definition roundtrip_into_any_Grid_full : Prop :=
  forall tgt tk g rest, in_range grid_class tgt -> wf_grid tk g ->
  load_grid tgt tk (dump_grid g rest) = Some (g, rest).

(** ** Floating-point matrix entries (BD_Shape<double>, Octagonal_Shape<double>): how
    [Checked::float_mpq_to_string] prints the dyadic rational n / 2^k and whether that text reads
    back to the same value.  Refuted by -1/16, printed "0.-625"; on the bounded range below the
    text reads back EXACTLY when the misprint condition (negative, fewer digits than decimals)
    does not hold (it never holds once the sign is laid out separately).  The unbounded statement is
    [float_print_full] (not proved). *)
(** decided by the regenerated fact [float_print_sign_separate]: "0.-625", not read back, on a tree where the sign is
    counted as a digit; "-0.0625", read back, otherwise *)
Theorem float_entry_roundtrip_decided : neg_sixteenth_statement.
Proof. exact float_print_decided. Qed.
Theorem float_entry_roundtrip_bounded_partial : forall i k, (i < 256)%nat -> (k <= 12)%nat ->
  let a := (2 * Z.of_nat i + 1)%Z in
  reads_back a k = negb (misprinted a k) /\ reads_back (- a) k = negb (misprinted (- a) k).
Proof. exact float_print_bounded. Qed.
Definition float_entry_roundtrip_full : Prop := float_print_full.
