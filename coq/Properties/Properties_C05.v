(* C05 -- audited obligations.  Models: coq/Grid/{QVec,IntLin,GridSem,GridRef}.v *)
From Coq Require Import List ZArith QArith Qabs Bool.
Require Import PPLV.Grid.QVec PPLV.Grid.IntLin PPLV.Grid.GridSem PPLV.Grid.GridRef PPLV.Grid.GridFreq PPLV.Grid.GridOps2 PPLV.Grid.GridOpsSpec PPLV.Grid.GridOpsSpec2 PPLV.Grid.GridOpsSpec3 PPLV.Grid.GridOpsSpec4.
Import ListNotations.
Local Open Scope Q_scope.

(* the single verified step of the lattice engine: intersection with one congruence *)
Theorem add_congruence_exact : forall n c S S', add_cg n c S = Lat S' ->
  forall x, den n S' x <-> den n S x /\ sat_q c x.
Proof. exact add_cg_lat. Qed.

Theorem add_congruence_empty : forall n c S, add_cg n c S = Empty ->
  forall x, ~ (den n S x /\ sat_q c x).
Proof. exact add_cg_empty. Qed.

(* PPL's generator systems (integer affine hull of the points + integer hull of the parameters + linear
   hull of the lines) are parametrised affine lattices *)
Theorem ggens_as_lattice : forall n G S, alat_of G = Some S -> forall x, in_qgens n G x <-> den n S x.
Proof. exact alat_of_some. Qed.

(* generator-wise inclusion test of a generated grid in a congruence system is exact *)
Theorem ggens_sat_cgs_exact : forall n G C, forallb (cg_dim_ok n) C = true ->
  (ggens_sat_b n G C = true <-> (forall x, in_ggens n G x -> sat_cgs C x)).
Proof. exact ggens_sat_exact. Qed.

(* conversion of a congruence system to generators (fold of the step from the universe) is exact *)
Theorem cgs_to_ggens_exact : forall n C G, cgs_to_gens n C = Ans G ->
  forall x, in_qgens n G x <-> sat_cgs C x.
Proof. exact cgs_to_gens_exact. Qed.

(* membership of a vector in a generated lattice *)
Theorem mem_yes : forall n S x S', mem n S x = Lat S' -> den n S (vnth x).
Proof. exact mem_lat. Qed.
Theorem mem_no : forall n S x, mem n S x = Empty -> ~ den n S (vnth x).
Proof. exact mem_empty. Qed.

(* inclusion / equality of generator-given grids: a positive answer is always right *)
Theorem grid_incl_sound : forall n G1 G2, gens_incl n G1 G2 = Ans true ->
  forall x, in_qgens n G1 x -> in_qgens n G2 x.
Proof. exact gens_incl_sound. Qed.
Theorem grid_equiv_sound : forall n G1 G2, gens_equiv n G1 G2 = Ans true ->
  forall x, in_qgens n G1 x <-> in_qgens n G2 x.
Proof. exact gens_equiv_sound. Qed.

(* the double-description check applied to what PPL reports *)
Theorem grid_dd_check_sound : forall n C G, dd_agree n C G = Ans true ->
  forall x, sat_cgs C x <-> in_qgens n G x.
Proof. exact dd_agree_sound. Qed.

(* reference operators and queries against the set-level definitions *)
Theorem is_empty_spec : forall n G, is_empty_b G = true <-> (forall x, ~ in_qgens n G x).
Proof. exact GridRef.is_empty_spec. Qed.
Theorem is_universe_spec : forall n C, dims_ok n C = true ->
  (is_universe_b n C = true <-> (forall x, sat_cgs C x)).
Proof. exact GridRef.is_universe_spec. Qed.
Theorem contains_spec : forall n CX GY, dims_ok n CX = true ->
  (contains_b n CX GY = true <-> (forall x, in_qgens n GY x -> sat_cgs CX x)).
Proof. exact GridRef.contains_spec. Qed.
Theorem is_disjoint_spec : forall n GX CY b, is_disjoint_b n GX CY = Ans b ->
  (b = true <-> (forall x, ~ (in_qgens n GX x /\ sat_cgs CY x))).
Proof. exact GridRef.is_disjoint_spec. Qed.
Theorem relation_with_congruence_spec : forall n G c d i, cg_dim_ok n c = true -> relation_cg n G c = Ans (d, i) ->
  (d = true <-> (forall x, ~ (in_qgens n G x /\ sat_cg c x))) /\
  (i = true <-> (forall x, in_qgens n G x -> sat_cg c x)).
Proof. exact relation_cg_spec. Qed.
Theorem is_bounded_spec : forall n G,
  is_bounded_b n G = true <-> (forall x y, in_qgens n G x -> in_qgens n G y -> peq n x y).
Proof. exact GridRef.is_bounded_spec. Qed.
Theorem add_congruences_spec : forall n G C G', gens_add_cgs n G C = Ans G' ->
  forall x, in_qgens n G' x <-> in_qgens n G x /\ sat_cgs C x.
Proof. exact gens_add_cgs_spec. Qed.
Theorem join_upper : forall n G1 G2 x, in_qgens n G1 x \/ in_qgens n G2 x -> in_qgens n (join G1 G2) x.
Proof. exact GridRef.join_upper. Qed.
Theorem join_least : forall n G1 G2 C, dims_ok n C = true ->
  (forall x, in_qgens n G1 x -> sat_cgs C x) -> (forall x, in_qgens n G2 x -> sat_cgs C x) ->
  forall x, in_qgens n (join G1 G2) x -> sat_cgs C x.
Proof. exact GridRef.join_least. Qed.

(* Grid::frequency: the values of a.x + b on the grid are exactly v + fr Z (fr >= 0; fr = 0: constant), and v is
   a value of least absolute value; "undefined" only for the empty grid or when every rational is a value *)
Theorem frequency_spec : forall n G a b fr v, frequency n G a b = Ans (Freq fr v) ->
  0 <= fr /\
  (forall x, in_qgens n G x -> exists k : Z, expr_val a b x == v + inject_Z k * fr) /\
  (forall k : Z, exists x, in_qgens n G x /\ expr_val a b x == v + inject_Z k * fr) /\
  (forall x, in_qgens n G x -> Qabs v <= Qabs (expr_val a b x)).
Proof. exact frequency_defined. Qed.
Theorem frequency_undefined_spec : forall n G a b, frequency n G a b = Ans NoFreq ->
  (forall x, ~ in_qgens n G x) \/ (forall q : Q, exists x, in_qgens n G x /\ expr_val a b x == q).
Proof. exact frequency_undefined. Qed.

(* reference operators of the dimension-changing / cylindrification / time-elapse family against their set-level
   definitions (coq/Grid/GridOpsSpec.v) *)
Theorem unconstrain_exact : forall n k G x, (k < n)%nat ->
  (in_qgens n (unconstrain k G) x <-> exists v, in_qgens n G (upd x k v)).
Proof. exact unconstrain_spec. Qed.
Theorem remove_higher_space_dimensions_exact : forall n m G x, (m <= n)%nat ->
  (in_qgens m (remove_higher m G) x <-> exists y, in_qgens n G y /\ peq m x y).
Proof. exact remove_higher_spec. Qed.
Theorem add_space_dimensions_and_embed_exact : forall n m G x,
  in_qgens (n + m) (add_dims_embed n m G) x <-> in_qgens n G x.
Proof. exact add_dims_embed_spec. Qed.
(* time-elapse: the points of G1 translated by the integer combinations of points of G2; empty when either is *)
Theorem time_elapse_exact : forall n G1 G2 x,
  in_qgens n (time_elapse G1 G2) x <->
  (exists q, in_qgens n G2 q) /\
  (exists p z, in_qgens n G1 p /\ zcomb n (in_qgens n G2) z /\ peq n x (fun i => p i + z i)).
Proof. exact time_elapse_spec. Qed.

(* affine image x_k := (a.x + b)/d and its modular generalisation x_k := (a.x + b)/d + m Z *)
Theorem affine_image_exact : forall n k a b d G x', d <> 0%Z -> (length a <= n)%nat ->
 (in_qgens n (affine_image k a b d G) x' <->
  exists x, in_qgens n G x /\ peq n x' (upd x k (expr_val a b x / inject_Z d))).
Proof. exact affine_image_spec. Qed.
Theorem generalized_affine_image_exact : forall n k a b d m G x', d <> 0%Z -> (length a <= n)%nat ->
 (in_qgens n (gen_image k a b d m G) x' <->
  exists x (z : Z), in_qgens n G x /\
    peq n x' (upd x k (expr_val a b x / inject_Z d + inject_Z z * inject_Z m))).
Proof. exact gen_image_spec. Qed.
(* generalized affine image / preimage with an EXPRESSION on the left: the result is exactly the image (preimage) of
   the grid under the documented transfer relation  lhs(x') = rhs(x) (mod m),  x' = x off the variables of lhs *)
Theorem generalized_affine_image_lhs_exact : forall n la lb ra rb m G G', length ra = n -> length la = n ->
  gen_image_lhs n la lb ra rb m G = Ans G' ->
  forall x', in_qgens n G' x' <->
    exists x, in_qgens n G x /\
      (forall i, (i < n)%nat -> nth i la 0%Z = 0%Z -> x' i == x i) /\
      exists z : Z, expr_val la lb x' == expr_val ra rb x + inject_Z z * inject_Z m.
Proof. exact gen_image_lhs_spec. Qed.
Theorem generalized_affine_preimage_lhs_exact : forall n la lb ra rb m G G', length ra = n -> length la = n ->
  gen_preimage_lhs n la lb ra rb m G = Ans G' ->
  forall x, in_qgens n G' x <->
    exists x', in_qgens n G x' /\
      (forall i, (i < n)%nat -> nth i la 0%Z = 0%Z -> x' i == x i) /\
      exists z : Z, expr_val la lb x' == expr_val ra rb x + inject_Z z * inject_Z m.
Proof. exact gen_preimage_lhs_spec. Qed.

(* concatenate_assign, map_space_dimensions (partial injection onto 0..m-1), affine_preimage (on congruences),
   add_grid_generator per generator kind, the congruence renamings used for concatenate / expand, and the positive
   answer of relation_with(generator) = subsumes  (coq/Grid/GridOpsSpec3.v) *)
Theorem concatenate_exact : forall n n2 G1 G2 x, dim_le n G1 ->
  (in_qgens (n + n2) (concat n G1 G2) x <->
   in_qgens n G1 x /\ in_qgens n2 G2 (fun i => x (n + i)%nat)).
Proof. exact concat_spec. Qed.
Theorem map_space_dimensions_exact : forall n m pf G y,
  (length pf <= n)%nat -> pf_inj pf ->
  (forall i j, nth i pf None = Some j -> (j < m)%nat) ->
  (forall j, (j < m)%nat -> exists i, nth i pf None = Some j) ->
  (in_qgens m (map_dims pf G) y <->
   exists x, in_qgens n G x /\ forall i j, nth i pf None = Some j -> y j == x i).
Proof. exact map_dims_spec. Qed.
Theorem affine_preimage_exact : forall k a b d C x, d <> 0%Z ->
  (sat_cgs (affine_preimage k a b d C) x <->
   sat_cgs C (upd x k ((dotf (map inject_Z a) x + inject_Z b) / inject_Z d))).
Proof. exact affine_preimage_spec. Qed.
Theorem add_grid_generator_parameter_exact : forall n G q x,
  in_qgens n (add_gen G (QParam q)) x <->
  exists (k : Z) y, in_qgens n G y /\ peq n x (fun i => y i + inject_Z k * vnth q i).
Proof. exact add_gen_param_spec. Qed.
Theorem add_grid_generator_line_exact : forall n G l x,
  in_qgens n (add_gen G (QLine l)) x <->
  exists (k : Q) y, in_qgens n G y /\ peq n x (fun i => y i + k * vnth l i).
Proof. exact add_gen_line_spec. Qed.
Theorem add_grid_generator_point_exact : forall n G p p0 ps x, points G = p0 :: ps ->
  (in_qgens n (add_gen G (QPoint p)) x <->
   exists (k : Z) y, in_qgens n G y /\ peq n x (fun i => y i + inject_Z k * (vnth p i - vnth p0 i))).
Proof. exact add_gen_point_spec. Qed.
Theorem add_grid_generator_upper : forall n G g x, in_qgens n G x -> in_qgens n (add_gen G g) x.
Proof. exact add_gen_sound. Qed.
Theorem subsumes_yes : forall n G g, subsumes n G g = Ans true ->
  forall x, in_qgens n (add_gen G g) x <-> in_qgens n G x.
Proof. exact subsumes_sound. Qed.

(* variable-form generalized affine PREIMAGE, add_space_dimensions_and_project (on congruences), discreteness
   (coq/Grid/GridOpsSpec4.v) *)
Theorem generalized_affine_preimage_exact : forall n k a b d m G G', gen_preimage n k a b d m G = Ans G' ->
  (k < n)%nat -> (length a <= n)%nat ->
  forall x, in_qgens n G' x <->
    exists (v : Q) (z : Z), in_qgens n G (upd x k v) /\
      inject_Z d * v == expr_val a b x + inject_Z z * inject_Z (d * m).
Proof. exact gen_preimage_spec. Qed.
Theorem add_space_dimensions_and_project_exact : forall n m C x, sat_cgs (C ++ project_cgs n m) x <->
  sat_cgs C x /\ forall i, (n <= i < n + m)%nat -> x i == 0.
Proof. exact project_spec. Qed.
Theorem is_discrete_false_exact : forall n G, is_discrete_b n G = false <->
  (exists x, in_qgens n G x) /\ exists l, In l (glines G) /\ ~ peq n (vnth l) (vnth vzero).
Proof. exact is_discrete_false_spec. Qed.
Theorem line_direction_is_dense : forall n G l x, In l (glines G) -> in_qgens n G x ->
  forall q : Q, in_qgens n G (fun i => x i + q * vnth l i).
Proof. exact line_direction_dense. Qed.

(* ---------- stated, NOT proved (kept as Props; nothing depends on them) ---------- *)
(* grid_incl_sound / grid_equiv_sound / grid_dd_check_sound are the proved halves of these: *)
Definition grid_incl_exact_full : Prop := forall n G1 G2 b, gens_incl n G1 G2 = Ans b ->
  (b = true <-> (forall x, in_qgens n G1 x -> in_qgens n G2 x)).
Definition grid_equiv_exact_full : Prop := forall n G1 G2 b, gens_equiv n G1 G2 = Ans b ->
  (b = true <-> (forall x, in_qgens n G1 x <-> in_qgens n G2 x)).
Definition grid_dd_check_full : Prop := forall n C G b, dd_agree n C G = Ans b ->
  (b = true <-> (forall x, sat_cgs C x <-> in_qgens n G x)).
(* (missing piece: if every rational multiple of l lies in Z-span(params) + Q-span(lines) then l is in
   Q-span(lines); negative answers caused by points or parameters are already covered by mem_no) *)
Definition is_discrete_spec_full : Prop := forall n G,
  is_discrete_b n G = false <->
  exists l, ~ peq n (vnth l) (vnth vzero) /\
            forall x r, in_qgens n G x -> in_qgens n G (fun i => x i + r * vnth l i).
Definition affine_image_spec_full : Prop := forall n k a b d G, (k < n)%nat -> (length a <= n)%nat -> d <> 0%Z ->
  forall y, in_qgens n (affine_image k a b d G) y <->
            exists x, in_qgens n G x /\
                      peq n y (upd x k ((dotf (map inject_Z a) x + inject_Z b) / inject_Z d)).
Definition affine_preimage_spec_full : Prop := forall n k a b d C, (k < n)%nat -> (length a <= n)%nat -> d <> 0%Z ->
  forall x, sat_cgs (affine_preimage k a b d C) x <->
            sat_cgs C (upd x k ((dotf (map inject_Z a) x + inject_Z b) / inject_Z d)).

(* hypotheses are satisfiable *)
Example ex_dims : forallb (cg_dim_ok 2) [ {| cg_a := [1%Z; 2%Z]; cg_b := 1%Z; cg_m := 3%Z |} ] = true.
Proof. reflexivity. Qed.
Example ex_solve : exists G, cgs_to_gens 2 [ {| cg_a := [1%Z; 2%Z]; cg_b := 1%Z; cg_m := 3%Z |};
                                             {| cg_a := [2%Z; 0%Z]; cg_b := 0%Z; cg_m := 0%Z |} ] = Ans G /\ is_empty_b G = false.
Proof. eexists. split; vm_compute; reflexivity. Qed.
