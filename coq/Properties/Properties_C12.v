(* C12 -- Interval arithmetic encloses every concrete result: the audited statements.
   C : any bound type with directed-rounding operations satisfying [CarrierLaws] (result on the safe
   side of the exact one; `strict' only when strictly so); so = Info::store_open.
   [mem C so x I]: the rational x belongs to the interval denoted by I (ends, OPEN and SPECIAL bits). *)
From Coq Require Import ZArith QArith Qabs Qminmax Bool List Lia Lqa.
From PPLV Require Import Itv.Boundary Itv.Interval Itv.QCarrier Itv.Sound Itv.Arith Itv.Encl Itv.Sets Itv.Univ Itv.Exact Itv.Defect Itv.LinForm Itv.RelErr Itv.FloatErr gen.Facts_Float.
Import ListNotations.
Local Open Scope Q_scope.

(* the exact rational carrier (mpq_class) satisfies the laws, with equality *)
Theorem rational_carrier_laws : CarrierLaws QC.
Proof. exact QC_laws. Qed.
Theorem rational_carrier_exact : ExactLaws QC.
Proof. exact QC_exact. Qed.

(* is_empty() is correct: it answers true exactly when no rational belongs to the interval *)
Theorem empty_reported : forall C so, CarrierLaws C -> forall I,
  (is_empty C so I = true -> forall x, ~ mem C so x I) /\
  (is_empty C so I = false -> exists x, mem C so x I).
Proof. intros C so L I. split; [apply is_empty_true | apply is_empty_false]; exact L. Qed.

Theorem neg_encloses : forall C so, CarrierLaws C -> forall z I x,
  mem C so x I -> mem C so (- x) (Interval.neg_assign C so z I).
Proof. exact Encl.neg_encloses. Qed.

Theorem add_encloses : forall C so, CarrierLaws C -> forall z I J x y,
  mem C so x I -> mem C so y J -> mem C so (x + y) (Interval.add_assign C so z I J).
Proof. exact Encl.add_encloses. Qed.

Theorem sub_encloses : forall C so, CarrierLaws C -> forall z I J x y,
  mem C so x I -> mem C so y J -> mem C so (x - y) (Interval.sub_assign C so z I J).
Proof. exact Encl.sub_encloses. Qed.

Theorem div_encloses : forall C so, CarrierLaws C -> forall z I J x y,
  mem C so x I -> mem C so y J -> ~ y == 0 -> mem C so (x / y) (Interval.div_assign C so z I J).
Proof. exact Encl.div_encloses. Qed.

(* Interval::mul_assign as it is now (after commit ed6ee8d) encloses *)
Theorem mul_encloses : forall C so, CarrierLaws C -> forall z I J x y,
  mem C so x I -> mem C so y J -> mem C so (x * y) (Interval.mul_assign C so z I J).
Proof. exact Encl.mul_encloses. Qed.

(* HISTORICAL, about the code BEFORE ed6ee8d only: it did not enclose ((-1, 2] * [-3, 1) was computed
   as (-6, 3); (-1, +inf) * (-1, 1) was given a finite upper bound), and it differed from the current
   code only in branch 9 (both operands straddle zero) when the replacing candidate's flags differ. *)
Theorem mul_pre_ed6ee8d_refuted : exists (z I J : itv QC) (x y : Q),
  mem QC true x I /\ mem QC true y J /\ ~ mem QC true (x * y) (Interval.mul_assign_pre_ed6ee8d QC true z I J).
Proof.
  exists z0, (fin (-1) true 2 false), (fin (-3) false 1 true), 2, (-3). exact mul_pre_ed6ee8d_refuted_witness.
Qed.

Theorem mul_pre_ed6ee8d_refuted_unbounded : exists (z I J : itv QC) (x y : Q),
  mem QC true x I /\ mem QC true y J /\ ~ mem QC true (x * y) (Interval.mul_assign_pre_ed6ee8d QC true z I J).
Proof.
  exists z0, (upper_unbounded (-1) true), (fin (-1) true 1 true), 5, (1 # 2).
  exact mul_pre_ed6ee8d_refuted_witness_unbounded.
Qed.

Theorem mul_pre_ed6ee8d_agrees_unless_flag_loss : forall C so z x y,
  snd (mul_diag C so z x y) = (false, false) ->
  Interval.mul_assign_pre_ed6ee8d C so z x y = Interval.mul_assign C so z x y.
Proof. exact Defect.mul_pre_ed6ee8d_agrees_unless_flag_loss. Qed.

(* ---- set operations ------------------------------------------------------------------------------ *)

Theorem assign_exact : forall C so, CarrierLaws C -> forall z I x,
  mem C so x (assign_itv C so z I) <-> mem C so x I.
Proof. exact Sets.assign_exact. Qed.

Theorem intersect_exact : forall C so, CarrierLaws C -> forall I J x,
  mem C so x (intersect_assign1 C so I J) <-> mem C so x I /\ mem C so x J.
Proof. exact Sets.intersect1_exact. Qed.

Theorem intersect2_exact : forall C so, CarrierLaws C -> forall z I J x,
  mem C so x (intersect_assign2 C so z I J) <-> mem C so x I /\ mem C so x J.
Proof. exact Sets.intersect2_exact. Qed.

Theorem join_encloses : forall C so, CarrierLaws C -> forall I J x,
  mem C so x I \/ mem C so x J -> mem C so x (join_assign1 C so I J).
Proof. exact Sets.join1_encloses. Qed.

Theorem join2_encloses : forall C so, CarrierLaws C -> forall z I J x,
  mem C so x I \/ mem C so x J -> mem C so x (join_assign2 C so z I J).
Proof. exact Sets.join2_encloses. Qed.

(* the join is the hull: each end is the weaker of the two operands' ends (flags included) *)
Theorem join_exact : forall C so, CarrierLaws C -> forall I J x,
  mem C so x (join_assign1 C so I J) <->
  (if is_empty C so I then mem C so x J else if is_empty C so J then mem C so x I else hull2 C so I J x).
Proof. exact Sets.join1_exact. Qed.

Theorem join2_exact : forall C so, CarrierLaws C -> forall z I J x,
  mem C so x (join_assign2 C so z I J) <->
  (if is_empty C so I then mem C so x J else if is_empty C so J then mem C so x I else hull2 C so I J x).
Proof. exact Sets.join2_exact. Qed.

Theorem difference_encloses : forall C so, CarrierLaws C -> forall I J x,
  mem C so x I -> ~ mem C so x J -> mem C so x (difference_assign1 C so I J).
Proof. exact Sets.difference1_encloses. Qed.

Theorem difference2_encloses : forall C so, CarrierLaws C -> forall z I J x,
  mem C so x I -> ~ mem C so x J -> mem C so x (difference_assign2 C so z I J).
Proof. exact Sets.difference2_encloses. Qed.

Theorem refine_existential_encloses : forall C so, CarrierLaws C -> forall r I J x,
  mem C so x I -> (exists y, mem C so y J /\ rel_holds r x y) -> mem C so x (refine_existential C so r I J).
Proof. exact Sets.refine_existential_encloses. Qed.

(* all relation symbols but EQUAL (the EQUAL case is only covered by the correspondence check) *)
Definition refine_universal_encloses_full : Prop := forall C so, CarrierLaws C -> forall r I J x,
  mem C so x I -> (forall y, mem C so y J -> rel_holds r x y) -> mem C so x (refine_universal C so r I J).

Theorem refine_universal_encloses_partial : forall C so, CarrierLaws C -> forall r I J x,
  r <> EQUAL ->
  mem C so x I -> (forall y, mem C so y J -> rel_holds r x y) -> mem C so x (refine_universal C so r I J).
Proof. exact Univ.refine_universal_encloses_partial. Qed.

(* ---- exactness for an exact carrier ------------------------------------------------------------- *)

Theorem neg_exact : forall C so, ExactLaws C -> forall z I x,
  is_empty C so I = false -> mem C so x (Interval.neg_assign C so z I) -> mem C so (- x) I.
Proof. exact Exact.neg_exact. Qed.

(* sum: each end of the result is the exact image of the operands' ends (value and open flag).
   The full statement (every member of the result is a sum of members) is not proved. *)
Definition add_exact_full : Prop := forall C so, ExactLaws C -> forall z I J w,
  is_empty C so I = false -> is_empty C so J = false ->
  mem C so w (Interval.add_assign C so z I J) -> exists x y, mem C so x I /\ mem C so y J /\ w == x + y.

Theorem add_exact_partial : forall C so, ExactLaws C -> forall z I J w,
  is_empty C so I = false -> is_empty C so J = false ->
  mem C so w (Interval.add_assign C so z I J) ->
  (exists x y, in_lower C so (lower I) x /\ in_lower C so (lower J) y /\ w == x + y) /\
  (exists x y, in_upper C so (upper I) x /\ in_upper C so (upper J) y /\ w == x + y).
Proof. exact Exact.add_exact_ends. Qed.

(* ---- linear forms with interval coefficients (Linear_Form<C>) ----------------------------------
   [lf_mem C so rho f v]: v is a value the form f can take at the concrete store rho (some choice of
   a point in every coefficient).  z0: content of freshly built entries (arbitrary). *)

Theorem linform_add_encloses : forall C so, CarrierLaws C -> forall z0 rho f1 f2 v1 v2,
  lf_mem C so rho f1 v1 -> lf_mem C so rho f2 v2 -> lf_mem C so rho (lf_add C so z0 f1 f2) (v1 + v2).
Proof. exact LinForm.linform_add_encloses. Qed.

Theorem linform_add_assign_encloses : forall C so, CarrierLaws C -> forall rho f1 f2 v1 v2,
  lf_mem C so rho f1 v1 -> lf_mem C so rho f2 v2 -> lf_mem C so rho (lf_add_assign C so f1 f2) (v1 + v2).
Proof. exact LinForm.linform_add_assign_encloses. Qed.

Theorem linform_sub_encloses : forall C so, CarrierLaws C -> forall z0 rho f1 f2 v1 v2,
  lf_mem C so rho f1 v1 -> lf_mem C so rho f2 v2 -> lf_mem C so rho (lf_sub C so z0 f1 f2) (v1 - v2).
Proof. exact LinForm.linform_sub_encloses. Qed.

Theorem linform_neg_encloses : forall C so, CarrierLaws C -> forall rho f v,
  lf_mem C so rho f v -> lf_mem C so rho (lf_neg C so f) (- v).
Proof. exact LinForm.linform_neg_encloses. Qed.

Theorem linform_scale_encloses : forall C so, CarrierLaws C -> forall rho n f v k,
  mem C so k n -> lf_mem C so rho f v -> lf_mem C so rho (lf_scale C so n f) (v * k).
Proof. exact LinForm.linform_scale_encloses. Qed.

Theorem linform_div_encloses : forall C so, CarrierLaws C -> forall rho n f v k,
  mem C so k n -> ~ k == 0 -> lf_mem C so rho f v -> lf_mem C so rho (lf_div C so n f) (v / k).
Proof. exact LinForm.linform_div_encloses. Qed.

Theorem intervalize_encloses : forall C so, CarrierLaws C -> forall z0 rho st f v R,
  Forall2 (fun x s => mem C so x s) rho st -> lf_mem C so rho f v ->
  intervalize C so z0 f st = Some R -> mem C so v R.
Proof. exact LinForm.intervalize_encloses. Qed.

(* relative_error: any error of magnitude at most ulp * |v| is a value of the form it builds *)
Theorem relative_error_encloses : forall C so, CarrierLaws C ->
  forall (cabsmax : cT C -> cT C -> cT C) (clb clbn : cT C) (ulp : Q),
  (forall a b, cval C (cabsmax a b) == Qmax (Qabs (cval C a)) (Qabs (cval C b))) ->
  cval C clb == ulp -> cval C clbn == - ulp -> 0 <= ulp ->
  forall rho f v e,
  Forall (bounded C) f -> lf_mem C so rho f v -> Qabs e <= ulp * Qabs v ->
  lf_mem C so rho (relative_error C so cabsmax clb clbn f) e.
Proof. exact RelErr.relative_error_encloses. Qed.

(* ---- rounding error of the analysed machine ---------------------------------------------------- *)

(* any rounding mode: the result is a representable neighbour; normal range; one unit in the last place *)
Theorem rounding_one_ulp : forall p emin : Z, (0 <= p)%Z -> forall x r e,
  (emin + p <= e)%Z -> pow2 e <= Qabs x -> Qabs x < pow2 (e + 1) ->
  rounding_of p emin x r -> Qabs (r - x) <= pow2 (- p) * Qabs x.
Proof. exact FloatErr.one_ulp. Qed.

(* the exponent expression of the SOURCE (regenerated into gen/Facts_Float.v) gives MANTISSA_BITS for
   every binary format of the switch, and lb is 2^-that *)
Theorem rel_error_power_binary :
  rel_error_lb_is_2_to_minus_u_power = true /\
  forallb (fun f => negb (binary f) ||
                    (rel_error_u_power (ff_base f) (ff_mantissa_bits f) =? ff_mantissa_bits f)%Z)
          relative_error_formats = true.
Proof. exact FloatErr.rel_error_power_binary. Qed.

(* hence, for the binary formats, the relative error the code encodes covers every rounding mode;
   the statement for ALL formats of the switch ([relative_error_covers_rounding_full], which includes
   the base-16 IBM format) is not proved *)
Theorem relative_error_covers_rounding_partial :
  forall f, In f relative_error_formats -> binary f = true -> relative_error_covers_rounding f.
Proof. exact FloatErr.relative_error_covers_rounding_binary. Qed.

(* hypotheses are satisfiable *)
Example rounding_inhabited : rounding_of 1 (-2) 1 1.
Proof.
  assert (R : repr 1 (-2) 1) by (exists 1%Z, 0%Z; split; [lia|split; [vm_compute; discriminate|reflexivity]]).
  split; auto. left. split; [lra|]. intros f _ H. exact H.
Qed.
Example binade_inhabited : ((-2) + 1 <= 0)%Z /\ pow2 0 <= Qabs 1 /\ Qabs 1 < pow2 (0 + 1).
Proof. split; [lia|]. split; vm_compute; intuition discriminate. Qed.
Example relerr_params_inhabited :
  exists (cabsmax : cT QC -> cT QC -> cT QC) (clb clbn : cT QC) (ulp : Q),
    (forall a b, cval QC (cabsmax a b) == Qmax (Qabs (cval QC a)) (Qabs (cval QC b))) /\
    cval QC clb == ulp /\ cval QC clbn == - ulp /\ 0 <= ulp.
Proof.
  exists (fun a b => Qmax (Qabs a) (Qabs b)), (1 # 8), (- (1 # 8)), (1 # 8).
  split; [intros; reflexivity|]. split; [reflexivity|]. split; [reflexivity|]. discriminate.
Qed.
Example lf_mem_inhabited : lf_mem QC true [2] [fin 1 false 1 false; fin 0 false 1 false] (1 + (1 # 2) * 2).
Proof.
  exists [1; 1 # 2]. split.
  - constructor; [split; vm_compute; intuition discriminate|].
    constructor; [split; vm_compute; intuition discriminate|constructor].
  - vm_compute. reflexivity.
Qed.
Example exact_inhabited : exists C, CarrierLaws C /\ ExactLaws C.
Proof. exists QC. split; [exact QC_laws | exact QC_exact]. Qed.
Example nonempty_inhabited : is_empty QC true (fin (-1) true 2 false) = false.
Proof. vm_compute. reflexivity. Qed.
Example forall_rel_inhabited : forall y, mem QC true y (fin 1 false 2 false) -> rel_holds LESS_THAN 0 y.
Proof. intros y [H _]. unfold in_lower in H. cbn in H. cbn [rel_holds]. lra. Qed.
Example laws_inhabited : exists C, CarrierLaws C.
Proof. exists QC. exact QC_laws. Qed.
Example mem_inhabited : mem QC true 0 (fin (-1) true 2 false).
Proof. split; vm_compute; intuition discriminate. Qed.
