(* C14: audited obligations. Each statement is literally the statement of the lemma named after it
   (coq/Except/Precond.v, coq/Except/AllocProgs.v).
   (a) rejected calls: ladders vs documented preconditions.
   (b) the modelled guards, for the code AS IT NOW IS (after /repo commits b69eb94 and 53a83c0): unwind_balanced / usable
       after a failure at ANY fault position k.
   (c) historical: theorems about the program text BEFORE those two commits (old_ prefix), kept because they are the
       machine-checked root-cause analyses of the two repaired defects. *)
Require Import PPLV.Except.Precond PPLV.Except.Alloc PPLV.Except.AllocProgs.

(* (a) *)
Theorem C14_precond_complete : ltac:(let t := type of precond_complete in exact t).
Proof. exact precond_complete. Qed.
Theorem C14_rejected_unchanged : ltac:(let t := type of rejected_unchanged in exact t).
Proof. exact rejected_unchanged. Qed.
Theorem C14_exn_class_documented : ltac:(let t := type of exn_class_documented in exact t).
Proof. exact exn_class_documented. Qed.
Theorem C14_mip_precond_complete : ltac:(let t := type of mip_precond_complete in exact t).
Proof. exact mip_precond_complete. Qed.
Theorem C14_map_precond_complete_refuted : ltac:(let t := type of map_precond_complete_refuted in exact t).
Proof. exact map_precond_complete_refuted. Qed.
Theorem C14_map_precond_sound_partial : ltac:(let t := type of map_precond_sound_partial in exact t).
Proof. exact map_precond_sound_partial. Qed.
Theorem C14_affine_image_accepted_defined : ltac:(let t := type of affine_image_accepted_defined in exact t).
Proof. exact affine_image_accepted_defined. Qed.
Theorem C14_affine_preimage_accepted_defined : ltac:(let t := type of affine_preimage_accepted_defined in exact t).
Proof. exact affine_preimage_accepted_defined. Qed.
Theorem C14_generalized_affine_image_accepted_defined : ltac:(let t := type of generalized_affine_image_accepted_defined in exact t).
Proof. exact generalized_affine_image_accepted_defined. Qed.
Theorem C14_bounded_affine_image_accepted_defined : ltac:(let t := type of bounded_affine_image_accepted_defined in exact t).
Proof. exact bounded_affine_image_accepted_defined. Qed.
(* sibling ladders: Box::add_constraint, MIP_Problem::add_constraint(s) *)
Theorem C14_box_add_constraint_complete : ltac:(let t := type of box_add_constraint_complete in exact t).
Proof. exact box_add_constraint_complete. Qed.
Theorem C14_mip_add_constraint_complete : ltac:(let t := type of mip_add_constraint_complete in exact t).
Proof. exact mip_add_constraint_complete. Qed.
Theorem C14_mip_add_constraints_complete : ltac:(let t := type of mip_add_constraints_complete in exact t).
Proof. exact mip_add_constraints_complete. Qed.
Theorem C14_mip_add_constraints_atomic : ltac:(let t := type of mip_add_constraints_atomic in exact t).
Proof. exact mip_add_constraints_atomic. Qed.

(* (b) current code *)
Theorem C14_cotree_init_unwind_balanced : ltac:(let t := type of cotree_init_unwind_balanced in exact t).
Proof. exact cotree_init_unwind_balanced. Qed.
Theorem C14_cotree_destroy_balanced : ltac:(let t := type of cotree_destroy_balanced in exact t).
Proof. exact cotree_destroy_balanced. Qed.
Theorem C14_cotree_iter_ctor_unwind_balanced : ltac:(let t := type of cotree_iter_ctor_unwind_balanced in exact t).
Proof. exact cotree_iter_ctor_unwind_balanced. Qed.
Theorem C14_cotree_copy_ctor_unwind_balanced : ltac:(let t := type of cotree_copy_ctor_unwind_balanced in exact t).
Proof. exact cotree_copy_ctor_unwind_balanced. Qed.
Theorem C14_cotree_assign_unwind_balanced : ltac:(let t := type of cotree_assign_unwind_balanced in exact t).
Proof. exact cotree_assign_unwind_balanced. Qed.
Theorem C14_cotree_rebuild_bigger_unwind_balanced : ltac:(let t := type of cotree_rebuild_bigger_unwind_balanced in exact t).
Proof. exact cotree_rebuild_bigger_unwind_balanced. Qed.
Theorem C14_dense_resize_unwind_balanced : ltac:(let t := type of dense_resize_unwind_balanced in exact t).
Proof. exact dense_resize_unwind_balanced. Qed.
Theorem C14_dense_copy_unwind_balanced : ltac:(let t := type of dense_copy_unwind_balanced in exact t).
Proof. exact dense_copy_unwind_balanced. Qed.
Theorem C14_sv_reserve_unwind_balanced : ltac:(let t := type of sv_reserve_unwind_balanced in exact t).
Proof. exact sv_reserve_unwind_balanced. Qed.
Theorem C14_mip_add_constraint_unwind_balanced : ltac:(let t := type of mip_add_constraint_unwind_balanced in exact t).
Proof. exact mip_add_constraint_unwind_balanced. Qed.
Theorem C14_mip_add_constraint_unguarded_refuted : ltac:(let t := type of mip_add_constraint_unguarded_refuted in exact t).
Proof. exact mip_add_constraint_unguarded_refuted. Qed.
Theorem C14_pip_decision_copy_unwind_balanced : ltac:(let t := type of pip_decision_copy_unwind_balanced in exact t).
Proof. exact pip_decision_copy_unwind_balanced. Qed.
Theorem C14_pip_decision_copy_unguarded_refuted : ltac:(let t := type of pip_decision_copy_unguarded_refuted in exact t).
Proof. exact pip_decision_copy_unguarded_refuted. Qed.
(* all remaining Dense_Row construction paths *)
Theorem C14_dense_copy_cap_unwind_balanced : ltac:(let t := type of dense_copy_cap_unwind_balanced in exact t).
Proof. exact dense_copy_cap_unwind_balanced. Qed.
Theorem C14_dense_copy_sized_unwind_balanced : ltac:(let t := type of dense_copy_sized_unwind_balanced in exact t).
Proof. exact dense_copy_sized_unwind_balanced. Qed.
Theorem C14_dense_copy_sized_late_size_refuted : ltac:(let t := type of dense_copy_sized_late_size_refuted in exact t).
Proof. exact dense_copy_sized_late_size_refuted. Qed.
Theorem C14_dense_resize2_unwind_balanced : ltac:(let t := type of dense_resize2_unwind_balanced in exact t).
Proof. exact dense_resize2_unwind_balanced. Qed.
Theorem C14_dense_resize2_receiver_unchanged_refuted : ltac:(let t := type of dense_resize2_receiver_unchanged_refuted in exact t).
Proof. exact dense_resize2_receiver_unchanged_refuted. Qed.
Theorem C14_dense_ctor_sized_unwind_balanced : ltac:(let t := type of dense_ctor_sized_unwind_balanced in exact t).
Proof. exact dense_ctor_sized_unwind_balanced. Qed.
Theorem C14_dense_from_sparse_unwind_balanced : ltac:(let t := type of dense_from_sparse_unwind_balanced in exact t).
Proof. exact dense_from_sparse_unwind_balanced. Qed.
Theorem C14_dense_add_zeroes_and_shift_unwind_balanced : ltac:(let t := type of dense_add_zeroes_and_shift_unwind_balanced in exact t).
Proof. exact dense_add_zeroes_and_shift_unwind_balanced. Qed.

(* (c) text before b69eb94 / 53a83c0 *)
Theorem C14_old_cotree_iter_ctor_unwind_partial : ltac:(let t := type of old_cotree_iter_ctor_unwind_partial in exact t).
Proof. exact old_cotree_iter_ctor_unwind_partial. Qed.
Theorem C14_old_cotree_iter_ctor_leak_refuted : ltac:(let t := type of old_cotree_iter_ctor_leak_refuted in exact t).
Proof. exact old_cotree_iter_ctor_leak_refuted. Qed.
Theorem C14_old_cotree_iter_ctor_unwind_balanced_refuted : ltac:(let t := type of old_cotree_iter_ctor_unwind_balanced_refuted in exact t).
Proof. exact old_cotree_iter_ctor_unwind_balanced_refuted. Qed.
Theorem C14_old_cotree_iter_ctor_leaks_exactly : ltac:(let t := type of old_cotree_iter_ctor_leaks_exactly in exact t).
Proof. exact old_cotree_iter_ctor_leaks_exactly. Qed.
Theorem C14_old_cotree_init_unwind_balanced : ltac:(let t := type of old_cotree_init_unwind_balanced in exact t).
Proof. exact old_cotree_init_unwind_balanced. Qed.
Theorem C14_old_cotree_init_usable_after_refuted : ltac:(let t := type of old_cotree_init_usable_after_refuted in exact t).
Proof. exact old_cotree_init_usable_after_refuted. Qed.
Theorem C14_old_cotree_assign_unwind_balanced_partial : ltac:(let t := type of old_cotree_assign_unwind_balanced_partial in exact t).
Proof. exact old_cotree_assign_unwind_balanced_partial. Qed.
Theorem C14_old_cotree_assign_usable_after_refuted : ltac:(let t := type of old_cotree_assign_usable_after_refuted in exact t).
Proof. exact old_cotree_assign_usable_after_refuted. Qed.
