(* C18 -- Termination analysis returns only genuine ranking functions; the MS and PR methods agree.
   Model: Term/RankSpec.v (what a ranking function is), Term/Encode.v (the systems built by termination.cc,
   transcribed).  [dimc d cs]: every row of cs has at most d coefficients (the C++ takes n from the
   space dimension of the system, so this always holds there). *)
From Coq Require Import List ZArith QArith.
Require Import PPLV.Base.FM PPLV.Base.Sys PPLV.Term.RankSpec PPLV.Term.Encode PPLV.Term.Sound PPLV.Term.Check.
Import ListNotations.
Local Open Scope Q_scope.

(* ---- what a ranking function buys: no infinite execution ---- *)
Theorem C18_ranking_bounds_executions : forall n q d R st k,
  ranking_d n q d R -> chain n R st (S k) -> inject_Z (Z.of_nat k) * d <= fval n q (st O).
Proof. exact ranking_bounds_chain. Qed.

(* ---- soundness of the three encodings, for every relation ---- *)
Theorem C18_ms_sound : forall n cs shared q,
  dimc (n + n) cs ->
  sat_cons (fst (fill_constraint_systems_MS n cs shared)) q ->
  sat_cons (snd (fill_constraint_systems_MS n cs shared)) q ->
  ranking n q (sat_cons cs).
Proof. exact ms_sound. Qed.

Theorem C18_ms_mip_sound : forall n cs q, dimc (n + n) cs -> sat_cons (ms_mip n cs) q -> ranking n q (sat_cons cs).
Proof. exact ms_mip_sound. Qed.

Theorem C18_pr_sound : forall n B C u,
  dimc n B -> dimc (n + n) C -> sat_cons (pr_mip n B C) u ->
  exists mu0, ranking n (with_mu0 n (pr_mu C 0 u) mu0) (rel2 n B C).
Proof. exact pr_sound. Qed.

Theorem C18_pr_all_sound : forall n B C u,
  dimc n B -> dimc (n + n) C -> sat_cons (pr_all n B C) u -> ranking_weak n (pr_mu C 0 u) (rel2 n B C).
Proof. exact pr_all_sound. Qed.

Theorem C18_pr_original_sound : forall n cs l,
  dimc (n + n) cs -> sat_cons (pro_mip n cs) l ->
  exists mu0, ranking n (with_mu0 n (pr_mu cs (length cs) l) mu0) (sat_cons cs).
Proof. exact pro_sound. Qed.

Theorem C18_pr_original_all_sound : forall n cs l,
  dimc (n + n) cs -> sat_cons (pro_all n cs) l -> ranking_weak n (pr_mu cs (length cs) l) (sat_cons cs).
Proof. exact pro_all_sound. Qed.

(* ---- the approximation ---- *)
Theorem C18_approximation_sound : forall n q d cs,
  ranking_d n q d (sat_cons (assign_all_inequalities_approximation cs)) -> ranking_d n q d (sat_cons cs).
Proof. exact approximation_sound. Qed.

Theorem C18_approximation_C_sound : forall n q d cs,
  ranking_d n q d (sat_cons (assign_all_inequalities_approximation_C cs)) -> ranking_d n q d (sat_cons cs).
Proof. exact approximation_C_sound. Qed.

Theorem C18_approximation_all_ge : forall cs, all_ge (assign_all_inequalities_approximation cs).
Proof. exact approximation_all_ge. Qed.

Theorem C18_approximation_exact_closed : forall cs p,
  (forall c, In c cs -> ckd c <> GT) ->
  (sat_cons (assign_all_inequalities_approximation cs) p <-> sat_cons cs p).
Proof. exact approximation_exact_closed. Qed.

Theorem C18_approximation_2_sat : forall n B C p,
  sat_cons (assign_all_inequalities_approximation_2 n B C) p <-> rel2 n B C p.
Proof. exact approximation_2_sat. Qed.

(* ---- rays of a space of ranking functions ---- *)
Theorem C18_ray_sound : forall n q r d t R,
  0 <= t -> ranking_d n q d R -> ranking_d n r 0 R -> ranking_d n (fun j => q j + t * r j) d R.
Proof. exact ray_sound. Qed.

(* ---- the procedures the judge calls ---- *)
Theorem C18_check_rank_ok : forall n R gl d d0 b,
  (0 < d)%Z -> check_rank n R gl d0 = Some b ->
  (b = true <-> ranking_d n (qof gl d) (inject_Z d0 / inject_Z d) (sat_cons R)).
Proof. exact check_rank_ok. Qed.

Theorem C18_check_weak_ok : forall n R gl b,
  check_weak n R gl true = Some b -> (b = true <-> ranking_weak n (qof gl 1) (sat_cons R)).
Proof. exact check_weak_ok. Qed.

Theorem C18_check_weak0_ok : forall n R gl b,
  check_weak n R gl false = Some b -> (b = true <-> ranking_weak0 n (qof gl 1) (sat_cons R)).
Proof. exact check_weak0_ok. Qed.

Theorem C18_check_bound_ok : forall n R gl d b,
  (0 < d)%Z -> check_bound n R gl = Some b ->
  (b = true <-> forall p, sat_cons R p -> 0 <= mudot n (qof gl d) p n + qof gl d n).
Proof. exact check_bound_ok. Qed.

Theorem C18_check_decr_ok : forall n R gl d d0 b,
  (0 < d)%Z -> check_decr n R gl d0 = Some b ->
  (b = true <-> forall p, sat_cons R p -> inject_Z d0 / inject_Z d <= mudot n (qof gl d) p n - mudot n (qof gl d) p 0).
Proof. exact check_decr_ok. Qed.

Theorem C18_same_cons_ok : forall a b, same_cons_b a b = true -> forall p, sat_cons a p <-> sat_cons b p.
Proof. exact same_cons_ok. Qed.

Theorem C18_ms_space_exact : forall n cs q,
  sat_sys (ms_space n cs) q <->
  exists q', (forall i, (i <= n)%nat -> q' i == q i) /\ sat_cons (ms_mip n cs) q'.
Proof. exact ms_space_exact. Qed.

(* ---- completeness on closed relations (affine Farkas lemma derived from the exact elimination of Base/FM.v) ---- *)
Require Import PPLV.Term.Farkas PPLV.Term.Complete.

Theorem C18_farkas_affine : forall n cs c,
  dim_ok n cs -> (length (coefs c) <= n)%nat -> nonstrict cs -> strict c = false ->
  (exists p, sat_all cs p) -> (forall p, sat_all cs p -> sat c p) -> Cone cs (eval c).
Proof. exact farkas_affine. Qed.

Theorem C18_farkas_multipliers : forall cs f, Cone cs f ->
  exists w k, (forall i, 0 <= w i) /\ 0 <= k /\ forall p, f p == csum cs w 0 p + k.
Proof. exact Cone_mult. Qed.

(* every ranking function of a non-empty closed relation is in the projection of the MS system *)
Theorem C18_ms_complete : forall n cs q,
  all_ge cs -> dimc (n + n) cs -> (exists p, sat_cons cs p) -> ranking n q (sat_cons cs) ->
  exists q', (forall i, (i <= n)%nat -> q' i == q i) /\ sat_cons (ms_mip n cs) q'.
Proof. exact ms_complete. Qed.

Theorem C18_pr_original_complete : forall n cs q,
  all_ge cs -> dimc (n + n) cs -> (exists p, sat_cons cs p) -> ranking n q (sat_cons cs) ->
  exists l, sat_cons (pro_mip n cs) l /\ forall j, (j < n)%nat -> pr_mu cs (length cs) l j == q j.
Proof. exact pro_complete. Qed.

(* the tests answer true exactly when an affine ranking function exists ... *)
Theorem C18_ms_test_true_iff_exists_ranking : forall n cs,
  all_ge cs -> dimc (n + n) cs ->
  ((exists q, sat_cons (ms_mip n cs) q) <-> (exists q, ranking n q (sat_cons cs))).
Proof. exact ms_test_iff. Qed.

Theorem C18_pr_original_test_true_iff_exists_ranking : forall n cs,
  all_ge cs -> dimc (n + n) cs ->
  ((exists l, sat_cons (pro_mip n cs) l) <-> (exists q, ranking n q (sat_cons cs))).
Proof. exact pro_test_iff. Qed.

(* ... hence MS and PR (single-pointset form) agree on every closed relation *)
Theorem C18_ms_pr_agree : forall n cs,
  all_ge cs -> dimc (n + n) cs ->
  ((exists q, sat_cons (ms_mip n cs) q) <-> (exists l, sat_cons (pro_mip n cs) l)).
Proof. exact ms_pr_agree. Qed.

(* (the raw two-system builder is incomplete when cs_before lacks the guard: Complete.ms_pr2_agree_refuted;
   the PR_2 entry points now pass the guard, see C18_ms_pr2_agree below) *)

(* ---- the two-system PR form (PR_2 entry points), under the hypothesis that "before" carries the guard ---- *)
Require Import PPLV.Term.CompletePR2.

Theorem C18_pr2_complete : forall n B C q,
  all_ge B -> all_ge C -> dimc n B -> dimc (n + n) C -> guard_in_before n B C -> (exists x, sat_cons B x) ->
  ranking n q (rel2 n B C) ->
  exists u, sat_cons (pr_mip n B C) u /\ forall j, (j < n)%nat -> pr_mu C 0 u j == q j.
Proof. exact pr2_complete. Qed.

Theorem C18_pr2_test_true_iff_exists_ranking : forall n B C,
  all_ge B -> all_ge C -> dimc n B -> dimc (n + n) C -> guard_in_before n B C ->
  ((exists u, sat_cons (pr_mip n B C) u) <-> (exists q, ranking n q (rel2 n B C))).
Proof. exact pr2_test_iff. Qed.

Theorem C18_ms_pr2_agree_under_guard : forall n B C,
  all_ge B -> all_ge C -> dimc n B -> dimc (n + n) C -> guard_in_before n B C ->
  ((exists q, sat_cons (ms_mip n (joint n B C)) q) <-> (exists u, sat_cons (pr_mip n B C) u)).
Proof. exact ms_pr2_agree_under_guard. Qed.

(* ---- the PR spaces as exact projections (what the judge compares all_affine_ranking_functions_PR* with) ---- *)
Require Import PPLV.Term.Spaces.

Theorem C18_pr_space_exact : forall n B C q,
  sat_sys (pr_space n B C) q <->
  exists u, sat_cons (pr_all n B C) u /\ forall j, (j < n)%nat -> q j == pr_mu C 0 u j.
Proof. exact pr_space_exact. Qed.

Theorem C18_pr_original_space_exact : forall n cs q,
  sat_sys (pro_space n cs) q <->
  exists l, sat_cons (pro_all n cs) l /\ forall j, (j < n)%nat -> q j == pr_mu cs (length cs) l j.
Proof. exact pro_space_exact. Qed.

(* the PR_2 entry points (termination_templates.hh after fix-1-pr2-guard) agree with MS_2 on every closed pair:
   G is the system they hand to the builder, pset_before /\ (exists x'. pset_after) *)
Theorem C18_ms_pr2_agree : forall n B C G,
  all_ge B -> all_ge C -> all_ge G -> dimc n B -> dimc n G -> dimc (n + n) C -> is_guard n B C G ->
  ((exists q, sat_cons (ms_mip n (joint n B C)) q) <-> (exists u, sat_cons (pr_mip n G C) u)).
Proof. exact ms_pr2_agree. Qed.
