(* C04 -- Over rationals, boxes / BD shapes / octagons are exact and best where documented.
   BD shapes: the code's Floyd-Warshall closure over an exact carrier yields a CLOSED matrix
   (C04_closure_closed), closed matrices are TIGHT (C04_fw_tight: every entry is the supremum of
   x_j - x_i over the denoted set, attained when finite), hence emptiness, containment and equality tests
   on closed forms are exact.  The disjointness test AS WRITTEN (pairwise opposed bounds) is refuted, for BD
   shapes and for octagons.  Best abstraction: alpha computed with the verified supremum is sound and least
   (boxes with open/closed bounds, BD shapes, octagons).
   NOT proved: tightness of the octagon strong closure (Oct.strong_closure_tight_full and the other ..._full
   statements of Shapes/Oct.v stay plain Definitions). *)
From Coq Require Import List ZArith QArith.
Require Import PPLV.Base.FM PPLV.Base.Sys PPLV.Base.Sup.
Require Import PPLV.Shapes.ExtNum PPLV.Shapes.DBM PPLV.Shapes.DBMExact PPLV.Shapes.DBMClosed PPLV.Shapes.DBMDisjoint PPLV.Shapes.Oct
               PPLV.Shapes.Templ PPLV.Shapes.ToSys.
Local Open Scope Q_scope.

Theorem C04_closure_closed : forall T (C : carrier T) n m m',
  add_exact C -> diag_inf n m -> closure C n m = Some m' -> closed C n m' /\ diag_inf n m'.
Proof. intros T C. exact (closure_closed C). Qed.

Theorem C04_fw_tight : forall T (C : carrier T) n m i j B,
  closed C n m -> diag_inf n m -> (i <= n)%nat -> (j <= n)%nat -> i <> j -> qle B (xv C (m i j)) ->
  exists p, den C n m p /\ B <= p j - p i.
Proof. intros T C. exact (fw_tight C). Qed.

Theorem C04_closure_entry_attained : forall T (C : carrier T) n m m' i j t,
  add_exact C -> diag_inf n m -> closure C n m = Some m' -> (i <= n)%nat -> (j <= n)%nat -> i <> j -> m' i j = Fin t ->
  exists p, den C n m' p /\ p j - p i == val C t.
Proof. intros T C. exact (closure_tight C). Qed.

Theorem C04_entry_unbounded : forall T (C : carrier T) n m i j,
  closed C n m -> diag_inf n m -> (i <= n)%nat -> (j <= n)%nat -> i <> j -> m i j = PInf ->
  forall B, exists p, den C n m p /\ B <= p j - p i.
Proof. intros T C. exact (tight_unbounded C). Qed.

(* is_empty is exact: the closure answers "non-empty" only for non-empty shapes *)
Theorem C04_is_empty_exact : forall T (C : carrier T) n m m',
  add_exact C -> diag_inf n m -> closure C n m = Some m' -> exists p, den C n m' p.
Proof. intros T C. exact (closure_some_nonempty C). Qed.

Theorem C04_contains_exact : forall T (C : carrier T) n x y,
  closed C n y -> diag_inf n y -> diag_inf n x ->
  (code_contains C n x y = true <-> forall p, den C n y p -> den C n x p).
Proof. intros T C. exact (contains_exact C). Qed.

Theorem C04_equals_exact : forall T (C : carrier T) n x y,
  closed C n x -> closed C n y -> diag_inf n x -> diag_inf n y ->
  (code_equal C n x y = true <-> forall p, den C n x p <-> den C n y p).
Proof. intros T C. exact (equals_exact C). Qed.

(* the rational carrier satisfies the exactness hypothesis *)
Theorem C04_rational_carrier_exact : add_exact Qc /\ neg_exact Qc.
Proof. split; [exact Qc_add_exact|exact Qc_neg_exact]. Qed.

(* BD_Shape::is_disjoint_from after the repair (intersect, close, test emptiness) is exact over an exact carrier.
   (Before the repair the pairwise test was refuted: DBMExact.is_disjoint_pairwise_refuted, Oct.oct_is_disjoint_pairwise_refuted
   remain in the development as facts about the OLD code's model code_is_disjoint / oct_code_is_disjoint.) *)
Theorem C04_is_disjoint_exact : forall T (C : carrier T) n x y,
  add_exact C -> diag_inf n x -> diag_inf n y ->
  (fixed_is_disjoint C n x y = true <-> forall p, den C n x p -> den C n y p -> False).
Proof. intros T C. exact (is_disjoint_exact C). Qed.

(* octagons: soundness only; exactness is DBMDisjoint.oct_is_disjoint_exact_full (needs the unproved tightness of the strong closure) *)
Theorem C04_oct_is_disjoint_partial : forall T (C : carrier T) n x y,
  oct_diag_ok C n x -> oct_diag_ok C n y -> oct_fixed_is_disjoint C n x y = true ->
  forall p, den_oct C n x p -> den_oct C n y p -> False.
Proof. intros T C. exact (oct_fixed_is_disjoint_sound C). Qed.

(* best abstraction *)
Theorem C04_alpha_template_sound : forall keep n E es l,
  alpha_t keep n E es = Some l -> forall p, sat_sys E p -> gamma_l l p.
Proof. exact alpha_t_sound. Qed.

Theorem C04_alpha_template_least : forall keep n E es l, alpha_t keep n E es = Some l ->
  forall l', (forall e b, In (e, b) l' -> In e es /\ (keep = false -> forall q st, b = Some (q, st) -> st = false)) ->
  (forall p, sat_sys E p -> gamma_l l' p) -> forall p, gamma_l l p -> gamma_l l' p.
Proof. exact alpha_t_least. Qed.

Theorem C04_alpha_bds_best : forall n E l, alpha_bds n E = Some l ->
  (forall q, sat_sys E q -> gamma_l l q) /\
  (forall m : nat -> nat -> ext Q, (forall q, sat_sys E q -> den Qc n m (ext0 q)) -> forall q, gamma_l l q -> den Qc n m (ext0 q)).
Proof. exact alpha_bds_best. Qed.

Theorem C04_alpha_oct_best : forall n E l, alpha_oct n E = Some l ->
  (forall q, sat_sys E q -> gamma_l l q) /\
  (forall m : nat -> nat -> ext Q, (forall q, sat_sys E q -> den_oct_stored n m q) -> forall q, gamma_l l q -> den_oct_stored n m q).
Proof. exact alpha_oct_best. Qed.

Theorem C04_alpha_box_best : forall keep n E l, alpha_box keep n E = Some l ->
  (forall q, sat_sys E q -> gamma_l l q) /\
  (forall b : list itv, length b = n -> no_empty_itv b -> (keep = false -> closed_itvs b) ->
     (forall q, sat_sys E q -> den_box b q) -> forall q, gamma_l l q -> den_box b q).
Proof. exact alpha_box_best. Qed.

(* the set handed to the verified equivalence test is the template set *)
Theorem C04_sys_of_pairs_exact : forall l p, sat_sys (sys_of_pairs l) p <-> gamma_l l p.
Proof. exact sys_of_pairs_sat. Qed.

(* join of best abstractions: pointwise larger bounds contain both pieces *)
Theorem C04_zip_max_sound : forall l1 l2 p, map fst l1 = map fst l2 -> (gamma_l l1 p \/ gamma_l l2 p) -> gamma_l (zip_max l1 l2) p.
Proof. exact zip_max_sound. Qed.
