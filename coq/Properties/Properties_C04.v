From Coq Require Import List ZArith QArith.
Require Import PPLV.Shapes.ExtNum PPLV.Shapes.DBM PPLV.Shapes.DBMExact.
Theorem C04_is_disjoint_pairwise_refuted : exists (x y : nat -> nat -> ext Q), closed Qc 3 x /\ closed Qc 3 y /\ diag_inf 3 x /\ diag_inf 3 y /\ code_is_disjoint Qc 3 x y = false /\ (forall p, den Qc 3 x p -> den Qc 3 y p -> False).
Proof. exact is_disjoint_pairwise_refuted. Qed.
