(* C13 -- objects are values.  Audited obligations (each is `exact` a lemma of coq/Values/*.v).
   What is proved here is about the STORE-LEVEL MODELS of the places where the C++ shares or reuses storage
   (copy-on-write handles, impl pointers, element-wise swapping reallocation, recycling insertion, lazy const update)
   and about the abstract pool the correspondence check uses as its specification.  Everything else about C13 is
   established per run by tools/props/C13.py, not by proof. *)
From Coq Require Import List Arith Lia Bool.
Require Import PPLV.Base.FM PPLV.Base.Sys.
Require Import PPLV.Values.Store PPLV.Values.Cover PPLV.Values.Pool PPLV.Values.Cow PPLV.Values.LinExpr
               PPLV.Values.SwapVec PPLV.Values.LinSys PPLV.Values.Lazy.
Import ListNotations.

(* Determinate: after ANY history of new / copy-construct / assign / swap / mutate / binary op / destroy over n handle
   variables with arbitrary aliasing, every handle denotes what the plain value semantics says *)
Theorem cow_refines_values (V : Type) (n : nat) (h : list (Cow.cmd V)) :
  forall k, Cow.rd V (Cow.run V n h (Cow.init V)) k = Cow.vrun V n h (fun _ => None) k.
Proof. intros k. exact (proj2 (Cow.cow_correct V n h (Cow.init V) (Cow.inv_init V n)) k). Qed.

(* ... and every reference counter equals the number of handles on its cell, every handle points to a live cell,
   every live cell has a handle (no leak, no dangling pointer, no double delete) *)
Theorem cow_refcounts (V : Type) (n : nat) (h : list (Cow.cmd V)) :
  Cow.Inv V n (Cow.run V n h (Cow.init V)).
Proof. exact (proj1 (Cow.cow_correct V n h (Cow.init V) (Cow.inv_init V n))). Qed.

(* Linear_Expression::operator= (copy and swap), receiver and argument possibly the same variable *)
Theorem linexpr_assign_value_semantics (V : Type) (n : nat) s tmp h g :
  LinExpr.Owned V n s -> tmp < n -> LinExpr.hd V s tmp = None -> LinExpr.hd V s h <> None -> LinExpr.hd V s g <> None ->
  LinExpr.Owned V n (LinExpr.le_assign V tmp h g s) /\
  LinExpr.rd V (LinExpr.le_assign V tmp h g s) h = LinExpr.rd V s g /\
  (forall k, k <> h -> LinExpr.rd V (LinExpr.le_assign V tmp h g s) k = LinExpr.rd V s k).
Proof. exact (LinExpr.assign_spec V n s tmp h g). Qed.

Theorem alias_safe_linexpr_assign (V : Type) (n : nat) s tmp c h :
  LinExpr.Owned V n s -> tmp < n -> c < n -> tmp <> c -> LinExpr.hd V s tmp = None -> LinExpr.hd V s c = None -> LinExpr.hd V s h <> None ->
  forall k, k <> c ->
  LinExpr.rd V (LinExpr.le_assign V tmp h h s) k =
  LinExpr.rd V (LinExpr.le_assign V tmp h c (LinExpr.le_copy V (fun v => v) c h s)) k.
Proof. exact (LinExpr.assign_alias_safe V n s tmp c h). Qed.

Theorem linexpr_self_swap_harmless (V : Type) (n : nat) s h :
  LinExpr.Owned V n s -> LinExpr.hd V s h <> None -> forall k, LinExpr.rd V (LinExpr.le_swap V h h s) k = LinExpr.rd V s k.
Proof. exact (LinExpr.self_swap_harmless V n s h). Qed.

(* copy construction, also the representation-changing one, makes an independent object holding conv(value) *)
Theorem linexpr_copy_independent (V : Type) (n : nat) conv s h g v :
  LinExpr.Owned V n s -> h < n -> LinExpr.hd V s h = None -> LinExpr.rd V s g = Some v ->
  LinExpr.Owned V n (LinExpr.le_copy V conv h g s) /\ LinExpr.rd V (LinExpr.le_copy V conv h g s) h = Some (conv v) /\
  (forall k, k <> h -> LinExpr.rd V (LinExpr.le_copy V conv h g s) k = LinExpr.rd V s k).
Proof.
  intros O Hh E R. destruct (LinExpr.copy_spec V n conv s h g v O Hh E R) as [A [B [C _]]]. exact (conj A (conj B C)).
Qed.

(* Swapping_Vector::resize: surviving elements keep value and position, new ones are default, other blocks untouched *)
Theorem swap_vector_resize_preserves (T : Type) (d : T) grow k v s :
  v < SwapVec.next T s -> SwapVec.blocks T s v <> None ->
  let '(s', v') := SwapVec.resize T d grow k v s in
  length (SwapVec.content T s' v') = k /\
  (forall i, i < k -> i < length (SwapVec.content T s v) -> nth i (SwapVec.content T s' v') d = nth i (SwapVec.content T s v) d) /\
  (forall i, length (SwapVec.content T s v) <= i -> nth i (SwapVec.content T s' v') d = d) /\
  (forall b, b <> v -> b < SwapVec.next T s -> SwapVec.blocks T s' b = SwapVec.blocks T s b).
Proof. exact (SwapVec.swap_vector_resize_preserves T d grow k v s). Qed.

(* Linear_System::insert(const Row& r) with r a reference into the system's own storage *)
Theorem alias_safe_insert_row (T : Type) (d : T) grow v k c s x :
  v < SwapVec.next T s -> SwapVec.blocks T s v <> None ->
  SwapVec.deref T s (v, k) = Some x -> SwapVec.deref T s c = Some x ->
  SwapVec.content T (fst (SwapVec.insert_row T d grow v (v, k) s)) (snd (SwapVec.insert_row T d grow v (v, k) s)) =
  SwapVec.content T (fst (SwapVec.insert_row T d grow v c s)) (snd (SwapVec.insert_row T d grow v c s)).
Proof. exact (SwapVec.insert_row_alias_safe T d grow v k c s x). Qed.

(* insert(y, Recycle_Input): nothing is reachable from both donor and receiver afterwards *)
Theorem recycle_no_sharing (R : Type) x y s :
  x <> y -> NoDup (LinSys.rows R s x ++ LinSys.rows R s y) ->
  let s' := LinSys.insert_recycled R x y s in
  (forall a, In a (LinSys.rows R s' x) -> ~ In a (LinSys.rows R s' y)) /\ LinSys.rows R s' y = [] /\
  LinSys.vals R s' x = LinSys.vals R s x ++ LinSys.vals R s y /\ NoDup (LinSys.rows R s' x) /\
  (forall z, z <> x -> z <> y -> LinSys.rows R s' z = LinSys.rows R s z).
Proof. exact (LinSys.recycle_no_sharing R x y s). Qed.

(* insert(const Linear_System& y): only fresh addresses are added, x and y may be the same system *)
Theorem alias_safe_insert_system (R : Type) x c s :
  (forall z a, In a (LinSys.rows R s z) -> a < LinSys.next R s) -> LinSys.vals R s c = LinSys.vals R s x ->
  LinSys.vals R (LinSys.insert_copy R x x s) x = LinSys.vals R (LinSys.insert_copy R x c s) x.
Proof. exact (LinSys.insert_copy_alias_safe R x c s). Qed.

(* lazy update of a const object: allowed exactly when it preserves the denotation *)
Theorem lazy_update_preserves_den (Rep Den : Type) (den : Rep -> Den) norm l s :
  Lazy.den_preserving Rep Den den norm -> forall k, den (Lazy.lazy_update Rep norm l s k) = den (s k).
Proof. exact (Lazy.lazy_update_preserves_den Rep Den den norm l s). Qed.

Theorem alias_safe_lazy_argument (Rep Den : Type) (den : Rep -> Den) norm f F x c s :
  Lazy.den_preserving Rep Den den norm -> (forall a b, den (f a b) = F (den a) (den b)) -> c <> x ->
  den (Lazy.op_with_lazy_arg Rep norm f x x s x) = den (Lazy.op_with_lazy_arg Rep norm f x c (upd s c (s x)) x).
Proof. exact (Lazy.op_with_lazy_arg_alias_safe Rep Den den norm f F x c s). Qed.

(* the abstract pool = the specification the library is compared with *)
Theorem alias_safe_pool (V : Type) f x c (p : Pool.pool V) : c <> x ->
  Pool.p_op2 V f x x p x = Pool.p_op2 V f x c (Pool.p_copy V c x p) x.
Proof. exact (Pool.pool_alias_safe2 V f x c p). Qed.

Theorem pool_frame (V : Type) f dst a (p : Pool.pool V) k : k <> dst -> Pool.p_op2 V f dst a p k = p k.
Proof. exact (Pool.pool_frame2 V f dst a p k). Qed.

(* the judge's comparison of powerset values (finite unions of polyhedra) is exact *)
Theorem union_equivalence_exact n ps qs b :
  cover_equiv n ps qs = Some b -> (b = true <-> forall x, in_union ps x <-> in_union qs x).
Proof. exact (cover_equiv_exact n ps qs b). Qed.

(* the judge's comparison of single constraint systems is exact (Base/Sys.v, restated as an obligation of this property) *)
Theorem system_equivalence_exact n s t b :
  equiv_sys n s t = Some b -> (b = true <-> forall p, sat_sys s p <-> sat_sys t p).
Proof. exact (equiv_sys_exact n s t b). Qed.
