(* C17 -- integer-aware operators never discard an integer point of the concrete semantics.
   Audited obligations only; the proofs are in coq/Wrap/*.v. *)
From Coq Require Import List ZArith QArith Bool.
Require Import PPLV.Base.FM PPLV.Base.Sys PPLV.Wrap.WrapSpec PPLV.Wrap.WrapGeneric PPLV.Wrap.WrapRef PPLV.Wrap.IntPts.
Import ListNotations.

(* ---- the wrapping function and the quadrant arithmetic of wrap_assign.hh ---- *)
(* translation by k*2^w maps quadrant k onto quadrant 0, and on the integers of quadrant k it is the documented
   wrapping function (wrap_u / wrap_s of definitions.dox) *)
Theorem quadrant_arith : forall (w : Z) (signed : bool), (0 < w)%Z -> forall x k : Z,
  quadrant w signed x = k ->
  (x - k * modulus w = wrap w signed x)%Z /\ quadrant w signed (x - k * modulus w) = 0%Z /\ in_range w signed (x - k * modulus w).
Proof. exact quadrant_arith_lemma. Qed.

(* the code's first/last quadrant (floor of the rational bounds, minus min_value, floor-divided by 2^w) enclose
   the quadrant of every integer between the bounds *)
Theorem quadrant_bounds : forall (w : Z) (signed : bool), (0 < w)%Z -> forall (l u : Q) (z : Z),
  (l <= inject_Z z)%Q -> (inject_Z z <= u)%Q ->
  ((Qround.Qfloor l - min_value w signed) / modulus w <= quadrant w signed z <= (Qround.Qfloor u - min_value w signed) / modulus w)%Z.
Proof. exact quadrant_between. Qed.

Theorem wrap_lands_in_range : forall (w : Z) (signed : bool), (0 < w)%Z -> forall x, in_range w signed (wrap w signed x).
Proof. exact wrap_in_range. Qed.

(* ---- soundness of the generic algorithm ---- *)
(* [patched = true] is the code AS IT IS since the fix of the collective path (/repo commit 94f2bc7);
   [patched = false] is the code before that commit (kept for the historical refutation below).
   For every domain satisfying the one-sided laws, every width, representation, overflow mode, guard, threshold,
   individually or collectively, wrap_assign keeps every required point. *)
Theorem wrap_generic_sound :
  forall (PS : Type) (den : PS -> point -> Prop) ps_empty ps_is_empty ps_minimize ps_maximize ps_unconstrain ps_refine ps_shift ps_join
         (w : Z) (signed : bool) (o : overflow) (cs_p : option (list con)) (thr : Z) (ind : bool) (vars : list nat),
    laws PS den ps_is_empty ps_minimize ps_maximize ps_unconstrain ps_refine ps_shift ps_join ->
    (0 < w)%Z -> NoDup vars ->
    forall P q, required w signed vars o (guard cs_p) (den P) q ->
      den (wrap_assign PS ps_empty ps_is_empty ps_minimize ps_maximize ps_unconstrain ps_refine ps_shift ps_join
                       w signed o cs_p thr ind true vars P) q.
Proof. intros. apply wrap_generic_sound_lemma; auto. Qed.

(* the laws are satisfiable: finite unions of reference polyhedra satisfy them in every dimension *)
Theorem wrap_laws_satisfiable : forall n : nat,
  laws (rps) (rden) (r_is_empty n) (r_minimize n) (r_maximize n) r_unconstrain (r_refine n) (r_shift n) r_join.
Proof. exact ref_laws. Qed.

(* HISTORICAL (code before the fix, [patched = false]): on a domain satisfying the laws, collective wrapping of
   368 <= A <= 393, 891 <= B <= 930 (signed 8 bits, wraps, threshold 2) lost (384,891) |-> (-128,123); the code as it is keeps it *)
Theorem wrap_generic_pre_fix_refuted :
  exists (U : rps) (q : point),
    required 8 true [0; 1]%nat OWraps [] (rden U) q /\
    ~ rden (ref_wrap 2 8 true OWraps None 2 false false [0; 1]%nat U) q /\
    rden (ref_wrap 2 8 true OWraps None 2 false true [0; 1]%nat U) q.
Proof.
  exists [sys_of_cons defect_arg], defect_q. split; [exact defect_required|]. split.
  - intros H. apply rden_b_ok in H. rewrite defect_lost_as_is in H. discriminate.
  - apply rden_b_ok. exact defect_kept_patched.
Qed.

(* ---- the verified tests used by the correspondence check ---- *)
Theorem membership_test_exact : forall cs p, sat_cons_b cs p = true <-> sat_cons cs p.
Proof. exact sat_cons_b_ok. Qed.

Theorem congruence_test_exact : forall g p, sat_cg_b g p = true <-> sat_cg g p.
Proof. exact sat_cg_b_ok. Qed.

Theorem targets_are_required : forall (w : Z) (signed : bool) o cands a t,
  In t (targets_b w signed o cands a) -> target w signed o a (inject_Z t).
Proof. exact targets_b_ok. Qed.

(* ---- integer points of bounded systems (the fuel / error outcomes are excluded: they are never an answer) ---- *)
Theorem contains_integer_point_exact : forall lim n cs,
  match contains_integer_point lim n cs with
  | IFound _ => exists p, sat_cons cs p /\ int_on (seq 0 n) p
  | INone => forall p, sat_cons cs p -> ~ int_on (seq 0 n) p
  | IOutOfFuel | IError => True
  end.
Proof. exact IntPts.contains_integer_point_exact. Qed.

Theorem int_search_found_sound : forall lim n dims s vals,
  int_search lim n dims s = IFound vals -> exists p, sat_sys s p /\ int_on dims p.
Proof. exact int_search_found_int. Qed.

Theorem int_search_none_sound : forall lim n dims s,
  int_search lim n dims s = INone -> forall p, sat_sys s p -> ~ int_on dims p.
Proof. exact int_search_none. Qed.

(* the contract of drop_some_non_integer_points is DECIDED PER RESULT: result included in the argument (incl_cons, exact)
   and, for each constraint c of the result, "argument and not c" has no point integral on the designated dimensions *)
Theorem drop_contract_constraint_validated : forall lim n dims cs c,
  no_int_point_violating lim n dims cs c = Some true ->
  forall p, sat_cons cs p -> int_on dims p -> sat_con c p.
Proof. exact no_int_point_violating_true. Qed.

Theorem drop_contract_constraint_refuted : forall lim n dims cs c,
  no_int_point_violating lim n dims cs c = Some false ->
  exists p, sat_cons cs p /\ int_on dims p /\ ~ sat_con c p.
Proof. exact no_int_point_violating_false. Qed.

Theorem drop_contract_inclusion_decided : forall n a b r,
  incl_cons n a b = Some r -> (r = true <-> forall p, sat_cons a p -> sat_cons b p).
Proof. exact incl_cons_exact. Qed.
