(* C09 -- audited obligations.  Models: coq/Powerset/{PS,PSDom,UnionIncl,PSPoly,Cow}.v
   [dom] packages a base domain (denotation + definitely_entails, is_bottom, is_top, upper_bound_assign,
   meet_assign, upper_bound_assign_if_exact), [laws] its soundness laws; [never] is the oracle for
   `abandon_expensive_computations == nullptr'. *)
From Coq Require Import List Bool Arith ZArith QArith.
Require Import PPLV.Base.FM PPLV.Base.Sys.
Require Import PPLV.Powerset.PS PPLV.Powerset.PSDom PPLV.Powerset.UnionIncl PPLV.Powerset.PSPoly PPLV.Powerset.Cow PPLV.Powerset.PP.
Import ListNotations.

(* omega-reduction never changes the union ... *)
Theorem omega_reduce_union : forall d, laws d -> forall s p, Den d (Omega d never s) p <-> Den d s p.
Proof. exact T_omega_reduce_union. Qed.
(* ... even on the hurry-up path (collapse in the middle) no point is lost *)
Theorem omega_reduce_never_loses : forall d, laws d -> forall hurry s p, Den d s p -> Den d (Omega d hurry s) p.
Proof. exact T_omega_reduce_superset. Qed.
(* afterwards the flag is set and tells the truth: no disjunct is bottom, none entails one at another position.
   Partial: proved for the null hurry-up oracle; the statement for every oracle is PSDom.omega_reduce_reduced_full *)
Theorem omega_reduce_reduced_partial : forall d, laws d -> forall s, Wf d s ->
  Flag d (Omega d never s) = true /\ Really_reduced d (Omega d never s).
Proof. exact T_omega_reduce_reduced. Qed.
Theorem omega_reduce_adds_nothing : forall d, laws d -> forall s x, In x (seq _ (Omega d never s)) -> In x (seq _ s).
Proof. exact T_omega_reduce_no_new. Qed.
Theorem check_omega_reduced_decides : forall d s, CheckReduced d s = true <-> Really_reduced d s.
Proof. exact T_check_reduced. Qed.

(* collapse: the union only grows, to a single disjunct which is the fold of the base-level upper bound *)
Theorem collapse_spec : forall d, laws d -> forall s,
  (forall p, Den d s p -> Den d (Collapse d s) p) /\
  (seq _ s <> [] -> exists x r, seq _ s = x :: r /\ seq _ (Collapse d s) = [fold_left (dub d) r x]) /\
  (Size d (Collapse d s) <= 1)%nat.
Proof. exact T_collapse_spec. Qed.
Theorem collapse_n_spec : forall d, laws d -> forall hurry m s, (0 < m)%nat ->
  (forall p, Den d s p -> Den d (CollapseN d hurry m s) p) /\ (Size d (CollapseN d hurry m s) <= m)%nat.
Proof. exact T_collapse_n_spec. Qed.

Theorem add_disjunct_union : forall d x s p, Den d (AddDisjunct d x s) p <-> Den d s p \/ dden d x p.
Proof. exact T_add_disjunct_union. Qed.
Theorem ub_union : forall d, laws d -> forall y s p, Den d (Lub d never y s) p <-> Den d s p \/ Den d y p.
Proof. exact T_ub_union. Qed.
Theorem ub_keeps_reduction : forall d, laws d -> forall y s, Wf d s -> Wf d y ->
  Flag d (Lub d never y s) = true /\ Really_reduced d (Lub d never y s).
Proof. exact T_ub_flag. Qed.
Theorem meet_union : forall d, laws d -> forall y s p, Den d (Meet d never y s) p <-> Den d s p /\ Den d y p.
Proof. exact T_meet_union. Qed.
(* any binary base-level operation acting pointwise (intersection, concatenation, time elapse, ...) *)
Theorem pairwise_apply_union : forall d, laws d -> forall op (Rel : dP d -> dP d -> dP d -> Prop) y s,
  (forall a b q, dden d (op a b) q <-> exists p1 p2, dden d a p1 /\ dden d b p2 /\ Rel p1 p2 q) ->
  forall q, Den d (PairwiseApply d never op y s) q <-> exists p1 p2, Den d s p1 /\ Den d y p2 /\ Rel p1 p2 q.
Proof. exact T_pairwise_apply_union. Qed.
(* any unary base-level operation (add_constraint, affine image, dimension changes, ...) acts on the union
   exactly as it acts on each disjunct *)
Theorem map_union : forall d f (Rel : dP d -> dP d -> Prop) k s,
  (forall a q, dden d (f a) q <-> exists p, dden d a p /\ Rel p q) ->
  forall q, Den d (MapAssign d f k s) q <-> exists p, Den d s p /\ Rel p q.
Proof. exact T_map_union. Qed.
Theorem pairwise_reduce_union : forall d, laws d -> forall s p, Den d (PairwiseReduce d never s) p <-> Den d s p.
Proof. exact T_pairwise_reduce_union. Qed.
Theorem entails_geometric : forall d, laws d -> forall x y, Entails d x y = true -> forall p, Den d x p -> Den d y p.
Proof. exact T_entails_geometric. Qed.
Theorem is_bottom_exact : forall d, laws d -> forall s, bot_complete d -> Wf d s ->
  (snd (IsBottom d never s) = true <-> forall p, ~ Den d s p).
Proof. exact T_is_bottom_exact. Qed.
Theorem is_top_sound : forall d, laws d -> forall hurry s, snd (IsTop d hurry s) = true -> forall p, Den d (fst (IsTop d hurry s)) p.
Proof. exact T_is_top_sound. Qed.

(* the flag tells the truth after every modelled operation that sets or resets it ... *)
Theorem flag_truth : forall d, laws d ->
  (forall s, Wf d s -> Wf d (Omega d never s)) /\
  (forall x s, Wf d (AddDisjunct d x s)) /\
  (forall y s, Wf d s -> Wf d y -> Wf d (Lub d never y s)) /\
  (forall h op y s, Wf d (PairwiseApply d h op y s)) /\
  (forall f s, Wf d (MapAssign d f false s)).
Proof. exact T_flag_truth. Qed.
(* ... keeping it is right for order-embeddings (add_space_dimensions_*, expand_space_dimension) ... *)
Theorem flag_kept_by_embeddings : forall d f s,
  (forall a b, dent d (f a) (f b) = dent d a b) -> (forall a, dbot d (f a) = dbot d a) -> Wf d s -> Wf d (MapAssign d f true s).
Proof. exact T_map_keep_flag. Qed.
(* topological_closure_assign and fold_space_dimensions (which reset the flag since /repo fd3faff, e7857d0):
   the flag tells the truth afterwards; their action on the union is [map_union] *)
Theorem closure_fold_flag_truth : forall d cl s, Wf d (ClosureAssign d cl s) /\ Wf d (FoldAssign d cl s).
Proof. exact T_closure_fold_flag_truth. Qed.
(* why the reset is necessary (the behaviour before the fix): keeping the flag across a closure-like map
   makes it lie -- counter-model *)
Theorem keeping_flag_for_closure_is_wrong :
  exists (s : Ps fs_dom),
    (forall a p, dden fs_dom a p -> dden fs_dom (fs_close a) p) /\ Wf fs_dom s /\ Flag fs_dom s = true /\
    Flag fs_dom (MapAssign fs_dom fs_close true s) = true /\
    CheckReduced fs_dom (MapAssign fs_dom fs_close true s) = false /\
    ~ Wf fs_dom (MapAssign fs_dom fs_close true s).
Proof. exact PSDom.keeping_flag_for_closure_is_wrong. Qed.

(* concatenate_assign, including its "Hurry up!" branch taken when abandon_expensive_computations is found raised
   (any schedule [hurry] of the flag): no concatenation of a point of x with a point of y is ever lost; without
   abandonment the result is exactly the set of concatenations and the flag stays set *)
Theorem concatenate_never_loses : forall d, laws d -> forall conc ubx uby (Rel : dP d -> dP d -> dP d -> Prop) hurry y s q,
  (forall a b p1 p2 q, dden d a p1 -> dden d b p2 -> Rel p1 p2 q -> dden d (conc a b) q) ->
  (forall a b p, dden d a p \/ dden d b p -> dden d (ubx a b) p) ->
  (forall a b p, dden d a p \/ dden d b p -> dden d (uby a b) p) ->
  (exists p1 p2, Den d s p1 /\ Den d y p2 /\ Rel p1 p2 q) -> Den d (Concatenate d hurry conc ubx uby y s) q.
Proof. exact T_concatenate_never_loses. Qed.
Theorem concatenate_exact : forall d, laws d -> forall conc ubx uby (Rel : dP d -> dP d -> dP d -> Prop) y s q,
  (forall a b p1 p2 q, dden d a p1 -> dden d b p2 -> Rel p1 p2 q -> dden d (conc a b) q) ->
  (forall a b q, dden d (conc a b) q -> exists p1 p2, dden d a p1 /\ dden d b p2 /\ Rel p1 p2 q) ->
  (forall a b p, dden d a p \/ dden d b p -> dden d (ubx a b) p) ->
  (forall a b p, dden d a p \/ dden d b p -> dden d (uby a b) p) ->
  (Den d (Concatenate d never conc ubx uby y s) q <-> exists p1 p2, Den d s p1 /\ Den d y p2 /\ Rel p1 p2 q) /\
  Flag d (Concatenate d never conc ubx uby y s) = true.
Proof. exact T_concatenate_exact. Qed.

(* strictly_contains: omega-reduces BOTH operands (same unions, really reduced) and a positive answer
   implies geometric containment *)
Theorem strictly_contains_sound : forall d, laws d -> forall x y,
  snd (StrictlyContains d never x y) = true -> forall p, Den d y p -> Den d x p.
Proof. exact T_strictly_contains_sound. Qed.
Theorem strictly_contains_states : forall d, laws d -> forall x y p,
  (Den d (fst (fst (StrictlyContains d never x y))) p <-> Den d x p) /\
  (Den d (snd (fst (StrictlyContains d never x y))) p <-> Den d y p).
Proof. exact T_strictly_contains_states. Qed.
Theorem strictly_contains_reduces_both : forall d, laws d -> forall x y, Wf d x -> Wf d y ->
  Really_reduced d (fst (fst (StrictlyContains d never x y))) /\ Really_reduced d (snd (fst (StrictlyContains d never x y))).
Proof. exact T_strictly_contains_reduces_both. Qed.

(* the laws hold for the reference polyhedra whatever the (untrusted) generator hints are *)
Theorem reference_polyhedra_satisfy_laws : forall dim nb, laws (poly_dom dim nb).
Proof. exact poly_laws. Qed.

(* exact tests on finite unions of polyhedra used by the judge *)
Theorem union_incl_exact : forall n Bs A r,
  union_incl n Bs A = Some r -> (r = true <-> forall p, sat_sys A p -> covered Bs p).
Proof. exact UnionIncl.union_incl_exact. Qed.
Theorem geometric_covers_decided : forall dim nb x y r,
  unions_incl nb (systems dim nb y) (systems dim nb x) = Some r ->
  (r = true <-> forall p, Den (poly_dom dim nb) y p -> Den (poly_dom dim nb) x p).
Proof. exact PSPoly.geometric_covers_decided. Qed.
Theorem geometric_equals_decided : forall dim nb x y r,
  unions_equiv nb (systems dim nb x) (systems dim nb y) = Some r ->
  (r = true <-> forall p, Den (poly_dom dim nb) x p <-> Den (poly_dom dim nb) y p).
Proof. exact PSPoly.geometric_equals_decided. Qed.
Theorem difference_decided : forall dim nb z x y r,
  is_difference nb (systems dim nb z) (systems dim nb x) (systems dim nb y) = Some r ->
  (r = true <-> forall p, Den (poly_dom dim nb) z p <-> (Den (poly_dom dim nb) x p /\ ~ Den (poly_dom dim nb) y p)).
Proof. exact PSPoly.difference_decided. Qed.
Theorem unions_disjoint_exact : forall n Bs As r,
  unions_disjoint n As Bs = Some r -> (r = true <-> forall p, covered As p -> covered Bs p -> False).
Proof. exact UnionIncl.unions_disjoint_exact. Qed.

(* linear_partition (transcribed over the reference polyhedra): first component p /\ q; the residues cover
   exactly q \ p and are pairwise disjoint; the difference built from it is the exact set difference *)
Theorem linear_partition_spec : forall n p q,
  let (pq, rs) := linear_partition n p q in
  (forall x, sat_sys pq x <-> sat_sys p x /\ sat_sys q x) /\
  (forall x, covered rs x <-> sat_sys q x /\ ~ sat_sys p x) /\
  (forall r1 r2 a b x, rs = r1 ++ a :: r2 -> In b r2 -> sat_sys a x -> sat_sys b x -> False).
Proof. exact PP.linear_partition_spec. Qed.
Theorem difference_exact : forall n ys xs p, covered (difference n ys xs) p <-> covered xs p /\ ~ covered ys p.
Proof. exact PP.difference_exact. Qed.

(* copy on write: value semantics and reference counts, for every history *)
Theorem cow_refines_values : forall (V : Type) n (hist : list (cmd V)) h,
  read_cow V (run_cow V n hist) h = read_val V (run_values V n hist) h.
Proof. exact Cow.cow_refines_values. Qed.
Theorem cow_refcounts : forall (V : Type) n (hist : list (cmd V)) l,
  match heap V (run_cow V n hist) l with
  | Some r => refs V r = count l (hs V (run_cow V n hist)) /\ (0 < refs V r)%nat
  | None => count l (hs V (run_cow V n hist)) = 0%nat
  end.
Proof. exact Cow.cow_refcounts. Qed.
