(* C08 -- Widenings are upper bounds, well defined on values, and force convergence.

   What is proved here, for all inputs:
   (1) the convergence certificates (BHRZ03, H79, Grid), as transcribed from the source with the
       ladder order regenerated from it: the limited-growth orders used by is_stabilizing and the total
       orders used to sort the powerset multisets are well founded; so is the multiset order of
       is_cert_multiset_stabilizing on what collect_certificates builds;
   (2) for ANY domain and ANY operator: if every value-changing step strictly decreases a well-founded
       certificate (the check the judge makes on each step of the real library), the iteration
       x_0 = y_0, x_{k+1} = (x_k join y_{k+1}).widening_assign(x_k) is eventually stationary on every
       chain, and the limit covers the chain;
   (3) the token protocol and the limited / bounded extrapolation wrappers meet their specification.
   That the library's operators ARE upper bounds, depend only on values and satisfy the per-step
   hypothesis of (2) is decided per result by the verified oracle (Base/Sys.v) in the correspondence run. *)
From Coq Require Import List ZArith QArith Wellfounded.
Require Import PPLV.Base.FM PPLV.Base.Sys PPLV.Poly.PolyOps.
Require Import PPLV.Widen.Cert PPLV.Widen.CertFacts PPLV.gen.Facts_Cert PPLV.Widen.Generic PPLV.Widen.PolyW PPLV.Widen.PSet.
Import ListNotations.
Local Open Scope nat_scope.

(* ---- (1) certificates ---- *)

(* p below x  :=  x.is_stabilizing(ph_p), for certificates of space dimension n within the bounds OK()
   guarantees (affine_dim <= n, lin_space_dim <= n) and under the precondition of compare(ph) (ph contains the
   polyhedron of x, hence neither dimension decreases): (n - affine_dim, n - lin_space_dim, num_constraints,
   num_points, num_rays_null_coord[0..n)) decreases lexicographically *)
Theorem bhrz03_order_wf : forall n, well_founded (bhrz03_lgo n).
Proof. exact bhrz03_lgo_wf. Qed.

Theorem h79_order_wf : forall n, well_founded (h79_lgo n).
Proof. exact h79_lgo_wf. Qed.

(* grids: (num_equalities, num_proper_congruences) decreases lexicographically; no bound needed *)
Theorem grid_order_wf : well_founded grid_lgo.
Proof. exact grid_lgo_wf. Qed.

(* x below y  :=  x.compare(y) == -1, the order of the std::map keys *)
Theorem bhrz03_total_order_wf : forall n, well_founded (bhrz03_lt n).
Proof. exact Cert.bhrz03_total_order_wf. Qed.

Theorem h79_total_order_wf : well_founded h79_lt.
Proof. exact Cert.h79_total_order_wf. Qed.

(* the transcriptions are the source: ladders regenerated from /repo, interpreted *)
Theorem bhrz03_compare_ladder_is_source : forall x y,
  bhrz03_compare x y = run bhrz03_cc_ladder (bhrz03_fields x) (bhrz03_fields y).
Proof. exact bhrz03_compare_is_source. Qed.

Theorem bhrz03_compare_ph_ladder_is_source : forall x p,
  bhrz03_compare_ph x p = run bhrz03_ph_ladder (bhrz03_fields p) (bhrz03_fields x).
Proof. exact bhrz03_compare_ph_is_source. Qed.

Theorem h79_compare_ladder_is_source : forall x y,
  h79_compare x y = run h79_cc_ladder (h79_fields x) (h79_fields y).
Proof. exact h79_compare_is_source. Qed.

Theorem h79_compare_ph_ladder_is_source : forall x p,
  h79_compare_ph x p = run h79_ph_ladder (h79_fields p) (h79_fields x).
Proof. exact h79_compare_ph_is_source. Qed.

Theorem grid_compare_ladder_is_source : forall x y,
  grid_compare x y = run grid_cc_ladder (grid_fields x) (grid_fields y).
Proof. exact grid_compare_is_source. Qed.

Theorem stabilizing_constants_are_source :
  bhrz03_stab_value = 1%Z /\ grid_stab_value = 1%Z /\
  bhrz03_sort_value = 1%Z /\ h79_sort_value = 1%Z /\ grid_sort_value = 1%Z.
Proof. exact stab_constants_are_source. Qed.

(* the growth precondition is needed: without it is_stabilizing has a 2-cycle on OK() certificates *)
Theorem bhrz03_order_without_precondition_refuted :
  exists a b, bhrz03_ok a = true /\ bhrz03_ok b = true /\
              bhrz03_is_stabilizing a b = true /\ bhrz03_is_stabilizing b a = true.
Proof. exists cyc_a, cyc_b. exact bhrz03_lgo_needs_growth. Qed.

(* "compare(cert) is a refinement of the limited growth ordering" (BHRZ03_Certificate_defs.hh) does not hold
   for the code as written: p strictly below x for is_stabilizing, strictly above for compare *)
Theorem bhrz03_compare_refines_lgo_refuted :
  exists x p, bhrz03_ok x = true /\ bhrz03_ok p = true /\ bhrz03_grows x p /\
              bhrz03_is_stabilizing x p = true /\ bhrz03_compare p x = 1%Z.
Proof. exists ref_x, ref_p. exact bhrz03_compare_not_a_refinement. Qed.

(* ... it does hold between certificates of equal affine and lineality dimension *)
Theorem bhrz03_compare_refines_lgo_partial : forall x p,
  length (b_rays p) = length (b_rays x) ->
  b_affine_dim p = b_affine_dim x -> b_lin_space_dim p = b_lin_space_dim x ->
  (bhrz03_is_stabilizing x p = true <-> bhrz03_compare x p = 1%Z).
Proof. exact bhrz03_compare_agree. Qed.

(* the multiset order of is_cert_multiset_stabilizing, on sorted association lists over keys of length k *)
Theorem cert_multiset_wf : forall k, well_founded (mlt k).
Proof. exact mlt_wf. Qed.

Theorem bhrz03_cert_multiset_wf : forall n, well_founded (bhrz03_ms_lt n).
Proof. exact bhrz03_multiset_wf. Qed.

Theorem h79_cert_multiset_wf : well_founded h79_ms_lt.
Proof. exact h79_multiset_wf. Qed.

(* collect_certificates produces elements of that domain *)
Theorem collect_certificates_sorted : forall n l, (forall c, In c l -> length (b_rays c) = n) ->
  sorted (4 + n) (keyed bhrz03_vec (ms_of_list bhrz03_compare l)).
Proof. exact bhrz03_collect_sorted. Qed.

(* ---- (2) from the per-step check to all chains ---- *)

(* For ANY domain, operator and certificate: if the certificate is a function of the value and every
   value-changing step  (a <= b, (b widen a) <> a)  strictly decreases it in a well-founded order, then on every
   sequence y the iteration is eventually stationary.  Axiom-free: value equality is decided (the oracle decides
   it) and the statement takes the one omniscience instance it needs as a hypothesis ("from k on, every step is
   stationary or some step is not").  With excluded middle both hypotheses vanish: that corollary is
   Generic.certified_widening_terminates_classic (uses Coq.Logic.Classical_Prop.classic, hence not listed here). *)
Theorem certified_widening_terminates :
  forall (D Pt : Type) (den : D -> Pt -> Prop) (widen join : D -> D -> D),
    (forall a b, le D Pt den a (join a b)) ->
  forall (y : nat -> D) (C : Type) (cert : D -> C) (clt : C -> C -> Prop),
    well_founded clt ->
    (forall a b, deq D Pt den a b -> cert a = cert b) ->
    (forall a b, le D Pt den a b -> ~ deq D Pt den (widen b a) a -> clt (cert (widen b a)) (cert a)) ->
    (forall a b, deq D Pt den a b \/ ~ deq D Pt den a b) ->
    (forall k, (forall m, k <= m -> deq D Pt den (it D widen join y (S m)) (it D widen join y m)) \/
               (exists m, k <= m /\ ~ deq D Pt den (it D widen join y (S m)) (it D widen join y m))) ->
  exists n, forall m, n <= m -> deq D Pt den (it D widen join y m) (it D widen join y n).
Proof. exact certified_widening_terminates_lpo. Qed.

(* without the omniscience hypothesis: it is impossible that the iteration never becomes stationary *)
Theorem certified_widening_terminates_constructive :
  forall (D Pt : Type) (den : D -> Pt -> Prop) (widen join : D -> D -> D),
    (forall a b, le D Pt den a (join a b)) ->
  forall (y : nat -> D) (C : Type) (cert : D -> C) (clt : C -> C -> Prop),
    well_founded clt ->
    (forall a b, deq D Pt den a b -> cert a = cert b) ->
    (forall a b, le D Pt den a b -> ~ deq D Pt den (widen b a) a -> clt (cert (widen b a)) (cert a)) ->
    (forall a b, deq D Pt den a b \/ ~ deq D Pt den a b) ->
  ~ ~ exists n, forall m, n <= m -> deq D Pt den (it D widen join y m) (it D widen join y n).
Proof. exact certified_widening_terminates_nn. Qed.

Theorem widened_iteration_is_upper_bound :
  forall (D Pt : Type) (den : D -> Pt -> Prop) (widen join : D -> D -> D),
    (forall a b, le D Pt den a (join a b)) -> (forall a b, le D Pt den b (join a b)) ->
    (forall x y, le D Pt den y x -> le D Pt den x (widen x y)) ->
  forall (y : nat -> D) (k : nat),
    le D Pt den (y k) (it D widen join y k) /\ le D Pt den (it D widen join y k) (it D widen join y (S k)).
Proof. exact iteration_upper_bound. Qed.

Theorem stationary_iterate_covers_chain :
  forall (D Pt : Type) (den : D -> Pt -> Prop) (widen join : D -> D -> D),
    (forall a b, le D Pt den a (join a b)) -> (forall a b, le D Pt den b (join a b)) ->
    (forall x y, le D Pt den y x -> le D Pt den x (widen x y)) ->
  forall (y : nat -> D) (n : nat),
    (forall m, n <= m -> deq D Pt den (it D widen join y m) (it D widen join y n)) ->
    forall k, le D Pt den (y k) (it D widen join y n).
Proof. exact stationary_covers_chain. Qed.

(* ---- (3) tokens, limited and bounded extrapolation ---- *)

Theorem tokens_spec :
  forall (D Pt : Type) (den : D -> Pt -> Prop) (widen : D -> D -> D) (leb : D -> D -> bool),
    (forall a b, leb a b = true <-> le D Pt den a b) ->
    (forall x y, le D Pt den y x -> le D Pt den x (widen x y)) ->
  forall (x y : D) (t : nat), le D Pt den y x ->
    let r := widen_tok D widen leb x y t in
    (t = 0 -> r = (widen x y, 0)) /\
    (0 < t -> fst r = x /\
              (snd r = t - 1 <-> ~ le D Pt den (widen x y) x) /\
              (snd r = t <-> le D Pt den (widen x y) x) /\
              (snd r = t -> deq D Pt den x (widen x y))).
Proof. exact Generic.tokens_spec. Qed.

Theorem tokens_spec_bhrz03_shape :
  forall (D Pt : Type) (den : D -> Pt -> Prop) (widen : D -> D -> D) (stab : D -> D -> bool),
    (forall x y, le D Pt den y x -> stab x y = true -> deq D Pt den (widen x y) x) ->
    (forall x y, le D Pt den y x -> stab x y = false -> ~ le D Pt den (widen x y) x) ->
  forall (x y : D) (t : nat), le D Pt den y x ->
    let r := widen_tok_b D widen stab x y t in
    (t = 0 -> snd r = 0 /\ deq D Pt den (fst r) (widen x y)) /\
    (0 < t -> fst r = x /\
              (snd r = t - 1 <-> ~ le D Pt den (widen x y) x) /\
              (snd r = t <-> le D Pt den (widen x y) x) /\
              (snd r = t -> deq D Pt den x (widen x y))).
Proof. exact Generic.tokens_spec_b. Qed.

Theorem limited_between :
  forall (D Pt : Type) (den : D -> Pt -> Prop) (widen : D -> D -> D) (K : Type) (kden : K -> Pt -> Prop)
         (entb : D -> K -> bool),
    (forall x c, entb x c = true <-> entails D Pt den K kden x c) ->
  forall meet_cs : D -> list K -> D,
    (forall d l p, den (meet_cs d l) p <-> den d p /\ (forall c, In c l -> kden c p)) ->
    (forall x y, le D Pt den y x -> le D Pt den x (widen x y)) ->
  forall (x y : D) (cs : list K), le D Pt den y x ->
    le D Pt den x (limited D widen K entb meet_cs x y cs) /\
    le D Pt den (limited D widen K entb meet_cs x y cs) (widen x y) /\
    (forall c, In c cs -> entails D Pt den K kden x c ->
               entails D Pt den K kden (limited D widen K entb meet_cs x y cs) c).
Proof. exact Generic.limited_between. Qed.

Theorem bounded_between :
  forall (D Pt : Type) (den : D -> Pt -> Prop) (widen : D -> D -> D) (K : Type) (kden : K -> Pt -> Prop)
         (entb : D -> K -> bool),
    (forall x c, entb x c = true <-> entails D Pt den K kden x c) ->
  forall meet_cs : D -> list K -> D,
    (forall d l p, den (meet_cs d l) p <-> den d p /\ (forall c, In c l -> kden c p)) ->
    (forall x y, le D Pt den y x -> le D Pt den x (widen x y)) ->
  forall boxw : D -> D -> list K,
    (forall x y, le D Pt den y x -> forall c, In c (boxw x y) -> entails D Pt den K kden x c) ->
  forall (x y : D) (cs : list K), le D Pt den y x ->
    le D Pt den x (bounded D widen K entb meet_cs boxw x y cs) /\
    le D Pt den (bounded D widen K entb meet_cs boxw x y cs) (limited D widen K entb meet_cs x y cs) /\
    (forall c, In c cs -> entails D Pt den K kden x c ->
               entails D Pt den K kden (bounded D widen K entb meet_cs boxw x y cs) c) /\
    (forall c, In c (boxw x y) -> entails D Pt den K kden (bounded D widen K entb meet_cs boxw x y cs) c).
Proof. exact Generic.bounded_between. Qed.

(* the reference the judge evaluates for a limited extrapolation, on the library's own plain result w *)
Theorem limited_reference_exact : forall n x w cs r, limited_ref n x w cs = Some r ->
  forall p, sat_sys r p <->
            sat_sys w p /\ forall c, In c cs -> (forall q, sat_sys x q -> sat_con c q) -> sat_con c p.
Proof. exact limited_ref_exact. Qed.

Theorem token_numbers_are_the_protocol :
  forall (D : Type) (widen : D -> D -> D) (leb : D -> D -> bool) x y t,
    widen_tok D widen leb x y t = (if tok_keeps_x t then x else widen x y, tok_after (leb (widen x y) x) t).
Proof. exact widen_tok_as_numbers. Qed.
