(* C11 -- audited obligations.  Every statement is for ALL widths >= 8, both signednesses, all operands, all rounding
   directions and every policy with check_overflow (definitions of the statement formers: Checked/Summary.v;
   claim / directed: Checked/Result.v; the model of the code: Checked/Int.v, Ext.v;
   Examples with the former counterexamples of the fixed defects: Checked/IntRefuted.v). *)
From Coq Require Import ZArith.
Require Import PPLV.Checked.Mach PPLV.Checked.Result PPLV.Checked.Int PPLV.Checked.IntArith PPLV.Checked.IntRefuted PPLV.Checked.Program
               PPLV.Checked.Summary.

(* building blocks *)
Theorem set_pos_overflow_int_sound : set_pos_overflow_stmt. Proof. exact set_pos_overflow_sound. Qed.
Theorem set_neg_overflow_int_sound : set_neg_overflow_stmt. Proof. exact set_neg_overflow_sound. Qed.
Theorem round_gt_int_sound : round_gt_int_stmt. Proof. exact Summary.round_gt_int_sound. Qed.
Theorem round_lt_int_sound : round_lt_int_stmt. Proof. exact Summary.round_lt_int_sound. Qed.

(* conversions: assign_signed_int_signed_int and the other three sign combinations *)
Theorem assign_int_int_correct : assign_stmt (fun p t d sr e => claim p t (snd sr) e (fst sr)). Proof. exact assign_correct. Qed.
Theorem assign_int_int_directed : assign_stmt (fun p t d sr e => directed p t d (snd sr) e (fst sr)). Proof. exact assign_directed. Qed.
Theorem assign_int_int_exact_or_classified : assign_stmt (fun p t d sr e => crisp (snd sr)). Proof. exact assign_crisp. Qed.

(* neg, abs, add, sub, mul: direct (overflow-test) path and Larger path *)
Theorem neg_correct : unary_stmt correct neg_int ex_neg. Proof. exact Summary.neg_correct. Qed.
Theorem neg_directed : unary_stmt honours neg_int ex_neg. Proof. exact Summary.neg_directed. Qed.
Theorem neg_exact_or_classified : unary_stmt crispP neg_int ex_neg. Proof. exact neg_crisp. Qed.
Theorem abs_correct : unary_stmt correct abs_int ex_abs. Proof. exact Summary.abs_correct. Qed.
Theorem abs_directed : unary_stmt honours abs_int ex_abs. Proof. exact Summary.abs_directed. Qed.
Theorem abs_exact_or_classified : unary_stmt crispP abs_int ex_abs. Proof. exact abs_crisp. Qed.
Theorem add_correct : binary_stmt correct add_int ex_add no_side. Proof. exact Summary.add_correct. Qed.
Theorem add_directed : binary_stmt honours add_int ex_add no_side. Proof. exact Summary.add_directed. Qed.
Theorem add_exact_or_classified : binary_stmt crispP add_int ex_add no_side. Proof. exact add_crisp. Qed.
Theorem sub_correct : binary_stmt correct sub_int ex_sub no_side. Proof. exact Summary.sub_correct. Qed.
Theorem sub_directed : binary_stmt honours sub_int ex_sub no_side. Proof. exact Summary.sub_directed. Qed.
Theorem sub_exact_or_classified : binary_stmt crispP sub_int ex_sub no_side. Proof. exact sub_crisp. Qed.
Theorem mul_correct : binary_stmt correct mul_int ex_mul no_side. Proof. exact Summary.mul_correct. Qed.
Theorem mul_directed : binary_stmt honours mul_int ex_mul no_side. Proof. exact Summary.mul_directed. Qed.
Theorem mul_exact_or_classified : binary_stmt crispP mul_int ex_mul no_side. Proof. exact mul_crisp. Qed.

(* division family *)
Theorem div_correct : binary_stmt correct div_int ex_div nonzero_divisor. Proof. exact Summary.div_correct. Qed.
Theorem div_directed : binary_stmt honours div_int ex_div nonzero_divisor. Proof. exact Summary.div_directed. Qed.
Theorem idiv_correct : binary_stmt correct idiv_int ex_idiv nonzero_divisor. Proof. exact Summary.idiv_correct. Qed.
Theorem idiv_directed : binary_stmt honours idiv_int ex_idiv nonzero_divisor. Proof. exact Summary.idiv_directed. Qed.
Theorem rem_correct : binary_stmt correct rem_int ex_rem nonzero_divisor. Proof. exact Summary.rem_correct. Qed.
Theorem rem_directed : binary_stmt honours rem_int ex_rem nonzero_divisor. Proof. exact Summary.rem_directed. Qed.

(* fused multiply-add / multiply-sub *)
Theorem add_mul_correct : ternary_stmt correct add_mul_int ex_add_mul no_side3. Proof. exact Summary.add_mul_correct. Qed.
Theorem add_mul_directed : ternary_stmt honours add_mul_int ex_add_mul no_side3. Proof. exact Summary.add_mul_directed. Qed.
Theorem sub_mul_correct : ternary_stmt correct sub_mul_int ex_sub_mul no_side3. Proof. exact Summary.sub_mul_correct. Qed.
Theorem sub_mul_directed : ternary_stmt honours sub_mul_int ex_sub_mul no_side3. Proof. exact Summary.sub_mul_directed. Qed.

(* the "consequently" clause *)
Theorem bounded_never_lies : bounded_never_lies_stmt. Proof. exact bounded_never_lies_proof. Qed.
Theorem bounded_total : bounded_total_stmt. Proof. exact bounded_total_proof. Qed.
