(* C19 -- audited obligations.  Statements only; proofs are in coq/Watchdog/*.v. *)
Require Import ZArith List Bool.
Require Import PPLV.Watchdog.TimeSpec PPLV.gen.Facts_Time PPLV.Watchdog.Time PPLV.Watchdog.WD
               PPLV.Watchdog.WDProofs PPLV.Watchdog.WDOrder PPLV.Watchdog.WDEarly PPLV.Watchdog.WDNever PPLV.Watchdog.WDPrompt PPLV.Watchdog.TW.
Import ListNotations.
Open Scope Z_scope.

(* Every comparison record, every schedule: a handler runs at most once. *)
Theorem at_most_once : forall (c : cmp) (evs : list event), NoDup (lids (run c evs init)).
Proof. exact at_most_once_c. Qed.

(* Every comparison record, every schedule: once the destructor of `id` has returned (id in dead), no later event
   logs a handler invocation for `id`. *)
Theorem never_after_destruction :
  forall (c : cmp) (evs1 evs2 : list event) (id : nat),
    In id (dead (run c evs1 init)) ->
    forall x, In x (log (run c (evs1 ++ evs2) init)) -> entry_id x = id -> In x (log (run c evs1 init)).
Proof. exact never_after_destruction_c. Qed.

(* The pending list is sorted by deadline in every reachable state (any `<` that is the intended one). *)
Theorem pending_sorted : forall c, lt_ok c -> forall evs, sorted (pending (run c evs init)).
Proof. exact pending_sorted_c. Qed.

(* ... in particular for the source's operator< (fact-dependent: regenerated from Time_inlines.hh). *)
Theorem pending_sorted_source : forall evs, sorted (pending (run cmp_src evs init)).
Proof. exact pending_sorted_src. Qed.

(* Handlers run in deadline order: what one event logs is in non-decreasing order of stored deadline and nothing
   still pending afterwards has a smaller deadline. *)
Theorem order :
  forall c, lt_ok c -> forall evs e,
    let s := run c evs init in
    let s' := do_event c e s in
    exists new, log s' = rev new ++ log s /\
                nondecr (map (fun x => to_us (snd x)) new) /\
                forall x y, In x new -> In y (pending s') -> to_us (snd x) <= to_us (fst y).
Proof. exact order_c. Qed.

(* never_early, for every comparison record that is the intended one and EVERY schedule -- timer expiries may be
   delivered anywhere, including inside the critical sections (since /repo 918b3df the deferred branch of
   handle_timeout leaves the bookkeeping untouched): no handler runs before (timer time at constructor entry) + delay. *)
Theorem never_early :
  forall c, cmp_ok c -> forall evs, ~ Early (run c evs init).
Proof. exact never_early_c. Qed.

(* ... and for the comparisons of the source, decided from the regenerated facts (today: the `then` branch). *)
Theorem never_early_source :
  if src_cmp_intended
  then forall evs, ~ Early (run cmp_src evs init)
  else exists evs, Early (run cmp_src evs init).
Proof. exact never_early_src_status. Qed.

(* "Provided it is still alive, promptly after the deadline" -- the bookkeeping part (no lost wake-up).
   Every comparison record, every schedule: a watchdog that is alive (constructor entered, destructor not called) is
   either still inside its own constructor before the insertion, or pending, or has had its handler run. *)
Theorem alive_is_tracked :
  forall (c : cmp) (evs : list event) (i : nat),
    let s := run c evs init in
    In i (alive s) ->
    In i (pids s) \/ In i (expired s) \/ (pc_id (pc s) = Some i /\ pre_insert (pc s) = true).
Proof. exact tracked_c. Qed.

(* Intended comparisons, every schedule: in every quiescent state no error was raised, the critical-section flag is
   off, an alive watchdog whose handler has not run is pending, the timer is armed whenever something is pending, and
   the expiry that comes next runs (and logs, at that instant) the handler of the first pending watchdog. *)
Theorem no_lost_wakeup :
  forall c, cmp_ok c -> forall evs,
    let s := run c evs init in
    pc s = Idle ->
    err s = false /\ incs s = false /\
    (forall i, In i (alive s) -> ~ In i (expired s) -> In i (pids s)) /\
    (pending s <> [] -> 0 < rem s) /\
    (forall d id r, pending s = (d, id) :: r ->
       exists new, log (do_event c Fire s) = new ++ log s /\ In (id, now s + rem s, d) new).
Proof. exact no_lost_wakeup_c. Qed.

(* Threshold_Watcher: once; only at a check where the weight exceeds the threshold; at the first such check;
   check function installed exactly while thresholds are pending. *)
Theorem tw_spec :
  forall ops,
    let s := trun ops tinit in
    NoDup (map fst (tlog s)) /\
    (forall i w, In (i, w) (tlog s) -> exists t, In (i, t) (tthr s) /\ t < w) /\
    (forall t i, In (t, i) (tpend (tdo TCheck s)) -> tweight s <= t) /\
    (tcheckfn s = negb (is_nil (tpend s))).
Proof. exact tw_spec_all. Qed.
