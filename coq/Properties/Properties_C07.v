(* C07 -- PIP solver: the solution tree yields the lexicographic minimum for every parameter value.
   Audited statements only; the proofs are in PIP/*.v. *)
From Coq Require Import List ZArith Bool.
Require Import PPLV.Base.Sys PPLV.PIP.PipSpec PPLV.PIP.PipTree PPLV.PIP.PipRef PPLV.PIP.PipCuts PPLV.PIP.PipCert.
Import ListNotations.
Local Open Scope Z_scope.

(* the documented spanning of a tree is a total function on well-formed trees, computed by eval_tree *)
Theorem eval_tree_total : forall t env, wf_tree t -> exists r, spans t env r.
Proof. exact spans_total. Qed.

Theorem eval_tree_deterministic : forall t env r1 r2, spans t env r1 -> spans t env r2 -> r1 = r2.
Proof. exact spans_deterministic. Qed.

Theorem eval_tree_computes : forall t env, wf_tree t -> spans t env (eval_tree t env).
Proof. exact eval_tree_spans. Qed.

(* the specified answer is unique *)
Theorem lexmin_unique : forall pb q x y, lexmin pb q x -> lexmin pb q y -> x = y.
Proof. exact lexmin_unique_thm. Qed.

Theorem spec_answer_unique : forall pb q r1 r2, answer pb q r1 -> answer pb q r2 -> r1 = r2.
Proof. exact answer_unique. Qed.

(* the reference search is exact whenever it answers (Unknown is not an answer) *)
Theorem lexmin_ref_exact : forall fuel pb q,
  (forall p, lexmin_ref fuel pb q = Found p -> lexmin pb q (proj (is_par pb) p)) /\
  (lexmin_ref fuel pb q = NoPoint -> bottom pb q).
Proof. exact lexmin_ref_exact_thm. Qed.

(* the per-problem certificate checker: when it says true, the tree gives the specified answer for
   EVERY valuation of the context (false only means "not certified") *)
Theorem tree_cert_sound : forall pb t,
  tree_cert_b pb t = true -> forall q, context pb q -> answer pb q (eval_tree t q).
Proof. exact tree_cert_sound_thm. Qed.

(* Gomory cuts of generate_cut: valid for every integral solution of the row, and violated by the
   current fractional vertex; the two context rows define the artificial parameter as a floor *)
Theorem gomory_cut_valid : forall d s t y q1 x,
  0 < d -> Forall (fun v => 0 <= v) y -> d * x = dotl s y + dotl t q1 ->
  0 <= cut_value d s t y q1 (dotl (ap_num d t) q1 / d).
Proof. exact gomory_cut_valid_thm. Qed.

Theorem gomory_cut_valid_nonparametric : forall d s t y q x,
  0 < d -> parametric d t = false -> Forall (fun v => 0 <= v) y ->
  d * x = dotl s y + dotl t (1 :: q) -> 0 <= cut_value d s t y (1 :: q) 0.
Proof. exact gomory_cut_valid_nonparam. Qed.

Theorem gomory_cut_cuts_vertex : forall d s t q1,
  0 < d -> (dotl t q1) mod d <> 0 ->
  cut_value d s t (map (fun _ => 0) s) q1 (dotl (ap_num d t) q1 / d) < 0.
Proof. exact gomory_cut_separates. Qed.

Theorem gomory_context_defines_parameter : forall d t q P,
  0 < d -> length t = S (length q) ->
  (0 <= dotl (ctx1 d t) ((1 :: q) ++ [P]) /\ 0 <= dotl (ctx2 d t) ((1 :: q) ++ [P])
   <-> P = dotl (ap_num d t) (1 :: q) / d).
Proof. exact cut_context_defines_ap. Qed.
