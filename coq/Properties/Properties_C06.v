(* C06 -- MIP solver: status, optimum and witness are right, incrementally or from scratch.
   Audited statements only; the proofs are in MIP/*.v.  Satisfiability of every hypothesis used
   below is shown by the Examples of MIP/MipExamples.v. *)
From Coq Require Import List ZArith QArith Bool.
Require Import PPLV.Base.FM PPLV.Base.Sys PPLV.Base.Sup.
Require Import PPLV.MIP.MipSpec PPLV.MIP.MipRef PPLV.MIP.MipMachine PPLV.MIP.MipExamples.
Import ListNotations.
Local Open Scope Q_scope.

(* the three statuses of the documentation exclude one another; the optimal value is unique *)
Theorem status_exclusive : forall P,
  (Infeasible P -> ~ Unbounded P /\ forall v x, ~ Optimal P v x) /\
  (Unbounded P -> ~ Infeasible P /\ forall v x, ~ Optimal P v x) /\
  (forall v x, Optimal P v x -> ~ Infeasible P /\ ~ Unbounded P).
Proof. exact MipSpec.status_exclusive. Qed.

Theorem optimal_value_unique : forall P v x w y, Optimal P v x -> Optimal P w y -> v == w.
Proof. exact MipSpec.optimal_value_unique. Qed.

(* exact LP: with no integer variable, the verified supremum classifies the problem *)
Theorem lp_exact : forall P r,
  pints P = [] -> sup_expr (pdim P) (sobj P) (sys_of P) = Some r -> lp_class P r.
Proof. exact lp_exact_thm. Qed.

(* branch and bound over the exact LP: every answer other than OutOfFuel satisfies the specification
   (Optimal v p: p feasible and integral on the integer variables, objective at p == v, no feasible
   point better; Infeasible: no feasible point; Unbounded p: feasible points of arbitrarily good value, p feasible) *)
Theorem bnb_sound : forall fuel P r, mip_ref fuel P = Ans r -> spec P r.
Proof. exact mip_ref_sound. Qed.

Theorem bnb_node_sound : forall fuel n ints e s, node_ok ints e s (bnb fuel n ints e s).
Proof. exact bnb_ok. Qed.

(* why UNSATISFIABLE may survive add_constraint(s), add_space_dimensions_and_embed,
   add_to_integer_space_dimensions (and the objective setters) *)
Theorem unsat_is_monotone : forall P,
  Infeasible P ->
  (forall cs, Infeasible (add_cons P cs)) /\ (forall m, Infeasible (add_dims P m)) /\
  (forall l, Infeasible (add_ints P l)) /\ (forall e, Infeasible (set_obj P e)) /\ (forall m, Infeasible (set_mode P m)).
Proof. exact MipSpec.unsat_is_monotone. Qed.

(* the branching cut that is_satisfiable() leaves in input_cs is neutral when it is valid *)
Theorem valid_cut_neutral : forall P c,
  (forall x, feasible P x -> sat_con (to_con c) x) -> forall x, feasible (add_cons P [c]) x <-> feasible P x.
Proof. exact MipSpec.valid_cut_neutral. Qed.

(* the status machine of MIP_Problem.cc keeps "a cached status is the specification's answer for
   the current data", for any cores that are correct on the problems they are given *)
Theorem machine_invariant : forall solve_core sat_core (dom : problem -> Prop),
  (forall h P, dom P -> spec P (solve_core h P)) -> (forall h P, dom P -> satspec P (sat_core h P)) ->
  forall h s c, Inv s -> dom (mdata s) -> Inv (fst (step solve_core sat_core h s c)).
Proof. exact inv_step. Qed.

Theorem machine_answers_correct : forall solve_core sat_core (dom : problem -> Prop),
  (forall h P, dom P -> spec P (solve_core h P)) -> (forall h P, dom P -> satspec P (sat_core h P)) ->
  forall h s c, Inv s -> dom (mdata s) -> answer_ok (mdata s) c (snd (step solve_core sat_core h s c)).
Proof. exact step_answer_ok. Qed.

(* incremental = fresh: after any history the answer to any query equals (witness erased, value in
   canonical form) the answer of a fresh object built from the final data, whatever the two cores
   do with their histories *)
Theorem incremental_equals_fresh : forall (dom : problem -> Prop) solve1 solve2 sat1 sat2,
  (forall h P, dom P -> spec P (solve1 h P)) -> (forall h P, dom P -> spec P (solve2 h P)) ->
  (forall h P, dom P -> satspec P (sat1 h P)) -> (forall h P, dom P -> satspec P (sat2 h P)) ->
  forall P0 pr pr' history hist' q,
  (forall k, dom (final_data P0 (firstn k history))) ->
  abs_out (snd (step solve1 sat1 (rev history) (fst (run_from solve1 sat1 [] (fresh P0 pr) history)) q)) =
  abs_out (snd (step solve2 sat2 hist' (fresh (final_data P0 history) pr') q)).
Proof. exact incremental_equals_fresh_thm. Qed.

(* the specification refutes the two answers recorded in known_findings.d/C06.json *)
Theorem known_exact_pricing_answer_refuted :
  Optimal P_known (-4 # 1) (pt_of [0; 1; 1]) /\ sat_sys_b (sys_of P_known) (pt_of [0; 0; 2 # 1]) = false.
Proof. exact (conj known_optimum known_library_point_infeasible). Qed.

Theorem known_unbounded_answer_refuted : Unbounded P_unb.
Proof. exact unb_is_unbounded. Qed.

(* the comparisons the judge performs are themselves verified: a claimed answer accepted against the
   reference answer satisfies the specification *)
Theorem claim_check_sound : forall fuel P r c, mip_ref fuel P = Ans r -> claim_ok P r c = true -> spec P c.
Proof. exact claim_checked. Qed.

Theorem sat_claim_check_sound : forall P r c, spec P r -> sat_claim_ok P r c = true -> satspec P c.
Proof. exact sat_claim_ok_sound. Qed.
