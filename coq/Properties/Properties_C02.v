(* C02 -- Polyhedron operations compute exactly the documented point set.
   One theorem per reference operator: the set denoted by the reference result is the documented set.
   [fresh n s]: the system does not mention coordinate n (n = space dimension: used as scratch). *)
From Coq Require Import List ZArith QArith.
Require Import PPLV.Base.FM PPLV.Base.Sys PPLV.Base.Gens PPLV.Poly.PolyOps PPLV.Poly.GensLeast PPLV.Poly.PolyGenOps PPLV.Poly.PolyOpsLhs PPLV.Poly.PosTimeElapse PPLV.Poly.PolyDiff PPLV.Poly.Simplify.
Import ListNotations.
Local Open Scope Q_scope.

Theorem C02_intersection_and_add_constraints : forall a b p, sat_sys (union_sys a b) p <-> sat_sys a p /\ sat_sys b p.
Proof. exact meet_spec. Qed.

Theorem C02_affine_image : forall v n e d s q,
  fresh n s -> lcoef e n = 0%Z -> v <> n -> d <> 0%Z ->
  (sat_sys (affine_image v n e d s) q <-> exists p, sat_sys s p /\ peq q (upd p v (leval e p / inject_Z d))).
Proof. exact affine_image_spec. Qed.

Theorem C02_affine_preimage : forall v n e d s q,
  fresh n s -> lcoef e n = 0%Z -> v <> n -> d <> 0%Z ->
  (sat_sys (affine_preimage v n e d s) q <-> sat_sys s (upd q v (leval e q / inject_Z d))).
Proof. exact affine_preimage_spec. Qed.

Theorem C02_generalized_affine_image : forall v n r e d s q,
  fresh n s -> lcoef e n = 0%Z -> v <> n -> d <> 0%Z ->
  (sat_sys (generalized_affine_image v n r e d s) q <->
   exists w, sat_sys s (upd q v w) /\ rel_holds r (q v) (leval e (upd q v w) / inject_Z d)).
Proof. exact generalized_affine_image_spec. Qed.

Theorem C02_generalized_affine_preimage : forall v n r e d s q,
  fresh n s -> lcoef e n = 0%Z -> v <> n -> d <> 0%Z ->
  (sat_sys (generalized_affine_preimage v n r e d s) q <->
   exists w, sat_sys s (upd q v w) /\ rel_holds r w (leval e q / inject_Z d)).
Proof. exact generalized_affine_preimage_spec. Qed.

Theorem C02_bounded_affine_image : forall v n lb ub d s q,
  fresh n s -> lcoef lb n = 0%Z -> lcoef ub n = 0%Z -> v <> n -> d <> 0%Z ->
  (sat_sys (bounded_affine_image v n lb ub d s) q <->
   exists w, sat_sys s (upd q v w) /\
             leval lb (upd q v w) / inject_Z d <= q v /\ q v <= leval ub (upd q v w) / inject_Z d).
Proof. exact bounded_affine_image_spec. Qed.

Theorem C02_bounded_affine_preimage : forall v n lb ub d s q,
  fresh n s -> lcoef lb n = 0%Z -> lcoef ub n = 0%Z -> v <> n -> d <> 0%Z ->
  (sat_sys (bounded_affine_preimage v n lb ub d s) q <->
   exists w, sat_sys s (upd q v w) /\ leval lb q / inject_Z d <= w /\ w <= leval ub q / inject_Z d).
Proof. exact bounded_affine_preimage_spec. Qed.

Theorem C02_generalized_affine_image_lhs : forall n lhs r rhs s q,
  fresh n s -> lcoef lhs n = 0%Z -> lcoef rhs n = 0%Z -> ~ In n (vars_of lhs) ->
  (sat_sys (generalized_affine_image_lhs n lhs r rhs s) q <->
   exists p, (forall i, ~ In i (vars_of lhs) -> i <> n -> p i == q i) /\ sat_sys s p /\
             rel_holds r (leval lhs q) (leval rhs p)).
Proof. exact generalized_affine_image_lhs_spec. Qed.

Theorem C02_generalized_affine_preimage_lhs : forall n lhs r rhs s q,
  fresh n s -> lcoef lhs n = 0%Z -> lcoef rhs n = 0%Z -> ~ In n (vars_of lhs) ->
  (sat_sys (generalized_affine_preimage_lhs n lhs r rhs s) q <->
   exists p, (forall i, ~ In i (vars_of lhs) -> i <> n -> p i == q i) /\ sat_sys s p /\
             rel_holds r (leval lhs p) (leval rhs q)).
Proof. exact generalized_affine_preimage_lhs_spec. Qed.

Theorem C02_unconstrain : forall v s q, sat_sys (unconstrain v s) q <-> exists w, sat_sys s (upd q v w).
Proof. exact unconstrain_spec. Qed.

Theorem C02_unconstrain_set : forall vs s q,
  sat_sys (unconstrain_set vs s) q <-> exists p, (forall i, ~ In i vs -> p i == q i) /\ sat_sys s p.
Proof. exact unconstrain_set_spec. Qed.

Theorem C02_remove_higher_space_dimensions : forall k n s q,
  sat_sys (remove_higher k n s) q <-> exists p, (forall i, (i < k \/ n <= i)%nat -> p i == q i) /\ sat_sys s p.
Proof. exact remove_higher_spec. Qed.

Theorem C02_add_space_dimensions_and_project : forall n m s q,
  sat_sys (project_dims n m s) q <-> sat_sys s q /\ forall i, (n <= i < n + m)%nat -> q i == 0.
Proof. exact project_dims_spec. Qed.

Theorem C02_concatenate : forall n s t q,
  sat_sys (concatenate n s t) q <-> sat_sys s q /\ sat_sys t (fun k => q (n + k)%nat).
Proof. exact concatenate_spec. Qed.

Theorem C02_map_and_remove_space_dimensions : forall pf junk s q,
  sat_sys (map_dims pf junk s) q <->
  exists p, (forall i, ~ In i (unmapped pf) -> p i == q (pf_apply pf junk i)) /\ sat_sys s p.
Proof. exact map_dims_spec. Qed.

Theorem C02_expand_space_dimension : forall v n m s q,
  sat_sys (expand v n m s) q <->
  sat_sys s q /\ forall j, (j < m)%nat -> sat_sys s (fun k => if Nat.eqb k v then q (n + j)%nat else q k).
Proof. exact expand_spec. Qed.

(* topological closure: the relaxed system contains the set and, when the set is non-empty, is
   contained in every closed half-space that contains the set (least closed polyhedron) *)
Theorem C02_topological_closure_contains : forall s p, sat_sys s p -> sat_sys (relax s) p.
Proof. exact relax_superset. Qed.
Theorem C02_topological_closure_least : forall s d,
  (exists p0, sat_sys s p0) -> strict d = false ->
  (forall p, sat_sys s p -> sat d p) -> forall p, sat_sys (relax s) p -> sat d p.
Proof. exact relax_least. Qed.

(* generator-side operators (add_generator(s), poly_hull) are specified on generator systems:
   the conversion used to compare them with the library's constraints is exact *)
Theorem C02_generator_side_conversion_exact : forall n G p, sat_sys (cons_of_gens n G) p <-> in_gens n G p.
Proof. exact cons_of_gens_exact. Qed.

(* poly-hull / add_generator(s): the union of the generator systems generates a set that contains both
   arguments and is contained in EVERY polyhedron (set defined by equalities, strict and non-strict
   inequalities) containing both: the smallest polyhedron of the topology containing the union *)
Theorem C02_poly_hull_contains_left : forall n G1 G2 p, in_gens n G1 p -> in_gens n (G1 ++ G2) p.
Proof. exact hull_upper_left. Qed.
Theorem C02_poly_hull_contains_right : forall n G1 G2 p, in_gens n G2 p -> in_gens n (G1 ++ G2) p.
Proof. exact hull_upper_right. Qed.
Theorem C02_poly_hull_least : forall n G1 G2 (t : sys),
  wf_gens G1 -> wf_gens G2 -> wf_sys_dim n t ->
  (forall g, In g G1 -> (length (gcoefs g) <= n)%nat) -> (forall g, In g G2 -> (length (gcoefs g) <= n)%nat) ->
  (exists p, in_gens n G1 p) -> (exists p, in_gens n G2 p) ->
  (forall p, in_gens n G1 p -> sat_sys t p) -> (forall p, in_gens n G2 p -> sat_sys t p) ->
  forall p, in_gens n (G1 ++ G2) p -> sat_sys t p.
Proof. exact hull_least. Qed.

(* the constraints valid on a generated set are exactly those valid generator by generator
   (strictly on points, weakly on closure points, homogeneously on rays, with equality on lines) *)
Theorem C02_valid_constraints_of_generated_set : forall n c G,
  wf_gens G -> (length (coefs c) <= n)%nat -> (forall g, In g G -> (length (gcoefs g) <= n)%nat) ->
  (exists p0, in_gens n G p0) ->
  ((forall p, in_gens n G p -> sat c p) <-> (forall g, In g G -> gen_ok c g)).
Proof.
  intros n c G W L LG NE. split.
  - intros H. exact (gens_valid_complete n c G W L LG NE H).
  - intros H. exact (gens_valid_sound n c G W L H).
Qed.

(* time_elapse_assign: with TE = { p + t q | p in P, q in Q, t >= 0 }, the reference result (generators of P
   plus the generators of Q turned into directions) contains TE and is contained in every polyhedron containing TE *)
Theorem C02_time_elapse_contains : forall n G1 G2 x, time_elapse_set n G1 G2 x -> in_gens n (te_gens G1 G2) x.
Proof. exact time_elapse_contains. Qed.
Theorem C02_time_elapse_least : forall n G1 G2 (t : sys),
  wf_gens G1 -> wf_gens G2 -> wf_sys_dim n t ->
  (forall g, In g G1 -> (length (gcoefs g) <= n)%nat) -> (forall g, In g G2 -> (length (gcoefs g) <= n)%nat) ->
  (exists p, in_gens n G1 p) -> (exists q, in_gens n G2 q) ->
  (forall x, time_elapse_set n G1 G2 x -> sat_sys t x) ->
  forall x, in_gens n (te_gens G1 G2) x -> sat_sys t x.
Proof. exact time_elapse_least. Qed.

(* fold_space_dimensions(vs, dest): before the folded dimensions are removed, the reference generator system is
   the concatenation of G with one copy per v in vs in which coordinate dest is replaced by coordinate v; each
   copy generates exactly the image of the set under x_dest := x_v, and the concatenation of non-empty generator
   systems generates the least polyhedron containing all of them *)
Theorem C02_fold_reference_shape : forall vs dest G,
  fold_gens vs dest G = concat (G :: map (fun v => map (subst_coord dest v) G) vs).
Proof. exact fold_gens_concat. Qed.
Theorem C02_fold_copy_is_image : forall n dest v G q, (dest < n)%nat -> (v < n)%nat ->
  (in_gens n (map (subst_coord dest v) G) q <->
   exists p, in_gens n G p /\ forall i, (i < n)%nat -> q i == (if Nat.eqb i dest then p v else p i)).
Proof. exact subst_gens_image. Qed.
Theorem C02_hull_of_many_least : forall n (Gs : list (list gen)) (t : sys),
  (forall G, In G Gs -> wf_gens G /\ (forall g, In g G -> (length (gcoefs g) <= n)%nat) /\ (exists p, in_gens n G p)) ->
  wf_sys_dim n t ->
  (forall G, In G Gs -> forall p, in_gens n G p -> sat_sys t p) ->
  forall p, in_gens n (concat Gs) p -> sat_sys t p.
Proof. exact hull_list_least. Qed.

(* positive_time_elapse_assign (exact, NNC): { p + t q | p in P, q in Q, t > 0 } *)
Theorem C02_positive_time_elapse : forall n sP sQ x, wf_sys_dim n sP -> wf_sys_dim n sQ ->
  (sat_sys (pos_time_elapse n sP sQ) x <->
   exists p q t, 0 < t /\ sat_sys sP p /\ sat_sys sQ q /\ forall i, (i < n)%nat -> x i == p i + t * q i).
Proof. exact pos_time_elapse_spec. Qed.

(* poly_difference_assign / difference_assign: the set difference is the union of the pieces x /\ not c (c a
   constraint of y); the concatenation of generator systems of the non-empty pieces generates a set that contains
   the difference and is contained in every polyhedron containing it (NNC); its relaxation is the smallest
   closed polyhedron containing the difference (C) *)
Theorem C02_difference_pieces : forall x y p,
  (sat_sys x p /\ ~ sat_sys y p) <-> exists s, In s (diff_pieces x y) /\ sat_sys s p.
Proof. exact diff_pieces_exact. Qed.
Theorem C02_difference_contains : forall n x y Gs p,
  (forall s, In s (diff_pieces x y) -> (exists q, sat_sys s q) -> exists G, In G Gs /\ represents n G s) ->
  sat_sys x p -> ~ sat_sys y p -> in_gens n (concat Gs) p.
Proof. exact difference_contains. Qed.
Theorem C02_difference_least : forall n x y Gs (t : sys),
  hints_ok n x y Gs -> wf_sys_dim n t ->
  (forall p, sat_sys x p -> ~ sat_sys y p -> sat_sys t p) ->
  forall p, in_gens n (concat Gs) p -> sat_sys t p.
Proof. exact difference_least. Qed.
Theorem C02_difference_closed_contains : forall n x y Gs p,
  (forall s, In s (diff_pieces x y) -> (exists q, sat_sys s q) -> exists G, In G Gs /\ represents n G s) ->
  sat_sys x p -> ~ sat_sys y p -> sat_sys (relax (cons_of_gens n (concat Gs))) p.
Proof. exact difference_closed_contains. Qed.
Theorem C02_difference_closed_least : forall n x y Gs (t : sys),
  hints_ok n x y Gs -> Gs <> [] -> wf_sys_dim n t -> closed_ineqs t ->
  (forall p, sat_sys x p -> ~ sat_sys y p -> sat_sys t p) ->
  forall p, sat_sys (relax (cons_of_gens n (concat Gs))) p -> sat_sys t p.
Proof. exact difference_closed_least. Qed.
Theorem C02_difference_empty : forall x y,
  (forall s, In s (diff_pieces x y) -> ~ exists q, sat_sys s q) -> forall p, sat_sys x p -> sat_sys y p.
Proof. exact difference_empty. Qed.

(* simplify_using_context_assign: what the judge decides is exactly "meet-preserving enlargement", and the flag *)
Theorem C02_simplify_using_context : forall n x y r b,
  suc_check n x y r = Some b -> (b = true <-> meet_preserving_enlargement x y r).
Proof. exact suc_check_exact. Qed.
Theorem C02_simplify_using_context_meet : forall x y r,
  meet_preserving_enlargement x y r -> forall p, sat_sys (union_sys r y) p <-> sat_sys (union_sys x y) p.
Proof. exact enlargement_meet. Qed.
Theorem C02_simplify_using_context_flag : forall n x y b,
  suc_flag n x y = Some b -> (b = true <-> exists p, sat_sys x p /\ sat_sys y p).
Proof. exact suc_flag_exact. Qed.

(* poly_hull_assign_if_exact: with h the hull, the Boolean is true exactly when the union is already convex *)
Theorem C02_hull_if_exact_flag : forall n h p q b,
  covered_by_union n h p q = Some b -> (b = true <-> forall x, sat_sys h x -> sat_sys p x \/ sat_sys q x).
Proof. exact covered_by_union_exact. Qed.

Example C02_nonvacuous :
  let s := sys_of_cons [ {| ccoefs := [1%Z; 0%Z]; ccst := 0%Z; ckd := GE |}; {| ccoefs := [(-1)%Z; (-1)%Z]; ccst := 3%Z; ckd := GE |} ] in
  fresh 2 s /\ fresh_b 2 (affine_image 0 2 {| lcoefs := [1%Z; 1%Z]; lcst := 1%Z |} 2 s) = true.
Proof. split; [apply fresh_b_ok|]; vm_compute; reflexivity. Qed.
