(* C03 -- placeholder, completed below *)
From Coq Require Import List ZArith QArith.
Require Import PPLV.Shapes.ExtNum PPLV.Shapes.DBM PPLV.Shapes.DBMSound.
Theorem C03_closure_sound : forall T (C : carrier T) n m m', diag_ok C n m -> closure C n m = Some m' -> forall p, den C n m p <-> den C n m' p.
Proof. intros T C. exact (closure_sound C). Qed.
