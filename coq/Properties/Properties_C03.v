(* C03 -- Boxes, BD shapes and octagons: every result CONTAINS the exact result, for every coefficient type;
   definite answers are trustworthy.
   Every theorem quantifies over an arbitrary [carrier T]: the operations used by the code with their
   upward-rounding laws (Shapes/ExtNum.v).  That is the "for every type" quantifier.  [Qc] (ExtNum.v) shows
   the laws are satisfiable; non-vacuity Examples are in Shapes/DBMSound.v and Shapes/Oct.v.
   Models: Shapes/DBM.v (BD_Shape_templates.hh), Shapes/Oct.v (Octagonal_Shape_templates.hh).
   The affine transformers and the conversions are not modelled: each of their results is validated by
   the verified inclusion test on the denotations obtained through the translations proved exact here
   (C03_sys_of_dbm_exact / _oct_ / _box_). *)
From Coq Require Import List ZArith QArith.
Require Import PPLV.Base.FM PPLV.Base.Sys.
Require Import PPLV.Shapes.ExtNum PPLV.Shapes.DBM PPLV.Shapes.DBMSound PPLV.Shapes.DBMExact PPLV.Shapes.DBMDisjoint PPLV.Shapes.Oct
               PPLV.Shapes.Templ PPLV.Shapes.ToSys PPLV.Shapes.OctBridge.
Local Open Scope Q_scope.

(* ---- BD shapes ---- *)
Theorem C03_closure_sound : forall T (C : carrier T) n m m',
  diag_ok C n m -> closure C n m = Some m' -> forall p, den C n m p <-> den C n m' p.
Proof. intros T C. exact (closure_sound C). Qed.

Theorem C03_closure_empty_sound : forall T (C : carrier T) n m,
  diag_ok C n m -> closure C n m = None -> forall p, ~ den C n m p.
Proof. intros T C. exact (closure_empty_sound C). Qed.

Theorem C03_incremental_closure_sound : forall T (C : carrier T) n v m m',
  diag_ok C n m -> (v <= n)%nat -> inc_closure C n v m = Some m' -> forall p, den C n m p <-> den C n m' p.
Proof. intros T C. exact (inc_closure_sound C). Qed.

Theorem C03_incremental_closure_empty_sound : forall T (C : carrier T) n v m,
  diag_ok C n m -> (v <= n)%nat -> inc_closure C n v m = None -> forall p, ~ den C n m p.
Proof. intros T C. exact (inc_closure_empty_sound C). Qed.

(* adding x_j - x_i <= b with an upward-rounded bound keeps every point of the exact meet, and only tightens *)
Theorem C03_refine_sound : forall T (C : carrier T) n m i j num d p,
  (i <= n)%nat -> (j <= n)%nat -> d <> 0%Z -> den C n m p -> p j - p i <= inject_Z num / inject_Z d ->
  den C n (add_dbm_constraint_q C m i j num d) p.
Proof. intros T C. exact (refine_q_sound C). Qed.

Theorem C03_refine_only_tightens : forall T (C : carrier T) n m i j k p,
  den C n (add_dbm_constraint C m i j k) p -> den C n m p.
Proof. intros T C. exact (refine_only_tightens C). Qed.

Theorem C03_meet_sound : forall T (C : carrier T) n x y p, den C n (meet C x y) p <-> den C n x p /\ den C n y p.
Proof. intros T C. exact (meet_sound C). Qed.

Theorem C03_ub_sound : forall T (C : carrier T) n x y p, den C n x p \/ den C n y p -> den C n (join C x y) p.
Proof. intros T C. exact (ub_sound C). Qed.

Theorem C03_forget_sound : forall T (C : carrier T) n v m p w,
  (0 < v)%nat -> den C n m p -> den C n (forget v m) (fun i => if Nat.eqb i v then w else p i).
Proof. intros T C. exact (forget_sound C). Qed.

(* definite answers of the comparisons as written in the code *)
Theorem C03_contains_definite : forall T (C : carrier T) n x y,
  code_contains C n x y = true -> forall p, den C n y p -> den C n x p.
Proof. intros T C. exact (contains_sound C). Qed.

Theorem C03_is_disjoint_definite : forall T (C : carrier T) n x y,
  diag_inf n x -> diag_inf n y -> fixed_is_disjoint C n x y = true -> forall p, den C n x p -> den C n y p -> False.
Proof. intros T C. exact (fixed_is_disjoint_sound C). Qed.

Theorem C03_equal_definite : forall T (C : carrier T) n x y,
  code_equal C n x y = true -> forall p, den C n x p <-> den C n y p.
Proof. intros T C. exact (equal_sound C). Qed.

(* ---- octagons ---- *)
Theorem C03_strong_closure_sound : forall T (C : carrier T) n m m',
  oct_diag_ok C n m -> strong_closure C n m = Some m' -> forall p, den_oct C n m p <-> den_oct C n m' p.
Proof. intros T C. exact (strong_closure_sound C). Qed.

Theorem C03_strong_closure_empty_sound : forall T (C : carrier T) n m,
  oct_diag_ok C n m -> strong_closure C n m = None -> forall p, ~ den_oct C n m p.
Proof. intros T C. exact (strong_closure_empty_sound C). Qed.

Theorem C03_incremental_strong_closure_sound : forall T (C : carrier T) n v m m',
  (S v < 2 * n)%nat -> oct_diag_ok C n m -> incremental_strong_closure C n v m = Some m' ->
  forall p, den_oct C n m p <-> den_oct C n m' p.
Proof. intros T C. exact (incremental_strong_closure_sound C). Qed.

Theorem C03_incremental_strong_closure_empty_sound : forall T (C : carrier T) n v m,
  (S v < 2 * n)%nat -> oct_diag_ok C n m -> incremental_strong_closure C n v m = None -> forall p, ~ den_oct C n m p.
Proof. intros T C. exact (incremental_strong_closure_empty_sound C). Qed.

Theorem C03_oct_refine_sound : forall T (C : carrier T) n m i j num den p,
  (i < 2 * n)%nat -> (j < 2 * n)%nat -> stored i j = true -> den <> 0%Z -> den_oct C n m p ->
  sv p j - sv p i <= inject_Z num / inject_Z den -> den_oct C n (oct_add_constraint_q C m i j num den) p.
Proof. intros T C. exact (oct_refine_sound C). Qed.

Theorem C03_oct_refine_only_tightens : forall T (C : carrier T) n m i j num den p,
  (i < 2 * n)%nat -> (j < 2 * n)%nat -> stored i j = true ->
  den_oct C n (oct_add_constraint_q C m i j num den) p -> den_oct C n m p.
Proof. intros T C. exact (oct_refine_tightens C). Qed.

Theorem C03_oct_meet_sound : forall T (C : carrier T) n x y p,
  den_oct C n (oct_meet C x y) p <-> den_oct C n x p /\ den_oct C n y p.
Proof. intros T C. exact (oct_meet_sound C). Qed.

Theorem C03_oct_ub_sound : forall T (C : carrier T) n x y p,
  den_oct C n x p \/ den_oct C n y p -> den_oct C n (oct_join C x y) p.
Proof. intros T C. exact (oct_join_sound C). Qed.

Theorem C03_oct_forget_sound : forall T (C : carrier T) n v m p w,
  den_oct C n m p -> den_oct C n (oct_forget v m) (pupd p v w).
Proof. intros T C. exact (oct_forget_sound C). Qed.

(* whole operations (closures composed as the code does) *)
Theorem C03_oct_upper_bound_op_sound : forall T (C : carrier T) n x y r p,
  oct_diag_ok C n x -> oct_diag_ok C n y -> oct_upper_bound_op C n x y = Some r ->
  den_oct C n x p \/ den_oct C n y p -> den_oct C n r p.
Proof. intros T C. exact (oct_upper_bound_op_sound C). Qed.

Theorem C03_oct_contains_definite : forall T (C : carrier T) n x y,
  oct_diag_ok C n x -> oct_diag_ok C n y -> oct_contains_op C n x y = true -> forall p, den_oct C n y p -> den_oct C n x p.
Proof. intros T C. exact (oct_contains_op_sound C). Qed.

Theorem C03_oct_is_disjoint_definite : forall T (C : carrier T) n x y,
  neg_exact C -> oct_diag_ok C n x -> oct_diag_ok C n y -> oct_is_disjoint_op C n x y = true ->
  forall p, den_oct C n x p -> den_oct C n y p -> False.
Proof. intros T C. exact (oct_is_disjoint_op_sound C). Qed.

(* ---- the translations used by the per-result validation are exact ---- *)
Theorem C03_sys_of_dbm_exact : forall n m q, sat_sys (sys_of_dbm n m) q <-> den Qc n m (ext0 q).
Proof. exact sys_of_dbm_sat. Qed.

Theorem C03_sys_of_oct_exact : forall n m q, sat_sys (sys_of_oct n m) q <-> den_oct Qc n m q.
Proof. exact sys_of_oct_den. Qed.

Theorem C03_sys_of_box_exact : forall l q, sat_sys (sys_of_box l) q <-> den_box l q.
Proof. exact sys_of_box_sat. Qed.
