(* C10 -- Products denote the intersection of their components; reductions never lose it.
   Statements only; every theorem is `exact` of a lemma proved in coq/Product/*.v.
   Model: Product/PRP.v (abstract component domains with soundness laws `dom_laws`, the four product_reduce
   bodies, reduce() and the flag, component-wise transformers and predicates), Product/PRPArith.v (the modular
   arithmetic of shrink_to_congruence_no_check on Z, `%` = Z.rem).  Non-vacuity: Product/PRPInst.v. *)
From Coq Require Import List ZArith QArith Bool.
Require Import PPLV.Base.FM PPLV.Base.Sys PPLV.Grid.GridSem.
Require Import PPLV.Product.PRPArith PPLV.Product.PRP PPLV.Product.PRPInst PPLV.Product.PRPJudge.
Import ListNotations.
Local Open Scope Q_scope.

(* ---- the arithmetic of shrink_to_congruence_no_check ---- *)
(* X = denom*e(p) is a multiple j*mod of mod = modulus*denom lying between the scaled bounds (strictly where a bound
   is not attained): when the code adds `denom*e == k` then X = k, and the code never answers "empty". *)
Theorem C10_shrink_decide_sound : forall modulus max_n0 max_d max_inc min_n0 min_d min_inc j,
  (0 < modulus)%Z -> (0 < max_d)%Z -> (0 < min_d)%Z ->
  let md := (modulus * (max_d * min_d))%Z in
  let X := (j * md)%Z in
  (X <= max_n0 * min_d)%Z -> (max_inc = false -> (X < max_n0 * min_d)%Z) ->
  (min_n0 * max_d <= X)%Z -> (min_inc = false -> (min_n0 * max_d < X)%Z) ->
  match shrink_decide modulus (max_n0, max_d, max_inc) (min_n0, min_d, min_inc) with
  | ShEq dn k => dn = (max_d * min_d)%Z /\ X = k
  | ShEmpty => False
  | ShUnchanged => True
  end.
Proof. exact shrink_decide_core. Qed.

(* the boundary clause of the `2*mod` test: with `(!max_included && !min_included)` in place of `||` the procedure
   computes the same outcome on every input (a range of length exactly 2*mod with one open end always meets two
   hyperplanes): that mutation is behaviour-preserving and no correspondence check can (or should) flag it *)
Theorem C10_boundary_clause_or_and_equivalent : forall modulus mx mn,
  (0 < modulus)%Z -> (0 < snd (fst mx))%Z -> (0 < snd (fst mn))%Z ->
  shrink_decide modulus mx mn = shrink_decide_and modulus mx mn.
Proof. exact boundary_or_and_equivalent. Qed.

(* the same at the level of points and of the abstract component interface: for a point of d1 (on a hyperplane of cg)
   that is also in d2 (between the bounds d2.maximize / d2.minimize returned), the added equality holds, and the
   "no hyperplane" outcome is impossible *)
Theorem C10_shrink_decide_point : forall (B : Type) (ob : dom_ops B) (n : nat), dom_laws ob n ->
  forall (b : B) (c : pcg) mx mn p,
  (0 < gm c)%Z -> maximize ob b (ge c) = Some mx -> minimize ob b (ge c) = Some mn ->
  sat_pcg c p -> den ob b p ->
  match shrink_decide (gm c) mx mn with
  | ShEq dn k => sat_con (eq_con dn (ge c) k) p
  | ShEmpty => False
  | ShUnchanged => True
  end.
Proof. exact (fun B ob n L => shrink_decide_point ob n L). Qed.

(* shrink_to_congruence_no_check(d1, d2, cg) with d1 inside cg: both components only shrink, no common point is lost,
   and when it returns false (both set to EMPTY) the intersection was empty *)
Theorem C10_shrink_to_congruence_sound : forall (A B : Type) (oa : dom_ops A) (ob : dom_ops B) (n : nat),
  dom_laws oa n -> dom_laws ob n ->
  forall a b c, (0 < gm c)%Z -> (forall p, den oa a p -> sat_pcg c p) ->
  let r := shrink_to_congruence oa ob a b c in
  step_ok oa ob a b (fst (fst r)) (snd (fst r)) /\
  (snd r = false -> forall p, den oa a p -> den ob b p -> False).
Proof. exact (fun A B oa ob n LA LB => shrink_step oa ob n LA LB). Qed.

(* ---- the four reductions: components shrink, the intersection is kept (step_ok) ---- *)
Theorem C10_smash_reduce_sound : forall (A B : Type) (oa : dom_ops A) (ob : dom_ops B) (n : nat),
  dom_laws oa n -> dom_laws ob n ->
  forall a b, step_ok oa ob a b (fst (smash_reduce oa ob a b)) (snd (smash_reduce oa ob a b)).
Proof. exact (fun A B oa ob n LA LB => smash_step oa ob n LA LB). Qed.

Theorem C10_constraints_reduce_sound : forall (A B : Type) (oa : dom_ops A) (ob : dom_ops B) (n : nat),
  dom_laws oa n -> dom_laws ob n ->
  forall a b, step_ok oa ob a b (fst (constraints_reduce oa ob a b)) (snd (constraints_reduce oa ob a b)).
Proof. exact (fun A B oa ob n LA LB => constraints_step oa ob n LA LB). Qed.

Theorem C10_congruences_reduce_sound : forall (D1 D2 : Type) (o1 : dom_ops D1) (o2 : dom_ops D2) (n : nat),
  dom_laws o1 n -> dom_laws o2 n ->
  forall d1 d2, step_ok o1 o2 d1 d2 (fst (congruences_reduce o1 o2 d1 d2)) (snd (congruences_reduce o1 o2 d1 d2)).
Proof. exact (fun D1 D2 o1 o2 n L1 L2 => congruences_step o1 o2 n L1 L2). Qed.

Theorem C10_shape_preserving_reduce_sound : forall (D1 D2 : Type) (o1 : dom_ops D1) (o2 : dom_ops D2) (n : nat),
  dom_laws o1 n -> dom_laws o2 n ->
  forall d1 d2, step_ok o1 o2 d1 d2 (fst (shape_preserving_reduce o1 o2 d1 d2)) (snd (shape_preserving_reduce o1 o2 d1 d2)).
Proof. exact (fun D1 D2 o1 o2 n L1 L2 => shape_preserving_step o1 o2 n L1 L2). Qed.

(* ---- reduce() on the product, any policy ---- *)
Theorem C10_reduce_preserves_meet : forall (D1 D2 : Type) (o1 : dom_ops D1) (o2 : dom_ops D2) (n : nat),
  dom_laws o1 n -> dom_laws o2 n ->
  forall (R : policy) (x : prod) (p : point), meet o1 o2 (reduce o1 o2 R x) p <-> meet o1 o2 x p.
Proof. exact (fun D1 D2 o1 o2 n L1 L2 => reduce_preserves_meet o1 o2 n L1 L2). Qed.

Theorem C10_reduce_shrinks : forall (D1 D2 : Type) (o1 : dom_ops D1) (o2 : dom_ops D2) (n : nat),
  dom_laws o1 n -> dom_laws o2 n ->
  forall (R : policy) (x : prod),
  (forall p, den o1 (c1 (reduce o1 o2 R x)) p -> den o1 (c1 x) p) /\
  (forall p, den o2 (c2 (reduce o1 o2 R x)) p -> den o2 (c2 x) p).
Proof. exact (fun D1 D2 o1 o2 n L1 L2 => reduce_shrinks o1 o2 n L1 L2). Qed.

(* flag truth: with the flag set reduce() is the identity; reduce() sets it; a second reduce() changes nothing *)
Theorem C10_flag_truth : forall (D1 D2 : Type) (o1 : dom_ops D1) (o2 : dom_ops D2) (R : policy) (x : prod),
  reduced x = true -> reduce o1 o2 R x = x.
Proof. exact (fun D1 D2 o1 o2 => flag_set_reduce_identity o1 o2). Qed.

Theorem C10_reduce_idempotent : forall (D1 D2 : Type) (o1 : dom_ops D1) (o2 : dom_ops D2) (R : policy) (x : prod),
  reduce o1 o2 R (reduce o1 o2 R x) = reduce o1 o2 R x.
Proof. exact (fun D1 D2 o1 o2 => reduce_idempotent o1 o2). Qed.

(* ---- transformers: component-wise application of sound component operations of a monotone set transformer ---- *)
Theorem C10_unary_transformer_sound : forall (D1 D2 : Type) (o1 : dom_ops D1) (o2 : dom_ops D2) (n : nat),
  dom_laws o1 n -> dom_laws o2 n ->
  forall R rf cl (f1 : D1 -> D1) (f2 : D2 -> D2) (F : pset -> pset) x,
  (forall S T, psub S T -> psub (F S) (F T)) ->
  (forall d, psub (F (den o1 d)) (den o1 (f1 d))) ->
  (forall d, psub (F (den o2 d)) (den o2 (f2 d))) ->
  psub (F (meet o1 o2 x)) (meet o1 o2 (unary_op o1 o2 R rf cl f1 f2 x)).
Proof. exact (fun D1 D2 o1 o2 n L1 L2 => unary_transformer_sound o1 o2 n L1 L2). Qed.

Theorem C10_binary_transformer_sound : forall (D1 D2 : Type) (o1 : dom_ops D1) (o2 : dom_ops D2) (n : nat),
  dom_laws o1 n -> dom_laws o2 n ->
  forall R rf cl (f1 : D1 -> D1 -> D1) (f2 : D2 -> D2 -> D2) (F : pset -> pset -> pset) x y,
  (forall S T S' T', psub S S' -> psub T T' -> psub (F S T) (F S' T')) ->
  (forall d e, psub (F (den o1 d) (den o1 e)) (den o1 (f1 d e))) ->
  (forall d e, psub (F (den o2 d) (den o2 e)) (den o2 (f2 d e))) ->
  psub (F (meet o1 o2 x) (meet o1 o2 y)) (meet o1 o2 (binary_op o1 o2 R rf cl f1 f2 x y)).
Proof. exact (fun D1 D2 o1 o2 n L1 L2 => binary_transformer_sound o1 o2 n L1 L2). Qed.

(* the set difference is not monotone in its second argument: the component-wise difference_assign of the code
   (reduce both, d1.difference_assign(y.d1), d2.difference_assign(y.d2)) loses points even with exact components *)
Theorem C10_difference_assign_refuted : ~ difference_assign_sound_full.
Proof. exact difference_assign_refuted. Qed.

(* ---- definite answers are true of the intersections ---- *)
Theorem C10_is_empty_sound : forall (D1 D2 : Type) (o1 : dom_ops D1) (o2 : dom_ops D2) (n : nat),
  dom_laws o1 n -> dom_laws o2 n ->
  forall R x, p_is_empty o1 o2 R x = true -> forall p, ~ meet o1 o2 x p.
Proof. exact (fun D1 D2 o1 o2 n L1 L2 => is_empty_sound o1 o2 n L1 L2). Qed.

Theorem C10_contains_sound : forall (D1 D2 : Type) (o1 : dom_ops D1) (o2 : dom_ops D2) (n : nat),
  dom_laws o1 n -> dom_laws o2 n ->
  forall R x y, p_contains o1 o2 R x y = true -> forall p, meet o1 o2 y p -> meet o1 o2 x p.
Proof. exact (fun D1 D2 o1 o2 n L1 L2 => contains_sound o1 o2 n L1 L2). Qed.

Theorem C10_is_disjoint_from_sound : forall (D1 D2 : Type) (o1 : dom_ops D1) (o2 : dom_ops D2) (n : nat),
  dom_laws o1 n -> dom_laws o2 n ->
  forall R x y, p_is_disjoint_from o1 o2 R x y = true -> forall p, meet o1 o2 x p -> meet o1 o2 y p -> False.
Proof. exact (fun D1 D2 o1 o2 n L1 L2 => is_disjoint_from_sound o1 o2 n L1 L2). Qed.

Theorem C10_is_bounded_sound : forall (D1 D2 : Type) (o1 : dom_ops D1) (o2 : dom_ops D2) (n : nat),
  dom_laws o1 n -> dom_laws o2 n ->
  forall R x, p_is_bounded o1 o2 R x = true -> bounded_set n (meet o1 o2 x).
Proof. exact (fun D1 D2 o1 o2 n L1 L2 => is_bounded_sound o1 o2 n L1 L2). Qed.

Theorem C10_is_universe_sound : forall (D1 D2 : Type) (o1 : dom_ops D1) (o2 : dom_ops D2) (n : nat),
  dom_laws o1 n -> dom_laws o2 n ->
  forall x, p_is_universe o1 o2 x = true -> forall p, meet o1 o2 x p.
Proof. exact (fun D1 D2 o1 o2 n L1 L2 => is_universe_sound o1 o2 n L1 L2). Qed.

Theorem C10_relation_with_constraint_sound : forall (D1 D2 : Type) (o1 : dom_ops D1) (o2 : dom_ops D2) (n : nat),
  dom_laws o1 n -> dom_laws o2 n ->
  forall R x c dj inc sa, p_rel_con o1 o2 R x c = (dj, inc, sa) ->
  (dj = true -> forall p, meet o1 o2 x p -> ~ sat_con c p) /\
  (inc = true -> forall p, meet o1 o2 x p -> sat_con c p) /\
  (sa = true -> forall p, meet o1 o2 x p -> ceval c p == 0).
Proof. exact (fun D1 D2 o1 o2 n L1 L2 => relation_with_constraint_sound o1 o2 n L1 L2). Qed.

(* maximize returns an upper bound of the expression on the intersection (the code keeps the LARGER of the two
   component suprema, so nothing more can be claimed) *)
Theorem C10_maximize_sound : forall (D1 D2 : Type) (o1 : dom_ops D1) (o2 : dom_ops D2) (n : nat),
  dom_laws o1 n -> dom_laws o2 n ->
  forall R x e sn sd mx, p_maximize o1 o2 R x e = Some (sn, sd, mx) ->
  (0 < sd)%Z /\ forall p, meet o1 o2 x p -> leval e p * inject_Z sd <= inject_Z sn.
Proof. exact (fun D1 D2 o1 o2 n L1 L2 => maximize_sound o1 o2 n L1 L2). Qed.

(* ---- the hypotheses are satisfiable: concrete component domains obeying dom_laws ---- *)
Theorem C10_laws_satisfiable : forall n,
  dom_laws cons_ops n /\ dom_laws cgs_ops n /\ dom_laws itv_ops n /\ dom_laws pred_ops n.
Proof. exact (fun n => conj (cons_laws n) (conj (cgs_laws n) (conj (itv_laws n) (pred_laws n)))). Qed.

(* ---- exactness of the functions the judge uses for the sampled part and for grids ---- *)
Theorem C10_mem_con_exact : forall c l, mem_con_b c l = true <-> sat_con c (pt l).
Proof. exact mem_con_exact. Qed.
Theorem C10_mem_pcg_exact : forall c l, mem_pcg_b c l = true <-> sat_pcg c (pt l).
Proof. exact mem_pcg_exact. Qed.
Theorem C10_sat_pcg_cg : forall c p, sat_pcg c p <-> sat_cg (gcg_of c) p.
Proof. exact sat_pcg_cg. Qed.
Theorem C10_grid_incl_exact : forall n C1 C2 b, j_grid_incl n C1 C2 = Some b ->
  (b = true <-> forall x, sat_cgs (map gcg_of C1) x -> sat_cgs (map gcg_of C2) x).
Proof. exact j_grid_incl_exact. Qed.
Theorem C10_neg_con_exact : forall c p, ~ sat_con c p <-> exists c', In c' (j_neg_con c) /\ sat_con c' p.
Proof. exact j_neg_con_exact. Qed.
