(* C16 -- audited statements (every Theorem/Corollary here is checked with Print Assumptions). *)
From Coq Require Import ZArith NArith List Bool.
Import ListNotations.
Require Import PPLV.gen.Facts_COTree PPLV.Rows.COTree PPLV.Rows.COTreeSpec.
Require Import PPLV.Rows.Abs PPLV.Rows.Dense PPLV.Rows.Sparse PPLV.Rows.Expr PPLV.Rows.RowsFacts.
Require PPLV.Rows.DenseProofs PPLV.Rows.SparseProofs PPLV.Rows.ExprProofs.

(* unstored entries of a sparse row read as zero *)
Theorem unstored_reads_zero : forall s i, s_mem i (sents s) = false -> s_get i s = 0%Z.
Proof. exact unstored_reads_zero_s. Qed.

(* The faithful model (like the code) is NOT representation independent on two mixed operations:
   findings C16-lax-mixed and C16-trunc-copy. *)
Theorem lax_mixed_refuted : exists rho h, unsafe rho h = true /\ outputs rho h <> outputs (fun _ => false) h.
Proof. exists reg0_sparse, lax_witness. split; [exact lax_witness_unsafe | exact lax_mixed_refuted_l]. Qed.
Theorem trunc_copy_refuted : exists rho h, unsafe rho h = true /\ outputs rho h <> outputs (fun _ => false) h.
Proof. exists reg0_sparse, trunc_witness. split; [exact trunc_witness_unsafe | exact trunc_copy_refuted_l]. Qed.

(* ---- rows: every mutator commutes with the abstraction to (size, nat -> Z), every observer is a
   function of the abstraction (a_uop / a_bop / a_obs1 / a_obs2 map an operation to its a_* counterpart) ---- *)
Theorem dense_refines_abs : forall u d, uop_ok u (ED d) = true ->
  aeq (abs_e (apply_uop u (ED d))) (ExprProofs.a_uop u (abs_e (ED d))).
Proof. exact ExprProofs.dense_refines_abs. Qed.
Theorem sparse_refines_abs : forall u s, s_wf s -> s_nz s -> uop_ok u (ES s) = true ->
  (s_wf (match apply_uop u (ES s) with ES t => t | ED _ => s end) /\
   s_nz (match apply_uop u (ES s) with ES t => t | ED _ => s end)) /\
  aeq (abs_e (apply_uop u (ES s))) (ExprProofs.a_uop u (abs_e (ES s))).
Proof. exact ExprProofs.sparse_refines_abs. Qed.
(* binary operations, all four combinations of representations (the two unsafe ones excluded) *)
Theorem mixed_binary_refines_abs : forall b x y, SparseProofs.good x -> SparseProofs.good y ->
  bop_ok b x y = true -> bop_unsafe b x y = false ->
  SparseProofs.good (apply_bop b x y) /\ aeq (abs_e (apply_bop b x y)) (ExprProofs.a_bop b (abs_e x) (abs_e y)).
Proof. exact ExprProofs.bop_spec_all. Qed.
Theorem observers_refine_abs : forall o e, SparseProofs.good e -> apply_obs1 o e = SparseProofs.a_obs1 o (abs_e e).
Proof. intros o e H. apply SparseProofs.obs1_refines, H. Qed.
Theorem observers2_refine_abs : forall o x y, SparseProofs.good x -> SparseProofs.good y ->
  apply_obs2 o x y = SparseProofs.a_obs2 o (abs_e x) (abs_e y).
Proof. intros o x y Hx Hy. apply SparseProofs.obs2_refines; assumption. Qed.

(* for every history and any two assignments of representations to the registers (mixed operands
   included) all observations are equal, provided neither run uses one of the two refuted combinations *)
Theorem dense_sparse_interchangeable :
  forall rho1 rho2 h, unsafe rho1 h = false -> unsafe rho2 h = false -> outputs rho1 h = outputs rho2 h.
Proof. exact ExprProofs.dense_sparse_interchangeable. Qed.
(* the hypotheses are satisfiable by a history that mixes representations and uses binary operations *)
Example interchangeable_hyp_sat :
  let h := [New 0 4; New 1 4; Un 0 (USet 1 3%Z); Un 1 (USet 2 5%Z); Bin 0 1 (BCombine 2 (-3) 0 4);
            Bin 1 0 (BLaxScale 2 0 3); Obs2 0 1 OCompare; Obs1 0 OIter] in
  unsafe (fun r => Nat.eqb r 0) h = false /\ unsafe (fun _ => false) h = false /\ length (outputs (fun _ => false) h) = 2%nat.
Proof. vm_compute. repeat split. Qed.
Example sparse_refines_hyp_sat :
  let s := mkSR 4 [(1%nat, 3%Z); (3%nat, (-2)%Z)] in s_wf s /\ s_nz s /\ uop_ok (USwap 1 2) (ES s) = true.
Proof.
  cbv zeta. split; [split|split].
  - repeat constructor; cbn; auto.
  - repeat constructor; cbn; auto.
  - repeat constructor; cbn; discriminate.
  - reflexivity.
Qed.

(* ---- full statements (stated; see the theorems above/below for the parts that are proved) ---- *)
Definition cotree_refines_map_full : Prop := forall ops, abs_tree (run_tree ops) = run_map ops.
Definition cotree_inv_full : Prop := forall ops, inv_full (run_tree ops).
Definition hint_irrelevant_full : Prop :=
  forall ops raw1 raw2 k d,
    let t := run_tree ops in
    fst (insert_hint t (resolve_hint t raw1) k d) = fst (insert_hint t (resolve_hint t raw2) k d).
