(* C16 -- audited statements (every Theorem/Corollary here is checked with Print Assumptions).
   Proofs: Rows/C16Final.v and the files it imports. *)
From Coq Require Import ZArith NArith List Bool.
Import ListNotations.
Require Import PPLV.gen.Facts_COTree PPLV.Rows.COTree PPLV.Rows.COTreeSpec.
Require Import PPLV.Rows.Abs PPLV.Rows.Dense PPLV.Rows.Sparse PPLV.Rows.Expr PPLV.Rows.RowsFacts.
Require PPLV.Rows.DenseProofs PPLV.Rows.SparseProofs PPLV.Rows.ExprProofs.
Require PPLV.Rows.COTreeBase PPLV.Rows.COTreeSearch PPLV.Rows.COTreeStatic PPLV.Rows.COTreeHint PPLV.Rows.COTreeDens.
Require PPLV.Rows.COTreeIter PPLV.Rows.COTreeUpdate PPLV.Rows.COTreeMain PPLV.Rows.COTreeEraseLb PPLV.Rows.COTreeFull PPLV.Rows.COTreeInorder.
Require PPLV.Rows.C16Final.

(* unstored entries of a sparse row read as zero *)
Theorem unstored_reads_zero : forall s i, s_mem i (sents s) = false -> s_get i s = 0%Z.
Proof. exact C16Final.unstored_reads_zero_stmt. Qed.

(* linear_combine_lax with a dense operand no longer stores zeroes (finding C16-lax-mixed repaired): the mixed
   linear_combine_lax(y, 0, c2, ...) is a coefficient-wise operation like every other binary operation *)
Theorem lax_mixed_refines_abs : forall c2 f l x y, SparseProofs.good x -> SparseProofs.good y ->
  bop_ok (BLax0 c2 f l) x y = true ->
  SparseProofs.good (apply_bop (BLax0 c2 f l) x y) /\
  aeq (abs_e (apply_bop (BLax0 c2 f l) x y)) (a_combine 0 c2 f l (abs_e x) (abs_e y)).
Proof. exact C16Final.lax_mixed_refines_abs_stmt. Qed.
(* the sized copy constructor is a resize of the abstract row for every pair of representations
   (finding C16-trunc-copy repaired) *)
Theorem copy_sized_refines_abs : forall sp n e, SparseProofs.good e ->
  SparseProofs.good (copy_sized sp n e) /\ aeq (abs_e (copy_sized sp n e)) (a_resize n (abs_e e)).
Proof. exact C16Final.copy_sized_refines_abs_stmt. Qed.

(* ---- rows: every mutator commutes with the abstraction to (size, nat -> Z), every observer is a
   function of the abstraction (a_uop / a_bop / a_obs1 / a_obs2 map an operation to its a_* counterpart) ---- *)
Theorem dense_refines_abs : forall u d, uop_ok u (ED d) = true ->
  aeq (abs_e (apply_uop u (ED d))) (ExprProofs.a_uop u (abs_e (ED d))).
Proof. exact C16Final.dense_refines_abs_stmt. Qed.
Theorem sparse_refines_abs : forall u s, s_wf s -> s_nz s -> uop_ok u (ES s) = true ->
  (s_wf (match apply_uop u (ES s) with ES t => t | ED _ => s end) /\
   s_nz (match apply_uop u (ES s) with ES t => t | ED _ => s end)) /\
  aeq (abs_e (apply_uop u (ES s))) (ExprProofs.a_uop u (abs_e (ES s))).
Proof. exact C16Final.sparse_refines_abs_stmt. Qed.
(* binary operations, all four combinations of representations, no exception *)
Theorem mixed_binary_refines_abs : forall b x y, SparseProofs.good x -> SparseProofs.good y ->
  bop_ok b x y = true ->
  SparseProofs.good (apply_bop b x y) /\ aeq (abs_e (apply_bop b x y)) (ExprProofs.a_bop b (abs_e x) (abs_e y)).
Proof. exact C16Final.mixed_binary_refines_abs_stmt. Qed.
Theorem observers_refine_abs : forall o e, SparseProofs.good e -> apply_obs1 o e = SparseProofs.a_obs1 o (abs_e e).
Proof. exact C16Final.observers_refine_abs_stmt. Qed.
Theorem observers2_refine_abs : forall o x y, SparseProofs.good x -> SparseProofs.good y ->
  apply_obs2 o x y = SparseProofs.a_obs2 o (abs_e x) (abs_e y).
Proof. exact C16Final.observers2_refine_abs_stmt. Qed.

(* for every history and any two assignments of representations to the registers (mixed operands
   included) all observations are equal -- unconditionally *)
Theorem dense_sparse_interchangeable : forall rho1 rho2 h, outputs rho1 h = outputs rho2 h.
Proof. exact C16Final.dense_sparse_interchangeable_stmt. Qed.

(* ---- the tree: searches, for ANY valid hint (stale or far away), find the map-level answer ---- *)
Local Open Scope N_scope.
(* every hint the histories use is valid (end() or a used slot) *)
Theorem resolve_hint_valid : forall t raw, COTreeSearch.valid_hint t (resolve_hint t raw).
Proof. exact C16Final.resolve_hint_valid_stmt. Qed.
(* go_down_searching_key from the root ends on the key, or on its in-order neighbour with the free child *)
Theorem go_down_spec : forall t key, inv t -> 0 < t_size t ->
  COTreeSearch.gd_post (t_arr t) (t_rsz t) key (root_search t key).
Proof. exact C16Final.go_down_spec_stmt. Qed.
(* bisect_near / bisect_in from any valid hint end on the key or on a neighbour of it *)
Theorem bisect_near_spec : forall t h key, inv t -> 0 < t_size t -> COTreeSearch.valid_hint t h ->
  COTreeSearch.near_pos (t_arr t) key (bisect_near t h key).
Proof. exact C16Final.bisect_near_spec_stmt. Qed.
(* Sparse_Row::lower_bound(hint, i) / find(hint, i) do not depend on the hint ... *)
Theorem lower_bound_hint_irrelevant : forall t h1 h2 i, inv t ->
  COTreeSearch.valid_hint t h1 -> COTreeSearch.valid_hint t h2 -> lower_bound_near t h1 i = lower_bound_near t h2 i.
Proof. exact C16Final.lower_bound_hint_irrelevant_stmt. Qed.
Theorem find_hint_irrelevant : forall t h1 h2 i, inv t ->
  COTreeSearch.valid_hint t h1 -> COTreeSearch.valid_hint t h2 -> find_near t h1 i = find_near t h2 i.
Proof. exact C16Final.find_hint_irrelevant_stmt. Qed.
(* ... and are the map's lower bound / lookup; unstored keys read as zero *)
Theorem lower_bound_refines : forall t i, inv t ->
  m_lower_bound i (abs_tree t) = (if lower_bound t i =? t_end t then None else aget (t_arr t) (lower_bound t i)).
Proof. exact C16Final.lower_bound_refines_stmt. Qed.
Theorem get_refines : forall t i, inv t ->
  get t i = match m_find i (abs_tree t) with Some v => v | None => 0%Z end.
Proof. exact C16Final.get_refines_stmt. Qed.
(* the hinted insertion IS the plain insertion, whatever the hint: same tree, same returned iterator *)
Theorem insert_hint_eq : forall t h k d, inv t -> COTreeSearch.valid_hint t h ->
  insert_hint t h k d = match d with Some v => insert t k v | None => insert_key t k end.
Proof. exact C16Final.insert_hint_eq_stmt. Qed.
Theorem hint_irrelevant : forall t raw1 raw2 k d, inv t ->
  insert_hint t (resolve_hint t raw1) k d = insert_hint t (resolve_hint t raw2) k d.
Proof. exact C16Final.hint_irrelevant_stmt. Qed.

(* ---- non-rebalancing updates and rebuilds refine the map and keep the invariant ---- *)
Theorem increase_keys_from_refines : forall t key n, inv t ->
  abs_tree (increase_keys_from t key n) = m_shift_up key n (abs_tree t) /\ inv (increase_keys_from t key n).
Proof. exact C16Final.increase_keys_from_refines_stmt. Qed.
Theorem rebuild_bigger_refines : forall t, inv t -> 0 < t_size t ->
  abs_tree (rebuild_bigger t) = abs_tree t /\ inv (rebuild_bigger t).
Proof. exact C16Final.rebuild_bigger_refines_stmt. Qed.
Theorem rebuild_smaller_refines : forall t d, inv t -> 0 < t_size t -> 1 <= d ->
  t_rsz t = 2 ^ N.succ (N.succ d) - 1 -> t_size t <= 2 ^ N.succ d - 1 ->
  inv (rebuild_smaller t) /\ abs_tree (rebuild_smaller t) = abs_tree t.
Proof. exact C16Final.rebuild_smaller_refines_stmt. Qed.
(* the iterator constructor CO_Tree(Iterator, n) (used by Sparse_Row copies and the bulk linear_combine) *)
Theorem of_list_refines : forall l, sorted l -> abs_tree (of_list l) = l /\ inv (of_list l).
Proof. exact C16Final.of_list_refines_stmt. Qed.

(* ---- insert and erase through rebalance (compact_elements_in_the_rightmost_end + redistribute_elements_in_subtree,
   rebuild_bigger / rebuild_smaller, the hole moving down in erase) refine the map and keep the invariant ---- *)
Theorem insert_refines : forall t k v, inv t ->
  abs_tree (fst (insert t k v)) = m_insert k v (abs_tree t) /\ inv (fst (insert t k v)).
Proof. exact C16Final.insert_refines_stmt. Qed.
Theorem insert_key_refines : forall t k, inv t ->
  abs_tree (fst (insert_key t k)) = m_insert_key k (abs_tree t) /\ inv (fst (insert_key t k)).
Proof. exact C16Final.insert_key_refines_stmt. Qed.
Theorem erase_key_refines : forall t k, inv t ->
  abs_tree (fst (erase_key t k)) = m_erase k (abs_tree t) /\ inv (fst (erase_key t k)).
Proof. exact C16Final.erase_key_refines_stmt. Qed.
Theorem erase_pos_refines : forall t p, inv t -> aget (t_arr t) p <> None ->
  abs_tree (fst (erase_pos t p)) = m_erase (key_at (t_arr t) p) (abs_tree t) /\ inv (fst (erase_pos t p)).
Proof. exact C16Final.erase_pos_refines_stmt. Qed.
(* iterating with operator++ from begin() to end() (resp. operator-- from end()) enumerates the map in order *)
Theorem iteration_refines : forall t, inv t ->
  COTreeIter.iter_from (S (N.to_nat (t_rsz t))) t (t_begin t) = abs_tree t.
Proof. exact C16Final.iteration_refines_stmt. Qed.
Theorem reverse_iteration_refines : forall t, inv t -> 0 < t_size t ->
  COTreeIter.riter_from (S (N.to_nat (t_rsz t))) t (prev_pos t (t_end t)) = rev (abs_tree t).
Proof. exact C16Final.reverse_iteration_refines_stmt. Qed.

(* the in-order traversal of the complete tree through get_left_child / get_right_child visits the slots
   1, 2, ..., reserved_size in increasing order: "array order" below IS the in-order of the tree *)
Theorem inorder_is_array_order : forall d,
  COTreeInorder.inorder (S (N.to_nat d)) (it_root (2 ^ N.succ d - 1)) =
  map N.of_nat (seq 1 (N.to_nat (2 ^ N.succ d - 1))).
Proof. exact C16Final.inorder_is_array_order_stmt. Qed.
(* erase_element_and_shift_left = erase + decrement of the keys from the returned iterator on *)
Theorem erase_shift_refines : forall t k, inv t ->
  abs_tree (erase_element_and_shift_left t k) = m_erase_shift k (abs_tree t) /\ inv (erase_element_and_shift_left t k).
Proof. exact C16Final.erase_shift_refines_stmt. Qed.
(* the iterator erase(key) returns is the first element with a key >= key of the new tree (end() if none) *)
Theorem erase_returns_lower_bound : forall t k, inv t ->
  COTreeSearch.lb_pos (fst (erase_key t k)) k (snd (erase_key t k)).
Proof. exact C16Final.erase_returns_lower_bound_stmt. Qed.

(* ---- whole histories: after ANY sequence of insert(key,data) / insert(key) / insert(itr,key[,data]) with
   arbitrary hints / erase(key) / erase(itr) / increase_keys_from / erase_element_and_shift_left, the used slots
   in array (= in-order) order are the ordered map ... ---- *)
Theorem cotree_refines_map : forall ops, abs_tree (run_tree ops) = run_map ops.
Proof. exact C16Final.cotree_refines_map_stmt. Qed.
(* ... and the invariant holds: slots within 1..reserved_size, an unused node has an unused subtree, keys strictly
   increasing in array order, size_ = number of used slots, reserved_size = 2^max_depth - 1 (or the empty tree),
   and the density bounds that CO_Tree::OK() checks *)
Theorem cotree_inv : forall ops, inv_full (run_tree ops).
Proof. exact C16Final.cotree_inv_stmt. Qed.
(* in every reachable state hinted insertion and hinted searches do not depend on the hint *)
Theorem hint_irrelevant_reachable : forall ops raw1 raw2 k d,
  let t := run_tree ops in
  insert_hint t (resolve_hint t raw1) k d = insert_hint t (resolve_hint t raw2) k d.
Proof. exact C16Final.hint_irrelevant_reachable_stmt. Qed.
Theorem lookup_hint_irrelevant_reachable : forall ops raw1 raw2 i,
  let t := run_tree ops in
  lower_bound_near t (resolve_hint t raw1) i = lower_bound_near t (resolve_hint t raw2) i /\
  find_near t (resolve_hint t raw1) i = find_near t (resolve_hint t raw2) i.
Proof. exact C16Final.lookup_hint_irrelevant_reachable_stmt. Qed.

(* ---- densities: what CO_Tree::OK() adds to structure_OK(), preserved by every update
   (szinv2 follows from inv: COTreeDens.inv_szinv2) ---- *)
Theorem insert_dens : forall t k v, inv t -> dens t -> dens (fst (insert t k v)).
Proof. exact C16Final.insert_dens_stmt. Qed.
Theorem insert_hint_dens : forall t h k d, inv t -> dens t -> dens (fst (insert_hint t h k d)).
Proof. exact C16Final.insert_hint_dens_stmt. Qed.
Theorem erase_key_dens : forall t k, inv t -> dens t -> dens (fst (erase_key t k)).
Proof. exact C16Final.erase_key_dens_stmt. Qed.
Theorem erase_shift_dens : forall t k, inv t -> dens t -> dens (erase_element_and_shift_left t k).
Proof. exact C16Final.erase_shift_dens_stmt. Qed.
Local Close Scope N_scope.


