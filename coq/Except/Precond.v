(* C14(a): rejected calls.  For every public mutator / query of Polyhedron (and the status-guarded queries of
   MIP_Problem / PIP_Problem) the argument-validation ladder at the top of the method, transcribed IN SOURCE ORDER
   from /repo/src/Polyhedron_public.cc, Polyhedron_chdims.cc, Polyhedron_chdims_templates.hh, Polyhedron_widenings.cc,
   Polyhedron_nonpublic.cc, MIP_Problem.cc, PIP_Problem.cc, as a function of the SHAPE of the arguments only
   (space dimensions, topology, constraint / generator kinds, triviality, denominator, relation symbol,
   emptiness of the receiver, headroom below max_space_dimension, solver status).

     check r c : option exn      -- the first rung of the ladder that fires (None: the call is accepted)
     step                          -- if check = None then Ok (op ...) else Throw cls, state unchanged
     doc_pre r c : Prop           -- the documented precondition, stated declaratively
     precond_complete             -- check r c = None <-> doc_pre r c      (neither too weak nor too strong)
     exn_documented               -- which class is thrown for which violated conjunct

   The link with the reference semantics of Poly/PolyOps.v is at the end: whenever the ladder accepts a call,
   the side conditions of the corresponding exactness theorem hold, so the reference result is defined. *)
From Coq Require Import List NArith ZArith QArith Bool Lia.
Require Import PPLV.Base.FM PPLV.Base.Sys PPLV.Base.Gens PPLV.Poly.PolyOps.
Import ListNotations.
Local Open Scope N_scope.

Inductive exn := Invalid_argument | Length_error | Domain_error | Logic_error.
Inductive topo := TC | TNNC.
Inductive rsym := R_LT | R_LE | R_EQ | R_GE | R_GT | R_NE.

Definition topo_eqb (a b : topo) : bool := match a, b with TC, TC | TNNC, TNNC => true | _, _ => false end.
Definition is_strict_rel (r : rsym) : bool := match r with R_LT | R_GT => true | _ => false end.
Definition is_ne (r : rsym) : bool := match r with R_NE => true | _ => false end.

(* ---- shapes ---- *)
Inductive triv := Taut | Incons | Nontriv.               (* is_tautological / is_inconsistent / neither *)
Record cshape := { c_dim : N; c_strict : bool; c_triv : triv }.                  (* a constraint *)
Record csshape := { cs_dim : N; cs_rows : list cshape }.                         (* a constraint system *)
Inductive gkind := G_line | G_ray | G_point | G_closure.
Record gshape := { g_dim : N; g_kind : gkind }.
Record gsshape := { gs_dim : N; gs_rows : list gkind }.   (* kinds as seen through Generator_System::const_iterator: closure points matched by an equal point are invisible *)
Record cgshape := { cg_dim : N; cg_proper : bool; cg_triv : triv }.              (* a congruence *)
Record cgsshape := { cgs_dim : N; cgs_rows : list cgshape }.
Record recv := { r_topo : topo; r_dim : N; r_empty : bool }.                     (* receiver / polyhedron argument *)

Definition is_point_k (k : gkind) : bool := match k with G_point => true | _ => false end.
Definition is_closure_k (k : gkind) : bool := match k with G_closure => true | _ => false end.
Definition has_points (gs : gsshape) : bool := existsb is_point_k (gs_rows gs).
Definition has_closure_points (gs : gsshape) : bool := existsb is_closure_k (gs_rows gs).
Definition is_taut (t : triv) : bool := match t with Taut => true | _ => false end.
Definition is_incons (t : triv) : bool := match t with Incons => true | _ => false end.
(* strict inequalities seen by Constraint_System::const_iterator (which skips tautologies) that are not inconsistent *)
Definition nontrivial_strict (c : cshape) : bool := c_strict c && negb (is_taut (c_triv c)) && negb (is_incons (c_triv c)).
(* Constraint_System::has_strict_inequalities(): tautological strict inequalities do not count *)
Definition has_strict (cs : csshape) : bool := existsb (fun c => c_strict c && negb (is_taut (c_triv c))) (cs_rows cs).

(* space dimension of a Variable with index v, of a Variables_Set *)
Definition var_dim (v : N) : N := v + 1.
Definition vset_dim (vs : list N) : N := fold_right (fun v m => N.max (var_dim v) m) 0 vs.

(* the largest space dimension the domain supports (Polyhedron::max_space_dimension()); a parameter of the model *)
Section WithMax.
Variable max_dim : N.

Inductive binop := Intersection | Poly_hull | Poly_difference | Time_elapse | H79_widening | BHRZ03_widening
                 | Contains | Simplify_ctx | Swap.

Inductive call :=
| Add_constraint (c : cshape) | Refine_with_constraint (c : cshape)
| Add_constraints (cs : csshape) | Add_recycled_constraints (cs : csshape) | Refine_with_constraints (cs : csshape)
| Add_generator (g : gshape) | Add_generators (gs : gsshape) | Add_recycled_generators (gs : gsshape)
| Add_congruence (cg : cgshape) | Refine_with_congruence (cg : cgshape)
| Add_congruences (cgs : cgsshape) | Refine_with_congruences (cgs : cgsshape)
| Binary (op : binop) (y : recv)
| Concatenate (y : recv)
| Affine_image (v : N) (edim : N) (den0 : bool) | Affine_preimage (v : N) (edim : N) (den0 : bool)
| Bounded_affine_image (v lbdim ubdim : N) (den0 : bool) | Bounded_affine_preimage (v lbdim ubdim : N) (den0 : bool)
| Gen_affine_image (v : N) (r : rsym) (edim : N) (den0 : bool) | Gen_affine_preimage (v : N) (r : rsym) (edim : N) (den0 : bool)
| Gen_affine_image_lhs (ldim : N) (r : rsym) (rdim : N) | Gen_affine_preimage_lhs (ldim : N) (r : rsym) (rdim : N)
| Unconstrain (v : N) | Unconstrain_set (vs : list N)
| Add_dims_embed (m : N) | Add_dims_project (m : N)
| Remove_dims (vs : list N) | Remove_higher (nd : N)
| Expand (v m : N) | Fold (vs : list N) (v : N)
| Limited_extrapolation (y : recv) (cs : csshape)       (* limited_/bounded_ H79 / BHRZ03 extrapolation *)
| Relation_with_con (c : cshape) | Relation_with_gen (g : gshape) | Relation_with_cg (cg : cgshape)
| Constrains (v : N) | Bounds (edim : N) | Max_min (edim : N) | Frequency (edim : N)
| Ctor_dim (n : N) | Ctor_cons (t : topo) (cs : csshape) | Ctor_gens (t : topo) (gs : gsshape).

(* a ladder: rungs in source order; the first one whose condition holds throws *)
Definition ladder := list (bool * exn).
Fixpoint first_fail (l : ladder) : option exn :=
  match l with [] => None | (b, e) :: l' => if b then Some e else first_fail l' end.

Definition dim_gt (a b : N) : bool := b <? a.     (* a > b *)
Definition ia := Invalid_argument.

(* add_congruences: the loop over the rows returns (set_empty) at the first inconsistent proper congruence and
   throws at the first non-trivial proper one, whichever comes first *)
Fixpoint cgs_loop (l : list cgshape) : bool :=
  match l with
  | [] => false
  | cg :: l' => if cg_proper cg then
                  (if is_incons (cg_triv cg) then false else if is_taut (cg_triv cg) then cgs_loop l' else true)
                else cgs_loop l'
  end.

Definition rungs (r : recv) (c : call) : ladder :=
  let n := r_dim r in
  let closed := topo_eqb (r_topo r) TC in
  match c with
  | Add_constraint k =>
      (* trivially true / false strict inequalities are legal on a C polyhedron and return before the dimension check *)
      if closed && c_strict k && (is_taut (c_triv k) || is_incons (c_triv k)) then []
      else [ (closed && c_strict k, ia); (dim_gt (c_dim k) n, ia) ]
  | Refine_with_constraint k => [ (dim_gt (c_dim k) n, ia) ]
  | Add_constraints cs | Add_recycled_constraints cs =>
      if closed && has_strict cs then [ (existsb nontrivial_strict (cs_rows cs), ia) ]   (* otherwise set_empty(); return *)
      else [ (dim_gt (cs_dim cs) n, ia) ]
  | Refine_with_constraints cs => [ (dim_gt (cs_dim cs) n, ia) ]
  | Add_generator g =>
      [ (closed && is_closure_k (g_kind g), ia); (dim_gt (g_dim g) n, ia); (r_empty r && negb (is_point_k (g_kind g)), ia) ]
  | Add_generators gs | Add_recycled_generators gs =>
      [ (closed && has_closure_points gs, ia); (dim_gt (gs_dim gs) n, ia);
        (negb (match gs_rows gs with [] => true | _ => false end) && r_empty r && negb (has_points gs), ia) ]
  | Add_congruence cg =>
      [ (dim_gt (cg_dim cg) n, ia); (cg_proper cg && negb (is_taut (cg_triv cg)) && negb (is_incons (cg_triv cg)), ia) ]
  | Refine_with_congruence cg => [ (dim_gt (cg_dim cg) n, ia) ]
  | Add_congruences cgs => [ (dim_gt (cgs_dim cgs) n, ia); (cgs_loop (cgs_rows cgs), ia) ]
  | Refine_with_congruences cgs => [ (dim_gt (cgs_dim cgs) n, ia) ]
  | Binary Swap y => [ (negb (topo_eqb (r_topo r) (r_topo y)), ia) ]        (* m_swap only requires equal topologies *)
  | Binary _ y => [ (negb (topo_eqb (r_topo r) (r_topo y)), ia); (negb (n =? r_dim y), ia) ]
  | Concatenate y => [ (negb (topo_eqb (r_topo r) (r_topo y)), ia); (dim_gt (r_dim y) (max_dim - n), Length_error) ]
  | Affine_image v e d0 | Affine_preimage v e d0 => [ (d0, ia); (dim_gt e n, ia); (dim_gt (var_dim v) n, ia) ]
  | Bounded_affine_image v lb ub d0 | Bounded_affine_preimage v lb ub d0 =>
      [ (d0, ia); (dim_gt (var_dim v) n, ia); (dim_gt lb n, ia); (dim_gt ub n, ia) ]
  | Gen_affine_image v rs e d0 | Gen_affine_preimage v rs e d0 =>
      [ (d0, ia); (dim_gt e n, ia); (dim_gt (var_dim v) n, ia); (closed && is_strict_rel rs, ia); (is_ne rs, ia) ]
  | Gen_affine_image_lhs l rs e | Gen_affine_preimage_lhs l rs e =>
      [ (dim_gt l n, ia); (dim_gt e n, ia); (closed && is_strict_rel rs, ia); (is_ne rs, ia) ]
  | Unconstrain v => [ (dim_gt (var_dim v) n, ia) ]
  | Unconstrain_set vs | Remove_dims vs => [ (dim_gt (vset_dim vs) n, ia) ]   (* the empty set returns first; vset_dim [] = 0 *)
  | Add_dims_embed m | Add_dims_project m => [ (dim_gt m (max_dim - n), Length_error) ]
  | Remove_higher nd => [ (dim_gt nd n, ia) ]
  | Expand v m => [ (dim_gt (var_dim v) n, ia); (dim_gt m (max_dim - n), Length_error) ]
  | Fold vs v =>
      match vs with
      | [] => [ (dim_gt (var_dim v) n, ia) ]
      | _ => [ (dim_gt (var_dim v) n, ia); (dim_gt (vset_dim vs) n, ia); (existsb (N.eqb v) vs, ia) ]
      end
  | Limited_extrapolation y cs =>
      match cs_rows cs with
      | [] => [ (negb (topo_eqb (r_topo r) (r_topo y)), ia); (negb (n =? r_dim y), ia) ]      (* falls back to the plain widening *)
      | _ => [ (negb (topo_eqb (r_topo r) (r_topo y)), ia); (closed && has_strict cs, ia);
               (negb (n =? r_dim y), ia); (dim_gt (cs_dim cs) n, ia) ]
      end
  | Relation_with_con k => [ (dim_gt (c_dim k) n, ia) ]
  | Relation_with_gen g => [ (dim_gt (g_dim g) n, ia) ]
  | Relation_with_cg cg => [ (dim_gt (cg_dim cg) n, ia) ]
  | Constrains v => [ (dim_gt (var_dim v) n, ia) ]
  | Bounds e | Max_min e | Frequency e => [ (dim_gt e n, ia) ]
  | Ctor_dim m => [ (dim_gt m max_dim, Length_error) ]
  | Ctor_cons t cs => [ (dim_gt (cs_dim cs) max_dim, Length_error); (topo_eqb t TC && has_strict cs, ia) ]
  | Ctor_gens t gs =>
      match gs_rows gs with
      | [] => [ (dim_gt (gs_dim gs) max_dim, Length_error) ]
      | _ => [ (dim_gt (gs_dim gs) max_dim, Length_error); (negb (has_points gs), ia); (topo_eqb t TC && has_closure_points gs, ia) ]
      end
  end.

Definition check (r : recv) (c : call) : option exn := first_fail (rungs r c).

(* ---- the model's step: state unchanged on Throw, by construction ---- *)
Inductive outcome (S : Type) := Ok (s : S) | Throw (e : exn) (s : S).
Arguments Ok {S}. Arguments Throw {S}.
Definition step {S : Type} (shape : S -> recv) (op : S -> S) (c : call) (s : S) : outcome S :=
  match check (shape s) c with None => Ok (op s) | Some e => Throw e s end.

Theorem rejected_unchanged S (shape : S -> recv) op c s e s' :
  step shape op c s = Throw e s' -> s' = s /\ check (shape s) c = Some e.
Proof. unfold step. destruct (check (shape s) c); intros H; inversion H; subst; auto. Qed.

Theorem accepted_runs S (shape : S -> recv) op c s s' :
  step shape op c s = Ok s' -> s' = op s /\ check (shape s) c = None.
Proof. unfold step. destruct (check (shape s) c); intros H; inversion H; subst; auto. Qed.

(* ---- the documented precondition, declaratively ---- *)
Definition compat (r y : recv) : Prop := r_topo r = r_topo y /\ r_dim r = r_dim y.
Definition closed_p (r : recv) : Prop := r_topo r = TC.
Definition rel_ok (r : recv) (rs : rsym) : Prop := rs <> R_NE /\ (closed_p r -> rs <> R_LT /\ rs <> R_GT).
Definition trivial_c (k : cshape) : Prop := c_triv k = Taut \/ c_triv k = Incons.

Definition doc_pre (r : recv) (c : call) : Prop :=
  let n := r_dim r in
  match c with
  | Add_constraint k =>
      (closed_p r /\ c_strict k = true /\ trivial_c k) \/
      (~ (closed_p r /\ c_strict k = true) /\ c_dim k <= n)
  | Refine_with_constraint k => c_dim k <= n
  | Add_constraints cs | Add_recycled_constraints cs =>
      (closed_p r /\ has_strict cs = true /\ forall k, In k (cs_rows cs) -> nontrivial_strict k = false) \/
      (~ (closed_p r /\ has_strict cs = true) /\ cs_dim cs <= n)
  | Refine_with_constraints cs => cs_dim cs <= n
  | Add_generator g =>
      ~ (closed_p r /\ g_kind g = G_closure) /\ g_dim g <= n /\ (r_empty r = true -> g_kind g = G_point)
  | Add_generators gs | Add_recycled_generators gs =>
      ~ (closed_p r /\ has_closure_points gs = true) /\ gs_dim gs <= n /\
      (gs_rows gs <> [] -> r_empty r = true -> has_points gs = true)
  | Add_congruence cg => cg_dim cg <= n /\ (cg_proper cg = true -> cg_triv cg = Taut \/ cg_triv cg = Incons)
  | Refine_with_congruence cg => cg_dim cg <= n
  | Add_congruences cgs => cgs_dim cgs <= n /\ cgs_loop (cgs_rows cgs) = false
  | Refine_with_congruences cgs => cgs_dim cgs <= n
  | Binary Swap y => r_topo r = r_topo y
  | Binary _ y => compat r y
  | Concatenate y => r_topo r = r_topo y /\ r_dim y <= max_dim - n
  | Affine_image v e d0 | Affine_preimage v e d0 => d0 = false /\ e <= n /\ v < n
  | Bounded_affine_image v lb ub d0 | Bounded_affine_preimage v lb ub d0 => d0 = false /\ v < n /\ lb <= n /\ ub <= n
  | Gen_affine_image v rs e d0 | Gen_affine_preimage v rs e d0 => d0 = false /\ e <= n /\ v < n /\ rel_ok r rs
  | Gen_affine_image_lhs l rs e | Gen_affine_preimage_lhs l rs e => l <= n /\ e <= n /\ rel_ok r rs
  | Unconstrain v => v < n
  | Unconstrain_set vs | Remove_dims vs => forall v, In v vs -> v < n
  | Add_dims_embed m | Add_dims_project m => m <= max_dim - n
  | Remove_higher nd => nd <= n
  | Expand v m => v < n /\ m <= max_dim - n
  | Fold vs v => v < n /\ (forall w, In w vs -> w < n) /\ ~ In v vs
  | Limited_extrapolation y cs =>
      compat r y /\ (cs_rows cs <> [] -> (closed_p r -> has_strict cs = false) /\ cs_dim cs <= n)
  | Relation_with_con k => c_dim k <= n
  | Relation_with_gen g => g_dim g <= n
  | Relation_with_cg cg => cg_dim cg <= n
  | Constrains v => v < n
  | Bounds e | Max_min e | Frequency e => e <= n
  | Ctor_dim m => m <= max_dim
  | Ctor_cons t cs => cs_dim cs <= max_dim /\ (t = TC -> has_strict cs = false)
  | Ctor_gens t gs => gs_dim gs <= max_dim /\ (gs_rows gs <> [] -> has_points gs = true /\ (t = TC -> has_closure_points gs = false))
  end.

(* ---- small reflection lemmas ---- *)
Lemma dim_gt_false a b : dim_gt a b = false <-> a <= b.
Proof. unfold dim_gt. rewrite N.ltb_ge. reflexivity. Qed.
Lemma dim_gt_true a b : dim_gt a b = true <-> b < a.
Proof. unfold dim_gt. apply N.ltb_lt. Qed.
Lemma var_dim_le v n : var_dim v <= n <-> v < n.
Proof. unfold var_dim. lia. Qed.
Lemma topo_eqb_eq a b : topo_eqb a b = true <-> a = b.
Proof. destruct a, b; cbn; split; intros H; try reflexivity; try discriminate. Qed.
Lemma topo_eqb_neq a b : topo_eqb a b = false <-> a <> b.
Proof. destruct a, b; cbn; split; intros H; try reflexivity; try discriminate; try congruence; exfalso; apply H; reflexivity. Qed.
Lemma vset_dim_le vs n : vset_dim vs <= n <-> forall v, In v vs -> v < n.
Proof.
  induction vs as [|a vs IH]; cbn [vset_dim fold_right In].
  - split; [intros _ v []|intros _; lia].
  - fold (vset_dim vs). rewrite N.max_lub_iff, IH, var_dim_le. split.
    + intros [H1 H2] v [<-|Hv]; auto.
    + intros H. split; [apply H; now left|intros v Hv; apply H; now right].
Qed.
Lemma existsb_eqb_In v vs : existsb (N.eqb v) vs = true <-> In v vs.
Proof.
  rewrite existsb_exists. split.
  - intros [x [Hx E]]. apply N.eqb_eq in E. now subst.
  - intros H. exists v. split; [exact H|apply N.eqb_refl].
Qed.
Lemma existsb_false_forall {A} (f : A -> bool) l : existsb f l = false <-> forall x, In x l -> f x = false.
Proof.
  induction l as [|a l IH]; cbn [existsb In].
  - split; [intros _ x []|reflexivity].
  - rewrite orb_false_iff, IH. split.
    + intros [H1 H2] x [<-|Hx]; auto.
    + intros H. split; [apply H; now left|intros x Hx; apply H; now right].
Qed.
Lemma rsym_strict rs : is_strict_rel rs = false <-> rs <> R_LT /\ rs <> R_GT.
Proof. destruct rs; cbn; split; intros H; try reflexivity; try discriminate; try (split; congruence); destruct H as [H1 H2]; congruence. Qed.
Lemma rsym_ne rs : is_ne rs = false <-> rs <> R_NE.
Proof. destruct rs; cbn; split; intros H; try reflexivity; try discriminate; congruence. Qed.

Ltac bool_cases :=
  repeat match goal with
  | |- context [topo_eqb ?a ?b] => let E := fresh "E" in destruct (topo_eqb a b) eqn:E
  | |- context [dim_gt ?a ?b] => let E := fresh "E" in destruct (dim_gt a b) eqn:E
  end.

Ltac norm_hyps :=
  repeat match goal with
  | H : dim_gt _ _ = false |- _ => apply dim_gt_false in H
  | H : dim_gt _ _ = true |- _ => apply dim_gt_true in H
  | H : topo_eqb _ _ = true |- _ => apply topo_eqb_eq in H
  | H : topo_eqb _ _ = false |- _ => apply topo_eqb_neq in H
  | H : (_ =? _) = true |- _ => apply N.eqb_eq in H
  | H : (_ =? _) = false |- _ => apply N.eqb_neq in H
  end.

Ltac brute := cbn [first_fail andb orb negb]; intuition (try discriminate; try congruence; try lia).

(* ---- precond_complete, operation by operation ---- *)
Definition complete_for (c : call) : Prop := forall r, check r c = None <-> doc_pre r c.

Lemma pc_dim1 r a : first_fail [ (dim_gt a (r_dim r), ia) ] = None <-> a <= r_dim r.
Proof. cbn [first_fail]. destruct (dim_gt a (r_dim r)) eqn:E; norm_hyps; split; intros H; try discriminate; try reflexivity; try lia. Qed.

Theorem pc_refine_with_constraint k : complete_for (Refine_with_constraint k).
Proof. intros r. apply pc_dim1. Qed.
Theorem pc_refine_with_constraints cs : complete_for (Refine_with_constraints cs).
Proof. intros r. apply pc_dim1. Qed.
Theorem pc_refine_with_congruence cg : complete_for (Refine_with_congruence cg).
Proof. intros r. apply pc_dim1. Qed.
Theorem pc_refine_with_congruences cgs : complete_for (Refine_with_congruences cgs).
Proof. intros r. apply pc_dim1. Qed.
Theorem pc_relation_with_con k : complete_for (Relation_with_con k).
Proof. intros r. apply pc_dim1. Qed.
Theorem pc_relation_with_gen g : complete_for (Relation_with_gen g).
Proof. intros r. apply pc_dim1. Qed.
Theorem pc_relation_with_cg cg : complete_for (Relation_with_cg cg).
Proof. intros r. apply pc_dim1. Qed.
Theorem pc_bounds e : complete_for (Bounds e).
Proof. intros r. apply pc_dim1. Qed.
Theorem pc_max_min e : complete_for (Max_min e).
Proof. intros r. apply pc_dim1. Qed.
Theorem pc_frequency e : complete_for (Frequency e).
Proof. intros r. apply pc_dim1. Qed.
Theorem pc_remove_higher nd : complete_for (Remove_higher nd).
Proof. intros r. apply pc_dim1. Qed.
Theorem pc_constrains v : complete_for (Constrains v).
Proof. intros r. unfold check, rungs, doc_pre. rewrite pc_dim1. apply var_dim_le. Qed.
Theorem pc_unconstrain v : complete_for (Unconstrain v).
Proof. intros r. unfold check, rungs, doc_pre. rewrite pc_dim1. apply var_dim_le. Qed.
Theorem pc_unconstrain_set vs : complete_for (Unconstrain_set vs).
Proof. intros r. unfold check, rungs, doc_pre. rewrite pc_dim1. apply vset_dim_le. Qed.
Theorem pc_remove_dims vs : complete_for (Remove_dims vs).
Proof. intros r. unfold check, rungs, doc_pre. rewrite pc_dim1. apply vset_dim_le. Qed.

Theorem pc_affine_image v e d0 : complete_for (Affine_image v e d0).
Proof.
  intros r. unfold check, rungs, doc_pre. cbn [first_fail]. destruct d0; [split; [discriminate|intros [H _]; discriminate]|].
  bool_cases; norm_hyps; rewrite <- ?var_dim_le; split; intros H; try discriminate; try reflexivity; try (repeat split; lia); destruct H as [_ [H1 H2]]; lia.
Qed.
Theorem pc_affine_preimage v e d0 : complete_for (Affine_preimage v e d0).
Proof. exact (pc_affine_image v e d0). Qed.

Theorem pc_bounded_affine_image v lb ub d0 : complete_for (Bounded_affine_image v lb ub d0).
Proof.
  intros r. unfold check, rungs, doc_pre. cbn [first_fail]. destruct d0; [split; [discriminate|intros [H _]; discriminate]|].
  bool_cases; norm_hyps; rewrite <- ?var_dim_le; split; intros H; try discriminate; try reflexivity; try (repeat split; lia); destruct H as [_ [H1 [H2 H3]]]; lia.
Qed.
Theorem pc_bounded_affine_preimage v lb ub d0 : complete_for (Bounded_affine_preimage v lb ub d0).
Proof. exact (pc_bounded_affine_image v lb ub d0). Qed.

Lemma rel_rungs r rs :
  first_fail [ (topo_eqb (r_topo r) TC && is_strict_rel rs, ia); (is_ne rs, ia) ] = None <-> rel_ok r rs.
Proof.
  unfold rel_ok, closed_p. cbn [first_fail].
  destruct (topo_eqb (r_topo r) TC) eqn:E; norm_hyps; destruct rs; cbn; split; intros H; try discriminate; try reflexivity;
    try (split; [congruence|intros; split; congruence]); destruct H as [H1 H2]; try congruence;
    try (destruct (H2 E) as [A B]; congruence).
Qed.

Theorem pc_gen_affine_image v rs e d0 : complete_for (Gen_affine_image v rs e d0).
Proof.
  intros r. unfold check, rungs, doc_pre. cbn [first_fail]. destruct d0; [split; [discriminate|intros [H _]; discriminate]|].
  destruct (dim_gt e (r_dim r)) eqn:E1; norm_hyps; [split; [discriminate|intros [_ [H _]]; lia]|].
  destruct (dim_gt (var_dim v) (r_dim r)) eqn:E2; norm_hyps; [split; [discriminate|intros [_ [_ [H _]]]; unfold var_dim in *; lia]|].
  pose proof (rel_rungs r rs) as RR; cbn [first_fail] in RR; rewrite RR. apply var_dim_le in E2. tauto.
Qed.
Theorem pc_gen_affine_preimage v rs e d0 : complete_for (Gen_affine_preimage v rs e d0).
Proof. exact (pc_gen_affine_image v rs e d0). Qed.

Theorem pc_gen_affine_image_lhs l rs e : complete_for (Gen_affine_image_lhs l rs e).
Proof.
  intros r. unfold check, rungs, doc_pre. cbn [first_fail].
  destruct (dim_gt l (r_dim r)) eqn:E1; norm_hyps; [split; [discriminate|intros [H _]; lia]|].
  destruct (dim_gt e (r_dim r)) eqn:E2; norm_hyps; [split; [discriminate|intros [_ [H _]]; lia]|].
  pose proof (rel_rungs r rs) as RR; cbn [first_fail] in RR; rewrite RR. tauto.
Qed.
Theorem pc_gen_affine_preimage_lhs l rs e : complete_for (Gen_affine_preimage_lhs l rs e).
Proof. exact (pc_gen_affine_image_lhs l rs e). Qed.

Theorem pc_binary op y : complete_for (Binary op y).
Proof.
  intros r. unfold check, rungs, doc_pre, compat.
  pose proof (topo_eqb_eq (r_topo r) (r_topo y)) as T. pose proof (N.eqb_eq (r_dim r) (r_dim y)) as D.
  destruct op; destruct (topo_eqb (r_topo r) (r_topo y)), (r_dim r =? r_dim y); brute.
Qed.

Theorem pc_concatenate y : complete_for (Concatenate y).
Proof.
  intros r. unfold check, rungs, doc_pre. cbn [first_fail].
  destruct (topo_eqb (r_topo r) (r_topo y)) eqn:E1; norm_hyps; cbn [negb]; [|split; [discriminate|intros [H _]; congruence]].
  destruct (dim_gt (r_dim y) (max_dim - r_dim r)) eqn:E2; norm_hyps; split; intros H; try discriminate; try reflexivity; try tauto; try (destruct H; lia).
Qed.

Theorem pc_add_dims_embed m : complete_for (Add_dims_embed m).
Proof. intros r. unfold check, rungs, doc_pre. cbn [first_fail]. destruct (dim_gt m (max_dim - r_dim r)) eqn:E; norm_hyps; split; intros H; try discriminate; try reflexivity; lia. Qed.
Theorem pc_add_dims_project m : complete_for (Add_dims_project m).
Proof. exact (pc_add_dims_embed m). Qed.

Theorem pc_expand v m : complete_for (Expand v m).
Proof.
  intros r. unfold check, rungs, doc_pre. cbn [first_fail].
  destruct (dim_gt (var_dim v) (r_dim r)) eqn:E1; norm_hyps; [split; [discriminate|intros [H _]; unfold var_dim in *; lia]|].
  apply var_dim_le in E1.
  destruct (dim_gt m (max_dim - r_dim r)) eqn:E2; norm_hyps; split; intros H; try discriminate; try reflexivity; try tauto; try (destruct H; lia).
Qed.

Theorem pc_fold vs v : complete_for (Fold vs v).
Proof.
  intros r. unfold check, rungs, doc_pre. destruct vs as [|a vs].
  - rewrite pc_dim1, var_dim_le. cbn [In]. split; [intros H; repeat split; auto; intros w []|tauto].
  - set (ws := a :: vs). cbn [first_fail].
    destruct (dim_gt (var_dim v) (r_dim r)) eqn:E1; norm_hyps; [split; [discriminate|intros [H _]; unfold var_dim in *; lia]|].
    apply var_dim_le in E1.
    destruct (dim_gt (vset_dim ws) (r_dim r)) eqn:E2; norm_hyps.
    + split; [discriminate|]. intros [_ [H _]]. apply (proj2 (vset_dim_le ws (r_dim r))) in H. lia.
    + pose proof (proj1 (vset_dim_le ws (r_dim r)) E2) as E2'. destruct (existsb (N.eqb v) ws) eqn:E3.
      * apply existsb_eqb_In in E3. split; [discriminate|]. intros [_ [_ H]]. contradiction.
      * split; [|reflexivity]. intros _. split; [exact E1|]. split; [exact E2'|]. intros Hin. apply existsb_eqb_In in Hin. congruence.
Qed.

Theorem pc_add_constraint k : complete_for (Add_constraint k).
Proof.
  intros r. unfold check, rungs, doc_pre, closed_p, trivial_c.
  destruct (topo_eqb (r_topo r) TC) eqn:E1; norm_hyps; cbn [andb].
  - destruct (c_strict k) eqn:E2.
    + destruct (c_triv k); cbn [is_taut is_incons orb first_fail andb]; split; intros H; try reflexivity; try discriminate;
        try (left; repeat split; auto; fail).
      destruct H as [[_ [_ [H|H]]]|[H _]]; try discriminate. exfalso; apply H; auto.
    + cbn [first_fail]. destruct (dim_gt (c_dim k) (r_dim r)) eqn:E3; norm_hyps; split; intros H; try discriminate; try reflexivity.
      * destruct H as [[_ [H _]]|[_ H]]; [discriminate|lia].
      * right. split; [intros [_ H']; discriminate|exact E3].
  - cbn [first_fail]. destruct (dim_gt (c_dim k) (r_dim r)) eqn:E3; norm_hyps; split; intros H; try discriminate; try reflexivity.
    + destruct H as [[H _]|[_ H]]; [congruence|lia].
    + right. split; [intros [H' _]; congruence|exact E3].
Qed.

Lemma pc_add_cs_aux r cs :
  first_fail (if topo_eqb (r_topo r) TC && has_strict cs then [ (existsb nontrivial_strict (cs_rows cs), ia) ] else [ (dim_gt (cs_dim cs) (r_dim r), ia) ]) = None
  <-> (closed_p r /\ has_strict cs = true /\ forall k, In k (cs_rows cs) -> nontrivial_strict k = false) \/
      (~ (closed_p r /\ has_strict cs = true) /\ cs_dim cs <= r_dim r).
Proof.
  unfold closed_p. destruct (topo_eqb (r_topo r) TC) eqn:E1; norm_hyps; cbn [andb].
  - destruct (has_strict cs) eqn:E2; cbn [first_fail].
    + destruct (existsb nontrivial_strict (cs_rows cs)) eqn:E3; split; intros H; try discriminate; try reflexivity.
      * destruct H as [[_ [_ H]]|[H _]]; [|exfalso; apply H; auto]. apply existsb_false_forall in H. congruence.
      * left. repeat split; auto. now apply existsb_false_forall.
    + destruct (dim_gt (cs_dim cs) (r_dim r)) eqn:E3; norm_hyps; split; intros H; try discriminate; try reflexivity.
      * destruct H as [[_ [H _]]|[_ H]]; [discriminate|lia].
      * right. split; [intros [_ H']; discriminate|exact E3].
  - cbn [first_fail]. destruct (dim_gt (cs_dim cs) (r_dim r)) eqn:E3; norm_hyps; split; intros H; try discriminate; try reflexivity.
    + destruct H as [[H _]|[_ H]]; [congruence|lia].
    + right. split; [intros [H' _]; congruence|exact E3].
Qed.
Theorem pc_add_constraints cs : complete_for (Add_constraints cs).
Proof. intros r. apply pc_add_cs_aux. Qed.
Theorem pc_add_recycled_constraints cs : complete_for (Add_recycled_constraints cs).
Proof. intros r. apply pc_add_cs_aux. Qed.

Lemma gkind_closure g : is_closure_k g = true <-> g = G_closure.
Proof. destruct g; cbn; split; intros H; try reflexivity; discriminate. Qed.
Lemma gkind_point g : is_point_k g = true <-> g = G_point.
Proof. destruct g; cbn; split; intros H; try reflexivity; discriminate. Qed.

Theorem pc_add_generator g : complete_for (Add_generator g).
Proof.
  intros r. unfold check, rungs, doc_pre, closed_p.
  pose proof (topo_eqb_eq (r_topo r) TC) as T. pose proof (gkind_closure (g_kind g)) as K1. pose proof (gkind_point (g_kind g)) as K2.
  pose proof (dim_gt_false (g_dim g) (r_dim r)) as D.
  destruct (topo_eqb (r_topo r) TC), (is_closure_k (g_kind g)), (dim_gt (g_dim g) (r_dim r)), (r_empty r), (is_point_k (g_kind g)); brute.
Qed.

Lemma pc_add_gs_aux r gs :
  first_fail [ (topo_eqb (r_topo r) TC && has_closure_points gs, ia); (dim_gt (gs_dim gs) (r_dim r), ia);
               (negb (match gs_rows gs with [] => true | _ => false end) && r_empty r && negb (has_points gs), ia) ] = None
  <-> ~ (closed_p r /\ has_closure_points gs = true) /\ gs_dim gs <= r_dim r /\ (gs_rows gs <> [] -> r_empty r = true -> has_points gs = true).
Proof.
  unfold closed_p.
  pose proof (topo_eqb_eq (r_topo r) TC) as T. pose proof (dim_gt_false (gs_dim gs) (r_dim r)) as D.
  destruct (gs_rows gs) as [|g0 gr] eqn:E0;
  destruct (topo_eqb (r_topo r) TC), (has_closure_points gs), (dim_gt (gs_dim gs) (r_dim r)), (r_empty r), (has_points gs); brute.
Qed.
Theorem pc_add_generators gs : complete_for (Add_generators gs).
Proof. intros r. apply pc_add_gs_aux. Qed.
Theorem pc_add_recycled_generators gs : complete_for (Add_recycled_generators gs).
Proof. intros r. apply pc_add_gs_aux. Qed.

Theorem pc_add_congruence cg : complete_for (Add_congruence cg).
Proof.
  intros r. unfold check, rungs, doc_pre. cbn [first_fail].
  destruct (dim_gt (cg_dim cg) (r_dim r)) eqn:E1; norm_hyps; [split; [discriminate|intros [H _]; lia]|].
  destruct (cg_proper cg); cbn [andb]; [|split; [intros _; split; [exact E1|discriminate]|reflexivity]].
  destruct (cg_triv cg); cbn [is_taut is_incons negb andb]; split; intros H; try discriminate; try reflexivity; try (split; auto; fail).
  destruct H as [_ H]. destruct (H eq_refl); discriminate.
Qed.

Theorem pc_add_congruences cgs : complete_for (Add_congruences cgs).
Proof.
  intros r. unfold check, rungs, doc_pre. cbn [first_fail].
  destruct (dim_gt (cgs_dim cgs) (r_dim r)) eqn:E1; norm_hyps; [split; [discriminate|intros [H _]; lia]|].
  destruct (cgs_loop (cgs_rows cgs)); split; intros H; try discriminate; try reflexivity; try (split; auto; fail). destruct H; discriminate.
Qed.

Theorem pc_limited_extrapolation y cs : complete_for (Limited_extrapolation y cs).
Proof.
  intros r. unfold check, rungs, doc_pre, compat, closed_p. destruct (cs_rows cs) as [|k0 kr] eqn:E0.
  - cbn [first_fail].
    destruct (topo_eqb (r_topo r) (r_topo y)) eqn:E1; norm_hyps; cbn [negb]; [|split; [discriminate|intros [[H _] _]; congruence]].
    destruct (r_dim r =? r_dim y) eqn:E2; norm_hyps; cbn [negb]; split; intros H; try discriminate; try reflexivity.
    + split; [tauto|]. intros X; congruence.
    + destruct H as [[_ H] _]. congruence.
  - cbn [first_fail].
    destruct (topo_eqb (r_topo r) (r_topo y)) eqn:E1; norm_hyps; cbn [negb]; [|split; [discriminate|intros [[H _] _]; congruence]].
    assert (NE : k0 :: kr <> []) by discriminate.
    destruct (topo_eqb (r_topo r) TC) eqn:E3; norm_hyps; cbn [andb].
    + destruct (has_strict cs) eqn:E4; [split; [discriminate|intros [_ H]; destruct (H NE) as [A _]; specialize (A E3); discriminate]|].
      destruct (r_dim r =? r_dim y) eqn:E2; norm_hyps; cbn [negb]; [|split; [discriminate|intros [[_ H] _]; congruence]].
      destruct (dim_gt (cs_dim cs) (r_dim r)) eqn:E5; norm_hyps; split; intros H; try discriminate; try reflexivity.
      * destruct H as [_ H]. destruct (H NE) as [_ B]. lia.
      * split; [tauto|]. intros _. split; auto.
    + destruct (r_dim r =? r_dim y) eqn:E2; norm_hyps; cbn [negb]; [|split; [discriminate|intros [[_ H] _]; congruence]].
      destruct (dim_gt (cs_dim cs) (r_dim r)) eqn:E5; norm_hyps; split; intros H; try discriminate; try reflexivity.
      * destruct H as [_ H]. destruct (H NE) as [_ B]. lia.
      * split; [tauto|]. intros _. split; [intros X; congruence|exact E5].
Qed.

Theorem pc_ctor_dim m : complete_for (Ctor_dim m).
Proof. intros r. unfold check, rungs, doc_pre. cbn [first_fail]. destruct (dim_gt m max_dim) eqn:E; norm_hyps; split; intros H; try discriminate; try reflexivity; lia. Qed.

Theorem pc_ctor_cons t cs : complete_for (Ctor_cons t cs).
Proof.
  intros r. unfold check, rungs, doc_pre.
  pose proof (topo_eqb_eq t TC) as T. pose proof (dim_gt_false (cs_dim cs) max_dim) as D.
  destruct (dim_gt (cs_dim cs) max_dim), (topo_eqb t TC), (has_strict cs); brute.
Qed.

Theorem pc_ctor_gens t gs : complete_for (Ctor_gens t gs).
Proof.
  intros r. unfold check, rungs, doc_pre. destruct (gs_rows gs) as [|g0 gr] eqn:E0; cbn [first_fail].
  - destruct (dim_gt (gs_dim gs) max_dim) eqn:E1; norm_hyps; split; intros H; try discriminate; try reflexivity.
    + destruct H; lia.
    + split; [exact E1|intros X; congruence].
  - assert (NE : g0 :: gr <> []) by discriminate.
    destruct (dim_gt (gs_dim gs) max_dim) eqn:E1; norm_hyps; [split; [discriminate|intros [H _]; lia]|].
    destruct (has_points gs) eqn:E2; cbn [negb]; [|split; [discriminate|intros [_ H]; destruct (H NE); discriminate]].
    destruct (topo_eqb t TC) eqn:E3; norm_hyps; cbn [andb].
    + destruct (has_closure_points gs) eqn:E4; split; intros H; try discriminate; try reflexivity.
      * destruct H as [_ H]. destruct (H NE) as [_ B]. specialize (B E3). discriminate.
      * split; [exact E1|]. intros _. split; auto.
    + split; [|reflexivity]. intros _. split; [exact E1|]. intros _. split; [reflexivity|intros X; congruence].
Qed.

(* all operations at once *)
Theorem precond_complete : forall c r, check r c = None <-> doc_pre r c.
Proof.
  intros c. destruct c.
  - apply pc_add_constraint. - apply pc_refine_with_constraint. - apply pc_add_constraints. - apply pc_add_recycled_constraints.
  - apply pc_refine_with_constraints. - apply pc_add_generator. - apply pc_add_generators. - apply pc_add_recycled_generators.
  - apply pc_add_congruence. - apply pc_refine_with_congruence. - apply pc_add_congruences. - apply pc_refine_with_congruences.
  - apply pc_binary. - apply pc_concatenate. - apply pc_affine_image. - apply pc_affine_preimage.
  - apply pc_bounded_affine_image. - apply pc_bounded_affine_preimage. - apply pc_gen_affine_image. - apply pc_gen_affine_preimage.
  - apply pc_gen_affine_image_lhs. - apply pc_gen_affine_preimage_lhs. - apply pc_unconstrain. - apply pc_unconstrain_set.
  - apply pc_add_dims_embed. - apply pc_add_dims_project. - apply pc_remove_dims. - apply pc_remove_higher.
  - apply pc_expand. - apply pc_fold. - apply pc_limited_extrapolation.
  - apply pc_relation_with_con. - apply pc_relation_with_gen. - apply pc_relation_with_cg. - apply pc_constrains.
  - apply pc_bounds. - apply pc_max_min. - apply pc_frequency. - apply pc_ctor_dim. - apply pc_ctor_cons. - apply pc_ctor_gens.
Qed.

(* the class thrown: length_error exactly for the space-dimension-overflow rungs, invalid_argument otherwise;
   domain_error / logic_error never come out of Polyhedron *)
Lemma first_fail_in l e : first_fail l = Some e -> In (true, e) l.
Proof. induction l as [|[b x] l IH]; cbn [first_fail]; [discriminate|]. destruct b; intros H; [inversion H; now left|right; auto]. Qed.

Definition overflow_call (r : recv) (c : call) : Prop :=
  match c with
  | Concatenate y => r_topo r = r_topo y /\ max_dim - r_dim r < r_dim y
  | Add_dims_embed m | Add_dims_project m => max_dim - r_dim r < m
  | Expand v m => v < r_dim r /\ max_dim - r_dim r < m
  | Ctor_dim m => max_dim < m
  | Ctor_cons _ cs => max_dim < cs_dim cs
  | Ctor_gens _ gs => max_dim < gs_dim gs
  | _ => False
  end.

Theorem exn_class_documented r c e :
  check r c = Some e -> (e = Length_error /\ overflow_call r c) \/ (e = Invalid_argument /\ ~ overflow_call r c).
Proof.
  unfold check. destruct c; try (match goal with o : binop |- _ => destruct o end); cbn [rungs overflow_call];
  repeat match goal with
  | |- context [match ?x with [] => _ | _ :: _ => _ end] => destruct x
  | |- context [if ?b then _ else _] => let E := fresh "E" in destruct b eqn:E
  end; cbn [first_fail];
  repeat match goal with |- context [dim_gt ?a ?b] => let E := fresh "E" in destruct (dim_gt a b) eqn:E end;
  repeat match goal with |- context [topo_eqb ?a ?b] => let E := fresh "E" in destruct (topo_eqb a b) eqn:E end;
  norm_hyps; cbn [negb andb first_fail];
  repeat match goal with |- context [if ?b then _ else _] => destruct b end;
  intros H; inversion H; subst; try discriminate;
  try (right; split; [reflexivity|]; try tauto; try (intros [A B]; try congruence; try lia); try (unfold var_dim in *; lia); fail);
  try (left; split; [reflexivity|]; try split; try assumption; try lia; try (unfold var_dim in *; lia); fail).
Qed.

End WithMax.


(* ---- map_space_dimensions (Polyhedron_templates.hh:160-230): the ONLY validation is in the permutation case
   (max_in_codomain + 1 = space_dim): a dimension with no image throws invalid_argument.  The documented
   precondition (a partial INJECTIVE map whose codomain is an initial segment) is not checked. ---- *)
Definition pf_get (pf : list (option N)) (i : nat) : option N := nth i pf None.
Definition pf_max (pf : list (option N)) : option N :=
  fold_right (fun o m => match o, m with Some j, Some k => Some (N.max j k) | Some j, None => Some j | None, m => m end) None pf.
Definition map_check (n : nat) (pf : list (option N)) : option exn :=
  match pf_max (firstn n pf) with
  | None => None                                           (* empty codomain: all dimensions removed *)
  | Some mx => if (mx + 1 =? N.of_nat n)
               then (if existsb (fun i => match pf_get pf i with None => true | Some _ => false end) (seq 0 n) then Some Invalid_argument else None)
               else None
  end.
Definition pf_injective (n : nat) (pf : list (option N)) : Prop :=
  forall i j k, (i < n)%nat -> (j < n)%nat -> pf_get pf i = Some k -> pf_get pf j = Some k -> i = j.
Definition pf_segment (n : nat) (pf : list (option N)) : Prop :=
  forall mx, pf_max (firstn n pf) = Some mx -> forall k, k <= mx -> exists i, (i < n)%nat /\ pf_get pf i = Some k.
Definition map_doc (n : nat) (pf : list (option N)) : Prop := pf_injective n pf /\ pf_segment n pf.
Definition map_precond_complete_full : Prop := forall n pf, map_check n pf = None <-> map_doc n pf.

(* the ladder is too weak: a non-injective map is accepted (undefined behaviour follows in the library) *)
Theorem map_precond_complete_refuted : ~ map_precond_complete_full.
Proof.
  intros H. destruct (H 3%nat [Some 0; Some 0; None]) as [H1 _].
  assert (E : map_check 3 [Some 0; Some 0; None] = None) by reflexivity.
  destruct (H1 E) as [Inj _]. specialize (Inj 0%nat 1%nat 0 ltac:(lia) ltac:(lia) eq_refl eq_refl). discriminate.
Qed.
(* what does hold: whatever the ladder rejects violates the documented precondition (never too strong) *)
Theorem map_precond_sound_partial n pf : map_doc n pf -> map_check n pf = None.
Proof.
  intros [Inj Seg]. unfold map_check. destruct (pf_max (firstn n pf)) as [mx|] eqn:E; [|reflexivity].
  destruct (mx + 1 =? N.of_nat n) eqn:E2; [|reflexivity]. apply N.eqb_eq in E2.
  destruct (existsb _ (seq 0 n)) eqn:E3; [|reflexivity]. exfalso.
  (* n values 0..mx all have preimages among n positions, injectively: so every position is mapped *)
  apply existsb_exists in E3. destruct E3 as [i0 [Hi0 Hn]]. apply in_seq in Hi0.
  destruct (pf_get pf i0) eqn:G; [discriminate|].
  (* choose preimages *)
  assert (P : forall k, (k < n)%nat -> exists i, (i < n)%nat /\ pf_get pf i = Some (N.of_nat k)).
  { intros k Hk. apply (Seg mx E). lia. }
  (* pigeonhole: the n preimages are pairwise distinct positions different from i0, all < n *)
  assert (Q : forall m, (m <= n)%nat -> exists l, length l = m /\ NoDup l /\ (forall i, In i l -> (i < n)%nat /\ i <> i0 /\ exists k, (k < m)%nat /\ pf_get pf i = Some (N.of_nat k))).
  { induction m as [|m IH]; intros Hm.
    - exists []. split; [reflexivity|]. split; [apply NoDup_nil|intros i []].
    - destruct (IH ltac:(lia)) as [l [L1 [L2 L3]]]. destruct (P m ltac:(lia)) as [i [Hi Gi]].
      exists (i :: l). split; [cbn; lia|]. split.
      + constructor; [|exact L2]. intros Hin. destruct (L3 i Hin) as [_ [_ [k [Hk Gk]]]]. rewrite Gi in Gk. inversion Gk. lia.
      + intros j [<-|Hj].
        * repeat split; auto. intros ->. congruence. exists m. split; [lia|exact Gi].
        * destruct (L3 j Hj) as [A [B [k [Hk Gk]]]]. repeat split; auto. exists k. split; [lia|exact Gk]. }
  destruct (Q n (le_n n)) as [l [L1 [L2 L3]]].
  assert (Incl : incl (i0 :: l) (seq 0 n)).
  { intros j [<-|Hj]; apply in_seq; [lia|]. destruct (L3 j Hj). lia. }
  assert (ND : NoDup (i0 :: l)).
  { constructor; [|exact L2]. intros Hin. destruct (L3 i0 Hin) as [_ [B _]]. congruence. }
  pose proof (NoDup_incl_length ND Incl) as Len. cbn [length] in Len. rewrite seq_length in Len. lia.
Qed.
Example map_doc_sat : map_doc 2 [Some 1; Some 0].
Proof.
  split.
  - intros i j k Hi Hj. destruct i as [|[|i]], j as [|[|j]]; cbn; intros A B; try lia; congruence.
  - intros mx E k Hk. cbn in E. inversion E; subst. assert (k = 0 \/ k = 1) as [->| ->] by lia; [exists 1%nat|exists 0%nat]; cbn; split; auto.
Qed.


(* ---- sibling ladders outside Polyhedron (the cheap ones) ----
   Box<ITV>::add_constraint (Box_inlines.hh add_constraint + Box_templates.hh add_constraint_no_check): dimension, then
   "c is an interval constraint" (Box_Helpers::extract_interval_constraint), then "nontrivial strict constraint on an always-closed ITV";
   NOTHING depends on the receiver being empty: the emptiness shortcut comes after the validation. *)
Record box_cshape := { bc_dim : N; bc_interval : bool; bc_strict : bool; bc_nvars : N }.
Definition box_add_constraint_check (n : N) (itv_closed : bool) (c : box_cshape) : option exn :=
  first_fail [ (dim_gt (bc_dim c) n, ia); (negb (bc_interval c), ia); (bc_strict c && negb (bc_nvars c =? 0) && itv_closed, ia) ].
Definition box_add_constraint_doc (n : N) (itv_closed : bool) (c : box_cshape) : Prop :=
  bc_dim c <= n /\ bc_interval c = true /\ ~ (bc_strict c = true /\ bc_nvars c <> 0 /\ itv_closed = true).
Theorem box_add_constraint_complete n cl c : box_add_constraint_check n cl c = None <-> box_add_constraint_doc n cl c.
Proof.
  unfold box_add_constraint_check, box_add_constraint_doc.
  pose proof (dim_gt_false (bc_dim c) n) as D. pose proof (N.eqb_eq (bc_nvars c) 0) as E.
  destruct (dim_gt (bc_dim c) n), (bc_interval c), (bc_strict c), (bc_nvars c =? 0), cl; cbn [first_fail andb orb negb];
    intuition (try discriminate; try congruence; try lia).
Qed.

(* MIP_Problem::add_constraint / add_constraints (MIP_Problem.cc:164-205): dimension, then strictness; for a system the strictness
   test is made on the WHOLE system before anything is appended (all or nothing) *)
Definition mip_add_constraint_check (n cdim : N) (strict : bool) : option exn := first_fail [ (dim_gt cdim n, ia); (strict, ia) ].
Definition mip_add_constraints_check (n : N) (cs : csshape) : option exn := first_fail [ (dim_gt (cs_dim cs) n, ia); (has_strict cs, ia) ].
Theorem mip_add_constraint_complete n cdim strict : mip_add_constraint_check n cdim strict = None <-> cdim <= n /\ strict = false.
Proof.
  unfold mip_add_constraint_check. pose proof (dim_gt_false cdim n) as D.
  destruct (dim_gt cdim n), strict; cbn [first_fail]; intuition (try discriminate; try lia).
Qed.
Theorem mip_add_constraints_complete n cs :
  mip_add_constraints_check n cs = None <-> cs_dim cs <= n /\ forall k, In k (cs_rows cs) -> c_strict k = true -> c_triv k = Taut.
Proof.
  unfold mip_add_constraints_check, has_strict. pose proof (dim_gt_false (cs_dim cs) n) as D.
  destruct (dim_gt (cs_dim cs) n); cbn [first_fail].
  - split; [discriminate|]. intros [H _]. apply D in H. discriminate.
  - destruct (existsb _ (cs_rows cs)) eqn:E.
    + split; [discriminate|]. intros [_ H]. apply existsb_exists in E. destruct E as [k [Hk Hb]].
      apply andb_true_iff in Hb. destruct Hb as [Hs Ht]. specialize (H k Hk Hs). rewrite H in Ht. discriminate.
    + split; [|reflexivity]. intros _. split; [apply D; reflexivity|]. intros k Hk Hs.
      pose proof (proj1 (existsb_false_forall _ _) E k Hk) as F. cbn beta in F. rewrite Hs in F. cbn [andb] in F.
      destruct (c_triv k); cbn in F; try discriminate; reflexivity.
Qed.
(* the model's step for a system: appended as a whole or not at all *)
Definition mip_add_constraints_step {A} (n : N) (shape : list A -> csshape) (rows : list A) (st : list A) : list A :=
  match mip_add_constraints_check n (shape rows) with None => st ++ rows | Some _ => st end.
Theorem mip_add_constraints_atomic A n (shape : list A -> csshape) rows st e :
  mip_add_constraints_check n (shape rows) = Some e -> mip_add_constraints_step n shape rows st = st.
Proof. unfold mip_add_constraints_step. intros ->. reflexivity. Qed.
Example ex_box_reject_sum : box_add_constraint_check 3 false {| bc_dim := 2; bc_interval := false; bc_strict := false; bc_nvars := 2 |} = Some Invalid_argument.
Proof. reflexivity. Qed.
Example ex_mip_strict_last : mip_add_constraints_check 3 {| cs_dim := 2; cs_rows := [ {| c_dim := 2; c_strict := false; c_triv := Nontriv |}; {| c_dim := 2; c_strict := true; c_triv := Nontriv |} ] |} = Some Invalid_argument.
Proof. reflexivity. Qed.

(* ---- MIP_Problem / PIP_Problem: queries guarded by the solver status ---- *)
Inductive mip_status := Mip_unsolved | Mip_unsat | Mip_sat | Mip_unbounded | Mip_optimized.
Inductive mip_query := Feasible_point | Optimizing_point | Optimal_value | Evaluate_objective (gdim : N) (is_pt : bool).
(* the status is the one AFTER the implicit solve()/is_satisfiable() each query performs *)
Definition mip_check (st : mip_status) (dim : N) (q : mip_query) : option exn :=
  match q with
  | Feasible_point => match st with Mip_unsat => Some Domain_error | _ => None end
  | Optimizing_point | Optimal_value => match st with Mip_optimized => None | _ => Some Domain_error end
  | Evaluate_objective gd pt => if dim <? gd then Some Invalid_argument else if negb pt then Some Invalid_argument else None
  end.
Definition mip_doc (st : mip_status) (dim : N) (q : mip_query) : Prop :=
  match q with
  | Feasible_point => st <> Mip_unsat
  | Optimizing_point | Optimal_value => st = Mip_optimized
  | Evaluate_objective gd pt => gd <= dim /\ pt = true
  end.
Theorem mip_precond_complete st dim q : mip_check st dim q = None <-> mip_doc st dim q.
Proof.
  destruct q; cbn [mip_check mip_doc].
  - destruct st; split; intros H; try reflexivity; try discriminate; try congruence.
  - destruct st; split; intros H; try reflexivity; try discriminate.
  - destruct st; split; intros H; try reflexivity; try discriminate.
  - destruct (dim <? gdim) eqn:E; [apply N.ltb_lt in E|apply N.ltb_ge in E].
    + split; [discriminate|intros [H _]; lia].
    + destruct is_pt; cbn [negb]; split; intros H; try discriminate; try reflexivity; try (split; auto). destruct H; discriminate.
Qed.

(* ---- link with the reference semantics (Poly/PolyOps.v) ---- *)
(* a linear form with [length] <= n has coefficient 0 at position n (the fresh coordinate of the reference operators) *)
Lemma lcoef_beyond (e : lin) (n : nat) : (length (lcoefs e) <= n)%nat -> lcoef e n = 0%Z.
Proof. intros H. unfold lcoef. apply nth_overflow. exact H. Qed.

Definition shape_affine (v : nat) (e : lin) (d : Z) : call :=
  Affine_image (N.of_nat v) (N.of_nat (length (lcoefs e))) (Z.eqb d 0).

(* accepted by the ladder => the side conditions of [affine_image_spec] hold => the reference result is the documented image *)
Theorem affine_image_accepted_defined max_dim topo emp (v n : nat) (e : lin) (d : Z) (s : sys) q :
  check max_dim {| r_topo := topo; r_dim := N.of_nat n; r_empty := emp |} (shape_affine v e d) = None ->
  fresh n s ->
  (sat_sys (PolyOps.affine_image v n e d s) q <->
   exists p, sat_sys s p /\ peq q (upd p v (leval e p / inject_Z d)%Q)).
Proof.
  intros H F. apply pc_affine_image in H. cbn [doc_pre r_dim] in H. destruct H as [Hd [He Hv]].
  apply Z.eqb_neq in Hd.
  apply affine_image_spec; auto.
  - apply lcoef_beyond. lia.
  - lia.
Qed.

Theorem affine_preimage_accepted_defined max_dim topo emp (v n : nat) (e : lin) (d : Z) (s : sys) q :
  check max_dim {| r_topo := topo; r_dim := N.of_nat n; r_empty := emp |}
        (Affine_preimage (N.of_nat v) (N.of_nat (length (lcoefs e))) (Z.eqb d 0)) = None ->
  fresh n s ->
  (sat_sys (PolyOps.affine_preimage v n e d s) q <-> sat_sys s (upd q v (leval e q / inject_Z d)%Q)).
Proof.
  intros H F. apply pc_affine_preimage in H. cbn [doc_pre r_dim] in H. destruct H as [Hd [He Hv]].
  apply Z.eqb_neq in Hd.
  apply affine_preimage_spec; auto.
  - apply lcoef_beyond. lia.
  - lia.
Qed.

Definition rsym_of (r : relsym) : rsym := match r with RLT => R_LT | RLE => R_LE | REQ => R_EQ | RGE => R_GE | RGT => R_GT end.

Theorem generalized_affine_image_accepted_defined max_dim topo emp (v n : nat) (r : relsym) (e : lin) (d : Z) (s : sys) q :
  check max_dim {| r_topo := topo; r_dim := N.of_nat n; r_empty := emp |}
        (Gen_affine_image (N.of_nat v) (rsym_of r) (N.of_nat (length (lcoefs e))) (Z.eqb d 0)) = None ->
  fresh n s ->
  (sat_sys (PolyOps.generalized_affine_image v n r e d s) q <->
   exists w, sat_sys s (upd q v w) /\ rel_holds r (q v) (leval e (upd q v w) / inject_Z d)%Q)
  /\ (topo = TC -> r <> RLT /\ r <> RGT).
Proof.
  intros H F. apply pc_gen_affine_image in H. cbn [doc_pre r_dim] in H. destruct H as [Hd [He [Hv [Hne Hst]]]].
  apply Z.eqb_neq in Hd. split.
  - apply generalized_affine_image_spec; auto; [apply lcoef_beyond; lia|lia].
  - intros ->. destruct (Hst eq_refl) as [A B]. destruct r; cbn in A, B; split; congruence.
Qed.

Theorem bounded_affine_image_accepted_defined max_dim topo emp (v n : nat) (lb ub : lin) (d : Z) (s : sys) q :
  check max_dim {| r_topo := topo; r_dim := N.of_nat n; r_empty := emp |}
        (Bounded_affine_image (N.of_nat v) (N.of_nat (length (lcoefs lb))) (N.of_nat (length (lcoefs ub))) (Z.eqb d 0)) = None ->
  fresh n s ->
  (sat_sys (PolyOps.bounded_affine_image v n lb ub d s) q <->
   exists w, sat_sys s (upd q v w) /\
             (leval lb (upd q v w) / inject_Z d <= q v /\ q v <= leval ub (upd q v w) / inject_Z d)%Q).
Proof.
  intros H F. apply pc_bounded_affine_image in H. cbn [doc_pre r_dim] in H. destruct H as [Hd [Hv [Hl Hu]]].
  apply Z.eqb_neq in Hd.
  apply bounded_affine_image_spec; auto; try (apply lcoef_beyond; lia). lia.
Qed.

(* the checks are not stronger than needed for the division: with d = 0 the documented image is not defined,
   and the ladder rejects exactly then (first rung) *)
Theorem zero_denominator_rejected max_dim r v e : check max_dim r (Affine_image v e true) = Some Invalid_argument.
Proof. reflexivity. Qed.

(* ---- non-vacuity ---- *)
Example ex_accept : check 1000 {| r_topo := TC; r_dim := 3; r_empty := false |} (Affine_image 2 3 false) = None.
Proof. reflexivity. Qed.
Example ex_reject_den : check 1000 {| r_topo := TC; r_dim := 3; r_empty := false |} (Affine_image 2 3 true) = Some Invalid_argument.
Proof. reflexivity. Qed.
Example ex_reject_var : check 1000 {| r_topo := TC; r_dim := 3; r_empty := false |} (Affine_image 3 3 false) = Some Invalid_argument.
Proof. reflexivity. Qed.
Example ex_overflow : check 1000 {| r_topo := TNNC; r_dim := 3; r_empty := false |} (Add_dims_embed 998) = Some Length_error.
Proof. reflexivity. Qed.
Example ex_strict_trivial : check 1000 {| r_topo := TC; r_dim := 1; r_empty := false |} (Add_constraint {| c_dim := 5; c_strict := true; c_triv := Incons |}) = None.
Proof. reflexivity. Qed.
Example ex_gen_empty : check 1000 {| r_topo := TC; r_dim := 2; r_empty := true |} (Add_generator {| g_dim := 2; g_kind := G_ray |}) = Some Invalid_argument.
Proof. reflexivity. Qed.
Example ex_fresh_sat : fresh 1 {| eqs := []; ineqs := [] |}.
Proof. split; intros x []. Qed.
