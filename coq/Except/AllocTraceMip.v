(* C14: observable allocation trace of MIP_Problem::add_constraint_helper (model: AllocProgs.add_constraint_helper, proved
   balanced for all k by mip_add_constraint_unwind_balanced) on a vector input_cs holding [size] constraints in a buffer of
   capacity [cap]; only the buffer of the receiver matters for the trace (the stored constraints are not touched by the call). *)
From Coq Require Import List NArith.
Require Import PPLV.Except.Alloc PPLV.Except.AllocProgs.
Import ListNotations.
Local Open Scope N_scope.

Definition build_cvec (size cap : N) : M cvec unit :=
  bind (if N.eqb cap 0 then ret tt
        else bind (alloc LNew (8 * cap)) (fun b => put (mkCv (Some b) cap [])))
       (fun _ => modify (fun v => mkCv (vbuf v) (vcap v) (repeat [] (N.to_nat size)))).

Definition tr_mip_add_at (size cap newcap csize : N) (subs : list (layer * N)) (k : N) : obs :=
  match build_cvec size cap (mkCv None 0 []) empty_heap with
  | Ret _ v h0 => observe (fun v : cvec => map fst (owned_cv v)) (add_constraint_helper newcap csize subs v (start k h0))
  | _ => failed_setup
  end.

(* full vector (4 of 4): reserve first, then the node, then its sub-allocations; the old buffer is freed by the reserve *)
Example ex_tr_mip_add_at_full :
  tr_mip_add_at 4 4 12 32 [(LNew, 24); (LGmp, 8)] 0 =
  (true, [EvAlloc LNew 96; EvFree LNew 32; EvAlloc LNew 32; EvAlloc LNew 24; EvAlloc LGmp 8], 0, 4).
Proof. vm_compute. reflexivity. Qed.
Example ex_tr_mip_add_at_full_k1 :
  tr_mip_add_at 4 4 12 32 [(LNew, 24); (LGmp, 8)] 1 = (false, [EvFail LNew 96], 0, 1).
Proof. vm_compute. reflexivity. Qed.
(* room left (2 of 4): no reserve *)
Example ex_tr_mip_add_at_room :
  tr_mip_add_at 2 4 12 32 [(LNew, 24)] 0 = (true, [EvAlloc LNew 32; EvAlloc LNew 24], 0, 3).
Proof. vm_compute. reflexivity. Qed.
