(* ------------------------------------------------------------------------- *)
(*  C14  Except/AllocProgs.v : PPL's hand-written allocation guards,          *)
(*  transcribed AS WRITTEN into the resource monad of Except/Alloc.v, with    *)
(*  "unwind balanced" theorems for every fault position k.                    *)
(*                                                                           *)
(*  Conventions                                                              *)
(*   - sizeof(dimension_type) = 8, sizeof(Coefficient) = 16, GMP limb = 8.   *)
(*   - copy-constructing a Coefficient from a source with [limbs] limbs is   *)
(*     ONE request on LGmp of 8 * max 1 limbs bytes; default construction    *)
(*     allocates nothing; destruction frees the limb block if there is one.  *)
(*   - [ledger_eq] = Permutation of (id,(layer,size)) lists.                  *)
(*   - theorems are stated for every initial heap with [wf h] and every k;   *)
(*     they are in fact proved for every value of the fault fuel.            *)
(*   - plain names (init, assign, iter_ctor, copy_ctor, ...) denote the      *)
(*     CURRENT code of /repo (after commits b69eb94 and 53a83c0); the        *)
(*     program text before those commits is kept as old_init, old_assign,    *)
(*     old_iter_ctor, with its refutations as old_* theorems.                *)
(* ------------------------------------------------------------------------- *)
From Coq Require Import List NArith Arith Lia Bool Permutation.
From PPLV Require Import Except.Alloc.
Import ListNotations.
Import MNotations.
Local Open Scope N_scope.

Definition sz_dim : N := 8.      (* sizeof(dimension_type) *)
Definition sz_coeff : N := 16.   (* sizeof(Coefficient) = sizeof(mpz_class) *)
Definition limb_bytes (limbs : N) : N := 8 * N.max 1 limbs.

(* ---------- insertion sort by an N key (destroy() walks positions) ------- *)

Fixpoint insert_by {A} (key : A -> N) (x : A) (l : list A) : list A :=
  match l with
  | [] => [x]
  | y :: l' => if N.leb (key x) (key y) then x :: l else y :: insert_by key x l'
  end.

Fixpoint sort_by {A} (key : A -> N) (l : list A) : list A :=
  match l with
  | [] => []
  | x :: l' => insert_by key x (sort_by key l')
  end.

Lemma insert_by_perm {A} (key : A -> N) x l : Permutation (insert_by key x l) (x :: l).
Proof.
  induction l as [|y l IH]; cbn.
  - apply Permutation_refl.
  - destruct (N.leb (key x) (key y)).
    + apply Permutation_refl.
    + eapply Permutation_trans; [apply perm_skip; exact IH | apply perm_swap].
Qed.

Lemma sort_by_perm {A} (key : A -> N) l : Permutation (sort_by key l) l.
Proof.
  induction l as [|x l IH]; cbn.
  - constructor.
  - eapply Permutation_trans; [apply insert_by_perm | apply perm_skip; exact IH].
Qed.

(* ========================================================================= *)
(*  CO_Tree                                                                  *)
(* ========================================================================= *)

(* elems: (dfs position, limb block (id, bytes) of the element stored there) *)
Record tree := mkTree {
  indexes : option nat;
  data    : option nat;
  rsz     : N;
  elems   : list (N * option (nat * N));
  (* the cached end iterators cached_end / cached_const_end (CO_Tree_defs.hh):
     = iterator( *this, reserved_size + 1), i.e. the address
     &indexes[reserved_size + 1]; recorded as (block of the indexes array they
     were computed from (None = nullptr), reserved_size they were computed with).
     They are re-established only by refresh_cached_iterators(). *)
  cend    : option nat * N
}.

Definition empty_tree : tree := mkTree None None 0 [] (None, 0).

(* refresh_cached_iterators()   CO_Tree_inlines.hh:342 *)
Definition refresh (t : tree) : tree :=
  mkTree (indexes t) (data t) (rsz t) (elems t) (indexes t, rsz t).

(* the five fields reset at the top of init(); the cached iterators are NOT *)
Definition reset_tree (t : tree) : tree := mkTree None None 0 [] (cend t).

Definition opt_blk (l : layer) (sz : N) (ob : option nat) : list blk :=
  match ob with Some b => [(b, (l, sz))] | None => [] end.

Definition elem_blk (e : N * option (nat * N)) : list blk :=
  match snd e with Some (b, sz) => [(b, (LGmp, sz))] | None => [] end.

Definition elems_blks (es : list (N * option (nat * N))) : list blk :=
  flat_map elem_blk es.

(* the blocks a tree owns, with the layer and size they must be recorded with *)
Definition frame_blks (t : tree) : list blk :=
  opt_blk LNew (sz_dim * (rsz t + 2)) (indexes t)
  ++ opt_blk LNew (sz_coeff * (rsz t + 1)) (data t).

Definition owned_tree (t : tree) : list blk :=
  frame_blks t ++ elems_blks (elems t).

(* analogue of structure_OK() *)
Definition tree_inv (t : tree) : Prop :=
  (rsz t = 0 -> indexes t = None /\ data t = None /\ elems t = [])
  /\ (rsz t <> 0 -> indexes t <> None /\ data t <> None)
  /\ (exists d, rsz t + 1 = 2 ^ d)
  (* the last two tests of structure_OK(): cached_end / cached_const_end
     == iterator( *this, reserved_size + 1) *)
  /\ cend t = (indexes t, rsz t).

Lemma tree_inv_empty : tree_inv empty_tree.
Proof.
  split; [|split; [|split]]; cbn.
  - auto.
  - intros H; contradiction H; reflexivity.
  - exists 0. reflexivity.
  - reflexivity.
Qed.

(* reserved size computed by init(n) *)
Definition rsz_for (n : N) : N := 2 ^ (N.log2 n + 1) - 1.

Lemma rsz_for_pow : forall n, rsz_for n + 1 = 2 ^ (N.log2 n + 1).
Proof.
  intros n. unfold rsz_for.
  assert (2 ^ (N.log2 n + 1) <> 0) by (apply N.pow_nonzero; discriminate).
  set (p := 2 ^ (N.log2 n + 1)) in *. clearbody p. lia.
Qed.

Lemma rsz_for_nonzero : forall n, rsz_for n <> 0.
Proof.
  intros n. pose proof (rsz_for_pow n) as H.
  replace (N.log2 n + 1) with (N.succ (N.log2 n)) in H by lia.
  rewrite N.pow_succ_r' in H.
  assert (2 ^ N.log2 n <> 0) by (apply N.pow_nonzero; discriminate).
  set (p := 2 ^ N.log2 n) in *. clearbody p. lia.
Qed.

(* init(r) applied to a reserved size r = 2^d - 1 reserves exactly r *)
Lemma rsz_for_pow2m1 : forall d, 0 < d -> rsz_for (2 ^ d - 1) = 2 ^ d - 1.
Proof.
  intros d Hd. unfold rsz_for.
  replace (2 ^ d - 1) with (N.pred (2 ^ d)) by apply N.pred_sub.
  rewrite N.log2_pred_pow2 by exact Hd.
  replace (N.pred d + 1) with d by lia. symmetry. apply N.pred_sub.
Qed.

(* ---- (a) CO_Tree::init(n)   CO_Tree.cc:608 ----
   [fixed] = true is the CURRENT code (commit b69eb94): the five fields are
   reset, refresh_cached_iterators() is called, the allocations are made, and
   refresh_cached_iterators() is called again at the very end.
   [fixed] = false is the program text before commit b69eb94: no refresh after
   the reset, hence none on the two exceptional exits. *)
Definition init_gen (fixed : bool) (n : N) : M tree unit :=
  modify reset_tree ;;;            (* indexes = data = 0; size_ = reserved_size = max_depth = 0 *)
  (if fixed then modify refresh else ret tt) ;;;
  (if N.eqb n 0 then ret tt
   else
     let r := rsz_for n in
     (* indexes = new dimension_type[new_reserved_size + 2]; *)
     bi <- alloc LNew (sz_dim * (r + 2)) ;;
     modify (fun t => mkTree (Some bi) (data t) (rsz t) (elems t) (cend t)) ;;;
     (* try { data = allocate(r + 1) } catch (...) { delete[] indexes; indexes = 0; throw; } *)
     bd <- try_catch (alloc LNew (sz_coeff * (r + 1)))
             (t <- get ;;
              free_opt LNew (indexes t) ;;;
              modify (fun t => mkTree None (data t) (rsz t) (elems t) (cend t)) ;;;
              throw) ;;
     modify (fun t => mkTree (indexes t) (Some bd) r (elems t) (cend t))) ;;;
  modify refresh.                  (* refresh_cached_iterators(); *)

(* the current code *)
Definition init : N -> M tree unit := init_gen true.
(* program text before commit b69eb94 / 53a83c0 *)
Definition old_init : N -> M tree unit := init_gen false.

Lemma init_gen_sat : forall fixed n s h X,
  Lg X h ->
  sat (init_gen fixed n s h)
      (fun _ s' h' => tree_inv s' /\ elems s' = [] /\
                      rsz s' = (if N.eqb n 0 then 0 else rsz_for n) /\
                      Lg (owned_tree s' ++ X) h')
      (fun s' h' => s' = (if fixed then empty_tree else reset_tree s) /\ Lg X h').
Proof.
  intros fixed n s h X HL. unfold init_gen. rewrite bind_modify.
  set (s0 := if fixed then empty_tree else reset_tree s).
  assert (E0 : forall B (f : unit -> M tree B),
             bind (if fixed then modify refresh else ret tt) f (reset_tree s) h = f tt s0 h).
  { intros B f. unfold s0. destruct fixed; reflexivity. }
  rewrite E0.
  assert (Hs0 : indexes s0 = None /\ data s0 = None /\ rsz s0 = 0 /\ elems s0 = []).
  { unfold s0. destruct fixed; cbn; auto. }
  destruct Hs0 as [Hi0 [Hd0 [Hr0 He0]]].
  destruct (N.eqb n 0) eqn:En.
  - rewrite bind_ret. cbn [modify sat].
    assert (Er : refresh s0 = empty_tree).
    { unfold refresh. rewrite Hi0, Hd0, Hr0, He0. reflexivity. }
    rewrite Er. split; [apply tree_inv_empty|]. auto.
  - cbv zeta. eapply sat_bind with (E1 := fun s' h' => s' = s0 /\ Lg X h').
    + eapply sat_bind.
      * apply alloc_sat; exact HL.
      * intros s' h' H; exact H.
      * intros bi s1 h1 [-> HL1]. cbn beta. rewrite bind_modify.
        eapply sat_bind with (E1 := fun s' h' => s' = s0 /\ Lg X h').
        -- eapply sat_try.
           ++ apply alloc_sat; exact HL1.
           ++ intros a s' h' H; exact H.
           ++ intros s2 h2 [-> HL2]. rewrite bind_get. cbn [indexes].
              eapply sat_bind.
              ** eapply free_opt_sat with (sz := sz_dim * (rsz_for n + 2)); [exact HL2|].
                 cbn. apply Permutation_refl.
              ** intros ? ? F; contradiction.
              ** intros _ s3 h3 [-> HL3]. cbn beta. rewrite bind_modify.
                 cbn [throw sat data rsz elems cend]. split; [|exact HL3].
                 rewrite <- Hi0 at 1. rewrite Hd0. rewrite <- Hd0.
                 destruct s0; reflexivity.
        -- intros s' h' H; exact H.
        -- intros bd s2 h2 [-> HL2]. cbn [modify sat indexes data rsz elems cend].
           instantiate (1 := fun _ s' h' =>
             (exists bi bd, s' = mkTree (Some bi) (Some bd) (rsz_for n) [] (cend s0)) /\
             Lg (owned_tree s' ++ X) h').
           cbn beta. rewrite He0. split; [exists bi, bd; reflexivity|].
           unfold owned_tree, frame_blks; cbn [indexes data rsz elems opt_blk elems_blks flat_map app].
           eapply Lg_perm; [exact HL2|]. apply perm_swap.
    + intros s' h' H; exact H.
    + cbn beta. intros _ s1 h1 [[bi [bd ->]] HL1]. cbn [modify sat].
      unfold refresh. cbn [indexes data rsz elems].
      split; [|split; [reflexivity | split; [reflexivity|]]].
      * split; [|split; [|split]]; cbn [rsz indexes data elems cend].
        -- intros H0. exfalso; exact (rsz_for_nonzero n H0).
        -- intros _. split; discriminate.
        -- exists (N.log2 n + 1). apply rsz_for_pow.
        -- reflexivity.
      * exact HL1.
Qed.

Lemma init_sat : forall n s h X,
  Lg X h ->
  sat (init n s h)
      (fun _ s' h' => tree_inv s' /\ elems s' = [] /\
                      rsz s' = (if N.eqb n 0 then 0 else rsz_for n) /\
                      Lg (owned_tree s' ++ X) h')
      (fun s' h' => s' = empty_tree /\ Lg X h').
Proof. intros. apply (init_gen_sat true); assumption. Qed.

(* program text before commit b69eb94 / 53a83c0 *)
Lemma old_init_sat : forall n s h X,
  Lg X h ->
  sat (old_init n s h)
      (fun _ s' h' => tree_inv s' /\ elems s' = [] /\
                      rsz s' = (if N.eqb n 0 then 0 else rsz_for n) /\
                      Lg (owned_tree s' ++ X) h')
      (fun s' h' => s' = reset_tree s /\ Lg X h').
Proof. intros. apply (init_gen_sat false); assumption. Qed.

(* ---- (b) CO_Tree::destroy()   CO_Tree.cc:650 ----
   for i = 1..reserved_size: if used, destroy data[i]  (ascending position:
   modelled by sorting the stored elements by position);
   delete[] indexes; deallocate(data).  The fields are left dangling. *)
Definition release {St} (es : list (N * option (nat * N))) (t : tree) : M St unit :=
  free_list (elems_blks es) ;;;
  free_opt LNew (indexes t) ;;;
  free_opt LNew (data t).

Definition destroy : M tree unit :=
  t <- get ;;
  if N.eqb (rsz t) 0 then ret tt
  else release (sort_by fst (elems t)) t.

Lemma elems_blks_sort : forall es,
  Permutation (elems_blks (sort_by fst es)) (elems_blks es).
Proof.
  intros es. unfold elems_blks. apply Permutation_flat_map. apply sort_by_perm.
Qed.

Lemma elems_blks_rev_sort : forall es,
  Permutation (elems_blks (rev (sort_by fst es))) (elems_blks es).
Proof.
  intros es. unfold elems_blks. apply Permutation_flat_map.
  eapply Permutation_trans; [apply Permutation_sym, Permutation_rev | apply sort_by_perm].
Qed.

(* the "release everything" sequence shared by destroy and the handlers *)
Lemma release_sat {St} : forall (es : list (N * option (nat * N))) t (s : St) h X,
  Permutation (elems_blks es) (elems_blks (elems t)) ->
  Lg (owned_tree t ++ X) h ->
  sat (release es t s h)
      (fun _ s' h' => s' = s /\ Lg X h') (fun _ _ => False).
Proof.
  intros es t s h X PE HL. unfold release.
  eapply sat_bind.
  - eapply free_list_sat with (X := frame_blks t ++ X); [exact HL|].
    unfold owned_tree. rewrite app_assoc. apply Permutation_app_tail.
    eapply Permutation_trans; [apply Permutation_app_comm|].
    apply Permutation_app_tail. apply Permutation_sym. exact PE.
  - intros ? ? F; contradiction.
  - intros _ s1 h1 [-> HL1]. cbn beta. unfold frame_blks in HL1. rewrite <- app_assoc in HL1.
    eapply sat_bind.
    + eapply free_opt_sat; [exact HL1|]. unfold opt_blk. apply Permutation_refl.
    + intros ? ? F; contradiction.
    + intros _ s2 h2 [-> HL2]. cbn beta.
      eapply free_opt_sat; [exact HL2|]. unfold opt_blk. apply Permutation_refl.
Qed.

Lemma destroy_sat : forall s h X,
  tree_inv s -> Lg (owned_tree s ++ X) h ->
  sat (destroy s h) (fun _ s' h' => s' = s /\ Lg X h') (fun _ _ => False).
Proof.
  intros s h X [I0 _] HL. unfold destroy. rewrite bind_get.
  destruct (N.eqb_spec (rsz s) 0) as [E|E].
  - cbn. split; [reflexivity|]. destruct (I0 E) as [Hi [Hd He]].
    unfold owned_tree, frame_blks in HL. rewrite Hi, Hd, He in HL. exact HL.
  - apply release_sat; [apply elems_blks_sort | exact HL].
Qed.

(* ---- element copy loop: new(&data[p]) data_type(src)  for each (p, limbs) ---- *)
Definition add_elem (p : N) (b : nat) (sz : N) (t : tree) : tree :=
  mkTree (indexes t) (data t) (rsz t) ((p, Some (b, sz)) :: elems t) (cend t).

Fixpoint copy_elems (ps : list (N * N)) : M tree unit :=
  match ps with
  | [] => ret tt
  | (p, lb) :: rest =>
      b <- alloc LGmp (limb_bytes lb) ;;
      modify (add_elem p b (limb_bytes lb)) ;;;
      copy_elems rest
  end.

Definition frame_eq (s s' : tree) : Prop :=
  indexes s' = indexes s /\ data s' = data s /\ rsz s' = rsz s /\ cend s' = cend s.

Lemma frame_eq_refl : forall s, frame_eq s s.
Proof. intros; repeat split. Qed.

Lemma frame_eq_trans : forall a b c, frame_eq a b -> frame_eq b c -> frame_eq a c.
Proof.
  intros a b c [A1 [A2 [A3 A4]]] [B1 [B2 [B3 B4]]]. repeat split; congruence.
Qed.

Lemma copy_elems_sat : forall ps s h X,
  Lg (elems_blks (elems s) ++ X) h ->
  sat (copy_elems ps s h)
      (fun _ s' h' => frame_eq s s' /\
                      map fst (elems s') = rev (map fst ps) ++ map fst (elems s) /\
                      Lg (elems_blks (elems s') ++ X) h')
      (fun s' h' => frame_eq s s' /\ Lg (elems_blks (elems s') ++ X) h').
Proof.
  induction ps as [|[p lb] rest IH]; intros s h X HL; cbn [copy_elems].
  - cbn. split; [apply frame_eq_refl|]. auto.
  - eapply sat_bind.
    + apply alloc_sat; exact HL.
    + cbn beta. intros s' h' [-> H]. split; [apply frame_eq_refl | exact H].
    + intros b s1 h1 [-> HL1]. cbn beta. rewrite bind_modify.
      eapply sat_conseq.
      * apply IH with (X := X). cbn [add_elem elems elems_blks flat_map elem_blk snd app].
        exact HL1.
      * cbn beta. intros _ s2 h2 [F [Hp HL2]]. split; [|split].
        -- eapply frame_eq_trans; [|exact F]. repeat split.
        -- rewrite Hp. cbn [add_elem elems map fst rev]. rewrite <- app_assoc. reflexivity.
        -- exact HL2.
      * cbn beta. intros s2 h2 [F HL2]. split; [|exact HL2].
        eapply frame_eq_trans; [|exact F]. repeat split.
Qed.

(* ---- (c) template CO_Tree::CO_Tree(Iterator i, dimension_type n) ----
   CO_Tree_templates.hh:29 *)
Definition max_density_percent : N := 91.

Definition is_greater_than_ratio (numer denom ratio : N) : bool :=
  N.ltb (ratio * denom) (100 * numer).

Definition iter_reserved (n : N) : N :=
  let r := 2 ^ (N.log2 n + 1) - 1 in
  if is_greater_than_ratio n r max_density_percent && negb (N.eqb r 3)
  then r * 2 + 1 else r.

(* dfs positions visited by the explicit stack of the constructor: the
   equivalent recursive in-order fill.  tree_iterator: root i = r/2+1,
   offset = i; left child: offset /= 2, i -= offset; right: i += offset. *)
Fixpoint fill_pos (fu : nat) (i off m : N) : list N :=
  match fu with
  | O => []
  | S f =>
      if N.eqb m 0 then []
      else if N.eqb m 1 then [i]
      else
        let half := (m + 1) / 2 in
        let o2 := off / 2 in
        fill_pos f (i - o2) o2 (half - 1) ++ [i] ++ fill_pos f (i + o2) o2 (m - half)
  end.

Definition fill_positions (n r : N) : list N :=
  let root := r / 2 + 1 in
  fill_pos (S (S (N.to_nat (N.log2 n)))) root root n.

(* pair the source elements with positions (total: the allocation sequence is
   always exactly [src], whatever the positions) *)
Fixpoint zip_pos (ps : list N) (src : list N) : list (N * N) :=
  match src with
  | [] => []
  | lb :: src' => (hd 0 ps, lb) :: zip_pos (tl ps) src'
  end.

Lemma zip_pos_length : forall src ps, length (zip_pos ps src) = length src.
Proof. induction src; intros; cbn; auto. Qed.

Lemma zip_pos_snd : forall src ps, map snd (zip_pos ps src) = src.
Proof. induction src; intros; cbn; [reflexivity | f_equal; auto]. Qed.

(* ---- program text before commit b69eb94 / 53a83c0 ----
   The body, on the object under construction.  The old C++ set
   root.index() = i.index() before constructing the element; indexes[] contents
   are not modelled, [elems] lists the CONSTRUCTED elements.  There was no
   try/catch around the element construction. *)
Definition old_iter_fill (src : list N) : M tree unit :=
  t <- get ;;
  copy_elems (zip_pos (fill_positions (N.of_nat (length src)) (rsz t)) src).

Definition old_iter_body (src : list N) : M tree unit :=
  let n := N.of_nat (length src) in
  if N.eqb n 0 then old_init 0
  else
    (* reserved_size = ...; (field write, then init(reserved_size)) *)
    modify (fun t => mkTree (indexes t) (data t) (iter_reserved n) (elems t) (cend t)) ;;;
    t0 <- get ;;
    old_init (rsz t0) ;;;
    old_iter_fill src.

Definition old_iter_ctor (src : list N) : M unit tree :=
  construct empty_tree (old_iter_body src).

(* ---- CURRENT code (commit 53a83c0): each element is constructed inside
     try { new (&( *root)) data_type( *i); } catch (...) { destroy(); throw; }
   and root.index() = i.index() is set AFTER the construction, so on failure of
   element j destroy() walks positions 1..reserved ascending, destroys the j-1
   constructed elements, then delete[] indexes, then deallocate data. ---- *)
Fixpoint copy_elems_g (ps : list (N * N)) : M tree unit :=
  match ps with
  | [] => ret tt
  | (p, lb) :: rest =>
      b <- try_catch (alloc LGmp (limb_bytes lb)) (destroy ;;; throw) ;;
      modify (add_elem p b (limb_bytes lb)) ;;;         (* root.index() = i.index() *)
      copy_elems_g rest
  end.

Definition iter_fill (src : list N) : M tree unit :=
  t <- get ;;
  copy_elems_g (zip_pos (fill_positions (N.of_nat (length src)) (rsz t)) src).

Definition iter_body (src : list N) : M tree unit :=
  let n := N.of_nat (length src) in
  if N.eqb n 0 then init 0
  else
    modify (fun t => mkTree (indexes t) (data t) (iter_reserved n) (elems t) (cend t)) ;;;
    t0 <- get ;;
    init (rsz t0) ;;;
    iter_fill src.

Definition iter_ctor (src : list N) : M unit tree :=
  construct empty_tree (iter_body src).

(* ---------- helpers to read results off the ledger predicate ---------- *)

Lemma NoDup_app_l {A} (l l' : list A) : NoDup (l ++ l') -> NoDup l.
Proof.
  induction l as [|a l IH]; cbn; intros H; [constructor|].
  inversion H as [|x l0 Hn Hd]; subst. constructor.
  - intro Hi. apply Hn. apply in_or_app. left. exact Hi.
  - apply IH. exact Hd.
Qed.

Lemma Lg_out : forall O X h,
  Lg (O ++ X) h -> wf h /\ ledger_eq (live h) (O ++ X) /\ NoDup (map fst O).
Proof.
  intros O X h HL. pose proof (Lg_NoDup _ _ HL) as ND. destruct HL as [W P].
  split; [exact W|]. split; [exact P|].
  rewrite map_app in ND. eapply NoDup_app_l. exact ND.
Qed.

Lemma frame_blks_eq : forall s s', frame_eq s s' -> frame_blks s' = frame_blks s.
Proof. intros s s' [A [B [C _]]]. unfold frame_blks. rewrite A, B, C. reflexivity. Qed.

Lemma owned_perm : forall t X,
  Permutation (elems_blks (elems t) ++ frame_blks t ++ X) (owned_tree t ++ X).
Proof.
  intros t X. unfold owned_tree. rewrite app_assoc. apply Permutation_app_tail.
  apply Permutation_app_comm.
Qed.

Lemma tree_inv_frame : forall s s',
  tree_inv s -> rsz s <> 0 -> frame_eq s s' -> tree_inv s'.
Proof.
  intros s s' [I0 [I1 [I2 I3]]] Hr [A [B [C D]]]. split; [|split; [|split]].
  - intros H. rewrite C in H. contradiction.
  - intros _. rewrite A, B. apply I1. exact Hr.
  - rewrite C. exact I2.
  - rewrite A, C, D. exact I3.
Qed.

Lemma iter_reserved_nonzero : forall n, iter_reserved n <> 0.
Proof.
  intros n. unfold iter_reserved. fold (rsz_for n).
  pose proof (rsz_for_nonzero n) as H.
  destruct (is_greater_than_ratio n (rsz_for n) max_density_percent && negb (N.eqb (rsz_for n) 3)); lia.
Qed.

Lemma rsz_for_iter_reserved : forall n, rsz_for (iter_reserved n) = iter_reserved n.
Proof.
  intros n. unfold iter_reserved. cbv zeta.
  set (d := N.log2 n + 1).
  assert (Hd : 0 < d) by (unfold d; lia).
  destruct (is_greater_than_ratio n (2 ^ d - 1) max_density_percent && negb (N.eqb (2 ^ d - 1) 3)).
  - assert (E : (2 ^ d - 1) * 2 + 1 = 2 ^ (d + 1) - 1).
    { rewrite N.pow_add_r. assert (2 ^ d <> 0) by (apply N.pow_nonzero; discriminate).
      change (2 ^ 1) with 2. set (p := 2 ^ d) in *. clearbody p. lia. }
    rewrite E. apply rsz_for_pow2m1. lia.
  - apply rsz_for_pow2m1. exact Hd.
Qed.

(* ---------- (a) init : theorem ---------- *)

(* the old_ theorems of this block are about the program text before commit
   b69eb94 / 53a83c0; cotree_init_unwind_balanced is about the current code *)

(* As written: on an exceptional exit the five fields are those of the empty tree
   but the cached end iterators are STALE (those of the tree before the call). *)
Theorem old_cotree_init_unwind_balanced : forall n k h s0,
  wf h ->
  match old_init n s0 (arm k h) with
  | Ret _ t h' => wf h' /\ ledger_eq (live h') (owned_tree t ++ live h)
                  /\ tree_inv t /\ NoDup (map fst (owned_tree t))
  | Exn t h' => wf h' /\ ledger_eq (live h') (live h) /\ t = reset_tree s0
  | Bad _ => False
  end.
Proof.
  intros n k h s0 W.
  pose proof (old_init_sat n s0 (arm k h) (live h) (Lg_arm k _ _ (Lg_self h W))) as H.
  destruct (old_init n s0 (arm k h)) as [a s' h'|s' h'|h']; cbn [sat] in H.
  - destruct H as [I [_ [_ HL]]]. apply Lg_out in HL. tauto.
  - destruct H as [-> [W' P]]. auto.
  - exact H.
Qed.

Lemma reset_tree_inv_iff : forall s, tree_inv (reset_tree s) <-> cend s = (None, 0).
Proof.
  intros s. split.
  - intros [_ [_ [_ H]]]. exact H.
  - intros H. unfold reset_tree. rewrite H. apply tree_inv_empty.
Qed.

(* program text before commit b69eb94 / 53a83c0:
   "If this throws, *this will be the empty tree" (comment in init): FALSE for
   the cached iterators *)
Definition old_cotree_init_usable_after_full : Prop :=
  forall n k h s0,
  wf h ->
  match old_init n s0 (arm k h) with
  | Exn t _ => tree_inv t
  | _ => True
  end.

(* witness: the fields of a destroyed tree of reserved size 1 (as operator=
   leaves them before calling init), first request fails *)
Theorem old_cotree_init_usable_after_refuted :
  exists n s0 k h, wf h /\ exists t h',
    old_init n s0 (arm k h) = Exn t h' /\ ~ tree_inv t.
Proof.
  exists 3, (mkTree (Some 0%nat) (Some 1%nat) 1 [] (Some 0%nat, 1)), 1%nat, empty_heap.
  split; [exact wf_empty|]. eexists _, _. split; [vm_compute; reflexivity|].
  intros [_ [_ [_ H]]]. cbn in H. discriminate H.
Qed.

Theorem old_cotree_init_usable_after_full_refuted : ~ old_cotree_init_usable_after_full.
Proof.
  intro F.
  specialize (F 3 1%nat empty_heap (mkTree (Some 0%nat) (Some 1%nat) 1 [] (Some 0%nat, 1)) wf_empty).
  vm_compute in F. destruct F as [_ [_ [_ H]]]. discriminate H.
Qed.

(* with the minimal fix the receiver is the (valid) empty tree on failure *)
Theorem cotree_init_unwind_balanced : forall n k h s0,
  wf h ->
  match init n s0 (arm k h) with
  | Ret _ t h' => wf h' /\ ledger_eq (live h') (owned_tree t ++ live h)
                  /\ tree_inv t /\ NoDup (map fst (owned_tree t))
  | Exn t h' => wf h' /\ ledger_eq (live h') (live h) /\ t = empty_tree /\ tree_inv t
  | Bad _ => False
  end.
Proof.
  intros n k h s0 W.
  pose proof (init_sat n s0 (arm k h) (live h) (Lg_arm k _ _ (Lg_self h W))) as H.
  destruct (init n s0 (arm k h)) as [a s' h'|s' h'|h']; cbn [sat] in H.
  - destruct H as [I [_ [_ HL]]]. apply Lg_out in HL. tauto.
  - destruct H as [-> [W' P]]. split; [exact W'|]. split; [exact P|].
    split; [reflexivity | apply tree_inv_empty].
  - exact H.
Qed.

Example cotree_init_hyp_sat : wf empty_heap.
Proof. exact wf_empty. Qed.

(* ---------- (c) iterator constructor: program text before commit b69eb94 / 53a83c0 ---------- *)

(* what held for the old text: a normal return is balanced; an
   exceptional exit never double-frees, but the object's blocks may stay live *)
Lemma old_iter_body_sat : forall src s h X,
  Lg X h ->
  sat (old_iter_body src s h)
      (fun _ s' h' => tree_inv s' /\ Lg (owned_tree s' ++ X) h')
      (fun s' h' => exists extra, Lg (extra ++ X) h').
Proof.
  intros src s h X HL. unfold old_iter_body. cbv zeta.
  destruct (N.eqb (N.of_nat (length src)) 0) eqn:En.
  - eapply sat_conseq; [apply old_init_sat; exact HL| |].
    + cbn beta. intros _ s' h' [I [_ [_ H]]]. auto.
    + cbn beta. intros s' h' [_ H]. exists []. exact H.
  - rewrite bind_modify, bind_get. cbn [rsz].
    eapply sat_bind.
    + apply old_init_sat; exact HL.
    + cbn beta. intros s' h' [_ H]. exists []. exact H.
    + cbn beta. intros _ s1 h1 [I [He [Hr HL1]]].
      assert (Hnz : rsz s1 <> 0).
      { rewrite Hr. destruct (N.eqb_spec (iter_reserved (N.of_nat (length src))) 0) as [E|E].
        - exfalso; exact (iter_reserved_nonzero _ E).
        - apply rsz_for_nonzero. }
      unfold old_iter_fill. rewrite bind_get.
      eapply sat_conseq.
      * apply copy_elems_sat with (X := frame_blks s1 ++ X).
        rewrite He. cbn [elems_blks flat_map app].
        unfold owned_tree in HL1. rewrite He in HL1. cbn [elems_blks flat_map] in HL1.
        rewrite app_nil_r in HL1. exact HL1.
      * cbn beta. intros _ s2 h2 [F [_ HL2]]. split.
        -- eapply tree_inv_frame; eassumption.
        -- eapply Lg_perm; [exact HL2|]. rewrite <- (frame_blks_eq _ _ F). apply owned_perm.
      * cbn beta. intros s2 h2 [F HL2]. exists (owned_tree s2).
        eapply Lg_perm; [exact HL2|]. rewrite <- (frame_blks_eq _ _ F). apply owned_perm.
Qed.

Theorem old_cotree_iter_ctor_unwind_partial : forall src k h,
  wf h ->
  match old_iter_ctor src tt (arm k h) with
  | Ret t _ h' => wf h' /\ ledger_eq (live h') (owned_tree t ++ live h)
                  /\ tree_inv t /\ NoDup (map fst (owned_tree t))
  | Exn _ h' => wf h' /\ exists extra, ledger_eq (live h') (extra ++ live h)
  | Bad _ => False
  end.
Proof.
  intros src k h W.
  assert (H : sat (old_iter_ctor src tt (arm k h))
                  (fun t _ h' => tree_inv t /\ Lg (owned_tree t ++ live h) h')
                  (fun _ h' => exists extra, Lg (extra ++ live h) h')).
  { unfold old_iter_ctor. eapply sat_construct.
    - apply old_iter_body_sat. apply Lg_arm. apply Lg_self. exact W.
    - cbn beta. intros _ s' h' H; exact H.
    - cbn beta. intros s' h' H; exact H. }
  destruct (old_iter_ctor src tt (arm k h)) as [t u h'|u h'|h']; cbn [sat] in H.
  - destruct H as [I HL]. apply Lg_out in HL. tauto.
  - destruct H as [extra [W' P]]. split; [exact W'|]. exists extra. exact P.
  - exact H.
Qed.

(* The full "unwind balanced" statement is FALSE for the old constructor *)
Definition old_cotree_iter_ctor_unwind_balanced_full : Prop :=
  forall src k h,
  wf h ->
  match old_iter_ctor src tt (arm k h) with
  | Ret t _ h' => wf h' /\ ledger_eq (live h') (owned_tree t ++ live h) /\ tree_inv t
  | Exn _ h' => wf h' /\ ledger_eq (live h') (live h)
  | Bad _ => False
  end.

Theorem old_cotree_iter_ctor_leak_refuted :
  exists src k h, wf h /\ exists h',
    old_iter_ctor src tt (arm k h) = Exn tt h' /\ ~ ledger_eq (live h') (live h).
Proof.
  exists [1; 1], 3%nat, empty_heap. split; [exact wf_empty|].
  eexists. split; [vm_compute; reflexivity|].
  cbn [live empty_heap]. intro P. apply Permutation_sym in P.
  apply Permutation_nil in P. discriminate P.
Qed.

Theorem old_cotree_iter_ctor_unwind_balanced_refuted :
  ~ old_cotree_iter_ctor_unwind_balanced_full.
Proof.
  intro F. specialize (F [1; 1] 3%nat empty_heap wf_empty).
  vm_compute in F. destruct F as [_ P].
  apply Permutation_sym in P. apply Permutation_nil in P. discriminate P.
Qed.

(* ---------- (c') the CURRENT iterator constructor (commit 53a83c0) ---------- *)

Lemma owned_add_elem : forall p b sz s X,
  Permutation ((b, (LGmp, sz)) :: owned_tree s ++ X) (owned_tree (add_elem p b sz s) ++ X).
Proof.
  intros p b sz s X. unfold owned_tree, add_elem. cbn [indexes data rsz elems].
  unfold frame_blks. cbn [indexes data rsz]. fold (frame_blks s).
  cbn [elems_blks flat_map elem_blk snd app]. fold (elems_blks (elems s)).
  rewrite <- !app_assoc. cbn [app]. apply Permutation_middle.
Qed.

Lemma copy_elems_g_sat : forall ps s h X,
  tree_inv s -> rsz s <> 0 ->
  Lg (owned_tree s ++ X) h ->
  sat (copy_elems_g ps s h)
      (fun _ s' h' => tree_inv s' /\ frame_eq s s' /\
                      map fst (elems s') = rev (map fst ps) ++ map fst (elems s) /\
                      Lg (owned_tree s' ++ X) h')
      (fun s' h' => Lg X h').
Proof.
  induction ps as [|[p lb] rest IH]; intros s h X I Hnz HL; cbn [copy_elems_g].
  - cbn [ret sat]. split; [exact I|]. split; [apply frame_eq_refl|]. split; [reflexivity | exact HL].
  - eapply sat_bind with (E1 := fun s' h' => Lg X h').
    + eapply sat_try.
      * apply alloc_sat; exact HL.
      * cbn beta. intros a s' h' H; exact H.
      * cbn beta. intros s1 h1 [-> HL1]. eapply sat_bind.
        -- apply destroy_sat; [exact I | exact HL1].
        -- intros ? ? F; contradiction.
        -- cbn beta. intros _ s2 h2 [_ HL2]. cbn. exact HL2.
    + intros s' h' H; exact H.
    + cbn beta. intros b s1 h1 [-> HL1]. rewrite bind_modify.
      assert (F : frame_eq s (add_elem p b (limb_bytes lb) s)) by (repeat split).
      eapply sat_conseq.
      * apply IH with (X := X).
        -- eapply tree_inv_frame; [exact I | exact Hnz | exact F].
        -- cbn [add_elem rsz]. exact Hnz.
        -- eapply Lg_perm; [exact HL1 | apply owned_add_elem].
      * cbn beta. intros _ s2 h2 [I2 [F2 [Hp HL2]]].
        split; [exact I2|]. split; [exact (frame_eq_trans _ _ _ F F2)|]. split; [|exact HL2].
        rewrite Hp. cbn [add_elem elems map fst rev]. rewrite <- app_assoc. reflexivity.
      * cbn beta. intros s2 h2 H; exact H.
Qed.

Lemma iter_body_sat : forall src s h X,
  Lg X h ->
  sat (iter_body src s h)
      (fun _ s' h' => tree_inv s' /\ Lg (owned_tree s' ++ X) h')
      (fun s' h' => Lg X h').
Proof.
  intros src s h X HL. unfold iter_body. cbv zeta.
  destruct (N.eqb (N.of_nat (length src)) 0) eqn:En.
  - eapply sat_conseq; [apply init_sat; exact HL| |].
    + cbn beta. intros _ s' h' [I [_ [_ H]]]. auto.
    + cbn beta. intros s' h' [_ H]. exact H.
  - rewrite bind_modify, bind_get. cbn [rsz].
    eapply sat_bind.
    + apply init_sat; exact HL.
    + cbn beta. intros s' h' [_ H]. exact H.
    + cbn beta. intros _ s1 h1 [I [He [Hr HL1]]].
      assert (Hnz : rsz s1 <> 0).
      { rewrite Hr. destruct (N.eqb_spec (iter_reserved (N.of_nat (length src))) 0) as [E|E].
        - exfalso; exact (iter_reserved_nonzero _ E).
        - apply rsz_for_nonzero. }
      unfold iter_fill. rewrite bind_get.
      eapply sat_conseq.
      * apply copy_elems_g_sat; eassumption.
      * cbn beta. intros _ s2 h2 [I2 [_ [_ HL2]]]. split; assumption.
      * cbn beta. intros s2 h2 H; exact H.
Qed.

(* the CURRENT constructor: for every k a normal return is balanced and an
   exceptional exit leaves the ledger unchanged *)
Theorem cotree_iter_ctor_unwind_balanced : forall src k h,
  wf h ->
  match iter_ctor src tt (arm k h) with
  | Ret t _ h' => wf h' /\ ledger_eq (live h') (owned_tree t ++ live h)
                  /\ tree_inv t /\ NoDup (map fst (owned_tree t))
  | Exn _ h' => wf h' /\ ledger_eq (live h') (live h)
  | Bad _ => False
  end.
Proof.
  intros src k h W.
  assert (H : sat (iter_ctor src tt (arm k h))
                  (fun t _ h' => tree_inv t /\ Lg (owned_tree t ++ live h) h')
                  (fun _ h' => Lg (live h) h')).
  { unfold iter_ctor. eapply sat_construct.
    - apply iter_body_sat. apply Lg_arm. apply Lg_self. exact W.
    - cbn beta. intros _ s' h' H; exact H.
    - cbn beta. intros s' h' H; exact H. }
  destruct (iter_ctor src tt (arm k h)) as [t u h'|u h'|h']; cbn [sat] in H.
  - destruct H as [I HL]. apply Lg_out in HL. tauto.
  - exact H.
  - exact H.
Qed.

(* ---------- exact behaviour for a given fault position: program text before
   commit b69eb94 / 53a83c0 (old_init, old_iter_ctor) ---------- *)

Lemma copy_elems_fail_exact : forall ps s h j,
  fuel h = Some j -> (j < length ps)%nat ->
  exists s' h' extra,
    copy_elems ps s h = Exn s' h' /\
    live h' = extra ++ live h /\
    map snd extra = rev (map (fun pl => (LGmp, limb_bytes (snd pl))) (firstn j ps)).
Proof.
  induction ps as [|[p lb] rest IH]; intros s h j Hf Hj; cbn [length] in Hj; [lia|].
  cbn [copy_elems]. destruct j as [|j].
  - erewrite bind_exn_eq by (apply alloc_fail_eq; exact Hf).
    eexists _, _, []. split; [reflexivity|]. split; reflexivity.
  - erewrite bind_ret_eq by (apply alloc_ok_eq; rewrite Hf; discriminate).
    rewrite bind_modify.
    match goal with |- context [copy_elems rest ?s1 ?h1] =>
      destruct (IH s1 h1 j) as (s' & h' & extra & E & L & Mp) end.
    + cbn [fuel]. rewrite Hf. reflexivity.
    + lia.
    + exists s', h', (extra ++ [(next h, (LGmp, limb_bytes lb))]).
      split; [exact E|]. split.
      * rewrite L. cbn [live]. rewrite <- app_assoc. reflexivity.
      * rewrite map_app. cbn [firstn map rev snd]. f_equal. exact Mp.
Qed.

Lemma copy_elems_ok_exact : forall ps s h,
  match fuel h with None => True | Some j => (length ps <= j)%nat end ->
  exists s' h', copy_elems ps s h = Ret tt s' h'.
Proof.
  induction ps as [|[p lb] rest IH]; intros s h Hf; cbn [copy_elems].
  - eexists _, _. reflexivity.
  - erewrite bind_ret_eq.
    2:{ apply alloc_ok_eq. destruct (fuel h) as [[|j]|]; cbn [length] in Hf; [lia| |]; discriminate. }
    rewrite bind_modify. apply IH. cbn [fuel].
    destruct (fuel h) as [[|j]|]; cbn [tick length] in *; try lia; try exact I.
Qed.

Lemma old_init_fail1_exact : forall n s h,
  n <> 0 -> fuel h = Some 0%nat ->
  exists h', old_init n s h = Exn (reset_tree s) h' /\ live h' = live h.
Proof.
  intros n s h Hn Hf. unfold old_init, init_gen. rewrite bind_modify. cbv iota. rewrite bind_ret.
  destruct (N.eqb_spec n 0) as [E|E]; [contradiction|]. cbv zeta.
  erewrite bind_exn_eq.
  2:{ erewrite bind_exn_eq by (apply alloc_fail_eq; exact Hf). reflexivity. }
  eexists. split; reflexivity.
Qed.

Lemma old_init_fail2_exact : forall n s h,
  n <> 0 -> wf h -> fuel h = Some 1%nat ->
  exists h', old_init n s h = Exn (reset_tree s) h' /\ live h' = live h.
Proof.
  intros n s h Hn W Hf. unfold old_init, init_gen. rewrite bind_modify. cbv iota. rewrite bind_ret.
  destruct (N.eqb_spec n 0) as [E|E]; [contradiction|]. cbv zeta.
  erewrite bind_exn_eq.
  2:{ erewrite bind_ret_eq by (apply alloc_ok_eq; rewrite Hf; discriminate).
      rewrite bind_modify.
      erewrite bind_exn_eq.
      2:{ erewrite try_exn_eq by (apply alloc_fail_eq; cbn [fuel]; rewrite Hf; reflexivity).
          rewrite bind_get. cbn [indexes free_opt].
          erewrite bind_ret_eq by (apply free_head_eq; apply wf_fresh; exact W).
          rewrite bind_modify. reflexivity. }
      reflexivity. }
  eexists. split; reflexivity.
Qed.

Lemma old_init_ok_exact : forall n s h,
  n <> 0 ->
  match fuel h with None => True | Some j => (2 <= j)%nat end ->
  exists bi bd h' e1 e2,
    old_init n s h = Ret tt (mkTree (Some bi) (Some bd) (rsz_for n) [] (Some bi, rsz_for n)) h' /\
    fuel h' = tick (tick (fuel h)) /\
    live h' = e2 :: e1 :: live h /\
    snd e1 = (LNew, sz_dim * (rsz_for n + 2)) /\
    snd e2 = (LNew, sz_coeff * (rsz_for n + 1)).
Proof.
  intros n s h Hn Hf. unfold old_init, init_gen. rewrite bind_modify. cbv iota. rewrite bind_ret.
  destruct (N.eqb_spec n 0) as [E|E]; [contradiction|]. cbv zeta.
  erewrite bind_ret_eq.
  2:{ erewrite bind_ret_eq.
      2:{ apply alloc_ok_eq. destruct (fuel h) as [[|j]|]; [lia| |]; discriminate. }
      rewrite bind_modify.
      erewrite bind_ret_eq.
      2:{ erewrite try_ret_eq; [reflexivity|]. apply alloc_ok_eq. cbn [fuel].
          destruct (fuel h) as [[|[|j]]|]; cbn [tick]; try lia; discriminate. }
      reflexivity. }
  cbn [modify refresh reset_tree indexes data rsz elems cend next live fuel].
  eexists _, _, _, _, _. split; [reflexivity|]. cbn [fuel live snd]. auto.
Qed.

(* the allocation requests of the iterator constructor, in program order *)
Definition reqs_iter (src : list N) : list (layer * N) :=
  let r := rsz_for (iter_reserved (N.of_nat (length src))) in
  (LNew, sz_dim * (r + 2)) :: (LNew, sz_coeff * (r + 1))
  :: map (fun lb => (LGmp, limb_bytes lb)) src.

Lemma zip_req_map : forall ps src j,
  map (fun pl : N * N => (LGmp, limb_bytes (snd pl))) (firstn j (zip_pos ps src))
  = firstn j (map (fun lb => (LGmp, limb_bytes lb)) src).
Proof.
  intros ps src j. rewrite <- firstn_map. f_equal.
  rewrite <- (zip_pos_snd src ps) at 2. rewrite map_map. reflexivity.
Qed.

(* k = 0 or k > n+2: normal return; k = 1, 2: exception, nothing leaked (init's
   own guard); k = 2 + j (1 <= j <= n): exception and exactly the first k-1
   requests' blocks (indexes, data, j-1 elements) are left live. *)
Theorem old_cotree_iter_ctor_leaks_exactly : forall src k h,
  wf h -> src <> [] ->
  match old_iter_ctor src tt (arm k h) with
  | Ret t _ h' => (k = 0 \/ length src + 2 < k)%nat
  | Exn _ h' =>
      (1 <= k <= length src + 2)%nat /\
      exists extra, live h' = extra ++ live h /\
        map snd extra = (if (k <=? 2)%nat then []
                         else rev (firstn (k - 1) (reqs_iter src)))
  | Bad _ => False
  end.
Proof.
  intros src k h W Hs.
  assert (Hn : N.eqb (N.of_nat (length src)) 0 = false).
  { destruct src; [contradiction|]. cbn [length]. apply N.eqb_neq. lia. }
  unfold old_iter_ctor, construct, old_iter_body. cbv zeta. rewrite Hn.
  rewrite bind_modify, bind_get. cbn [rsz].
  pose proof (iter_reserved_nonzero (N.of_nat (length src))) as HR.
  destruct k as [|[|[|j]]].
  - (* no fault *)
    match goal with |- context [bind (old_init ?R) _ ?s0 ?h0] =>
      destruct (old_init_ok_exact R s0 h0 HR) as (bi & bd & h1 & e1 & e2 & E & Hf & L & _) end.
    { cbn. exact I. }
    erewrite bind_ret_eq by exact E. unfold old_iter_fill. rewrite bind_get.
    match goal with |- context [copy_elems ?ps ?s1 h1] =>
      destruct (copy_elems_ok_exact ps s1 h1) as (s' & h' & E2) end.
    { rewrite Hf. cbn. exact I. }
    rewrite E2. left; reflexivity.
  - (* k = 1 *)
    match goal with |- context [bind (old_init ?R) _ ?s0 ?h0] =>
      destruct (old_init_fail1_exact R s0 h0 HR) as (h1 & E & L) end.
    { reflexivity. }
    erewrite bind_exn_eq by exact E.
    split; [lia|]. exists []. split; [exact L | reflexivity].
  - (* k = 2 *)
    match goal with |- context [bind (old_init ?R) _ ?s0 ?h0] =>
      destruct (old_init_fail2_exact R s0 h0 HR) as (h1 & E & L) end.
    { apply wf_arm; exact W. }
    { reflexivity. }
    erewrite bind_exn_eq by exact E.
    split; [lia|]. exists []. split; [exact L | reflexivity].
  - (* k = 3 + j *)
    match goal with |- context [bind (old_init ?R) _ ?s0 ?h0] =>
      destruct (old_init_ok_exact R s0 h0 HR) as (bi & bd & h1 & e1 & e2 & E & Hf & L & S1 & S2) end.
    { cbn. lia. }
    erewrite bind_ret_eq by exact E. unfold old_iter_fill. rewrite bind_get.
    cbn [fuel arm tick] in Hf.
    destruct (Nat.lt_ge_cases j (length src)) as [Hlt|Hge].
    + match goal with |- context [copy_elems ?ps ?s1 h1] =>
        destruct (copy_elems_fail_exact ps s1 h1 j Hf) as (s' & h' & extra & E2 & L2 & M2) end.
      { rewrite zip_pos_length. exact Hlt. }
      rewrite E2. split; [lia|].
      exists (extra ++ [e2; e1]). split.
      * rewrite L2, L. cbn [live arm]. rewrite <- app_assoc. reflexivity.
      * rewrite map_app. rewrite zip_req_map in M2.
        replace (S (S (S j)) - 1)%nat with (S (S j)) by lia.
        cbn [Nat.leb reqs_iter firstn rev map]. cbv zeta.
        rewrite S1, S2. rewrite <- app_assoc. cbn [app]. f_equal. exact M2.
    + match goal with |- context [copy_elems ?ps ?s1 h1] =>
        destruct (copy_elems_ok_exact ps s1 h1) as (s' & h' & E2) end.
      { rewrite Hf. rewrite zip_pos_length. exact Hge. }
      rewrite E2. right. lia.
Qed.

Example old_cotree_iter_ctor_leaks_exactly_hyp_sat : wf empty_heap /\ [1; 1] <> @nil N.
Proof. split; [exact wf_empty | discriminate]. Qed.

(* ========================================================================= *)
(*  (d) copy constructor, (e) operator=, (f) rebuild_bigger_tree             *)
(* ========================================================================= *)

Lemma copy_elems_owned_sat : forall ps s1 h1 X,
  tree_inv s1 -> elems s1 = [] -> rsz s1 <> 0 ->
  Lg (owned_tree s1 ++ X) h1 ->
  sat (copy_elems ps s1 h1)
      (fun _ s2 h2 => tree_inv s2 /\ map fst (elems s2) = rev (map fst ps) /\
                      rsz s2 = rsz s1 /\ Lg (owned_tree s2 ++ X) h2)
      (fun s2 h2 => Lg (owned_tree s2 ++ X) h2).
Proof.
  intros ps s1 h1 X I He Hnz HL1.
  eapply sat_conseq.
  - apply copy_elems_sat with (X := frame_blks s1 ++ X).
    rewrite He. cbn [elems_blks flat_map app].
    unfold owned_tree in HL1. rewrite He in HL1. cbn [elems_blks flat_map] in HL1.
    rewrite app_nil_r in HL1. exact HL1.
  - cbn beta. intros _ s2 h2 [F [Hp HL2]]. split; [|split; [|split]].
    + eapply tree_inv_frame; eassumption.
    + rewrite Hp, He. cbn [map]. apply app_nil_r.
    + apply F.
    + eapply Lg_perm; [exact HL2|]. rewrite <- (frame_blks_eq _ _ F). apply owned_perm.
  - cbn beta. intros s2 h2 [F HL2].
    eapply Lg_perm; [exact HL2|]. rewrite <- (frame_blks_eq _ _ F). apply owned_perm.
Qed.

Lemma init0_eq : forall s h, init 0 s h = Ret tt empty_tree h.
Proof. reflexivity. Qed.

(* CO_Tree::copy_data_from(x)   CO_Tree.cc:1246.
   [used] = the used slots of x as (dfs position, limbs).  The loop runs
   i = reserved_size downto 1 (modelled: positions sorted descending).
   catch (...): destroy the constructed elements for j = reserved downto i+1
   (descending position), delete[] indexes, deallocate data, init(0), rethrow. *)
Definition copy_data_from (used : list (N * N)) : M tree unit :=
  match used with
  | [] => ret tt                                  (* x.size_ == 0 *)
  | _ =>
      try_catch (copy_elems (rev (sort_by fst used)))
        (t <- get ;;
         release (rev (sort_by fst (elems t))) t ;;;
         init 0 ;;;
         throw)
  end.

Lemma copy_data_from_sat : forall used s h X,
  tree_inv s -> elems s = [] -> (used <> [] -> rsz s <> 0) ->
  Lg (owned_tree s ++ X) h ->
  sat (copy_data_from used s h)
      (fun _ s' h' => tree_inv s' /\ Permutation (map fst (elems s')) (map fst used) /\
                      rsz s' = rsz s /\ Lg (owned_tree s' ++ X) h')
      (fun s' h' => s' = empty_tree /\ Lg X h').
Proof.
  intros used s h X I He Hnz HL. unfold copy_data_from.
  destruct used as [|u used'].
  - cbn [ret sat]. rewrite He. cbn [map]. auto.
  - set (us := u :: used') in *.
    assert (Hr : rsz s <> 0) by (apply Hnz; discriminate).
    eapply sat_try.
    + apply copy_elems_owned_sat; eassumption.
    + cbn beta. intros a s' h' [I' [Hp [Hr' HL']]].
      split; [exact I'|]. split; [|split; assumption].
      rewrite Hp. rewrite map_rev, rev_involutive.
      apply Permutation_map. apply sort_by_perm.
    + cbn beta. intros s2 h2 HL2. rewrite bind_get.
      eapply sat_bind.
      * eapply release_sat; [apply elems_blks_rev_sort | exact HL2].
      * intros ? ? F; contradiction.
      * cbn beta. intros _ s3 h3 [_ HL3].
        rewrite (bind_ret_eq _ _ _ _ _ _ _ (init0_eq s3 h3)).
        cbn. auto.
Qed.

(* CO_Tree::CO_Tree(const CO_Tree& y)   CO_Tree_inlines.hh:49 *)
Definition copy_ctor (rszy : N) (used : list (N * N)) : M unit tree :=
  construct empty_tree (init rszy ;;; copy_data_from used).

(* CO_Tree::operator=(const CO_Tree& y)   CO_Tree_inlines.hh:57
   [fixed] = true: the CURRENT code (init of commit b69eb94);
   [fixed] = false: program text before commit b69eb94 / 53a83c0 (old_init).
   copy_data_from's handler calls init(0), on which both versions agree
   (old_init0_eq). *)
Definition assign_gen (fixed : bool) (rszy : N) (used : list (N * N)) : M tree unit :=
  destroy ;;; init_gen fixed rszy ;;; copy_data_from used.

Definition assign : N -> list (N * N) -> M tree unit := assign_gen true.
(* program text before commit b69eb94 / 53a83c0 *)
Definition old_assign : N -> list (N * N) -> M tree unit := assign_gen false.

Lemma old_init0_eq : forall s h, old_init 0 s h = init 0 s h.
Proof. reflexivity. Qed.

(* program text before commit b69eb94 / 53a83c0:
   old_init throws only on its first or second request *)
Lemma old_init_exn_fuel : forall n s h s' h',
  old_init n s h = Exn s' h' -> fuel h = Some 0%nat \/ fuel h = Some 1%nat.
Proof.
  intros n s h s' h' H.
  destruct (N.eq_dec n 0) as [->|Hn]; [rewrite old_init0_eq, init0_eq in H; discriminate H|].
  destruct (fuel h) as [[|[|j]]|] eqn:Ef; auto.
  - destruct (old_init_ok_exact n s h Hn) as (bi & bd & h1 & e1 & e2 & E & _).
    { rewrite Ef. lia. }
    rewrite E in H. discriminate H.
  - destruct (old_init_ok_exact n s h Hn) as (bi & bd & h1 & e1 & e2 & E & _).
    { rewrite Ef. exact I. }
    rewrite E in H. discriminate H.
Qed.

Lemma init_then_copy_sat : forall rszy used s h X,
  (used <> [] -> rszy <> 0) ->
  Lg X h ->
  sat ((init rszy ;;; copy_data_from used) s h)
      (fun _ s' h' => tree_inv s' /\ Permutation (map fst (elems s')) (map fst used) /\
                      rsz s' = (if N.eqb rszy 0 then 0 else rsz_for rszy) /\
                      Lg (owned_tree s' ++ X) h')
      (fun s' h' => s' = empty_tree /\ Lg X h').
Proof.
  intros rszy used s h X Hy HL.
  eapply sat_bind.
  - apply init_sat; exact HL.
  - cbn beta. intros s' h' H; exact H.
  - cbn beta. intros _ s1 h1 [I [He [Hr HL1]]]. rewrite <- Hr.
    apply copy_data_from_sat; try assumption.
    intros Hu. rewrite Hr. specialize (Hy Hu).
    destruct (N.eqb_spec rszy 0) as [E|E]; [contradiction|]. apply rsz_for_nonzero.
Qed.

(* program text before commit b69eb94 / 53a83c0 *)
Lemma old_init_then_copy_sat : forall rszy used s h X,
  (used <> [] -> rszy <> 0) ->
  Lg X h ->
  sat ((old_init rszy ;;; copy_data_from used) s h)
      (fun _ s' h' => tree_inv s' /\ Permutation (map fst (elems s')) (map fst used) /\
                      rsz s' = (if N.eqb rszy 0 then 0 else rsz_for rszy) /\
                      Lg (owned_tree s' ++ X) h')
      (fun s' h' => (s' = empty_tree \/
                     (s' = reset_tree s /\ (fuel h = Some 0%nat \/ fuel h = Some 1%nat)))
                    /\ Lg X h').
Proof.
  intros rszy used s h X Hy HL.
  eapply sat_bind_eq.
  - apply old_init_sat; exact HL.
  - cbn beta. intros s' h' Ei [Es H]. subst s'. split; [|exact H].
    right. split; [reflexivity|]. eapply old_init_exn_fuel. exact Ei.
  - cbn beta. intros u s1 h1 _ [I [He [Hr HL1]]]. rewrite <- Hr.
    eapply sat_conseq.
    + apply copy_data_from_sat; try eassumption.
      intros Hu. rewrite Hr. specialize (Hy Hu).
      destruct (N.eqb_spec rszy 0) as [E|E]; [contradiction|]. apply rsz_for_nonzero.
    + cbn beta. intros a s' h' H; exact H.
    + cbn beta. intros s' h' [-> H]. split; [left; reflexivity | exact H].
Qed.

Theorem cotree_copy_ctor_unwind_balanced : forall rszy used k h,
  wf h -> (used <> [] -> rszy <> 0) ->
  match copy_ctor rszy used tt (arm k h) with
  | Ret t _ h' => wf h' /\ ledger_eq (live h') (owned_tree t ++ live h)
                  /\ tree_inv t /\ NoDup (map fst (owned_tree t))
                  /\ Permutation (map fst (elems t)) (map fst used)
                  /\ rsz t = (if N.eqb rszy 0 then 0 else rsz_for rszy)
  | Exn _ h' => wf h' /\ ledger_eq (live h') (live h)
  | Bad _ => False
  end.
Proof.
  intros rszy used k h W Hy.
  assert (H : sat (copy_ctor rszy used tt (arm k h))
                  (fun t _ h' => tree_inv t /\ Permutation (map fst (elems t)) (map fst used) /\
                                 rsz t = (if N.eqb rszy 0 then 0 else rsz_for rszy) /\
                                 Lg (owned_tree t ++ live h) h')
                  (fun _ h' => Lg (live h) h')).
  { unfold copy_ctor. eapply sat_construct.
    - apply init_then_copy_sat; [exact Hy|]. apply Lg_arm. apply Lg_self. exact W.
    - cbn beta. intros _ s' h' H; exact H.
    - cbn beta. intros s' h' [_ H]; exact H. }
  destruct (copy_ctor rszy used tt (arm k h)) as [t u h'|u h'|h']; cbn [sat] in H.
  - destruct H as [I [Hp [Hr HL]]]. apply Lg_out in HL. tauto.
  - exact H.
  - exact H.
Qed.

Example cotree_copy_ctor_hyp_sat :
  wf empty_heap /\ ([(2, 1); (1, 3)] <> @nil (N * N) -> 3 <> 0).
Proof. split; [exact wf_empty | discriminate]. Qed.

Lemma keeps_fuel_release {St} es t : keeps_fuel (@release St es t).
Proof.
  unfold release. apply keeps_fuel_bind; [apply keeps_fuel_free_list|]. intros _.
  apply keeps_fuel_bind; [apply keeps_fuel_free_opt|]. intros _. apply keeps_fuel_free_opt.
Qed.

Lemma keeps_fuel_destroy : keeps_fuel destroy.
Proof.
  unfold destroy. apply keeps_fuel_bind; [apply keeps_fuel_get|]. intros t.
  destruct (N.eqb (rsz t) 0); [apply keeps_fuel_ret | apply keeps_fuel_release].
Qed.

Lemma old_assign_sat : forall rszy used t h X,
  tree_inv t -> Lg (owned_tree t ++ X) h -> (used <> [] -> rszy <> 0) ->
  sat (old_assign rszy used t h)
      (fun _ t' h' => tree_inv t' /\ Permutation (map fst (elems t')) (map fst used) /\
                      rsz t' = (if N.eqb rszy 0 then 0 else rsz_for rszy) /\
                      Lg (owned_tree t' ++ X) h')
      (fun t' h' => (t' = empty_tree \/
                     (t' = reset_tree t /\ (fuel h = Some 0%nat \/ fuel h = Some 1%nat)))
                    /\ Lg X h').
Proof.
  intros rszy used t h X I HL Hy. unfold old_assign, assign_gen.
  eapply sat_bind_eq.
  - apply destroy_sat; [exact I | exact HL].
  - intros ? ? _ F; contradiction.
  - cbn beta. intros u s1 h1 Ed [Es HL1]. subst s1.
    pose proof (keeps_fuel_destroy t h) as Hf. rewrite Ed in Hf. rewrite <- Hf.
    apply (old_init_then_copy_sat rszy used t h1 X Hy HL1).
Qed.

(* program text before commit b69eb94 / 53a83c0.
   receiver t owns its blocks in h; X = the rest of the ledger.
   OLD TEXT: the ledger is balanced for every k, but the receiver is a valid
   tree after a failure only when init did not throw (k = 0 or k >= 3);
   otherwise it is [reset_tree t]: empty fields, STALE cached end iterators
   (pointing into the freed indexes array of the old tree). *)
Theorem old_cotree_assign_unwind_balanced_partial : forall rszy used t k h X,
  wf h -> tree_inv t -> ledger_eq (live h) (owned_tree t ++ X) ->
  (used <> [] -> rszy <> 0) ->
  match old_assign rszy used t (arm k h) with
  | Ret _ t' h' => wf h' /\ ledger_eq (live h') (owned_tree t' ++ X)
                   /\ tree_inv t' /\ NoDup (map fst (owned_tree t'))
                   /\ Permutation (map fst (elems t')) (map fst used)
                   /\ rsz t' = (if N.eqb rszy 0 then 0 else rsz_for rszy)
  | Exn t' h' => wf h' /\ ledger_eq (live h') X
                 /\ (t' = empty_tree \/ (t' = reset_tree t /\ (k = 1 \/ k = 2)%nat))
                 /\ ((k = 0 \/ 3 <= k)%nat -> t' = empty_tree /\ tree_inv t')
  | Bad _ => False
  end.
Proof.
  intros rszy used t k h X W I P Hy.
  pose proof (old_assign_sat rszy used t (arm k h) X I (Lg_arm k _ _ (conj W P)) Hy) as H.
  destruct (old_assign rszy used t (arm k h)) as [a t' h'|t' h'|h']; cbn [sat] in H.
  - destruct H as [I' [Hp [Hr HL]]]. apply Lg_out in HL. tauto.
  - destruct H as [D [W' P']]. split; [exact W'|]. split; [exact P'|].
    assert (D' : t' = empty_tree \/ (t' = reset_tree t /\ (k = 1 \/ k = 2)%nat)).
    { destruct D as [D|[D F]]; [left; exact D|]. right. split; [exact D|].
      destruct k as [|[|[|j]]]; cbn [arm fuel] in F; destruct F as [F|F];
        try discriminate F; auto; inversion F. }
    split; [exact D'|].
    intros Hk. destruct D' as [->|[_ Hk']]; [split; [reflexivity | apply tree_inv_empty]|].
    exfalso. lia.
  - exact H.
Qed.

Example old_cotree_assign_hyp_sat :
  wf empty_heap /\ tree_inv empty_tree /\
  ledger_eq (live empty_heap) (owned_tree empty_tree ++ []) /\
  ([(1, 1)] <> @nil (N * N) -> 1 <> 0).
Proof.
  split; [exact wf_empty|]. split; [exact tree_inv_empty|].
  split; [apply Permutation_refl | discriminate].
Qed.

(* program text before commit b69eb94 / 53a83c0: the full statement (ledger AND
   valid receiver for every k) is FALSE for the old text *)
Definition old_cotree_assign_unwind_balanced_full : Prop :=
  forall rszy used t k h X,
  wf h -> tree_inv t -> ledger_eq (live h) (owned_tree t ++ X) ->
  (used <> [] -> rszy <> 0) ->
  match old_assign rszy used t (arm k h) with
  | Ret _ t' h' => wf h' /\ ledger_eq (live h') (owned_tree t' ++ X) /\ tree_inv t'
  | Exn t' h' => wf h' /\ ledger_eq (live h') X /\ tree_inv t'
  | Bad _ => False
  end.

(* witness: a receiver of reserved size 1 (indexes = block 0, data = block 1),
   y of reserved size 1 without elements, first request fails *)
Definition wit_tree : tree := mkTree (Some 0%nat) (Some 1%nat) 1 [] (Some 0%nat, 1).
Definition wit_heap : heap := mkHeap 2 [(1%nat, (LNew, 32)); (0%nat, (LNew, 24))] None [].

Lemma wit_ok : wf wit_heap /\ tree_inv wit_tree /\
               ledger_eq (live wit_heap) (owned_tree wit_tree ++ []).
Proof.
  split; [|split].
  - split; cbn.
    + constructor; [intros [H|[]]; discriminate H|]. constructor; [intros []|constructor].
    + repeat constructor.
  - split; [|split; [|split]]; cbn.
    + intros H; discriminate H.
    + intros _; split; discriminate.
    + exists 1. reflexivity.
    + reflexivity.
  - cbn. apply perm_swap.
Qed.

Theorem old_cotree_assign_usable_after_refuted :
  exists rszy used t k h X,
    wf h /\ tree_inv t /\ ledger_eq (live h) (owned_tree t ++ X) /\
    (used <> [] -> rszy <> 0) /\
    exists t' h', old_assign rszy used t (arm k h) = Exn t' h' /\ ~ tree_inv t'.
Proof.
  exists 1, [], wit_tree, 1%nat, wit_heap, [].
  destruct wit_ok as [W [I P]].
  split; [exact W|]. split; [exact I|]. split; [exact P|]. split; [intros H; contradiction|].
  eexists _, _. split; [vm_compute; reflexivity|].
  intros [_ [_ [_ H]]]. cbn in H. discriminate H.
Qed.

Theorem old_cotree_assign_unwind_balanced_full_refuted : ~ old_cotree_assign_unwind_balanced_full.
Proof.
  intro F. destruct wit_ok as [W [I P]].
  specialize (F 1 [] wit_tree 1%nat wit_heap [] W I P (fun H => False_ind _ (H eq_refl))).
  vm_compute in F. destruct F as [_ [_ [_ [_ [_ H]]]]]. discriminate H.
Qed.

(* the CURRENT operator= (init of commit b69eb94): ledger AND valid (empty)
   receiver for ALL k *)
Theorem cotree_assign_unwind_balanced : forall rszy used t k h X,
  wf h -> tree_inv t -> ledger_eq (live h) (owned_tree t ++ X) ->
  (used <> [] -> rszy <> 0) ->
  match assign rszy used t (arm k h) with
  | Ret _ t' h' => wf h' /\ ledger_eq (live h') (owned_tree t' ++ X)
                   /\ tree_inv t' /\ NoDup (map fst (owned_tree t'))
                   /\ Permutation (map fst (elems t')) (map fst used)
                   /\ rsz t' = (if N.eqb rszy 0 then 0 else rsz_for rszy)
  | Exn t' h' => wf h' /\ ledger_eq (live h') X /\ t' = empty_tree /\ tree_inv t'
  | Bad _ => False
  end.
Proof.
  intros rszy used t k h X W I P Hy.
  assert (H : sat (assign rszy used t (arm k h))
                  (fun _ t' h' => tree_inv t' /\ Permutation (map fst (elems t')) (map fst used) /\
                                  rsz t' = (if N.eqb rszy 0 then 0 else rsz_for rszy) /\
                                  Lg (owned_tree t' ++ X) h')
                  (fun t' h' => t' = empty_tree /\ Lg X h')).
  { unfold assign, assign_gen. eapply sat_bind.
    - apply destroy_sat; [exact I|]. apply Lg_arm. split; [exact W | exact P].
    - intros ? ? F; contradiction.
    - cbn beta. intros _ s1 h1 [_ HL1]. apply init_then_copy_sat; assumption. }
  destruct (assign rszy used t (arm k h)) as [a t' h'|t' h'|h']; cbn [sat] in H.
  - destruct H as [I' [Hp [Hr HL]]]. apply Lg_out in HL. tauto.
  - destruct H as [-> [W' P']]. split; [exact W'|]. split; [exact P'|].
    split; [reflexivity | apply tree_inv_empty].
  - exact H.
Qed.

Example cotree_assign_hyp_sat :
  wf wit_heap /\ tree_inv wit_tree /\ ledger_eq (live wit_heap) (owned_tree wit_tree ++ []) /\
  ([(1, 1)] <> @nil (N * N) -> 1 <> 0).
Proof.
  destruct wit_ok as [W [I P]]. split; [exact W|]. split; [exact I|]. split; [exact P | discriminate].
Qed.

(* CO_Tree::rebuild_bigger_tree()   CO_Tree.cc:820 *)
Definition rebuild_bigger : M tree unit :=
  t <- get ;;
  if N.eqb (rsz t) 0 then init 3
  else
    let nr := rsz t * 2 + 1 in
    ni <- alloc LNew (sz_dim * (nr + 2)) ;;
    nd <- try_catch (alloc LNew (sz_coeff * (nr + 1)))
            (free LNew ni ;;; throw) ;;        (* delete[] new_indexes; throw; *)
    (* elements are MOVED (bitwise), slot i -> slot 2i: no allocation *)
    free_opt LNew (indexes t) ;;;              (* delete[] indexes *)
    free_opt LNew (data t) ;;;                 (* deallocate(data, reserved_size+1) *)
    put (mkTree (Some ni) (Some nd) nr
                (map (fun e => (2 * fst e, snd e)) (elems t)) (cend t)) ;;;
    modify refresh.                            (* refresh_cached_iterators() *)

Lemma elems_blks_move : forall es,
  elems_blks (map (fun e : N * option (nat * N) => (2 * fst e, snd e)) es) = elems_blks es.
Proof.
  induction es as [|e es IH]; [reflexivity|].
  unfold elems_blks in *. cbn [map flat_map]. f_equal. exact IH.
Qed.

Lemma tree_rsz0_empty : forall t, tree_inv t -> rsz t = 0 -> t = empty_tree.
Proof.
  intros [i d r e c] [I0 [_ [_ I3]]] Hr. cbn in *. destruct (I0 Hr) as [-> [-> ->]]. subst r c.
  reflexivity.
Qed.

Lemma rebuild_bigger_sat : forall s h X,
  tree_inv s -> Lg (owned_tree s ++ X) h ->
  sat (rebuild_bigger s h)
      (fun _ s' h' => tree_inv s' /\ Lg (owned_tree s' ++ X) h' /\
                      rsz s' = (if N.eqb (rsz s) 0 then 3 else rsz s * 2 + 1) /\
                      length (elems s') = length (elems s))
      (fun s' h' => s' = s /\ Lg (owned_tree s ++ X) h').
Proof.
  intros s h X I HL. unfold rebuild_bigger. rewrite bind_get.
  destruct (N.eqb_spec (rsz s) 0) as [E|E].
  - pose proof (tree_rsz0_empty s I E) as ->.
    eapply sat_conseq; [apply init_sat; exact HL| |].
    + cbn beta. intros _ s' h' [I' [He [Hr HL']]]. cbn in HL.
      split; [exact I'|]. split; [|split].
      * eapply Lg_perm; [exact HL'|]. apply Permutation_refl.
      * exact Hr.
      * rewrite He. reflexivity.
    + cbn beta. intros s' h' [-> HL']. split; [reflexivity|]. exact HL'.
  - cbv zeta. destruct I as [I0 [I1 [[d I2] I3]]].
    destruct (I1 E) as [Hi Hd].
    destruct (indexes s) as [bi|] eqn:Ei; [|contradiction].
    destruct (data s) as [bd|] eqn:Ed; [|contradiction].
    assert (Ho : owned_tree s = (bi, (LNew, sz_dim * (rsz s + 2)))
                                :: (bd, (LNew, sz_coeff * (rsz s + 1)))
                                :: elems_blks (elems s)).
    { unfold owned_tree, frame_blks. rewrite Ei, Ed. reflexivity. }
    rewrite Ho in HL. cbn [app] in HL.
    eapply sat_bind.
    + apply alloc_sat; exact HL.
    + cbn beta. intros s' h' [-> H]. split; [reflexivity|]. rewrite Ho. exact H.
    + cbn beta. intros ni s1 h1 [-> HL1].
      eapply sat_bind with (E1 := fun s' h' => s' = s /\ Lg (owned_tree s ++ X) h').
      * eapply sat_try.
        -- apply alloc_sat; exact HL1.
        -- cbn beta. intros a s' h' H; exact H.
        -- cbn beta. intros s2 h2 [-> HL2]. eapply sat_bind.
           ++ eapply free_sat; [exact HL2 | apply Permutation_refl].
           ++ intros ? ? F; contradiction.
           ++ cbn beta. intros _ s3 h3 [-> HL3]. cbn. split; [reflexivity|].
              rewrite Ho. exact HL3.
      * intros s' h' H; exact H.
      * cbn beta. intros nd s2 h2 [-> HL2].
        set (eni := (ni, (LNew, sz_dim * (rsz s * 2 + 1 + 2)))) in *.
        set (end_ := (nd, (LNew, sz_coeff * (rsz s * 2 + 1 + 1)))) in *.
        set (ebi := (bi, (LNew, sz_dim * (rsz s + 2)))) in *.
        set (ebd := (bd, (LNew, sz_coeff * (rsz s + 1)))) in *.
        eapply sat_bind.
        -- eapply free_opt_sat with (X := end_ :: eni :: ebd :: elems_blks (elems s) ++ X);
             [exact HL2|].
           cbn [app]. apply Permutation_sym.
           apply (Permutation_middle [end_; eni] (ebd :: elems_blks (elems s) ++ X) ebi).
        -- intros ? ? F; contradiction.
        -- cbn beta. intros _ s3 h3 [-> HL3]. eapply sat_bind.
           ++ eapply free_opt_sat with (X := end_ :: eni :: elems_blks (elems s) ++ X);
                [exact HL3|].
              cbn [app]. apply Permutation_sym.
              apply (Permutation_middle [end_; eni] (elems_blks (elems s) ++ X) ebd).
           ++ intros ? ? F; contradiction.
           ++ cbn beta. intros _ s4 h4 [-> HL4]. rewrite bind_put. cbn [modify sat].
              unfold refresh. cbn [rsz indexes data elems cend].
              split; [|split; [|split]].
              ** split; [|split; [|split]]; cbn [rsz indexes data elems cend].
                 --- intros H0. exfalso. lia.
                 --- intros _. split; discriminate.
                 --- exists (d + 1). rewrite N.pow_add_r. rewrite <- I2. cbn. lia.
                 --- reflexivity.
              ** unfold owned_tree, frame_blks. cbn [indexes data rsz elems opt_blk app].
                 rewrite elems_blks_move. eapply Lg_perm; [exact HL4|]. apply perm_swap.
              ** reflexivity.
              ** cbn [elems]. apply map_length.
Qed.

Theorem cotree_rebuild_bigger_unwind_balanced : forall t k h X,
  wf h -> tree_inv t -> ledger_eq (live h) (owned_tree t ++ X) ->
  match rebuild_bigger t (arm k h) with
  | Ret _ t' h' => wf h' /\ ledger_eq (live h') (owned_tree t' ++ X)
                   /\ tree_inv t' /\ NoDup (map fst (owned_tree t'))
                   /\ length (elems t') = length (elems t)
  | Exn t' h' => wf h' /\ ledger_eq (live h') (owned_tree t ++ X) /\ t' = t
  | Bad _ => False
  end.
Proof.
  intros t k h X W I P.
  pose proof (rebuild_bigger_sat t (arm k h) X I (Lg_arm k _ _ (conj W P))) as H.
  destruct (rebuild_bigger t (arm k h)) as [a t' h'|t' h'|h']; cbn [sat] in H.
  - destruct H as [I' [HL [_ Hlen]]]. apply Lg_out in HL. tauto.
  - destruct H as [-> [W' P']]. auto.
  - exact H.
Qed.

Example cotree_rebuild_bigger_hyp_sat :
  wf empty_heap /\ tree_inv empty_tree /\
  ledger_eq (live empty_heap) (owned_tree empty_tree ++ []).
Proof.
  split; [exact wf_empty|]. split; [exact tree_inv_empty | apply Permutation_refl].
Qed.

(* ========================================================================= *)
(*  (g) Dense_Row                                                            *)
(* ========================================================================= *)

(* coeffs: in index order; limb block (id, bytes) of each CONSTRUCTED coefficient
   (None = default-constructed, no limb block).  size() = length coeffs. *)
Record drow := mkRow {
  vec    : option nat;
  cap    : N;
  coeffs : list (option (nat * N))
}.

Definition empty_row : drow := mkRow None 0 [].

Definition coeff_blk (c : option (nat * N)) : list blk :=
  match c with Some (b, sz) => [(b, (LGmp, sz))] | None => [] end.

Definition coeffs_blks (cs : list (option (nat * N))) : list blk := flat_map coeff_blk cs.

Definition owned_row (r : drow) : list blk :=
  opt_blk LNew (sz_coeff * cap r) (vec r) ++ coeffs_blks (coeffs r).

Definition dsize (r : drow) : N := N.of_nat (length (coeffs r)).

Definition row_inv (r : drow) : Prop :=
  (vec r = None -> cap r = 0) /\ dsize r <= cap r.

Lemma row_inv_empty : row_inv empty_row.
Proof. split; cbn; [reflexivity | lia]. Qed.

(* Dense_Row::shrink(new_size): destroy from the end down *)
Definition shrink (new_size : nat) : M drow unit :=
  r <- get ;;
  free_list (coeffs_blks (rev (skipn new_size (coeffs r)))) ;;;
  put (mkRow (vec r) (cap r) (firstn new_size (coeffs r))).

(* Dense_Row::resize(new_size)   Dense_Row.cc:46 *)
Definition dense_resize (new_size : N) : M drow unit :=
  r <- get ;;
  if N.leb new_size (dsize r) then shrink (N.to_nat new_size)
  else
    (if N.ltb (cap r) new_size then
       (* new_vec = allocate(new_capacity = new_size) *)
       nv <- alloc LNew (sz_coeff * new_size) ;;
       (* if (impl.vec != nullptr) { memcpy; deallocate(impl.vec, impl.capacity); } *)
       free_opt LNew (vec r) ;;;
       modify (fun r => mkRow (Some nv) new_size (coeffs r))
     else ret tt) ;;;
    (* while (impl.size != new_size) new (&vec[size++]) Coefficient();  no allocation *)
    modify (fun r => mkRow (vec r) (cap r)
                           (coeffs r ++ repeat None (N.to_nat (new_size - dsize r)))).

Lemma coeffs_blks_app : forall a b, coeffs_blks (a ++ b) = coeffs_blks a ++ coeffs_blks b.
Proof. intros; unfold coeffs_blks; apply flat_map_app. Qed.

Lemma coeffs_blks_rev : forall cs, Permutation (coeffs_blks (rev cs)) (coeffs_blks cs).
Proof.
  intros cs. unfold coeffs_blks. apply Permutation_flat_map.
  apply Permutation_sym, Permutation_rev.
Qed.

Lemma coeffs_blks_repeat_None : forall n, coeffs_blks (repeat None n) = [].
Proof. induction n; cbn; auto. Qed.

Lemma perm_rot3 {A} (a b c x : list A) :
  Permutation (a ++ b ++ c ++ x) (c ++ a ++ b ++ x).
Proof.
  rewrite !app_assoc. apply Permutation_app_tail.
  rewrite <- (app_assoc c a b). apply Permutation_app_comm.
Qed.

Lemma shrink_sat : forall n s h X,
  Lg (owned_row s ++ X) h ->
  sat (shrink n s h)
      (fun _ s' h' => s' = mkRow (vec s) (cap s) (firstn n (coeffs s)) /\
                      Lg (owned_row s' ++ X) h')
      (fun _ _ => False).
Proof.
  intros n s h X HL. unfold shrink. rewrite bind_get.
  eapply sat_bind.
  - eapply free_list_sat with
      (X := opt_blk LNew (sz_coeff * cap s) (vec s) ++ coeffs_blks (firstn n (coeffs s)) ++ X);
      [exact HL|].
    unfold owned_row. rewrite <- (firstn_skipn n (coeffs s)) at 1.
    rewrite coeffs_blks_app. rewrite <- !app_assoc.
    eapply Permutation_trans.
    2:{ apply Permutation_app_tail. apply Permutation_sym. apply coeffs_blks_rev. }
    apply perm_rot3.
  - intros ? ? F; contradiction.
  - cbn beta. intros _ s1 h1 [-> HL1]. cbn [put sat]. split; [reflexivity|].
    unfold owned_row. cbn [vec cap coeffs]. rewrite <- app_assoc. exact HL1.
Qed.

Lemma dense_resize_sat : forall ns s h X,
  row_inv s -> Lg (owned_row s ++ X) h ->
  sat (dense_resize ns s h)
      (fun _ s' h' => row_inv s' /\ dsize s' = ns /\ Lg (owned_row s' ++ X) h')
      (fun s' h' => s' = s /\ Lg (owned_row s ++ X) h').
Proof.
  intros ns s h X [I0 I1] HL. unfold dense_resize. rewrite bind_get.
  destruct (N.leb_spec ns (dsize s)) as [Hle|Hgt].
  - eapply sat_conseq; [apply shrink_sat; exact HL| |].
    + cbn beta. intros _ s' h' [-> HL']. unfold row_inv, dsize in *. cbn [vec cap coeffs].
      rewrite firstn_length. split; [split; [exact I0 | lia]|]. split; [lia | exact HL'].
    + cbn beta. intros ? ? F; contradiction.
  - eapply sat_bind with
      (Q1 := fun _ s1 h1 => coeffs s1 = coeffs s /\ ns <= cap s1 /\ (vec s1 = None -> False) /\
                            Lg (owned_row s1 ++ X) h1)
      (E1 := fun s' h' => s' = s /\ Lg (owned_row s ++ X) h').
    + destruct (N.ltb_spec (cap s) ns) as [Hc|Hc].
      * eapply sat_bind.
        -- apply alloc_sat; exact HL.
        -- cbn beta. intros s' h' H; exact H.
        -- cbn beta. intros nv s1 h1 [-> HL1]. eapply sat_bind.
           ++ eapply free_opt_sat with
                (X := (nv, (LNew, sz_coeff * ns)) :: coeffs_blks (coeffs s) ++ X); [exact HL1|].
              unfold owned_row. rewrite <- app_assoc.
              apply Permutation_middle.
           ++ intros ? ? F; contradiction.
           ++ cbn beta. intros _ s2 h2 [-> HL2]. cbn [modify sat coeffs cap vec].
              split; [reflexivity|]. split; [lia|]. split; [discriminate|].
              unfold owned_row. cbn [vec cap coeffs opt_blk app]. exact HL2.
      * cbn [ret sat]. split; [reflexivity|]. split; [exact Hc|]. split; [|exact HL].
        intros Hv. specialize (I0 Hv). unfold dsize in *. lia.
    + intros s' h' H; exact H.
    + cbn beta. intros _ s1 h1 [Hc [Hcap [Hv HL1]]]. cbn [modify sat].
      unfold row_inv, dsize in *. cbn [vec cap coeffs].
      rewrite app_length, repeat_length, Hc.
      split; [split; [intros Hn; contradiction (Hv Hn) | lia]|]. split; [lia|].
      unfold owned_row in *. cbn [vec cap coeffs].
      rewrite coeffs_blks_app, coeffs_blks_repeat_None, app_nil_r. rewrite <- Hc. exact HL1.
Qed.

Theorem dense_resize_unwind_balanced : forall ns r k h X,
  wf h -> row_inv r -> ledger_eq (live h) (owned_row r ++ X) ->
  match dense_resize ns r (arm k h) with
  | Ret _ r' h' => wf h' /\ ledger_eq (live h') (owned_row r' ++ X)
                   /\ row_inv r' /\ dsize r' = ns /\ NoDup (map fst (owned_row r'))
  | Exn r' h' => wf h' /\ ledger_eq (live h') (owned_row r ++ X) /\ r' = r
  | Bad _ => False
  end.
Proof.
  intros ns r k h X W I P.
  pose proof (dense_resize_sat ns r (arm k h) X I (Lg_arm k _ _ (conj W P))) as H.
  destruct (dense_resize ns r (arm k h)) as [a r' h'|r' h'|h']; cbn [sat] in H.
  - destruct H as [I' [Hs HL]]. apply Lg_out in HL. tauto.
  - destruct H as [-> [W' P']]. auto.
  - exact H.
Qed.

Example dense_resize_hyp_sat :
  wf empty_heap /\ row_inv empty_row /\ ledger_eq (live empty_heap) (owned_row empty_row ++ []).
Proof.
  split; [exact wf_empty|]. split; [exact row_inv_empty | apply Permutation_refl].
Qed.

(* Dense_Row::Dense_Row(const Dense_Row& y)   Dense_Row_inlines.hh:
   impl is a fully constructed member: when the body throws, ~Impl runs
   (destroys the [size] constructed coefficients from the end down, then
   deallocate(vec, capacity), a no-op when vec is null). *)
Fixpoint copy_coeffs (ls : list N) : M drow unit :=
  match ls with
  | [] => ret tt
  | lb :: rest =>
      b <- alloc LGmp (limb_bytes lb) ;;           (* new (&vec[size]) Coefficient(y[size]) *)
      modify (fun r => mkRow (vec r) (cap r) (coeffs r ++ [Some (b, limb_bytes lb)])) ;;;  (* ++size *)
      copy_coeffs rest
  end.

Definition impl_dtor : M drow unit :=
  r <- get ;;
  free_list (coeffs_blks (rev (coeffs r))) ;;;
  free_opt LNew (vec r).

(* y is given as (capacity, limbs of each coefficient); y.vec != nullptr is
   modelled as ycap <> 0 *)
Definition dense_copy_body (ycap : N) (ycoeffs : list N) : M drow unit :=
  if N.eqb ycap 0 then ret tt
  else
    modify (fun r => mkRow (vec r) ycap (coeffs r)) ;;;      (* impl.capacity = y.capacity() *)
    nv <- alloc LNew (sz_coeff * ycap) ;;                    (* impl.vec = allocate(capacity) *)
    modify (fun r => mkRow (Some nv) (cap r) (coeffs r)) ;;;
    copy_coeffs ycoeffs.

Definition dense_copy (ycap : N) (ycoeffs : list N) : M unit drow :=
  construct empty_row (try_catch (dense_copy_body ycap ycoeffs) (impl_dtor ;;; throw)).

Lemma copy_coeffs_sat : forall ls s h X,
  Lg (owned_row s ++ X) h ->
  sat (copy_coeffs ls s h)
      (fun _ s' h' => vec s' = vec s /\ cap s' = cap s /\
                      length (coeffs s') = (length (coeffs s) + length ls)%nat /\
                      Lg (owned_row s' ++ X) h')
      (fun s' h' => Lg (owned_row s' ++ X) h').
Proof.
  induction ls as [|lb rest IH]; intros s h X HL; cbn [copy_coeffs].
  - cbn [ret sat]. split; [reflexivity|]. split; [reflexivity|]. split; [cbn; lia | exact HL].
  - eapply sat_bind.
    + apply alloc_sat; exact HL.
    + cbn beta. intros s' h' [-> H]. exact H.
    + cbn beta. intros b s1 h1 [-> HL1]. rewrite bind_modify.
      eapply sat_conseq.
      * apply IH with (X := X). unfold owned_row in *. cbn [vec cap coeffs].
        rewrite coeffs_blks_app. cbn [coeffs_blks flat_map coeff_blk app].
        eapply Lg_perm; [exact HL1|].
        rewrite <- !app_assoc. cbn [app].
        rewrite !app_assoc. apply Permutation_middle.
      * cbn beta. cbn [vec cap coeffs]. intros _ s2 h2 [A [B [C D]]].
        rewrite app_length in C. cbn [length] in *.
        split; [exact A|]. split; [exact B|]. split; [lia | exact D].
      * cbn beta. intros s2 h2 H; exact H.
Qed.

Lemma impl_dtor_sat : forall s h X,
  Lg (owned_row s ++ X) h ->
  sat (impl_dtor s h) (fun _ s' h' => Lg X h') (fun _ _ => False).
Proof.
  intros s h X HL. unfold impl_dtor. rewrite bind_get.
  eapply sat_bind.
  - eapply free_list_sat with (X := opt_blk LNew (sz_coeff * cap s) (vec s) ++ X); [exact HL|].
    unfold owned_row. rewrite <- app_assoc.
    eapply Permutation_trans.
    2:{ apply Permutation_app_tail. apply Permutation_sym. apply coeffs_blks_rev. }
    rewrite !app_assoc. apply Permutation_app_tail. apply Permutation_app_comm.
  - intros ? ? F; contradiction.
  - cbn beta. intros _ s1 h1 [-> HL1].
    eapply sat_conseq.
    + eapply free_opt_sat; [exact HL1|]. apply Permutation_refl.
    + cbn beta. intros _ s' h' [_ H]; exact H.
    + intros ? ? F; contradiction.
Qed.

Lemma dense_copy_sat : forall ycap ycoeffs (u : unit) h X,
  N.of_nat (length ycoeffs) <= ycap ->
  Lg X h ->
  sat (dense_copy ycap ycoeffs u h)
      (fun r _ h' => row_inv r /\ dsize r = (if N.eqb ycap 0 then 0 else N.of_nat (length ycoeffs))
                     /\ Lg (owned_row r ++ X) h')
      (fun _ h' => Lg X h').
Proof.
  intros ycap ycoeffs u h X Hy HL. unfold dense_copy.
  eapply sat_construct with
    (Q1 := fun _ r h' => row_inv r /\ dsize r = (if N.eqb ycap 0 then 0 else N.of_nat (length ycoeffs))
                         /\ Lg (owned_row r ++ X) h')
    (E1 := fun _ h' => Lg X h').
  - eapply sat_try with
      (Q1 := fun _ r h' => row_inv r /\ dsize r = (if N.eqb ycap 0 then 0 else N.of_nat (length ycoeffs))
                           /\ Lg (owned_row r ++ X) h')
      (E1 := fun s' h' => Lg (owned_row s' ++ X) h').
    + unfold dense_copy_body. destruct (N.eqb_spec ycap 0) as [E|E].
      * cbn [ret sat]. split; [apply row_inv_empty|]. split; [reflexivity | exact HL].
      * rewrite bind_modify. cbn [vec coeffs empty_row].
        eapply sat_bind.
        -- apply alloc_sat; exact HL.
        -- cbn beta. intros s' h' [-> H]. exact H.
        -- cbn beta. intros nv s1 h1 [-> HL1]. rewrite bind_modify. cbn [cap coeffs].
           eapply sat_conseq.
           ++ apply copy_coeffs_sat with (X := X). unfold owned_row. cbn. exact HL1.
           ++ cbn beta. cbn [vec cap coeffs length]. intros _ s2 h2 [A [B [C D]]].
              unfold row_inv, dsize. rewrite A, B, C. cbn [Nat.add].
              split; [split; [discriminate | exact Hy]|]. split; [reflexivity | exact D].
           ++ cbn beta. intros s2 h2 H; exact H.
    + cbn beta. intros a s' h' H; exact H.
    + cbn beta. intros s2 h2 HL2. eapply sat_bind.
      * apply impl_dtor_sat; exact HL2.
      * intros ? ? F; contradiction.
      * cbn beta. intros _ s3 h3 HL3. cbn. exact HL3.
  - cbn beta. intros _ s' h' H; exact H.
  - cbn beta. intros s' h' H; exact H.
Qed.

Theorem dense_copy_unwind_balanced : forall ycap ycoeffs k h,
  wf h -> N.of_nat (length ycoeffs) <= ycap ->
  match dense_copy ycap ycoeffs tt (arm k h) with
  | Ret r _ h' => wf h' /\ ledger_eq (live h') (owned_row r ++ live h)
                  /\ row_inv r /\ NoDup (map fst (owned_row r))
                  /\ dsize r = (if N.eqb ycap 0 then 0 else N.of_nat (length ycoeffs))
  | Exn _ h' => wf h' /\ ledger_eq (live h') (live h)
  | Bad _ => False
  end.
Proof.
  intros ycap ycoeffs k h W Hy.
  pose proof (dense_copy_sat ycap ycoeffs tt (arm k h) (live h) Hy
                (Lg_arm k _ _ (Lg_self h W))) as H.
  destruct (dense_copy ycap ycoeffs tt (arm k h)) as [r u h'|u h'|h']; cbn [sat] in H.
  - destruct H as [I [Hs HL]]. apply Lg_out in HL. tauto.
  - exact H.
  - exact H.
Qed.

Example dense_copy_hyp_sat : wf empty_heap /\ N.of_nat (length [1; 0; 2]) <= 4.
Proof. split; [exact wf_empty | cbn; lia]. Qed.

(* ========================================================================= *)
(*  (h) Swapping_Vector<T>::reserve   Swapping_Vector_inlines.hh:60          *)
(*  for T whose default constructor and swap do not allocate                 *)
(* ========================================================================= *)

Record svec := mkSv { sbuf : option nat; scap : N; ssize : N }.

Definition owned_sv (szT : N) (v : svec) : list blk :=
  opt_blk LNew (scap v * szT) (sbuf v).

Definition sv_inv (v : svec) : Prop :=
  (sbuf v = None <-> scap v = 0) /\ ssize v <= scap v.

(* c = compute_capacity(new_capacity, max_num_rows()) is a parameter; the branch
   is only entered with new_capacity > capacity() >= 0 and compute_capacity
   returns at least its first argument, so c > 0 and reserve(c) allocates. *)
Definition sv_reserve (szT new_capacity c : N) : M svec unit :=
  v <- get ;;
  if N.ltb (scap v) new_capacity then
    (* std::vector<T> new_impl; new_impl.reserve(c); *)
    nb <- alloc LNew (c * szT) ;;
    (* new_impl.resize(impl.size()); swaps: no allocation *)
    (* swap(impl, new_impl); ~new_impl releases the old buffer (if any) *)
    free_opt LNew (sbuf v) ;;;
    put (mkSv (Some nb) c (ssize v))
  else ret tt.

Lemma sv_reserve_sat : forall szT nc c s h X,
  sv_inv s -> nc <= c -> Lg (owned_sv szT s ++ X) h ->
  sat (sv_reserve szT nc c s h)
      (fun _ s' h' => sv_inv s' /\ ssize s' = ssize s /\ nc <= scap s' /\
                      Lg (owned_sv szT s' ++ X) h')
      (fun s' h' => s' = s /\ Lg (owned_sv szT s ++ X) h').
Proof.
  intros szT nc c s h X [I0 I1] Hc HL. unfold sv_reserve. rewrite bind_get.
  destruct (N.ltb_spec (scap s) nc) as [Hlt|Hge].
  - eapply sat_bind.
    + apply alloc_sat; exact HL.
    + cbn beta. intros s' h' H; exact H.
    + cbn beta. intros nb s1 h1 [-> HL1]. eapply sat_bind.
      * eapply free_opt_sat with (X := (nb, (LNew, c * szT)) :: X); [exact HL1|].
        unfold owned_sv. apply Permutation_middle.
      * intros ? ? F; contradiction.
      * cbn beta. intros _ s2 h2 [-> HL2]. cbn [put sat].
        unfold sv_inv, owned_sv. cbn [sbuf scap ssize opt_blk app].
        split; [split; [split; [discriminate | lia] | lia]|].
        split; [reflexivity|]. split; [exact Hc | exact HL2].
  - cbn [ret sat]. split; [split; assumption|]. split; [reflexivity|]. split; [exact Hge | exact HL].
Qed.

Theorem sv_reserve_unwind_balanced : forall szT nc c v k h X,
  wf h -> sv_inv v -> nc <= c -> ledger_eq (live h) (owned_sv szT v ++ X) ->
  match sv_reserve szT nc c v (arm k h) with
  | Ret _ v' h' => wf h' /\ ledger_eq (live h') (owned_sv szT v' ++ X)
                   /\ sv_inv v' /\ ssize v' = ssize v /\ nc <= scap v'
  | Exn v' h' => wf h' /\ ledger_eq (live h') (owned_sv szT v ++ X) /\ v' = v
  | Bad _ => False
  end.
Proof.
  intros szT nc c v k h X W I Hc P.
  pose proof (sv_reserve_sat szT nc c v (arm k h) X I Hc (Lg_arm k _ _ (conj W P))) as H.
  destruct (sv_reserve szT nc c v (arm k h)) as [a v' h'|v' h'|h']; cbn [sat] in H.
  - destruct H as [I' [Hs [Hn [W' P']]]]. auto.
  - destruct H as [-> [W' P']]. auto.
  - exact H.
Qed.

Example sv_reserve_hyp_sat :
  wf empty_heap /\ sv_inv (mkSv None 0 0) /\ 3 <= 8 /\
  ledger_eq (live empty_heap) (owned_sv 24 (mkSv None 0 0) ++ []).
Proof.
  split; [exact wf_empty|]. split.
  - split; cbn; [tauto | lia].
  - split; [lia | apply Permutation_refl].
Qed.

(* ========================================================================= *)
(*  (i) MIP_Problem::add_constraint_helper   MIP_Problem_inlines.hh:93       *)
(* ========================================================================= *)

(* input_cs : std::vector<Constraint*>; items = blocks of each owned constraint *)
Record cvec := mkCv { vbuf : option nat; vcap : N; items : list (list blk) }.

Definition vsize (v : cvec) : N := N.of_nat (length (items v)).

Definition owned_cv (v : cvec) : list blk :=
  opt_blk LNew (8 * vcap v) (vbuf v) ++ concat (items v).

Definition cv_inv (v : cvec) : Prop :=
  (vbuf v = None <-> vcap v = 0) /\ vsize v <= vcap v.

(* std::vector<T*>::reserve(n) *)
Definition vec_reserve (newcap : N) : M cvec unit :=
  v <- get ;;
  if N.ltb (vcap v) newcap then
    nb <- alloc LNew (8 * newcap) ;;
    free_opt LNew (vbuf v) ;;;                    (* memmove; deallocate old *)
    put (mkCv (Some nb) newcap (items v))
  else ret tt.

(* new Constraint(c): operator new(sizeof(Constraint)), then the copy
   construction = RAII-safe sub-allocations [subs]; if it throws, the
   new-expression releases the node. *)
Definition new_constraint {St} (csize : N) (subs : list (layer * N)) : M St (list blk) :=
  node <- alloc LNew csize ;;
  bs <- try_catch (raii_allocs subs) (free LNew node ;;; throw) ;;
  ret ((node, (LNew, csize)) :: bs).

(* std::vector<T*>::push_back (libstdc++): if full, _M_realloc_insert with
   capacity max(1, 2*size) *)
Definition push_back (p : list blk) : M cvec unit :=
  v <- get ;;
  (if N.eqb (vsize v) (vcap v) then
     let nc := N.max 1 (2 * vsize v) in
     nb <- alloc LNew (8 * nc) ;;
     free_opt LNew (vbuf v) ;;;
     put (mkCv (Some nb) nc (items v))
   else ret tt) ;;;
  modify (fun v => mkCv (vbuf v) (vcap v) (items v ++ [p])).

(* newcap = compute_capacity(size + 1, max_size) is a parameter *)
Definition add_constraint_helper (newcap csize : N) (subs : list (layer * N)) : M cvec unit :=
  v <- get ;;
  (if N.eqb (vsize v) (vcap v) then vec_reserve newcap else ret tt) ;;;
  p <- new_constraint csize subs ;;
  push_back p.

(* MUTANT: input_cs.push_back(new Constraint(c)) without the reserve *)
Definition add_constraint_unguarded (csize : N) (subs : list (layer * N)) : M cvec unit :=
  p <- new_constraint csize subs ;;
  push_back p.

Lemma new_constraint_sat {St} : forall csize subs (s : St) h X,
  Lg X h ->
  sat (new_constraint csize subs s h)
      (fun p s' h' => s' = s /\ map snd p = (LNew, csize) :: subs /\ Lg (p ++ X) h')
      (fun s' h' => s' = s /\ Lg X h').
Proof.
  intros csize subs s h X HL. unfold new_constraint.
  eapply sat_bind.
  - apply alloc_sat; exact HL.
  - cbn beta. intros s' h' H; exact H.
  - cbn beta. intros node s1 h1 [-> HL1].
    eapply sat_bind with (E1 := fun s' h' => s' = s /\ Lg X h').
    + eapply sat_try.
      * apply raii_allocs_sat; exact HL1.
      * cbn beta. intros a s' h' H; exact H.
      * cbn beta. intros s2 h2 [-> HL2]. eapply sat_bind.
        -- eapply free_sat; [exact HL2 | apply Permutation_refl].
        -- intros ? ? F; contradiction.
        -- cbn beta. intros _ s3 h3 [-> HL3]. cbn. auto.
    + intros s' h' H; exact H.
    + cbn beta. intros bs s2 h2 [-> [Hm HL2]]. cbn [ret sat]. split; [reflexivity|].
      split; [cbn [map snd]; rewrite Hm; reflexivity|].
      eapply Lg_perm; [exact HL2|]. cbn [app]. apply Permutation_sym, Permutation_middle.
Qed.

Lemma concat_snoc {A} (ls : list (list A)) (p : list A) : concat (ls ++ [p]) = concat ls ++ p.
Proof. rewrite concat_app. cbn. rewrite app_nil_r. reflexivity. Qed.

Lemma add_constraint_helper_sat : forall newcap csize subs s h X,
  cv_inv s -> vsize s < newcap -> Lg (owned_cv s ++ X) h ->
  sat (add_constraint_helper newcap csize subs s h)
      (fun _ s' h' => cv_inv s' /\ (exists p, items s' = items s ++ [p] /\ map snd p = (LNew, csize) :: subs)
                      /\ Lg (owned_cv s' ++ X) h')
      (fun s' h' => cv_inv s' /\ items s' = items s /\ Lg (owned_cv s' ++ X) h').
Proof.
  intros newcap csize subs s h X [I0 I1] Hn HL. unfold add_constraint_helper. rewrite bind_get.
  eapply sat_bind with
    (Q1 := fun _ s1 h1 => cv_inv s1 /\ items s1 = items s /\ vsize s1 < vcap s1 /\
                          Lg (owned_cv s1 ++ X) h1)
    (E1 := fun s' h' => cv_inv s' /\ items s' = items s /\ Lg (owned_cv s' ++ X) h').
  - destruct (N.eqb_spec (vsize s) (vcap s)) as [E|E].
    + unfold vec_reserve. rewrite bind_get.
      destruct (N.ltb_spec (vcap s) newcap) as [Hlt|Hge]; [|lia].
      eapply sat_bind.
      * apply alloc_sat; exact HL.
      * cbn beta. intros s' h' [-> H]. split; [split; assumption|]. split; [reflexivity | exact H].
      * cbn beta. intros nb s1 h1 [-> HL1]. eapply sat_bind.
        -- eapply free_opt_sat with (X := (nb, (LNew, 8 * newcap)) :: concat (items s) ++ X);
             [exact HL1|].
           unfold owned_cv. rewrite <- app_assoc. apply Permutation_middle.
        -- intros ? ? F; contradiction.
        -- cbn beta. intros _ s2 h2 [-> HL2]. cbn [put sat].
           unfold cv_inv, vsize, owned_cv in *. cbn [vbuf vcap items opt_blk app].
           split; [split; [split; [discriminate | lia] | lia]|].
           split; [reflexivity|]. split; [lia | exact HL2].
    + cbn [ret sat]. split; [split; assumption|]. split; [reflexivity|]. split; [lia | exact HL].
  - intros s' h' H; exact H.
  - cbn beta. intros _ s1 h1 [[J0 J1] [Hi [Hlt HL1]]].
    eapply sat_bind.
    + apply new_constraint_sat; exact HL1.
    + cbn beta. intros s' h' [-> H]. split; [split; assumption|]. split; assumption.
    + cbn beta. intros p s2 h2 [-> [Hp HL2]]. unfold push_back. rewrite bind_get.
      destruct (N.eqb_spec (vsize s1) (vcap s1)) as [E|E]; [lia|].
      rewrite bind_ret. cbn [modify sat].
      unfold cv_inv, vsize, owned_cv in *. cbn [vbuf vcap items].
      rewrite app_length. cbn [length].
      split; [split; [exact J0 | lia]|].
      split.
      * exists p. rewrite Hi. split; [reflexivity | exact Hp].
      * rewrite concat_snoc. eapply Lg_perm; [exact HL2|].
        rewrite <- !app_assoc. apply Permutation_sym, perm_rot3.
Qed.

(* On failure the receiver is logically unchanged (same items) but its buffer
   may already have been replaced by the bigger one: receiver' = the state the
   C++ leaves, with all its blocks accounted for. *)
Theorem mip_add_constraint_unwind_balanced : forall newcap csize subs v k h X,
  wf h -> cv_inv v -> vsize v < newcap -> ledger_eq (live h) (owned_cv v ++ X) ->
  match add_constraint_helper newcap csize subs v (arm k h) with
  | Ret _ v' h' => wf h' /\ ledger_eq (live h') (owned_cv v' ++ X) /\ cv_inv v'
                   /\ (exists p, items v' = items v ++ [p] /\ map snd p = (LNew, csize) :: subs)
                   /\ NoDup (map fst (owned_cv v'))
  | Exn v' h' => wf h' /\ ledger_eq (live h') (owned_cv v' ++ X) /\ cv_inv v'
                 /\ items v' = items v
  | Bad _ => False
  end.
Proof.
  intros newcap csize subs v k h X W I Hn P.
  pose proof (add_constraint_helper_sat newcap csize subs v (arm k h) X I Hn
                (Lg_arm k _ _ (conj W P))) as H.
  destruct (add_constraint_helper newcap csize subs v (arm k h)) as [a v' h'|v' h'|h'];
    cbn [sat] in H.
  - destruct H as [I' [Hp HL]]. apply Lg_out in HL. tauto.
  - destruct H as [I' [Hi [W' P']]]. auto.
  - exact H.
Qed.

Example mip_add_constraint_hyp_sat :
  wf empty_heap /\ cv_inv (mkCv None 0 []) /\ vsize (mkCv None 0 []) < 2 /\
  ledger_eq (live empty_heap) (owned_cv (mkCv None 0 []) ++ []).
Proof.
  split; [exact wf_empty|]. split.
  - split; cbn; [tauto | lia].
  - split; [cbn; lia | apply Permutation_refl].
Qed.

(* the mutant leaks the new-ed Constraint when push_back's reallocation fails *)
Theorem mip_add_constraint_unguarded_refuted :
  exists csize subs v k h X,
    wf h /\ cv_inv v /\ ledger_eq (live h) (owned_cv v ++ X) /\
    exists v' h',
      add_constraint_unguarded csize subs v (arm k h) = Exn v' h' /\
      ~ ledger_eq (live h') (owned_cv v' ++ X).
Proof.
  exists 32, [(LGmp, 8)], (mkCv None 0 []), 3%nat, empty_heap, [].
  split; [exact wf_empty|]. split; [split; cbn; [tauto | lia]|].
  split; [apply Permutation_refl|].
  eexists _, _. split; [vm_compute; reflexivity|].
  vm_compute. intro P. apply Permutation_sym in P.
  apply Permutation_nil in P. discriminate P.
Qed.

(* ========================================================================= *)
(*  (j) PIP_Decision_Node copy constructor   PIP_Tree.cc:1121                *)
(* ========================================================================= *)

(* base = blocks of the PIP_Tree_Node(y) base subobject; a child is the list of
   blocks its clone() allocated ([] = null child). clone() is RAII-safe. *)
Record dnode := mkDn { dbase : list blk; fchild : list blk; tchild : list blk }.

Definition owned_dn (d : dnode) : list blk := dbase d ++ fchild d ++ tchild d.

(* delete child: release its blocks (reverse order of allocation) *)
Definition delete_node {St} (bs : list blk) : M St unit := free_list (rev bs).

Definition pip_copy_body (guarded : bool) (base fc tc : list (layer * N)) : M dnode unit :=
  (* : PIP_Tree_Node(y), false_child(0), true_child(0) *)
  bb <- raii_allocs base ;;
  modify (fun d => mkDn bb (fchild d) (tchild d)) ;;;
  (* the base subobject is fully constructed: its destructor runs if the body throws *)
  try_catch
    (f <- raii_allocs fc ;;                        (* false_child = y.false_child->clone() *)
     modify (fun d => mkDn (dbase d) f (tchild d)) ;;;
     (* Safe_Node safe_node(false_child); *)
     t <- (if guarded
           then try_catch (raii_allocs tc) (delete_node f ;;; throw)
           else raii_allocs tc) ;;                 (* true_child = y.true_child->clone() *)
     modify (fun d => mkDn (dbase d) (fchild d) t))  (* safe_node.release() *)
    (delete_node bb ;;; throw).

Definition pip_copy_ctor (base fc tc : list (layer * N)) : M unit dnode :=
  construct (mkDn [] [] []) (pip_copy_body true base fc tc).

(* MUTANT: without the Safe_Node guard *)
Definition pip_copy_ctor_unguarded (base fc tc : list (layer * N)) : M unit dnode :=
  construct (mkDn [] [] []) (pip_copy_body false base fc tc).

Lemma delete_node_sat {St} : forall bs (s : St) h X,
  Lg (bs ++ X) h ->
  sat (delete_node bs s h) (fun _ s' h' => s' = s /\ Lg X h') (fun _ _ => False).
Proof.
  intros bs s h X HL. unfold delete_node.
  eapply free_list_sat; [exact HL|].
  apply Permutation_app_tail. apply Permutation_rev.
Qed.

Lemma pip_copy_body_sat : forall base fc tc s h X,
  Lg X h ->
  sat (pip_copy_body true base fc tc s h)
      (fun _ s' h' => map snd (dbase s') = base /\ map snd (fchild s') = fc /\
                      map snd (tchild s') = tc /\ Lg (owned_dn s' ++ X) h')
      (fun _ h' => Lg X h').
Proof.
  intros base fc tc s h X HL. unfold pip_copy_body.
  eapply sat_bind.
  - apply raii_allocs_sat; exact HL.
  - cbn beta. intros s' h' [_ H]; exact H.
  - cbn beta. intros bb s1 h1 [-> [Hb HL1]]. rewrite bind_modify.
    eapply sat_try with
      (Q1 := fun _ s' h' => map snd (dbase s') = base /\ map snd (fchild s') = fc /\
                            map snd (tchild s') = tc /\ Lg (owned_dn s' ++ X) h')
      (E1 := fun _ h' => Lg (bb ++ X) h').
    + eapply sat_bind.
      * apply raii_allocs_sat; exact HL1.
      * cbn beta. intros s' h' [_ H]; exact H.
      * cbn beta. intros f s2 h2 [-> [Hf HL2]]. rewrite bind_modify.
        cbn [dbase tchild].
        eapply sat_bind with (E1 := fun _ h' => Lg (bb ++ X) h').
        -- eapply sat_try.
           ++ apply raii_allocs_sat; exact HL2.
           ++ cbn beta. intros a s' h' H; exact H.
           ++ cbn beta. intros s3 h3 [-> HL3]. eapply sat_bind.
              ** apply delete_node_sat; exact HL3.
              ** intros ? ? F; contradiction.
              ** cbn beta. intros _ s4 h4 [-> HL4]. cbn. exact HL4.
        -- intros s' h' H; exact H.
        -- cbn beta. intros t s3 h3 [-> [Ht HL3]]. cbn [modify sat dbase fchild tchild].
           split; [exact Hb|]. split; [exact Hf|]. split; [exact Ht|].
           unfold owned_dn. cbn [dbase fchild tchild].
           eapply Lg_perm; [exact HL3|].
           (* t ++ f ++ bb ++ X ~ (bb ++ f ++ t) ++ X *)
           rewrite <- !app_assoc.
           eapply Permutation_trans; [apply perm_rot3|].
           apply Permutation_app_head.
           rewrite !app_assoc. apply Permutation_app_tail. apply Permutation_app_comm.
    + cbn beta. intros a s' h' H; exact H.
    + cbn beta. intros s2 h2 HL2. eapply sat_bind.
      * apply delete_node_sat; exact HL2.
      * intros ? ? F; contradiction.
      * cbn beta. intros _ s3 h3 [_ HL3]. cbn. exact HL3.
Qed.

Theorem pip_decision_copy_unwind_balanced : forall base fc tc k h,
  wf h ->
  match pip_copy_ctor base fc tc tt (arm k h) with
  | Ret d _ h' => wf h' /\ ledger_eq (live h') (owned_dn d ++ live h)
                  /\ map snd (dbase d) = base /\ map snd (fchild d) = fc
                  /\ map snd (tchild d) = tc /\ NoDup (map fst (owned_dn d))
  | Exn _ h' => wf h' /\ ledger_eq (live h') (live h)
  | Bad _ => False
  end.
Proof.
  intros base fc tc k h W.
  assert (H : sat (pip_copy_ctor base fc tc tt (arm k h))
                  (fun d _ h' => map snd (dbase d) = base /\ map snd (fchild d) = fc /\
                                 map snd (tchild d) = tc /\ Lg (owned_dn d ++ live h) h')
                  (fun _ h' => Lg (live h) h')).
  { unfold pip_copy_ctor. eapply sat_construct.
    - apply pip_copy_body_sat. apply Lg_arm. apply Lg_self. exact W.
    - cbn beta. intros _ s' h' H; exact H.
    - cbn beta. intros s' h' H; exact H. }
  destruct (pip_copy_ctor base fc tc tt (arm k h)) as [d u h'|u h'|h']; cbn [sat] in H.
  - destruct H as [Hb [Hf [Ht HL]]]. apply Lg_out in HL. tauto.
  - exact H.
  - exact H.
Qed.

Example pip_decision_copy_hyp_sat : wf empty_heap.
Proof. exact wf_empty. Qed.

Theorem pip_decision_copy_unguarded_refuted :
  exists base fc tc k h, wf h /\ exists h',
    pip_copy_ctor_unguarded base fc tc tt (arm k h) = Exn tt h' /\
    ~ ledger_eq (live h') (live h).
Proof.
  exists [(LGmp, 8)], [(LNew, 64)], [(LNew, 64)], 3%nat, empty_heap.
  split; [exact wf_empty|].
  eexists. split; [vm_compute; reflexivity|].
  vm_compute. intro P. apply Permutation_sym in P.
  apply Permutation_nil in P. discriminate P.
Qed.

(* ========================================================================= *)
(*  Observable interface (extracted to OCaml; compared event-by-event with    *)
(*  the real library for every k).  Result = (ok, trace oldest first,         *)
(*  leaked, owned):                                                          *)
(*    ok     : true = normal return, false = exception;                      *)
(*    leaked : number of blocks live at the end that are not owned by the     *)
(*             resulting / remaining object (receivers are built first, from *)
(*             the empty heap, so every live block is either owned or leaked);*)
(*             +1000 per owned block that is not live; Bad = 1000;           *)
(*    owned  : number of blocks owned by the resulting object (constructors: *)
(*             0 on exception) / by the receiver after the call (methods,    *)
(*             both outcomes).                                               *)
(*  k : the k-th allocation request of the observed call fails (0 = none).   *)
(* ========================================================================= *)

Definition observe_c {St'} (owned_ids : St' -> list nat) (r : res unit St') : obs :=
  match r with
  | Ret o _ h => (true, rev (trace h), leak_count (owned_ids o) h,
                  N.of_nat (length (owned_ids o)))
  | Exn _ h => (false, rev (trace h), leak_count [] h, 0)
  | Bad h => (false, rev (trace h), 1000, 0)
  end.

Definition failed_setup : obs := (false, [], 1000, 0).

Definition start (k : N) (h : heap) : heap := arm (N.to_nat k) (clear_trace h).

Definition tree_ids (t : tree) : list nat := map fst (owned_tree t).
Definition row_ids (r : drow) : list nat := map fst (owned_row r).

(* used-slot lists are normalised: positions outside 1..rsz and repeated
   positions are dropped (the C++ cannot represent them) *)
Fixpoint mem_N (x : N) (l : list N) : bool :=
  match l with [] => false | y :: l' => if N.eqb x y then true else mem_N x l' end.

Fixpoint dedup_pos (seen : list N) (l : list (N * N)) : list (N * N) :=
  match l with
  | [] => []
  | (p, lb) :: l' =>
      if mem_N p seen then dedup_pos seen l' else (p, lb) :: dedup_pos (p :: seen) l'
  end.

Definition norm_used (rsz0 : N) (used : list (N * N)) : list (N * N) :=
  dedup_pos [] (filter (fun pl => N.leb 1 (fst pl) && N.leb (fst pl) rsz0) used).

Definition tr_init (n k : N) : obs :=
  observe tree_ids (init n empty_tree (start k empty_heap)).

Definition tr_iter_ctor (src : list N) (k : N) : obs :=
  observe_c tree_ids (iter_ctor src tt (start k empty_heap)).

(* program text before commit b69eb94 / 53a83c0 *)
Definition tr_old_iter_ctor (src : list N) (k : N) : obs :=
  observe_c tree_ids (old_iter_ctor src tt (start k empty_heap)).

(* used : (dfs position, limbs), any order *)
Definition tr_copy_ctor (rsz0 : N) (used : list (N * N)) (k : N) : obs :=
  observe_c tree_ids (copy_ctor rsz0 (norm_used rsz0 used) tt (start k empty_heap)).

(* build a receiver tree (rsz0 should be 0 or 2^d - 1), without fault *)
Definition with_tree (rsz0 : N) (used : list (N * N)) (f : tree -> heap -> obs) : obs :=
  match copy_ctor rsz0 (norm_used rsz0 used) tt empty_heap with
  | Ret t _ h0 => f t h0
  | _ => failed_setup
  end.

Definition tr_assign (rsz_this : N) (used_this : list (N * N))
           (rsz_y : N) (used_y : list (N * N)) (k : N) : obs :=
  with_tree rsz_this used_this (fun t h0 =>
    observe tree_ids (assign rsz_y (norm_used rsz_y used_y) t (start k h0))).

(* program text before commit b69eb94 / 53a83c0 *)
Definition tr_old_assign (rsz_this : N) (used_this : list (N * N))
           (rsz_y : N) (used_y : list (N * N)) (k : N) : obs :=
  with_tree rsz_this used_this (fun t h0 =>
    observe tree_ids (old_assign rsz_y (norm_used rsz_y used_y) t (start k h0))).

Definition tr_rebuild_bigger (rsz0 : N) (used : list (N * N)) (k : N) : obs :=
  with_tree rsz0 used (fun t h0 => observe tree_ids (rebuild_bigger t (start k h0))).

(* receiver row: capacity cap (vec allocated iff cap > 0), one coefficient per
   entry of coeffs (truncated to cap), with a limb block of 8*limbs bytes iff
   limbs > 0 *)
Fixpoint build_coeffs (ls : list N) : M drow unit :=
  match ls with
  | [] => ret tt
  | lb :: rest =>
      (if N.eqb lb 0
       then modify (fun r => mkRow (vec r) (cap r) (coeffs r ++ [None]))
       else b <- alloc LGmp (8 * lb) ;;
            modify (fun r => mkRow (vec r) (cap r) (coeffs r ++ [Some (b, 8 * lb)]))) ;;;
      build_coeffs rest
  end.

Definition build_row (cap0 : N) (cs : list N) : M drow unit :=
  (if N.eqb cap0 0 then ret tt
   else nv <- alloc LNew (sz_coeff * cap0) ;; put (mkRow (Some nv) cap0 [])) ;;;
  build_coeffs (firstn (N.to_nat cap0) cs).

Definition tr_dense_resize (cap0 : N) (cs : list N) (new_size k : N) : obs :=
  match build_row cap0 cs empty_row empty_heap with
  | Ret _ r h0 => observe row_ids (dense_resize new_size r (start k h0))
  | _ => failed_setup
  end.

Definition tr_dense_copy (cap0 : N) (cs : list N) (k : N) : obs :=
  observe_c row_ids (dense_copy cap0 (firstn (N.to_nat cap0) cs) tt (start k empty_heap)).

(* Swapping_Vector<T>::reserve(new_capacity) on a vector of capacity old_cap
   (buffer of old_cap * szT bytes, allocated iff old_cap > 0) and [size]
   elements; c = compute_capacity(new_capacity, max_num_rows()) is what is
   passed to new_impl.reserve; szT = sizeof(T).  To give sizes in bytes use
   szT = 1.  [owned] counts the buffer only (0 or 1). *)
Definition tr_sv_reserve (old_cap size new_capacity c szT k : N) : obs :=
  let ids := fun v : svec => map fst (owned_sv szT v) in
  if N.eqb old_cap 0
  then observe ids (sv_reserve szT new_capacity c (mkSv None 0 size) (start k empty_heap))
  else
    match alloc LNew (old_cap * szT) tt empty_heap with
    | Ret b _ h0 =>
        observe ids (sv_reserve szT new_capacity c (mkSv (Some b) old_cap size) (start k h0))
    | _ => failed_setup
    end.

(* extras (not required by the harness): (i) on an empty vector, (j) *)
Definition tr_mip_add (guarded : bool) (newcap csize : N) (subs : list (layer * N)) (k : N) : obs :=
  let ids := fun v : cvec => map fst (owned_cv v) in
  observe ids ((if guarded then add_constraint_helper newcap csize subs
                else add_constraint_unguarded csize subs)
                 (mkCv None 0 []) (start k empty_heap)).

Definition tr_pip_copy (guarded : bool) (base fc tc : list (layer * N)) (k : N) : obs :=
  observe_c (fun d : dnode => map fst (owned_dn d))
            (construct (mkDn [] [] []) (pip_copy_body guarded base fc tc) tt (start k empty_heap)).

(* ---------- examples of the observable format (checked by vm_compute; the
   same values were measured on the real library) ---------- *)

Example ex_tr_init :
  (tr_init 4 1, tr_init 4 2, tr_init 4 3) =
  ((false, [EvFail LNew 72], 0, 0),
   (false, [EvAlloc LNew 72; EvFail LNew 128; EvFree LNew 72], 0, 0),
   (true, [EvAlloc LNew 72; EvAlloc LNew 128], 0, 2)).
Proof. vm_compute. reflexivity. Qed.

(* current code (measured on the repaired library): nothing is left behind *)
Example ex_tr_iter_ctor :
  map (tr_iter_ctor [1; 1]) [1; 2; 3; 4; 5] =
  [(false, [EvFail LNew 40], 0, 0);
   (false, [EvAlloc LNew 40; EvFail LNew 64; EvFree LNew 40], 0, 0);
   (false, [EvAlloc LNew 40; EvAlloc LNew 64; EvFail LGmp 8;
            EvFree LNew 40; EvFree LNew 64], 0, 0);
   (false, [EvAlloc LNew 40; EvAlloc LNew 64; EvAlloc LGmp 8; EvFail LGmp 8;
            EvFree LGmp 8; EvFree LNew 40; EvFree LNew 64], 0, 0);
   (true, [EvAlloc LNew 40; EvAlloc LNew 64; EvAlloc LGmp 8; EvAlloc LGmp 8], 0, 4)].
Proof. vm_compute. reflexivity. Qed.

(* program text before commit b69eb94 / 53a83c0: the defect, k = 3, 4 leave 2, 3
   blocks behind *)
Example ex_tr_old_iter_ctor :
  map (tr_old_iter_ctor [1; 1]) [2; 3; 4; 5] =
  [(false, [EvAlloc LNew 40; EvFail LNew 64; EvFree LNew 40], 0, 0);
   (false, [EvAlloc LNew 40; EvAlloc LNew 64; EvFail LGmp 8], 2, 0);
   (false, [EvAlloc LNew 40; EvAlloc LNew 64; EvAlloc LGmp 8; EvFail LGmp 8], 3, 0);
   (true, [EvAlloc LNew 40; EvAlloc LNew 64; EvAlloc LGmp 8; EvAlloc LGmp 8], 0, 4)].
Proof. vm_compute. reflexivity. Qed.

Example ex_tr_copy_ctor :
  tr_copy_ctor 7 [(2, 2); (4, 1); (6, 1); (7, 1)] 6 =
  (false, [EvAlloc LNew 72; EvAlloc LNew 128; EvAlloc LGmp 8; EvAlloc LGmp 8;
           EvAlloc LGmp 8; EvFail LGmp 16; EvFree LGmp 8; EvFree LGmp 8;
           EvFree LGmp 8; EvFree LNew 72; EvFree LNew 128], 0, 0).
Proof. vm_compute. reflexivity. Qed.

Example ex_tr_assign :
  tr_assign 15 [(4,1);(6,1);(8,1);(10,1);(11,2);(12,1);(13,1);(14,1);(15,3)]
            7 [(2, 2); (4, 1); (6, 1); (7, 1)] 1 =
  (false, [EvFree LGmp 8; EvFree LGmp 8; EvFree LGmp 8; EvFree LGmp 8; EvFree LGmp 16;
           EvFree LGmp 8; EvFree LGmp 8; EvFree LGmp 8; EvFree LGmp 24;
           EvFree LNew 136; EvFree LNew 256; EvFail LNew 72], 0, 0).
Proof. vm_compute. reflexivity. Qed.

Example ex_tr_rebuild_bigger :
  map (tr_rebuild_bigger 7 [(2, 2); (4, 1); (6, 1); (7, 1)]) [2; 3] =
  [(false, [EvAlloc LNew 136; EvFail LNew 256; EvFree LNew 136], 0, 6);
   (true, [EvAlloc LNew 136; EvAlloc LNew 256; EvFree LNew 72; EvFree LNew 128], 0, 6)].
Proof. vm_compute. reflexivity. Qed.

Example ex_tr_dense_resize :
  (tr_dense_resize 3 [1; 0; 2] 5 1, tr_dense_resize 3 [1; 0; 2] 5 2, tr_dense_resize 3 [1; 0; 2] 1 1) =
  ((false, [EvFail LNew 80], 0, 3),
   (true, [EvAlloc LNew 80; EvFree LNew 48], 0, 3),
   (true, [EvFree LGmp 16], 0, 2)).
Proof. vm_compute. reflexivity. Qed.

Example ex_tr_dense_copy :
  tr_dense_copy 3 [1; 0; 2] 4 =
  (false, [EvAlloc LNew 48; EvAlloc LGmp 8; EvAlloc LGmp 8; EvFail LGmp 16;
           EvFree LGmp 8; EvFree LGmp 8; EvFree LNew 48], 0, 0).
Proof. vm_compute. reflexivity. Qed.

Example ex_tr_sv_reserve :
  map (tr_sv_reserve 256 3 300 704 1) [1; 2] =
  [(false, [EvFail LNew 704], 0, 1); (true, [EvAlloc LNew 704; EvFree LNew 256], 0, 1)].
Proof. vm_compute. reflexivity. Qed.

Example ex_tr_mip_unguarded_leaks :
  tr_mip_add false 2 32 [(LGmp, 8)] 3 =
  (false, [EvAlloc LNew 32; EvAlloc LGmp 8; EvFail LNew 8], 2, 0).
Proof. vm_compute. reflexivity. Qed.

Example ex_tr_pip_unguarded_leaks :
  tr_pip_copy false [(LGmp, 8)] [(LNew, 64)] [(LNew, 64)] 3 =
  (false, [EvAlloc LGmp 8; EvAlloc LNew 64; EvFail LNew 64; EvFree LGmp 8], 1, 0).
Proof. vm_compute. reflexivity. Qed.

(* ---------- sanity of the position computation (BOUNDED check only; the
   positions are not observable in the allocation trace and no theorem above
   depends on them): for n = 1..300 the in-order fill yields n strictly
   ascending dfs positions within 1..reserved ---------- *)
Fixpoint ascending_from (lo : N) (l : list N) : bool :=
  match l with
  | [] => true
  | x :: l' => N.ltb lo x && ascending_from x l'
  end.

Definition fill_ok (n : N) : bool :=
  let r := iter_reserved n in
  let ps := fill_positions n r in
  N.eqb (N.of_nat (length ps)) n && ascending_from 0 ps && N.leb (last ps 0) r.

Example fill_positions_ok_upto_300 :
  forallb fill_ok (map N.of_nat (seq 1 300)) = true.
Proof. vm_compute. reflexivity. Qed.

Lemma reqs_iter_eq : forall src,
  reqs_iter src =
  let r := iter_reserved (N.of_nat (length src)) in
  (LNew, sz_dim * (r + 2)) :: (LNew, sz_coeff * (r + 1))
  :: map (fun lb => (LGmp, limb_bytes lb)) src.
Proof. intros src. unfold reqs_iter. rewrite rsz_for_iter_reserved. reflexivity. Qed.

(* ---------- (b) destroy / ~CO_Tree: releases exactly the owned blocks, never
   throws, never frees a block twice or through the wrong layer ---------- *)
Theorem cotree_destroy_balanced : forall t k h X,
  wf h -> tree_inv t -> ledger_eq (live h) (owned_tree t ++ X) ->
  match destroy t (arm k h) with
  | Ret _ t' h' => wf h' /\ ledger_eq (live h') X /\ t' = t
  | Exn _ _ => False
  | Bad _ => False
  end.
Proof.
  intros t k h X W I P.
  pose proof (destroy_sat t (arm k h) X I (Lg_arm k _ _ (conj W P))) as H.
  destruct (destroy t (arm k h)) as [a t' h'|t' h'|h']; cbn [sat] in H.
  - destruct H as [-> [W' P']]. auto.
  - exact H.
  - exact H.
Qed.

Example cotree_destroy_hyp_sat :
  wf empty_heap /\ tree_inv empty_tree /\
  ledger_eq (live empty_heap) (owned_tree empty_tree ++ []).
Proof. exact cotree_rebuild_bigger_hyp_sat. Qed.

(* the only hypothesis of old_cotree_iter_ctor_unwind_partial and
   cotree_iter_ctor_unwind_balanced is [wf h] *)
Example old_cotree_iter_ctor_unwind_partial_hyp_sat : wf empty_heap.
Proof. exact wf_empty. Qed.
Example cotree_iter_ctor_hyp_sat : wf empty_heap.
Proof. exact wf_empty. Qed.

(* ========================================================================= *)
(*  Decidable tree_inv (= the modelled part of structure_OK()) and the        *)
(*  observable "is the receiver valid after operator=" used by the harness    *)
(* ========================================================================= *)

Definition opt_nat_eqb (a b : option nat) : bool :=
  match a, b with
  | Some x, Some y => Nat.eqb x y
  | None, None => true
  | _, _ => false
  end.

Lemma opt_nat_eqb_spec : forall a b, opt_nat_eqb a b = true <-> a = b.
Proof.
  intros [x|] [y|]; cbn; split; intros H; try discriminate H; try reflexivity.
  - apply Nat.eqb_eq in H. subst; reflexivity.
  - inversion H; subst. apply Nat.eqb_refl.
Qed.

Definition is_none {A} (o : option A) : bool := match o with None => true | Some _ => false end.
Definition is_nil {A} (l : list A) : bool := match l with [] => true | _ => false end.

Definition tree_valid_fields (t : tree) : bool :=
  if N.eqb (rsz t) 0
  then is_none (indexes t) && is_none (data t) && is_nil (elems t)
  else negb (is_none (indexes t)) && negb (is_none (data t)).

Definition tree_valid (t : tree) : bool :=
  tree_valid_fields t
  && N.eqb (rsz t + 1) (2 ^ N.log2 (rsz t + 1))
  && opt_nat_eqb (fst (cend t)) (indexes t)
  && N.eqb (snd (cend t)) (rsz t).

Lemma tree_valid_fields_spec : forall t,
  tree_valid_fields t = true <->
  ((rsz t = 0 -> indexes t = None /\ data t = None /\ elems t = [])
   /\ (rsz t <> 0 -> indexes t <> None /\ data t <> None)).
Proof.
  intros [i d r e c]. unfold tree_valid_fields. cbn [rsz indexes data elems].
  destruct (N.eqb_spec r 0) as [E|E]; split.
  - intros H. apply andb_true_iff in H. destruct H as [H He].
    apply andb_true_iff in H. destruct H as [Hi Hd].
    destruct i; [discriminate Hi|]. destruct d; [discriminate Hd|].
    destruct e; [|discriminate He]. split; [auto | intros C; contradiction].
  - intros [H _]. destruct (H E) as [-> [-> ->]]. reflexivity.
  - intros H. apply andb_true_iff in H. destruct H as [Hi Hd].
    destruct i; [|discriminate Hi]. destruct d; [|discriminate Hd].
    split; [intros C; contradiction | intros _; split; discriminate].
  - intros [_ H]. destruct (H E) as [Hi Hd].
    destruct i; [|contradiction]. destruct d; [|contradiction]. reflexivity.
Qed.

Lemma pow2_check_spec : forall r,
  N.eqb (r + 1) (2 ^ N.log2 (r + 1)) = true <-> exists d, r + 1 = 2 ^ d.
Proof.
  intros r. split.
  - intros H. apply N.eqb_eq in H. exists (N.log2 (r + 1)). exact H.
  - intros [d H]. rewrite H. rewrite N.log2_pow2 by apply N.le_0_l. apply N.eqb_refl.
Qed.

Theorem tree_valid_spec : forall t, tree_valid t = true <-> tree_inv t.
Proof.
  intros t. unfold tree_valid, tree_inv. rewrite !andb_true_iff.
  rewrite tree_valid_fields_spec, pow2_check_spec, opt_nat_eqb_spec, N.eqb_eq.
  destruct (cend t) as [ci cr]. cbn [fst snd]. split.
  - intros [[[[A B] C] D] E]. subst. tauto.
  - intros [A [B [C D]]]. inversion D; subst. tauto.
Qed.

(* validity of the receiver right after  *this = y  (both outcomes); to be
   compared with OK() of the real object for each k *)
Definition tr_assign_valid (rsz_this : N) (used_this : list (N * N))
           (rsz_y : N) (used_y : list (N * N)) (k : N) : bool :=
  match copy_ctor rsz_this (norm_used rsz_this used_this) tt empty_heap with
  | Ret t _ h0 =>
      match assign rsz_y (norm_used rsz_y used_y) t (start k h0) with
      | Ret _ t' _ => tree_valid t'
      | Exn t' _ => tree_valid t'
      | Bad _ => false
      end
  | _ => false
  end.

(* program text before commit b69eb94 / 53a83c0 *)
Definition tr_old_assign_valid (rsz_this : N) (used_this : list (N * N))
           (rsz_y : N) (used_y : list (N * N)) (k : N) : bool :=
  match copy_ctor rsz_this (norm_used rsz_this used_this) tt empty_heap with
  | Ret t _ h0 =>
      match old_assign rsz_y (norm_used rsz_y used_y) t (start k h0) with
      | Ret _ t' _ => tree_valid t'
      | Exn t' _ => tree_valid t'
      | Bad _ => false
      end
  | _ => false
  end.

(* current code: valid at every k (cotree_assign_unwind_balanced) *)
Example ex_tr_assign_valid :
  map (tr_assign_valid 15 [(4,1);(6,1);(8,1);(10,1);(11,2);(12,1);(13,1);(14,1);(15,3)]
                       7 [(2, 2); (4, 1); (6, 1); (7, 1)]) [0; 1; 2; 3; 4; 5; 6; 7] =
  [true; true; true; true; true; true; true; true].
Proof. vm_compute. reflexivity. Qed.

(* program text before commit b69eb94 / 53a83c0: invalid for k = 1, 2 (old_init
   throws), valid otherwise *)
Example ex_tr_old_assign_valid :
  map (tr_old_assign_valid 15 [(4,1);(6,1);(8,1);(10,1);(11,2);(12,1);(13,1);(14,1);(15,3)]
                           7 [(2, 2); (4, 1); (6, 1); (7, 1)]) [0; 1; 2; 3; 4; 5; 6; 7] =
  [true; false; false; true; true; true; true; true].
Proof. vm_compute. reflexivity. Qed.

(* an EMPTY receiver stayed valid even with the old text (its stale iterators
   were those of the empty tree) *)
Example ex_tr_old_assign_valid_empty_receiver :
  map (tr_old_assign_valid 0 [] 7 [(2, 2)]) [1; 2; 3] = [true; true; true].
Proof. vm_compute. reflexivity. Qed.

(* the traces of operator= are the same for both texts *)
Example ex_tr_old_assign_same_trace :
  map (tr_old_assign 15 [(4,1);(6,1);(8,1);(10,1);(11,2);(12,1);(13,1);(14,1);(15,3)]
                     7 [(2, 2); (4, 1); (6, 1); (7, 1)]) [0; 1; 2; 3; 4; 5; 6; 7] =
  map (tr_assign 15 [(4,1);(6,1);(8,1);(10,1);(11,2);(12,1);(13,1);(14,1);(15,3)]
                 7 [(2, 2); (4, 1); (6, 1); (7, 1)]) [0; 1; 2; 3; 4; 5; 6; 7].
Proof. vm_compute. reflexivity. Qed.

(* ========================================================================= *)
(*  (g') the remaining Dense_Row construction paths                          *)
(*  Dense_Row_inlines.hh / Dense_Row.cc, as written at HEAD                  *)
(* ========================================================================= *)

(* a Dense_Row constructor: `impl` is a fully constructed member, so when the
   body throws ~Impl runs (destroy the impl.size constructed coefficients from
   the end down, deallocate(vec, capacity)) and the object is dropped *)
Definition row_ctor (body : M drow unit) : M unit drow :=
  construct empty_row (try_catch body (impl_dtor ;;; throw)).

Lemma row_ctor_sat : forall (body : M drow unit) (u : unit) h X (Q : drow -> Prop),
  sat (body empty_row h)
      (fun _ r h' => Q r /\ Lg (owned_row r ++ X) h')
      (fun r h' => Lg (owned_row r ++ X) h') ->
  sat (row_ctor body u h)
      (fun r _ h' => Q r /\ Lg (owned_row r ++ X) h')
      (fun _ h' => Lg X h').
Proof.
  intros body u h X Q H. unfold row_ctor.
  eapply sat_construct with
    (Q1 := fun _ r h' => Q r /\ Lg (owned_row r ++ X) h')
    (E1 := fun _ h' => Lg X h').
  - eapply sat_try.
    + exact H.
    + cbn beta. intros a s' h' H'; exact H'.
    + cbn beta. intros s2 h2 HL2. eapply sat_bind.
      * apply impl_dtor_sat; exact HL2.
      * intros ? ? F; contradiction.
      * cbn beta. intros _ s3 h3 HL3. cbn. exact HL3.
  - cbn beta. intros _ s' h' H'; exact H'.
  - cbn beta. intros s' h' H'; exact H'.
Qed.

(* impl.capacity = capacity; impl.vec = allocate(impl.capacity);  (ALWAYS
   requested, also for capacity = 0: a request of 0 bytes) *)
Definition row_alloc_vec (capacity : N) : M drow unit :=
  modify (fun r => mkRow (vec r) capacity (coeffs r)) ;;;
  nv <- alloc LNew (sz_coeff * capacity) ;;
  modify (fun r => mkRow (Some nv) (cap r) (coeffs r)).

Lemma row_alloc_vec_sat : forall capacity h X,
  Lg X h ->
  sat (row_alloc_vec capacity empty_row h)
      (fun _ r h' => (exists nv, r = mkRow (Some nv) capacity []) /\ Lg (owned_row r ++ X) h')
      (fun r h' => Lg (owned_row r ++ X) h').
Proof.
  intros capacity h X HL. unfold row_alloc_vec. rewrite bind_modify.
  cbn [vec coeffs empty_row].
  eapply sat_bind.
  - apply alloc_sat; exact HL.
  - cbn beta. intros s' h' [-> H]. exact H.
  - cbn beta. intros nv s1 h1 [-> HL1]. cbn [modify sat cap coeffs].
    split; [exists nv; reflexivity|]. unfold owned_row. cbn. exact HL1.
Qed.

(* default constructions: new (&vec[size]) Coefficient(); ++size;  no allocation *)
Definition row_pad (m : nat) : M drow unit :=
  modify (fun r => mkRow (vec r) (cap r) (coeffs r ++ repeat None m)).

Lemma owned_row_pad : forall r m,
  owned_row (mkRow (vec r) (cap r) (coeffs r ++ repeat None m)) = owned_row r.
Proof.
  intros r m. unfold owned_row. cbn [vec cap coeffs].
  rewrite coeffs_blks_app, coeffs_blks_repeat_None, app_nil_r. reflexivity.
Qed.

(* ---- 1. Dense_Row(const Dense_Row& y, dimension_type capacity) ----
   y given as (ycap, limbs of each coefficient); y.vec != nullptr <-> ycap <> 0 *)
Definition dense_copy_cap_body (ycap : N) (ycoeffs : list N) (capacity : N) : M drow unit :=
  row_alloc_vec capacity ;;;
  if N.eqb ycap 0 then ret tt else copy_coeffs ycoeffs.

Definition dense_copy_cap (ycap : N) (ycoeffs : list N) (capacity : N) : M unit drow :=
  row_ctor (dense_copy_cap_body ycap ycoeffs capacity).

Lemma dense_copy_cap_sat : forall ycap ycoeffs capacity (u : unit) h X,
  N.of_nat (length ycoeffs) <= capacity ->
  Lg X h ->
  sat (dense_copy_cap ycap ycoeffs capacity u h)
      (fun r _ h' => (row_inv r /\ cap r = capacity /\
                      dsize r = (if N.eqb ycap 0 then 0 else N.of_nat (length ycoeffs)))
                     /\ Lg (owned_row r ++ X) h')
      (fun _ h' => Lg X h').
Proof.
  intros ycap ycoeffs capacity u h X Hy HL. unfold dense_copy_cap.
  apply row_ctor_sat with
    (Q := fun r => row_inv r /\ cap r = capacity /\
                   dsize r = (if N.eqb ycap 0 then 0 else N.of_nat (length ycoeffs))).
  unfold dense_copy_cap_body. eapply sat_bind.
  - apply row_alloc_vec_sat; exact HL.
  - cbn beta. intros s' h' H; exact H.
  - cbn beta. intros _ s1 h1 [[nv ->] HL1].
    destruct (N.eqb ycap 0).
    + cbn [ret sat]. split; [|exact HL1]. unfold row_inv, dsize. cbn.
      split; [split; [discriminate | lia]|]. split; reflexivity.
    + eapply sat_conseq.
      * apply copy_coeffs_sat; exact HL1.
      * cbn beta. cbn [vec cap coeffs length]. intros _ s2 h2 [A [B [C D]]].
        split; [|exact D]. unfold row_inv, dsize. rewrite A, B, C. cbn [Nat.add].
        split; [split; [discriminate | exact Hy]|]. split; reflexivity.
      * cbn beta. intros s2 h2 H; exact H.
Qed.

Theorem dense_copy_cap_unwind_balanced : forall ycap ycoeffs capacity k h,
  wf h -> N.of_nat (length ycoeffs) <= capacity ->
  match dense_copy_cap ycap ycoeffs capacity tt (arm k h) with
  | Ret r _ h' => wf h' /\ ledger_eq (live h') (owned_row r ++ live h)
                  /\ row_inv r /\ NoDup (map fst (owned_row r)) /\ cap r = capacity
                  /\ dsize r = (if N.eqb ycap 0 then 0 else N.of_nat (length ycoeffs))
  | Exn _ h' => wf h' /\ ledger_eq (live h') (live h)
  | Bad _ => False
  end.
Proof.
  intros ycap ycoeffs capacity k h W Hy.
  pose proof (dense_copy_cap_sat ycap ycoeffs capacity tt (arm k h) (live h) Hy
                (Lg_arm k _ _ (Lg_self h W))) as H.
  destruct (dense_copy_cap ycap ycoeffs capacity tt (arm k h)) as [r u h'|u h'|h']; cbn [sat] in H.
  - destruct H as [[I [Hc Hs]] HL]. apply Lg_out in HL. tauto.
  - exact H.
  - exact H.
Qed.

Example dense_copy_cap_hyp_sat : wf empty_heap /\ N.of_nat (length [1; 0; 2]) <= 5.
Proof. split; [exact wf_empty | cbn; lia]. Qed.

(* ---- 2. Dense_Row(const Dense_Row& y, dimension_type sz, dimension_type capacity) ----
   n = min(sz, y.size()); copy-construct n coefficients (++size after each), then
   default-construct up to sz *)
Definition dense_copy_sized_body (ycoeffs : list N) (sz capacity : N) : M drow unit :=
  row_alloc_vec capacity ;;;
  copy_coeffs (firstn (N.to_nat sz) ycoeffs) ;;;
  r <- get ;;
  row_pad (N.to_nat sz - length (coeffs r)).

Definition dense_copy_sized (ycoeffs : list N) (sz capacity : N) : M unit drow :=
  row_ctor (dense_copy_sized_body ycoeffs sz capacity).

Lemma dense_copy_sized_sat : forall ycoeffs sz capacity (u : unit) h X,
  sz <= capacity ->
  Lg X h ->
  sat (dense_copy_sized ycoeffs sz capacity u h)
      (fun r _ h' => (row_inv r /\ cap r = capacity /\ dsize r = sz)
                     /\ Lg (owned_row r ++ X) h')
      (fun _ h' => Lg X h').
Proof.
  intros ycoeffs sz capacity u h X Hs HL. unfold dense_copy_sized.
  apply row_ctor_sat with (Q := fun r => row_inv r /\ cap r = capacity /\ dsize r = sz).
  unfold dense_copy_sized_body. eapply sat_bind.
  - apply row_alloc_vec_sat; exact HL.
  - cbn beta. intros s' h' H; exact H.
  - cbn beta. intros _ s1 h1 [[nv ->] HL1]. eapply sat_bind.
    + apply copy_coeffs_sat; exact HL1.
    + cbn beta. intros s' h' H; exact H.
    + cbn beta. cbn [vec cap coeffs length]. intros _ s2 h2 [A [B [C D]]].
      rewrite bind_get. unfold row_pad. cbn [modify sat].
      rewrite owned_row_pad. split; [|exact D].
      unfold row_inv, dsize. cbn [vec cap coeffs]. rewrite A, B.
      rewrite app_length, repeat_length, C. cbn [Nat.add].
      rewrite firstn_length.
      split; [split; [discriminate | lia]|]. split; [reflexivity | lia].
Qed.

Theorem dense_copy_sized_unwind_balanced : forall ycoeffs sz capacity k h,
  wf h -> sz <= capacity ->
  match dense_copy_sized ycoeffs sz capacity tt (arm k h) with
  | Ret r _ h' => wf h' /\ ledger_eq (live h') (owned_row r ++ live h)
                  /\ row_inv r /\ NoDup (map fst (owned_row r))
                  /\ cap r = capacity /\ dsize r = sz
  | Exn _ h' => wf h' /\ ledger_eq (live h') (live h)
  | Bad _ => False
  end.
Proof.
  intros ycoeffs sz capacity k h W Hs.
  pose proof (dense_copy_sized_sat ycoeffs sz capacity tt (arm k h) (live h) Hs
                (Lg_arm k _ _ (Lg_self h W))) as H.
  destruct (dense_copy_sized ycoeffs sz capacity tt (arm k h)) as [r u h'|u h'|h']; cbn [sat] in H.
  - destruct H as [[I [Hc Hd]] HL]. apply Lg_out in HL. tauto.
  - exact H.
  - exact H.
Qed.

Example dense_copy_sized_hyp_sat : wf empty_heap /\ 5 <= 6.
Proof. split; [exact wf_empty | lia]. Qed.

(* MUTANT (a seeded defect): impl.size is assigned once, after both loops, so
   when a copy throws ~Impl sees size = 0 and destroys nothing *)
Fixpoint copy_coeffs_local (ls : list N) : M drow (list (option (nat * N))) :=
  match ls with
  | [] => ret []
  | lb :: rest =>
      b <- alloc LGmp (limb_bytes lb) ;;
      cs <- copy_coeffs_local rest ;;
      ret (Some (b, limb_bytes lb) :: cs)
  end.

Definition dense_copy_sized_late_size (ycoeffs : list N) (sz capacity : N) : M unit drow :=
  row_ctor
    (row_alloc_vec capacity ;;;
     cs <- copy_coeffs_local (firstn (N.to_nat sz) ycoeffs) ;;
     (* impl.size = sz;  only now *)
     modify (fun r => mkRow (vec r) (cap r) (cs ++ repeat None (N.to_nat sz - length cs)))).

Theorem dense_copy_sized_late_size_refuted :
  exists ycoeffs sz capacity k h, wf h /\ sz <= capacity /\ exists h',
    dense_copy_sized_late_size ycoeffs sz capacity tt (arm k h) = Exn tt h' /\
    ~ ledger_eq (live h') (live h).
Proof.
  exists [1; 1], 2, 2, 3%nat, empty_heap. split; [exact wf_empty|]. split; [lia|].
  eexists. split; [vm_compute; reflexivity|].
  vm_compute. intro P. apply Permutation_sym in P.
  apply Permutation_nil in P. discriminate P.
Qed.

(* ---- 3. Dense_Row::resize(new_size, new_capacity)   Dense_Row.cc:91 ----
   and Dense_Row(sz, capacity) = impl() then resize(sz, capacity).
   NOTE (as written): when new_capacity == capacity() <> 0 NOTHING is done (the
   size is not changed); when new_capacity < capacity() the row is shrunk to
   new_size BEFORE the allocation, so on failure the receiver is the shrunk row
   (valid, balanced), not the original one. *)
Definition dense_resize2 (new_size new_capacity : N) : M drow unit :=
  r <- get ;;
  if N.eqb new_capacity 0 then
    (* destroy(): resize(0) [= shrink(0)]; deallocate(vec, capacity); fields := 0 *)
    shrink 0 ;;;
    r' <- get ;;
    free_opt LNew (vec r') ;;;
    put empty_row
  else if N.ltb new_capacity (cap r) then
    shrink (N.to_nat new_size) ;;;
    nv <- alloc LNew (sz_coeff * new_capacity) ;;
    r' <- get ;;
    free_opt LNew (vec r') ;;;                 (* memcpy; deallocate(vec, capacity) *)
    modify (fun r => mkRow (Some nv) new_capacity (coeffs r))
  else if N.ltb (cap r) new_capacity then
    nv <- alloc LNew (sz_coeff * new_capacity) ;;
    free_opt LNew (vec r) ;;;                  (* if (vec != 0) { memcpy; deallocate } *)
    modify (fun r => mkRow (Some nv) new_capacity (coeffs r)) ;;;
    dense_resize new_size                      (* resize(new_size) *)
  else ret tt.

Definition shrunk (n : N) (s : drow) : drow :=
  mkRow (vec s) (cap s) (firstn (N.to_nat n) (coeffs s)).

Lemma dense_resize2_sat : forall ns nc s h X,
  row_inv s -> ns <= nc -> Lg (owned_row s ++ X) h ->
  sat (dense_resize2 ns nc s h)
      (fun _ s' h' => row_inv s' /\ cap s' = nc /\
                      (cap s < nc -> dsize s' = ns) /\
                      (nc < cap s -> dsize s' = N.min ns (dsize s)) /\
                      Lg (owned_row s' ++ X) h')
      (fun s' h' => row_inv s' /\ (s' = s \/ (nc < cap s /\ s' = shrunk ns s)) /\
                    Lg (owned_row s' ++ X) h').
Proof.
  intros ns nc s h X [I0 I1] Hn HL. unfold dense_resize2. rewrite bind_get.
  destruct (N.eqb_spec nc 0) as [E0|E0].
  - (* new_capacity = 0 *)
    eapply sat_bind.
    + apply shrink_sat; exact HL.
    + intros ? ? F; contradiction.
    + cbn beta. intros _ s1 h1 [-> HL1]. rewrite bind_get. cbn [vec firstn].
      eapply sat_bind.
      * eapply free_opt_sat with (X := X); [exact HL1|].
        unfold owned_row. cbn [vec cap coeffs coeffs_blks flat_map]. rewrite app_nil_r.
        apply Permutation_refl.
      * intros ? ? F; contradiction.
      * cbn beta. intros _ s2 h2 [-> HL2]. cbn [put sat].
        split; [apply row_inv_empty|]. split; [cbn; lia|].
        split; [intros C; lia|]. split; [intros _; cbn; lia|]. cbn. exact HL2.
  - destruct (N.ltb_spec nc (cap s)) as [Hlt|Hge].
    + (* new_capacity < capacity *)
      eapply sat_bind.
      * apply shrink_sat; exact HL.
      * intros ? ? F; contradiction.
      * cbn beta. intros _ s1 h1 [-> HL1]. fold (shrunk ns s) in *.
        assert (Is : row_inv (shrunk ns s)).
        { unfold row_inv, shrunk, dsize in *. cbn [vec cap coeffs]. rewrite firstn_length.
          split; [exact I0 | lia]. }
        eapply sat_bind.
        -- apply alloc_sat; exact HL1.
        -- cbn beta. intros s' h' [-> H]. split; [exact Is|]. split; [right; split; [exact Hlt | reflexivity] | exact H].
        -- cbn beta. intros nv s2 h2 [-> HL2]. rewrite bind_get.
           eapply sat_bind.
           ++ eapply free_opt_sat with
                (X := (nv, (LNew, sz_coeff * nc)) :: coeffs_blks (coeffs (shrunk ns s)) ++ X);
                [exact HL2|].
              unfold owned_row. rewrite <- app_assoc. apply Permutation_middle.
           ++ intros ? ? F; contradiction.
           ++ cbn beta. intros _ s3 h3 [-> HL3]. cbn [modify sat].
              unfold row_inv, dsize, shrunk, owned_row in *. cbn [vec cap coeffs opt_blk app].
              rewrite firstn_length.
              split; [split; [discriminate | lia]|]. split; [reflexivity|].
              split; [intros C; lia|]. split; [intros _; lia | exact HL3].
    + destruct (N.ltb_spec (cap s) nc) as [Hgt|Heq].
      * (* new_capacity > capacity *)
        eapply sat_bind.
        -- apply alloc_sat; exact HL.
        -- cbn beta. intros s' h' [-> H]. split; [split; assumption|]. split; [left; reflexivity | exact H].
        -- cbn beta. intros nv s1 h1 [-> HL1]. eapply sat_bind.
           ++ eapply free_opt_sat with
                (X := (nv, (LNew, sz_coeff * nc)) :: coeffs_blks (coeffs s) ++ X); [exact HL1|].
              unfold owned_row. rewrite <- app_assoc. apply Permutation_middle.
           ++ intros ? ? F; contradiction.
           ++ cbn beta. intros _ s2 h2 [-> HL2]. rewrite bind_modify.
              set (s3 := mkRow (Some nv) nc (coeffs s)).
              assert (I3 : row_inv s3).
              { unfold row_inv, dsize, s3 in *. cbn [vec cap coeffs]. split; [discriminate | lia]. }
              assert (HL3 : Lg (owned_row s3 ++ X) h2).
              { unfold owned_row, s3. cbn [vec cap coeffs opt_blk app]. exact HL2. }
              (* the final resize(new_size) cannot allocate (new_size <= new_capacity);
                 the general spec of resize is used anyway *)
              pose proof (dense_resize_sat ns s3 h2 X I3 HL3) as Hr.
              unfold dense_resize in Hr |- *. rewrite bind_get in Hr |- *.
              destruct (N.leb_spec ns (dsize s3)) as [Hle|Hgt2].
              ** eapply sat_conseq; [apply shrink_sat; exact HL3| |].
                 --- cbn beta. intros _ s' h' [-> HL']. unfold row_inv, dsize, s3 in *.
                     cbn [vec cap coeffs] in *. rewrite firstn_length.
                     split; [split; [discriminate | lia]|]. split; [reflexivity|].
                     split; [intros _; lia|]. split; [intros C; lia | exact HL'].
                 --- intros ? ? F; contradiction.
              ** assert (Ec : N.ltb (cap s3) ns = false).
                 { apply N.ltb_ge. unfold s3. cbn [cap]. exact Hn. }
                 rewrite Ec. rewrite bind_ret. cbn [modify sat].
                 rewrite owned_row_pad. unfold row_inv, dsize, s3 in *. cbn [vec cap coeffs] in *.
                 rewrite app_length, repeat_length.
                 split; [split; [discriminate | lia]|]. split; [reflexivity|].
                 split; [intros _; lia|]. split; [intros C; lia | exact HL3].
      * (* new_capacity = capacity: nothing is done *)
        cbn [ret sat]. split; [split; assumption|]. split; [lia|].
        split; [intros C; lia|]. split; [intros C; lia | exact HL].
Qed.

Theorem dense_resize2_unwind_balanced : forall ns nc r k h X,
  wf h -> row_inv r -> ns <= nc -> ledger_eq (live h) (owned_row r ++ X) ->
  match dense_resize2 ns nc r (arm k h) with
  | Ret _ r' h' => wf h' /\ ledger_eq (live h') (owned_row r' ++ X)
                   /\ row_inv r' /\ NoDup (map fst (owned_row r')) /\ cap r' = nc
                   /\ (cap r < nc -> dsize r' = ns)
                   /\ (nc < cap r -> dsize r' = N.min ns (dsize r))
  | Exn r' h' => wf h' /\ ledger_eq (live h') (owned_row r' ++ X) /\ row_inv r'
                 /\ (r' = r \/ (nc < cap r /\ r' = shrunk ns r))
  | Bad _ => False
  end.
Proof.
  intros ns nc r k h X W I Hn P.
  pose proof (dense_resize2_sat ns nc r (arm k h) X I Hn (Lg_arm k _ _ (conj W P))) as H.
  destruct (dense_resize2 ns nc r (arm k h)) as [a r' h'|r' h'|h']; cbn [sat] in H.
  - destruct H as [I' [Hc [H1 [H2 HL]]]]. apply Lg_out in HL. tauto.
  - destruct H as [I' [D [W' P']]]. auto.
  - exact H.
Qed.

Example dense_resize2_hyp_sat :
  wf empty_heap /\ row_inv empty_row /\ 2 <= 3 /\
  ledger_eq (live empty_heap) (owned_row empty_row ++ []).
Proof.
  split; [exact wf_empty|]. split; [exact row_inv_empty|]. split; [lia | apply Permutation_refl].
Qed.

(* "receiver unchanged on failure" is FALSE for the shrinking-capacity branch *)
Definition dense_resize2_receiver_unchanged_full : Prop :=
  forall ns nc r k h X,
  wf h -> row_inv r -> ns <= nc -> ledger_eq (live h) (owned_row r ++ X) ->
  match dense_resize2 ns nc r (arm k h) with
  | Exn r' _ => r' = r
  | _ => True
  end.

Definition wit_row : drow := mkRow (Some 0%nat) 3 [Some (1%nat, 8); None].
Definition wit_row_heap : heap :=
  mkHeap 2 [(1%nat, (LGmp, 8)); (0%nat, (LNew, 48))] None [].

Lemma wit_row_ok : wf wit_row_heap /\ row_inv wit_row /\
                   ledger_eq (live wit_row_heap) (owned_row wit_row ++ []).
Proof.
  split; [|split].
  - split; cbn.
    + constructor; [intros [H|[]]; discriminate H|]. constructor; [intros []|constructor].
    + repeat constructor.
  - split; cbn; [discriminate | lia].
  - cbn. apply perm_swap.
Qed.

Theorem dense_resize2_receiver_unchanged_refuted : ~ dense_resize2_receiver_unchanged_full.
Proof.
  intro F. destruct wit_row_ok as [W [I P]].
  specialize (F 0 2 wit_row 1%nat wit_row_heap [] W I).
  assert (H02 : 0 <= 2) by lia. specialize (F H02 P).
  vm_compute in F. discriminate F.
Qed.

(* Dense_Row(sz, capacity) *)
Definition dense_ctor_sized (sz capacity : N) : M unit drow :=
  row_ctor (dense_resize2 sz capacity).

Theorem dense_ctor_sized_unwind_balanced : forall sz capacity k h,
  wf h -> sz <= capacity ->
  match dense_ctor_sized sz capacity tt (arm k h) with
  | Ret r _ h' => wf h' /\ ledger_eq (live h') (owned_row r ++ live h)
                  /\ row_inv r /\ NoDup (map fst (owned_row r))
                  /\ cap r = capacity /\ (capacity <> 0 -> dsize r = sz)
  | Exn _ h' => wf h' /\ ledger_eq (live h') (live h)
  | Bad _ => False
  end.
Proof.
  intros sz capacity k h W Hs.
  assert (H : sat (dense_ctor_sized sz capacity tt (arm k h))
                  (fun r _ h' => (row_inv r /\ cap r = capacity /\ (capacity <> 0 -> dsize r = sz))
                                 /\ Lg (owned_row r ++ live h) h')
                  (fun _ h' => Lg (live h) h')).
  { unfold dense_ctor_sized.
    apply row_ctor_sat with
      (Q := fun r => row_inv r /\ cap r = capacity /\ (capacity <> 0 -> dsize r = sz)).
    eapply sat_conseq.
    - apply (dense_resize2_sat sz capacity empty_row (arm k h) (live h) row_inv_empty Hs).
      cbn [owned_row empty_row vec cap coeffs opt_blk coeffs_blks flat_map app].
      apply Lg_arm. apply Lg_self. exact W.
    - cbn beta. cbn [cap empty_row]. intros _ r h' [I [Hc [H1 [_ HL]]]].
      split; [|exact HL]. split; [exact I|]. split; [exact Hc|]. intros Hn. apply H1. lia.
    - cbn beta. intros r h' [_ [_ HL]]. exact HL. }
  destruct (dense_ctor_sized sz capacity tt (arm k h)) as [r u h'|u h'|h']; cbn [sat] in H.
  - destruct H as [[I [Hc Hd]] HL]. apply Lg_out in HL. tauto.
  - exact H.
  - exact H.
Qed.

Example dense_ctor_sized_hyp_sat : wf empty_heap /\ 3 <= 4.
Proof. split; [exact wf_empty | lia]. Qed.

(* ---- 4. Dense_Row(const Sparse_Row& row) = init(row)   Dense_Row.cc:313 ----
   the sparse row as (size, (index, limbs) of its stored elements); the iterator
   visits them by ascending index (modelled: sorted by index) *)
Fixpoint sparse_fill (n : nat) (i : N) (it : list (N * N)) : M drow unit :=
  match n with
  | O => ret tt
  | S n' =>
      match it with
      | (idx, lb) :: it' =>
          if N.eqb idx i
          then (* new (&vec[size]) Coefficient( *itr); ++itr; ++size *)
               b <- alloc LGmp (limb_bytes lb) ;;
               modify (fun r => mkRow (vec r) (cap r) (coeffs r ++ [Some (b, limb_bytes lb)])) ;;;
               sparse_fill n' (i + 1) it'
          else row_pad 1 ;;; sparse_fill n' (i + 1) it
      | [] => row_pad 1 ;;; sparse_fill n' (i + 1) []
      end
  end.

Definition dense_from_sparse (rsize : N) (elems0 : list (N * N)) : M unit drow :=
  row_ctor (row_alloc_vec rsize ;;; sparse_fill (N.to_nat rsize) 0 (sort_by fst elems0)).

Lemma sparse_fill_sat : forall n i it s h X,
  Lg (owned_row s ++ X) h ->
  sat (sparse_fill n i it s h)
      (fun _ s' h' => vec s' = vec s /\ cap s' = cap s /\
                      length (coeffs s') = (length (coeffs s) + n)%nat /\
                      Lg (owned_row s' ++ X) h')
      (fun s' h' => Lg (owned_row s' ++ X) h').
Proof.
  induction n as [|n IH]; intros i it s h X HL; cbn [sparse_fill].
  - cbn [ret sat]. split; [reflexivity|]. split; [reflexivity|]. split; [lia | exact HL].
  - assert (Hpad : forall it',
      sat ((row_pad 1 ;;; sparse_fill n (i + 1) it') s h)
          (fun _ s' h' => vec s' = vec s /\ cap s' = cap s /\
                          length (coeffs s') = (length (coeffs s) + S n)%nat /\
                          Lg (owned_row s' ++ X) h')
          (fun s' h' => Lg (owned_row s' ++ X) h')).
    { intros it'. unfold row_pad. rewrite bind_modify. eapply sat_conseq.
      - apply IH with (X := X). rewrite owned_row_pad. exact HL.
      - cbn beta. cbn [vec cap coeffs]. intros _ s2 h2 [A [B [C D]]].
        rewrite app_length in C. cbn [repeat length] in C.
        split; [exact A|]. split; [exact B|]. split; [lia | exact D].
      - cbn beta. intros s2 h2 H; exact H. }
    destruct it as [|[idx lb] it']; [apply Hpad|].
    destruct (N.eqb idx i); [|apply Hpad].
    eapply sat_bind.
    + apply alloc_sat; exact HL.
    + cbn beta. intros s' h' [-> H]. exact H.
    + cbn beta. intros b s1 h1 [-> HL1]. rewrite bind_modify.
      eapply sat_conseq.
      * apply IH with (X := X). unfold owned_row in *. cbn [vec cap coeffs].
        rewrite coeffs_blks_app. cbn [coeffs_blks flat_map coeff_blk app].
        eapply Lg_perm; [exact HL1|].
        rewrite <- !app_assoc. cbn [app].
        rewrite !app_assoc. apply Permutation_middle.
      * cbn beta. cbn [vec cap coeffs]. intros _ s2 h2 [A [B [C D]]].
        rewrite app_length in C. cbn [length] in C.
        split; [exact A|]. split; [exact B|]. split; [lia | exact D].
      * cbn beta. intros s2 h2 H; exact H.
Qed.

Lemma dense_from_sparse_sat : forall rsize elems0 (u : unit) h X,
  Lg X h ->
  sat (dense_from_sparse rsize elems0 u h)
      (fun r _ h' => (row_inv r /\ cap r = rsize /\ dsize r = rsize)
                     /\ Lg (owned_row r ++ X) h')
      (fun _ h' => Lg X h').
Proof.
  intros rsize elems0 u h X HL. unfold dense_from_sparse.
  apply row_ctor_sat with (Q := fun r => row_inv r /\ cap r = rsize /\ dsize r = rsize).
  eapply sat_bind.
  - apply row_alloc_vec_sat; exact HL.
  - cbn beta. intros s' h' H; exact H.
  - cbn beta. intros _ s1 h1 [[nv ->] HL1]. eapply sat_conseq.
    + apply sparse_fill_sat; exact HL1.
    + cbn beta. cbn [vec cap coeffs length]. intros _ s2 h2 [A [B [C D]]].
      split; [|exact D]. unfold row_inv, dsize. rewrite A, B, C. cbn [Nat.add].
      rewrite N2Nat.id. split; [split; [discriminate | lia]|]. split; reflexivity.
    + cbn beta. intros s2 h2 H; exact H.
Qed.

Theorem dense_from_sparse_unwind_balanced : forall rsize elems0 k h,
  wf h ->
  match dense_from_sparse rsize elems0 tt (arm k h) with
  | Ret r _ h' => wf h' /\ ledger_eq (live h') (owned_row r ++ live h)
                  /\ row_inv r /\ NoDup (map fst (owned_row r))
                  /\ cap r = rsize /\ dsize r = rsize
  | Exn _ h' => wf h' /\ ledger_eq (live h') (live h)
  | Bad _ => False
  end.
Proof.
  intros rsize elems0 k h W.
  pose proof (dense_from_sparse_sat rsize elems0 tt (arm k h) (live h)
                (Lg_arm k _ _ (Lg_self h W))) as H.
  destruct (dense_from_sparse rsize elems0 tt (arm k h)) as [r u h'|u h'|h']; cbn [sat] in H.
  - destruct H as [[I [Hc Hd]] HL]. apply Lg_out in HL. tauto.
  - exact H.
  - exact H.
Qed.

Example dense_from_sparse_hyp_sat : wf empty_heap.
Proof. exact wf_empty. Qed.

(* ---------- observable interface for the new Dense_Row paths ---------- *)

(* y = (ycap, limbs per coefficient, truncated to ycap); ycap = 0: y.vec == nullptr *)
Definition tr_dense_copy_cap (ycap : N) (ycoeffs : list N) (capacity k : N) : obs :=
  observe_c row_ids
    (dense_copy_cap ycap (firstn (N.to_nat ycap) ycoeffs) capacity tt (start k empty_heap)).

Definition tr_dense_copy_sized (ycoeffs : list N) (sz capacity k : N) : obs :=
  observe_c row_ids (dense_copy_sized ycoeffs sz capacity tt (start k empty_heap)).

(* the seeded mutant *)
Definition tr_dense_copy_sized_late (ycoeffs : list N) (sz capacity k : N) : obs :=
  observe_c row_ids (dense_copy_sized_late_size ycoeffs sz capacity tt (start k empty_heap)).

(* receiver built as for tr_dense_resize *)
Definition tr_dense_resize2 (cap0 : N) (cs : list N) (new_size new_capacity k : N) : obs :=
  match build_row cap0 cs empty_row empty_heap with
  | Ret _ r h0 => observe row_ids (dense_resize2 new_size new_capacity r (start k h0))
  | _ => failed_setup
  end.

Definition tr_dense_ctor_sized (sz capacity k : N) : obs :=
  observe_c row_ids (dense_ctor_sized sz capacity tt (start k empty_heap)).

(* sparse row = (size, (index, limbs)); indexes >= size and repeated indexes dropped *)
Definition tr_dense_from_sparse (rsize : N) (elems0 : list (N * N)) (k : N) : obs :=
  let es := dedup_pos [] (filter (fun pl => N.ltb (fst pl) rsize) elems0) in
  observe_c row_ids (dense_from_sparse rsize es tt (start k empty_heap)).

(* ---- 5. Dense_Row::add_zeroes_and_shift(n, i)   Dense_Row.cc:179 ----
   Coefficient(0) = mpz_init_set_si: ONE request of 8 bytes on LGmp.
   newcap = compute_capacity(size + n, max_size()) is a parameter. *)
Definition blk_coeff (b : blk) : option (nat * N) := Some (fst b, snd (snd b)).

Definition add_zeroes_and_shift (n i newcap : N) : M drow unit :=
  r <- get ;;
  let cs := coeffs r in
  let i' := N.to_nat i in
  let n' := N.to_nat n in
  if N.ltb (cap r) (dsize r + n) then
    (* Dense_Row new_row; new_row.impl.vec = allocate(new_capacity); *)
    nv <- alloc LNew (sz_coeff * newcap) ;;
    (* try { n zeroes in new_row.vec[i..i+n-1] } catch (...) { destroy the zeroes
       constructed so far, from the last one down; throw; }  and on that
       exception new_row's destructor (size 0) deallocates new_row.vec *)
    zs <- try_catch (raii_allocs (repeat (LGmp, 8) n')) (free LNew nv ;;; throw) ;;
    (* memcpy; swap(vec), swap(capacity); size = new_size;
       end of block: ~new_row (size 0) deallocates the OLD vec *)
    free_opt LNew (vec r) ;;;
    put (mkRow (Some nv) newcap (firstn i' cs ++ map blk_coeff zs ++ skipn i' cs))
  else
    (* memmove the tail up by n; impl.size = i; *)
    put (mkRow (vec r) (cap r) (firstn i' cs)) ;;;
    (* try { while (size != i + n) { new (&vec[size]) Coefficient(0); ++size; } size = new_size; }
       catch (...) { destroy vec[i+n .. new_size) (the moved tail); throw; } *)
    try_catch (copy_coeffs (repeat 0 n'))
              (free_list (coeffs_blks (skipn i' cs)) ;;; throw) ;;;
    modify (fun r => mkRow (vec r) (cap r) (coeffs r ++ skipn i' cs)).

Lemma perm_ins {A} (z a b x : list A) (e : A) :
  Permutation (z ++ e :: (a ++ b) ++ x) (e :: (a ++ z ++ b) ++ x).
Proof.
  eapply Permutation_trans; [apply Permutation_sym, Permutation_middle|].
  apply perm_skip. rewrite <- !app_assoc. apply Permutation_app_swap_app.
Qed.

Lemma coeffs_blks_blk_coeff : forall zs m,
  map snd zs = repeat (LGmp, 8) m -> coeffs_blks (map blk_coeff zs) = zs.
Proof.
  induction zs as [|[b [l sz]] zs IH]; intros m H; [reflexivity|].
  destruct m as [|m]; [discriminate H|]. cbn in H. inversion H; subst.
  unfold coeffs_blks in *. cbn [map flat_map blk_coeff coeff_blk fst snd app].
  f_equal. eapply IH. eassumption.
Qed.

(* copy_coeffs with the facts needed on the exceptional exit *)
Lemma copy_coeffs_sat2 : forall ls s h X,
  Lg (owned_row s ++ X) h ->
  sat (copy_coeffs ls s h)
      (fun _ s' h' => vec s' = vec s /\ cap s' = cap s /\
                      length (coeffs s') = (length (coeffs s) + length ls)%nat /\
                      Lg (owned_row s' ++ X) h')
      (fun s' h' => vec s' = vec s /\ cap s' = cap s /\
                    (length (coeffs s') < length (coeffs s) + length ls)%nat /\
                    Lg (owned_row s' ++ X) h').
Proof.
  induction ls as [|lb rest IH]; intros s h X HL; cbn [copy_coeffs].
  - cbn [ret sat]. split; [reflexivity|]. split; [reflexivity|]. split; [cbn; lia | exact HL].
  - eapply sat_bind.
    + apply alloc_sat; exact HL.
    + cbn beta. intros s' h' [-> H]. split; [reflexivity|]. split; [reflexivity|].
      split; [cbn [length]; lia | exact H].
    + cbn beta. intros b s1 h1 [-> HL1]. rewrite bind_modify.
      eapply sat_conseq.
      * apply IH with (X := X). unfold owned_row in *. cbn [vec cap coeffs].
        rewrite coeffs_blks_app. cbn [coeffs_blks flat_map coeff_blk app].
        eapply Lg_perm; [exact HL1|].
        rewrite <- !app_assoc. cbn [app].
        rewrite !app_assoc. apply Permutation_middle.
      * cbn beta. cbn [vec cap coeffs]. intros _ s2 h2 [A [B [C D]]].
        rewrite app_length in C. cbn [length] in *.
        split; [exact A|]. split; [exact B|]. split; [lia | exact D].
      * cbn beta. cbn [vec cap coeffs]. intros s2 h2 [A [B [C D]]].
        rewrite app_length in C. cbn [length] in *.
        split; [exact A|]. split; [exact B|]. split; [lia | exact D].
Qed.

Lemma add_zeroes_and_shift_sat : forall n i newcap s h X,
  row_inv s -> i <= dsize s -> dsize s + n <= newcap ->
  Lg (owned_row s ++ X) h ->
  sat (add_zeroes_and_shift n i newcap s h)
      (fun _ s' h' => row_inv s' /\ dsize s' = dsize s + n /\ Lg (owned_row s' ++ X) h')
      (fun s' h' => row_inv s' /\
                    (s' = s \/ (dsize s + n <= cap s /\ vec s' = vec s /\ cap s' = cap s))
                    /\ Lg (owned_row s' ++ X) h').
Proof.
  intros n i newcap s h X [I0 I1] Hi Hc HL. unfold add_zeroes_and_shift.
  rewrite bind_get. cbv zeta.
  set (i' := N.to_nat i). set (n' := N.to_nat n).
  assert (Hi' : (i' <= length (coeffs s))%nat) by (unfold i', dsize in *; lia).
  destruct (N.ltb_spec (cap s) (dsize s + n)) as [Hlt|Hge].
  - (* reallocation *)
    eapply sat_bind.
    + apply alloc_sat; exact HL.
    + cbn beta. intros s' h' [-> H]. split; [split; assumption|]. split; [left; reflexivity | exact H].
    + cbn beta. intros nv s1 h1 [-> HL1].
      eapply sat_bind with
        (E1 := fun s' h' => row_inv s' /\
                 (s' = s \/ (dsize s + n <= cap s /\ vec s' = vec s /\ cap s' = cap s))
                 /\ Lg (owned_row s' ++ X) h').
      * eapply sat_try.
        -- apply raii_allocs_sat; exact HL1.
        -- cbn beta. intros a s' h' H; exact H.
        -- cbn beta. intros s2 h2 [-> HL2]. eapply sat_bind.
           ++ eapply free_sat; [exact HL2 | apply Permutation_refl].
           ++ intros ? ? F; contradiction.
           ++ cbn beta. intros _ s3 h3 [-> HL3]. cbn [throw sat].
              split; [split; assumption|]. split; [left; reflexivity | exact HL3].
      * intros s' h' H; exact H.
      * cbn beta. intros zs s2 h2 [-> [Hz HL2]].
        set (env := (nv, (LNew, sz_coeff * newcap))) in *.
        eapply sat_bind.
        -- eapply free_opt_sat with
             (X := env :: (coeffs_blks (firstn i' (coeffs s)) ++ zs ++ coeffs_blks (skipn i' (coeffs s))) ++ X);
             [exact HL2|].
           unfold owned_row. rewrite <- (firstn_skipn i' (coeffs s)) at 1.
           rewrite coeffs_blks_app.
           rewrite (app_assoc (opt_blk LNew (sz_coeff * cap s) (vec s))).
           (* zs ++ env :: ((v ++ a) ++ b) ++ X  ~  v ++ env :: (a ++ zs ++ b) ++ X *)
           eapply Permutation_trans.
           { apply (perm_ins zs (opt_blk LNew (sz_coeff * cap s) (vec s) ++ coeffs_blks (firstn i' (coeffs s)))
                             (coeffs_blks (skipn i' (coeffs s))) X env).
             }
           rewrite <- !app_assoc. apply Permutation_middle.
        -- intros ? ? F; contradiction.
        -- cbn beta. intros _ s3 h3 [-> HL3]. cbn [put sat].
           assert (Hzl : length zs = n').
           { pose proof (map_length snd zs) as Hm. rewrite Hz, repeat_length in Hm.
             symmetry; exact Hm. }
           unfold row_inv, dsize, owned_row in *. cbn [vec cap coeffs opt_blk app].
           rewrite !app_length, map_length, firstn_length, skipn_length, Hzl.
           split; [split; [discriminate | unfold n'; lia]|].
           split; [unfold n'; lia|].
           rewrite !coeffs_blks_app, (coeffs_blks_blk_coeff zs n' Hz). exact HL3.
  - (* within capacity *)
    rewrite bind_put.
    set (s1 := mkRow (vec s) (cap s) (firstn i' (coeffs s))).
    assert (HL1 : Lg (owned_row s1 ++ coeffs_blks (skipn i' (coeffs s)) ++ X) h).
    { eapply Lg_perm; [exact HL|]. unfold owned_row, s1. cbn [vec cap coeffs].
      rewrite <- (firstn_skipn i' (coeffs s)) at 1. rewrite coeffs_blks_app.
      rewrite <- !app_assoc. apply Permutation_refl. }
    eapply sat_bind with
      (Q1 := fun _ s2 h2 => vec s2 = vec s /\ cap s2 = cap s /\
                            length (coeffs s2) = (i' + n')%nat /\
                            Lg (owned_row s2 ++ coeffs_blks (skipn i' (coeffs s)) ++ X) h2)
      (E1 := fun s' h' => row_inv s' /\
                 (s' = s \/ (dsize s + n <= cap s /\ vec s' = vec s /\ cap s' = cap s))
                 /\ Lg (owned_row s' ++ X) h').
    + eapply sat_try.
      * apply copy_coeffs_sat2; exact HL1.
      * cbn beta. unfold s1. cbn [vec cap coeffs]. intros a s2 h2 [A [B [C D]]].
        rewrite firstn_length, repeat_length in C.
        split; [exact A|]. split; [exact B|]. split; [lia | exact D].
      * cbn beta. unfold s1. cbn [vec cap coeffs]. intros s2 h2 [A [B [C D]]].
        rewrite firstn_length, repeat_length in C.
        eapply sat_bind.
        -- eapply free_list_sat with (X := owned_row s2 ++ X); [exact D|].
           rewrite !app_assoc. apply Permutation_app_tail. apply Permutation_app_comm.
        -- intros ? ? F; contradiction.
        -- cbn beta. intros _ s3 h3 [-> HL3]. cbn [throw sat].
           split; [|split; [|exact HL3]].
           ++ unfold row_inv, dsize in *. rewrite A, B. split; [exact I0 | unfold n' in *; lia].
           ++ right. split; [exact Hge|]. split; [exact A | exact B].
    + intros s' h' H; exact H.
    + cbn beta. intros _ s2 h2 [A [B [C D]]]. cbn [modify sat].
      unfold row_inv, dsize, owned_row in *. cbn [vec cap coeffs]. rewrite A, B in D |- *.
      rewrite app_length, skipn_length, C.
      split; [split; [exact I0 | unfold n' in *; lia]|].
      split; [unfold n'; lia|].
      rewrite coeffs_blks_app. eapply Lg_perm; [exact D|]. rewrite <- !app_assoc.
      apply Permutation_refl.
Qed.

(* On failure: reallocation branch -> receiver unchanged; within-capacity branch
   -> the row keeps vec/capacity, holds the first i coefficients plus the zeroes
   built so far, and the moved tail has been destroyed (valid row, balanced). *)
Theorem dense_add_zeroes_and_shift_unwind_balanced : forall n i newcap r k h X,
  wf h -> row_inv r -> i <= dsize r -> dsize r + n <= newcap ->
  ledger_eq (live h) (owned_row r ++ X) ->
  match add_zeroes_and_shift n i newcap r (arm k h) with
  | Ret _ r' h' => wf h' /\ ledger_eq (live h') (owned_row r' ++ X)
                   /\ row_inv r' /\ NoDup (map fst (owned_row r'))
                   /\ dsize r' = dsize r + n
  | Exn r' h' => wf h' /\ ledger_eq (live h') (owned_row r' ++ X) /\ row_inv r'
                 /\ (r' = r \/ (dsize r + n <= cap r /\ vec r' = vec r /\ cap r' = cap r))
  | Bad _ => False
  end.
Proof.
  intros n i newcap r k h X W I Hi Hc P.
  pose proof (add_zeroes_and_shift_sat n i newcap r (arm k h) X I Hi Hc
                (Lg_arm k _ _ (conj W P))) as H.
  destruct (add_zeroes_and_shift n i newcap r (arm k h)) as [a r' h'|r' h'|h']; cbn [sat] in H.
  - destruct H as [I' [Hd HL]]. apply Lg_out in HL. tauto.
  - destruct H as [I' [D [W' P']]]. auto.
  - exact H.
Qed.

Example dense_add_zeroes_and_shift_hyp_sat :
  wf wit_row_heap /\ row_inv wit_row /\ 1 <= dsize wit_row /\ dsize wit_row + 2 <= 8 /\
  ledger_eq (live wit_row_heap) (owned_row wit_row ++ []).
Proof.
  destruct wit_row_ok as [W [I P]]. split; [exact W|]. split; [exact I|].
  split; [cbn; lia|]. split; [cbn; lia | exact P].
Qed.

(* receiver built as for tr_dense_resize; newcap = compute_capacity(size + n, max_size()) *)
Definition tr_dense_add_zeroes (cap0 : N) (cs : list N) (n i newcap k : N) : obs :=
  match build_row cap0 cs empty_row empty_heap with
  | Ret _ r h0 => observe row_ids (add_zeroes_and_shift n i newcap r (start k h0))
  | _ => failed_setup
  end.

(* ---------- examples for the new Dense_Row paths (vm_compute) ---------- *)

Example ex_tr_dense_copy_sized :
  map (tr_dense_copy_sized [1; 0; 2] 5 6) [1; 2; 3; 4; 5] =
  [(false, [EvFail LNew 96], 0, 0);
   (false, [EvAlloc LNew 96; EvFail LGmp 8; EvFree LNew 96], 0, 0);
   (false, [EvAlloc LNew 96; EvAlloc LGmp 8; EvFail LGmp 8; EvFree LGmp 8; EvFree LNew 96], 0, 0);
   (false, [EvAlloc LNew 96; EvAlloc LGmp 8; EvAlloc LGmp 8; EvFail LGmp 16;
            EvFree LGmp 8; EvFree LGmp 8; EvFree LNew 96], 0, 0);
   (true, [EvAlloc LNew 96; EvAlloc LGmp 8; EvAlloc LGmp 8; EvAlloc LGmp 16], 0, 4)].
Proof. vm_compute. reflexivity. Qed.

(* sz < y.size(): only the first sz coefficients are copied *)
Example ex_tr_dense_copy_sized_truncating :
  tr_dense_copy_sized [1; 0; 2] 2 6 4 =
  (true, [EvAlloc LNew 96; EvAlloc LGmp 8; EvAlloc LGmp 8], 0, 3).
Proof. vm_compute. reflexivity. Qed.

(* the seeded mutant: k = 3 leaves the first copied limb block behind *)
Example ex_tr_dense_copy_sized_late :
  map (tr_dense_copy_sized_late [1; 1] 2 2) [2; 3; 4] =
  [(false, [EvAlloc LNew 32; EvFail LGmp 8; EvFree LNew 32], 0, 0);
   (false, [EvAlloc LNew 32; EvAlloc LGmp 8; EvFail LGmp 8; EvFree LNew 32], 1, 0);
   (true, [EvAlloc LNew 32; EvAlloc LGmp 8; EvAlloc LGmp 8], 0, 3)].
Proof. vm_compute. reflexivity. Qed.

Example ex_tr_dense_copy_cap :
  map (tr_dense_copy_cap 3 [1; 0; 2] 5) [1; 2; 4; 5] =
  [(false, [EvFail LNew 80], 0, 0);
   (false, [EvAlloc LNew 80; EvFail LGmp 8; EvFree LNew 80], 0, 0);
   (false, [EvAlloc LNew 80; EvAlloc LGmp 8; EvAlloc LGmp 8; EvFail LGmp 16;
            EvFree LGmp 8; EvFree LGmp 8; EvFree LNew 80], 0, 0);
   (true, [EvAlloc LNew 80; EvAlloc LGmp 8; EvAlloc LGmp 8; EvAlloc LGmp 16], 0, 4)].
Proof. vm_compute. reflexivity. Qed.

(* y.vec == nullptr: the vector is still allocated *)
Example ex_tr_dense_copy_cap_null_source :
  map (tr_dense_copy_cap 0 [] 4) [1; 2] =
  [(false, [EvFail LNew 64], 0, 0); (true, [EvAlloc LNew 64], 0, 1)].
Proof. vm_compute. reflexivity. Qed.

Example ex_tr_dense_resize2 :
  (map (tr_dense_resize2 3 [1; 0; 2] 5 8) [1; 2],      (* capacity grows *)
   map (tr_dense_resize2 3 [1; 0; 2] 1 2) [1; 2],      (* capacity shrinks: shrink FIRST *)
   tr_dense_resize2 3 [1; 0; 2] 0 0 1,                 (* new_capacity = 0: destroy() *)
   tr_dense_resize2 3 [1; 0; 2] 2 3 1) =               (* equal capacity: nothing is done *)
  ([(false, [EvFail LNew 128], 0, 3); (true, [EvAlloc LNew 128; EvFree LNew 48], 0, 3)],
   [(false, [EvFree LGmp 16; EvFail LNew 32], 0, 2);
    (true, [EvFree LGmp 16; EvAlloc LNew 32; EvFree LNew 48], 0, 2)],
   (true, [EvFree LGmp 16; EvFree LGmp 8; EvFree LNew 48], 0, 0),
   (true, [], 0, 3)).
Proof. vm_compute. reflexivity. Qed.

Example ex_tr_dense_ctor_sized :
  map (tr_dense_ctor_sized 2 4) [1; 2] =
  [(false, [EvFail LNew 64], 0, 0); (true, [EvAlloc LNew 64], 0, 1)].
Proof. vm_compute. reflexivity. Qed.

Example ex_tr_dense_from_sparse :
  map (tr_dense_from_sparse 4 [(2, 2); (0, 1)]) [1; 2; 3; 4] =
  [(false, [EvFail LNew 64], 0, 0);
   (false, [EvAlloc LNew 64; EvFail LGmp 8; EvFree LNew 64], 0, 0);
   (false, [EvAlloc LNew 64; EvAlloc LGmp 8; EvFail LGmp 16; EvFree LGmp 8; EvFree LNew 64], 0, 0);
   (true, [EvAlloc LNew 64; EvAlloc LGmp 8; EvAlloc LGmp 16], 0, 3)].
Proof. vm_compute. reflexivity. Qed.

(* row.size() = 0: allocate(0) is modelled as a request of 0 bytes *)
Example ex_tr_dense_from_sparse_empty :
  map (tr_dense_from_sparse 0 []) [1; 2] =
  [(false, [EvFail LNew 0], 0, 0); (true, [EvAlloc LNew 0], 0, 1)].
Proof. vm_compute. reflexivity. Qed.

Example ex_tr_dense_add_zeroes :
  (map (tr_dense_add_zeroes 3 [1; 0; 2] 2 1 12) [1; 2; 3; 4],     (* reallocation *)
   map (tr_dense_add_zeroes 6 [1; 0; 2] 2 1 12) [1; 2; 3]) =      (* within capacity *)
  ([(false, [EvFail LNew 192], 0, 3);
    (false, [EvAlloc LNew 192; EvFail LGmp 8; EvFree LNew 192], 0, 3);
    (false, [EvAlloc LNew 192; EvAlloc LGmp 8; EvFail LGmp 8; EvFree LGmp 8; EvFree LNew 192], 0, 3);
    (true, [EvAlloc LNew 192; EvAlloc LGmp 8; EvAlloc LGmp 8; EvFree LNew 48], 0, 5)],
   [(false, [EvFail LGmp 8; EvFree LGmp 16], 0, 2);
    (false, [EvAlloc LGmp 8; EvFail LGmp 8; EvFree LGmp 16], 0, 3);
    (true, [EvAlloc LGmp 8; EvAlloc LGmp 8], 0, 5)]).
Proof. vm_compute. reflexivity. Qed.
