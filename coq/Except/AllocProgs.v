(* ------------------------------------------------------------------------- *)
(*  C14  Except/AllocProgs.v : PPL's hand-written allocation guards,          *)
(*  transcribed AS WRITTEN into the resource monad of Except/Alloc.v, with    *)
(*  "unwind balanced" theorems for every fault position k.                    *)
(*                                                                           *)
(*  Conventions                                                              *)
(*   - sizeof(dimension_type) = 8, sizeof(Coefficient) = 16, GMP limb = 8.   *)
(*   - copy-constructing a Coefficient from a source with [limbs] limbs is   *)
(*     ONE request on LGmp of 8 * max 1 limbs bytes; default construction    *)
(*     allocates nothing; destruction frees the limb block if there is one.  *)
(*   - [ledger_eq] = Permutation of (id,(layer,size)) lists.                  *)
(*   - theorems are stated for every initial heap with [wf h] and every k;   *)
(*     they are in fact proved for every value of the fault fuel.            *)
(* ------------------------------------------------------------------------- *)
From Coq Require Import List NArith Arith Lia Bool Permutation.
From PPLV Require Import Except.Alloc.
Import ListNotations.
Import MNotations.
Local Open Scope N_scope.

Definition sz_dim : N := 8.      (* sizeof(dimension_type) *)
Definition sz_coeff : N := 16.   (* sizeof(Coefficient) = sizeof(mpz_class) *)
Definition limb_bytes (limbs : N) : N := 8 * N.max 1 limbs.

(* ---------- insertion sort by an N key (destroy() walks positions) ------- *)

Fixpoint insert_by {A} (key : A -> N) (x : A) (l : list A) : list A :=
  match l with
  | [] => [x]
  | y :: l' => if N.leb (key x) (key y) then x :: l else y :: insert_by key x l'
  end.

Fixpoint sort_by {A} (key : A -> N) (l : list A) : list A :=
  match l with
  | [] => []
  | x :: l' => insert_by key x (sort_by key l')
  end.

Lemma insert_by_perm {A} (key : A -> N) x l : Permutation (insert_by key x l) (x :: l).
Proof.
  induction l as [|y l IH]; cbn.
  - apply Permutation_refl.
  - destruct (N.leb (key x) (key y)).
    + apply Permutation_refl.
    + eapply Permutation_trans; [apply perm_skip; exact IH | apply perm_swap].
Qed.

Lemma sort_by_perm {A} (key : A -> N) l : Permutation (sort_by key l) l.
Proof.
  induction l as [|x l IH]; cbn.
  - constructor.
  - eapply Permutation_trans; [apply insert_by_perm | apply perm_skip; exact IH].
Qed.

(* ========================================================================= *)
(*  CO_Tree                                                                  *)
(* ========================================================================= *)

(* elems: (dfs position, limb block (id, bytes) of the element stored there) *)
Record tree := mkTree {
  indexes : option nat;
  data    : option nat;
  rsz     : N;
  elems   : list (N * option (nat * N))
}.

Definition empty_tree : tree := mkTree None None 0 [].

Definition opt_blk (l : layer) (sz : N) (ob : option nat) : list blk :=
  match ob with Some b => [(b, (l, sz))] | None => [] end.

Definition elem_blk (e : N * option (nat * N)) : list blk :=
  match snd e with Some (b, sz) => [(b, (LGmp, sz))] | None => [] end.

Definition elems_blks (es : list (N * option (nat * N))) : list blk :=
  flat_map elem_blk es.

(* the blocks a tree owns, with the layer and size they must be recorded with *)
Definition frame_blks (t : tree) : list blk :=
  opt_blk LNew (sz_dim * (rsz t + 2)) (indexes t)
  ++ opt_blk LNew (sz_coeff * (rsz t + 1)) (data t).

Definition owned_tree (t : tree) : list blk :=
  frame_blks t ++ elems_blks (elems t).

(* analogue of structure_OK() *)
Definition tree_inv (t : tree) : Prop :=
  (rsz t = 0 -> indexes t = None /\ data t = None /\ elems t = [])
  /\ (rsz t <> 0 -> indexes t <> None /\ data t <> None)
  /\ (exists d, rsz t + 1 = 2 ^ d).

Lemma tree_inv_empty : tree_inv empty_tree.
Proof.
  split; [|split]; cbn.
  - auto.
  - intros H; contradiction H; reflexivity.
  - exists 0. reflexivity.
Qed.

(* reserved size computed by init(n) *)
Definition rsz_for (n : N) : N := 2 ^ (N.log2 n + 1) - 1.

Lemma rsz_for_pow : forall n, rsz_for n + 1 = 2 ^ (N.log2 n + 1).
Proof.
  intros n. unfold rsz_for.
  assert (2 ^ (N.log2 n + 1) <> 0) by (apply N.pow_nonzero; discriminate).
  set (p := 2 ^ (N.log2 n + 1)) in *. clearbody p. lia.
Qed.

Lemma rsz_for_nonzero : forall n, rsz_for n <> 0.
Proof.
  intros n. pose proof (rsz_for_pow n) as H.
  replace (N.log2 n + 1) with (N.succ (N.log2 n)) in H by lia.
  rewrite N.pow_succ_r' in H.
  assert (2 ^ N.log2 n <> 0) by (apply N.pow_nonzero; discriminate).
  set (p := 2 ^ N.log2 n) in *. clearbody p. lia.
Qed.

(* ---- (a) CO_Tree::init(n)   CO_Tree.cc:608 ---- *)
Definition init (n : N) : M tree unit :=
  put empty_tree ;;;
  (if N.eqb n 0 then ret tt
   else
     let r := rsz_for n in
     (* indexes = new dimension_type[new_reserved_size + 2]; *)
     bi <- alloc LNew (sz_dim * (r + 2)) ;;
     modify (fun t => mkTree (Some bi) (data t) (rsz t) (elems t)) ;;;
     (* try { data = allocate(r + 1) } catch (...) { delete[] indexes; indexes = 0; throw; } *)
     bd <- try_catch (alloc LNew (sz_coeff * (r + 1)))
             (t <- get ;;
              free_opt LNew (indexes t) ;;;
              modify (fun t => mkTree None (data t) (rsz t) (elems t)) ;;;
              throw) ;;
     modify (fun t => mkTree (indexes t) (Some bd) r (elems t))).

Lemma init_sat : forall n s h X,
  Lg X h ->
  sat (init n s h)
      (fun _ s' h' => tree_inv s' /\ elems s' = [] /\
                      rsz s' = (if N.eqb n 0 then 0 else rsz_for n) /\
                      Lg (owned_tree s' ++ X) h')
      (fun s' h' => s' = empty_tree /\ Lg X h').
Proof.
  intros n s h X HL. unfold init. rewrite bind_put.
  destruct (N.eqb n 0) eqn:En.
  - cbn. split; [apply tree_inv_empty|]. auto.
  - cbv zeta. eapply sat_bind.
    + apply alloc_sat; exact HL.
    + intros s' h' H; exact H.
    + intros bi s1 h1 [-> HL1]. cbn beta. rewrite bind_modify. cbn [data rsz elems empty_tree].
      eapply sat_bind with (E1 := fun s' h' => s' = empty_tree /\ Lg X h').
      * eapply sat_try.
        -- apply alloc_sat; exact HL1.
        -- intros a s' h' H; exact H.
        -- intros s2 h2 [-> HL2]. rewrite bind_get. cbn [indexes].
           eapply sat_bind.
           ++ eapply free_opt_sat with (sz := sz_dim * (rsz_for n + 2)); [exact HL2|].
              cbn. apply Permutation_refl.
           ++ intros ? ? F; contradiction.
           ++ intros _ s3 h3 [-> HL3]. cbn beta. rewrite bind_modify. cbn. auto.
      * intros s' h' H; exact H.
      * intros bd s2 h2 [-> HL2]. cbn [modify sat indexes data rsz elems].
        split; [|split; [reflexivity | split; [reflexivity|]]].
        -- split; [|split]; cbn [rsz indexes data elems].
           ++ intros H0. exfalso; exact (rsz_for_nonzero n H0).
           ++ intros _. split; discriminate.
           ++ exists (N.log2 n + 1). apply rsz_for_pow.
        -- unfold owned_tree, frame_blks; cbn [indexes data rsz elems opt_blk elems_blks flat_map app].
           eapply Lg_perm; [exact HL2|]. apply perm_swap.
Qed.

(* ---- (b) CO_Tree::destroy()   CO_Tree.cc:650 ----
   for i = 1..reserved_size: if used, destroy data[i]  (ascending position:
   modelled by sorting the stored elements by position);
   delete[] indexes; deallocate(data).  The fields are left dangling. *)
Definition release {St} (es : list (N * option (nat * N))) (t : tree) : M St unit :=
  free_list (elems_blks es) ;;;
  free_opt LNew (indexes t) ;;;
  free_opt LNew (data t).

Definition destroy : M tree unit :=
  t <- get ;;
  if N.eqb (rsz t) 0 then ret tt
  else release (sort_by fst (elems t)) t.

Lemma elems_blks_sort : forall es,
  Permutation (elems_blks (sort_by fst es)) (elems_blks es).
Proof.
  intros es. unfold elems_blks. apply Permutation_flat_map. apply sort_by_perm.
Qed.

Lemma elems_blks_rev_sort : forall es,
  Permutation (elems_blks (rev (sort_by fst es))) (elems_blks es).
Proof.
  intros es. unfold elems_blks. apply Permutation_flat_map.
  eapply Permutation_trans; [apply Permutation_sym, Permutation_rev | apply sort_by_perm].
Qed.

(* the "release everything" sequence shared by destroy and the handlers *)
Lemma release_sat {St} : forall (es : list (N * option (nat * N))) t (s : St) h X,
  Permutation (elems_blks es) (elems_blks (elems t)) ->
  Lg (owned_tree t ++ X) h ->
  sat (release es t s h)
      (fun _ s' h' => s' = s /\ Lg X h') (fun _ _ => False).
Proof.
  intros es t s h X PE HL. unfold release.
  eapply sat_bind.
  - eapply free_list_sat with (X := frame_blks t ++ X); [exact HL|].
    unfold owned_tree. rewrite app_assoc. apply Permutation_app_tail.
    eapply Permutation_trans; [apply Permutation_app_comm|].
    apply Permutation_app_tail. apply Permutation_sym. exact PE.
  - intros ? ? F; contradiction.
  - intros _ s1 h1 [-> HL1]. cbn beta. unfold frame_blks in HL1. rewrite <- app_assoc in HL1.
    eapply sat_bind.
    + eapply free_opt_sat; [exact HL1|]. unfold opt_blk. apply Permutation_refl.
    + intros ? ? F; contradiction.
    + intros _ s2 h2 [-> HL2]. cbn beta.
      eapply free_opt_sat; [exact HL2|]. unfold opt_blk. apply Permutation_refl.
Qed.

Lemma destroy_sat : forall s h X,
  tree_inv s -> Lg (owned_tree s ++ X) h ->
  sat (destroy s h) (fun _ s' h' => s' = s /\ Lg X h') (fun _ _ => False).
Proof.
  intros s h X [I0 _] HL. unfold destroy. rewrite bind_get.
  destruct (N.eqb_spec (rsz s) 0) as [E|E].
  - cbn. split; [reflexivity|]. destruct (I0 E) as [Hi [Hd He]].
    unfold owned_tree, frame_blks in HL. rewrite Hi, Hd, He in HL. exact HL.
  - apply release_sat; [apply elems_blks_sort | exact HL].
Qed.

(* ---- element copy loop: new(&data[p]) data_type(src)  for each (p, limbs) ---- *)
Definition add_elem (p : N) (b : nat) (sz : N) (t : tree) : tree :=
  mkTree (indexes t) (data t) (rsz t) ((p, Some (b, sz)) :: elems t).

Fixpoint copy_elems (ps : list (N * N)) : M tree unit :=
  match ps with
  | [] => ret tt
  | (p, lb) :: rest =>
      b <- alloc LGmp (limb_bytes lb) ;;
      modify (add_elem p b (limb_bytes lb)) ;;;
      copy_elems rest
  end.

Definition frame_eq (s s' : tree) : Prop :=
  indexes s' = indexes s /\ data s' = data s /\ rsz s' = rsz s.

Lemma frame_eq_refl : forall s, frame_eq s s.
Proof. intros; repeat split. Qed.

Lemma frame_eq_trans : forall a b c, frame_eq a b -> frame_eq b c -> frame_eq a c.
Proof.
  intros a b c [A1 [A2 A3]] [B1 [B2 B3]]. repeat split; congruence.
Qed.

Lemma copy_elems_sat : forall ps s h X,
  Lg (elems_blks (elems s) ++ X) h ->
  sat (copy_elems ps s h)
      (fun _ s' h' => frame_eq s s' /\
                      map fst (elems s') = rev (map fst ps) ++ map fst (elems s) /\
                      Lg (elems_blks (elems s') ++ X) h')
      (fun s' h' => frame_eq s s' /\ Lg (elems_blks (elems s') ++ X) h').
Proof.
  induction ps as [|[p lb] rest IH]; intros s h X HL; cbn [copy_elems].
  - cbn. split; [apply frame_eq_refl|]. auto.
  - eapply sat_bind.
    + apply alloc_sat; exact HL.
    + cbn beta. intros s' h' [-> H]. split; [apply frame_eq_refl | exact H].
    + intros b s1 h1 [-> HL1]. cbn beta. rewrite bind_modify.
      eapply sat_conseq.
      * apply IH with (X := X). cbn [add_elem elems elems_blks flat_map elem_blk snd app].
        exact HL1.
      * cbn beta. intros _ s2 h2 [F [Hp HL2]]. split; [|split].
        -- eapply frame_eq_trans; [|exact F]. repeat split.
        -- rewrite Hp. cbn [add_elem elems map fst rev]. rewrite <- app_assoc. reflexivity.
        -- exact HL2.
      * cbn beta. intros s2 h2 [F HL2]. split; [|exact HL2].
        eapply frame_eq_trans; [|exact F]. repeat split.
Qed.

(* ---- (c) template CO_Tree::CO_Tree(Iterator i, dimension_type n) ----
   CO_Tree_templates.hh:29 *)
Definition max_density_percent : N := 91.

Definition is_greater_than_ratio (numer denom ratio : N) : bool :=
  N.ltb (ratio * denom) (100 * numer).

Definition iter_reserved (n : N) : N :=
  let r := 2 ^ (N.log2 n + 1) - 1 in
  if is_greater_than_ratio n r max_density_percent && negb (N.eqb r 3)
  then r * 2 + 1 else r.

(* dfs positions visited by the explicit stack of the constructor: the
   equivalent recursive in-order fill.  tree_iterator: root i = r/2+1,
   offset = i; left child: offset /= 2, i -= offset; right: i += offset. *)
Fixpoint fill_pos (fu : nat) (i off m : N) : list N :=
  match fu with
  | O => []
  | S f =>
      if N.eqb m 0 then []
      else if N.eqb m 1 then [i]
      else
        let half := (m + 1) / 2 in
        let o2 := off / 2 in
        fill_pos f (i - o2) o2 (half - 1) ++ [i] ++ fill_pos f (i + o2) o2 (m - half)
  end.

Definition fill_positions (n r : N) : list N :=
  let root := r / 2 + 1 in
  fill_pos (S (S (N.to_nat (N.log2 n)))) root root n.

(* pair the source elements with positions (total: the allocation sequence is
   always exactly [src], whatever the positions) *)
Fixpoint zip_pos (ps : list N) (src : list N) : list (N * N) :=
  match src with
  | [] => []
  | lb :: src' => (hd 0 ps, lb) :: zip_pos (tl ps) src'
  end.

Lemma zip_pos_length : forall src ps, length (zip_pos ps src) = length src.
Proof. induction src; intros; cbn; auto. Qed.

Lemma zip_pos_snd : forall src ps, map snd (zip_pos ps src) = src.
Proof. induction src; intros; cbn; [reflexivity | f_equal; auto]. Qed.

(* The body, on the object under construction.  NOTE: the C++ sets
   root.index() = i.index() before constructing the element; indexes[] contents
   are not modelled, [elems] lists the CONSTRUCTED elements.  There is no
   try/catch around the loop. *)
Definition iter_fill (src : list N) : M tree unit :=
  t <- get ;;
  copy_elems (zip_pos (fill_positions (N.of_nat (length src)) (rsz t)) src).

Definition iter_body (src : list N) : M tree unit :=
  let n := N.of_nat (length src) in
  if N.eqb n 0 then init 0
  else
    (* reserved_size = ...; (field write, then init(reserved_size)) *)
    modify (fun t => mkTree (indexes t) (data t) (iter_reserved n) (elems t)) ;;;
    t0 <- get ;;
    init (rsz t0) ;;;
    iter_fill src.

Definition iter_ctor (src : list N) : M unit tree :=
  construct empty_tree (iter_body src).

(* Minimal fix: try { fill loop } catch (...) { destroy(); throw; } where,
   because root.index() is set BEFORE the element is constructed, the slot
   whose construction failed must first be reset to unused (or the element
   constructed before its index is set).  Modelled: on failure of element j
   the j-1 constructed elements are destroyed in ascending dfs position, then
   delete[] indexes, deallocate data, rethrow. *)
Definition iter_body_fixed (src : list N) : M tree unit :=
  let n := N.of_nat (length src) in
  if N.eqb n 0 then init 0
  else
    modify (fun t => mkTree (indexes t) (data t) (iter_reserved n) (elems t)) ;;;
    t0 <- get ;;
    init (rsz t0) ;;;
    try_catch (iter_fill src)
      (t <- get ;; release (sort_by fst (elems t)) t ;;; throw).

Definition iter_ctor_fixed (src : list N) : M unit tree :=
  construct empty_tree (iter_body_fixed src).

(* ---------- helpers to read results off the ledger predicate ---------- *)

Lemma NoDup_app_l {A} (l l' : list A) : NoDup (l ++ l') -> NoDup l.
Proof.
  induction l as [|a l IH]; cbn; intros H; [constructor|].
  inversion H as [|x l0 Hn Hd]; subst. constructor.
  - intro Hi. apply Hn. apply in_or_app. left. exact Hi.
  - apply IH. exact Hd.
Qed.

Lemma Lg_out : forall O X h,
  Lg (O ++ X) h -> wf h /\ ledger_eq (live h) (O ++ X) /\ NoDup (map fst O).
Proof.
  intros O X h HL. pose proof (Lg_NoDup _ _ HL) as ND. destruct HL as [W P].
  split; [exact W|]. split; [exact P|].
  rewrite map_app in ND. eapply NoDup_app_l. exact ND.
Qed.

Lemma frame_blks_eq : forall s s', frame_eq s s' -> frame_blks s' = frame_blks s.
Proof. intros s s' [A [B C]]. unfold frame_blks. rewrite A, B, C. reflexivity. Qed.

Lemma owned_perm : forall t X,
  Permutation (elems_blks (elems t) ++ frame_blks t ++ X) (owned_tree t ++ X).
Proof.
  intros t X. unfold owned_tree. rewrite app_assoc. apply Permutation_app_tail.
  apply Permutation_app_comm.
Qed.

Lemma tree_inv_frame : forall s s',
  tree_inv s -> rsz s <> 0 -> frame_eq s s' -> tree_inv s'.
Proof.
  intros s s' [I0 [I1 I2]] Hr [A [B C]]. split; [|split].
  - intros H. rewrite C in H. contradiction.
  - intros _. rewrite A, B. apply I1. exact Hr.
  - rewrite C. exact I2.
Qed.

Lemma iter_reserved_nonzero : forall n, iter_reserved n <> 0.
Proof.
  intros n. unfold iter_reserved. fold (rsz_for n).
  pose proof (rsz_for_nonzero n) as H.
  destruct (is_greater_than_ratio n (rsz_for n) max_density_percent && negb (N.eqb (rsz_for n) 3)); lia.
Qed.

(* ---------- (a) init : theorem ---------- *)

Theorem cotree_init_unwind_balanced : forall n k h s0,
  wf h ->
  match init n s0 (arm k h) with
  | Ret _ t h' => wf h' /\ ledger_eq (live h') (owned_tree t ++ live h)
                  /\ tree_inv t /\ NoDup (map fst (owned_tree t))
  | Exn t h' => wf h' /\ ledger_eq (live h') (live h) /\ t = empty_tree
  | Bad _ => False
  end.
Proof.
  intros n k h s0 W.
  pose proof (init_sat n s0 (arm k h) (live h) (Lg_arm k _ _ (Lg_self h W))) as H.
  destruct (init n s0 (arm k h)) as [a s' h'|s' h'|h']; cbn [sat] in H.
  - destruct H as [I [_ [_ HL]]]. apply Lg_out in HL. tauto.
  - destruct H as [-> [W' P]]. auto.
  - exact H.
Qed.

Example cotree_init_hyp_sat : wf empty_heap.
Proof. exact wf_empty. Qed.

(* ---------- (c) iterator constructor, as written ---------- *)

(* what holds for the code as written: a normal return is balanced; an
   exceptional exit never double-frees, but the object's blocks may stay live *)
Lemma iter_body_sat : forall src s h X,
  Lg X h ->
  sat (iter_body src s h)
      (fun _ s' h' => tree_inv s' /\ Lg (owned_tree s' ++ X) h')
      (fun s' h' => exists extra, Lg (extra ++ X) h').
Proof.
  intros src s h X HL. unfold iter_body. cbv zeta.
  destruct (N.eqb (N.of_nat (length src)) 0) eqn:En.
  - eapply sat_conseq; [apply init_sat; exact HL| |].
    + cbn beta. intros _ s' h' [I [_ [_ H]]]. auto.
    + cbn beta. intros s' h' [_ H]. exists []. exact H.
  - rewrite bind_modify, bind_get. cbn [rsz].
    eapply sat_bind.
    + apply init_sat; exact HL.
    + cbn beta. intros s' h' [_ H]. exists []. exact H.
    + cbn beta. intros _ s1 h1 [I [He [Hr HL1]]].
      assert (Hnz : rsz s1 <> 0).
      { rewrite Hr. destruct (N.eqb_spec (iter_reserved (N.of_nat (length src))) 0) as [E|E].
        - exfalso; exact (iter_reserved_nonzero _ E).
        - apply rsz_for_nonzero. }
      unfold iter_fill. rewrite bind_get.
      eapply sat_conseq.
      * apply copy_elems_sat with (X := frame_blks s1 ++ X).
        rewrite He. cbn [elems_blks flat_map app].
        unfold owned_tree in HL1. rewrite He in HL1. cbn [elems_blks flat_map] in HL1.
        rewrite app_nil_r in HL1. exact HL1.
      * cbn beta. intros _ s2 h2 [F [_ HL2]]. split.
        -- eapply tree_inv_frame; eassumption.
        -- eapply Lg_perm; [exact HL2|]. rewrite <- (frame_blks_eq _ _ F). apply owned_perm.
      * cbn beta. intros s2 h2 [F HL2]. exists (owned_tree s2).
        eapply Lg_perm; [exact HL2|]. rewrite <- (frame_blks_eq _ _ F). apply owned_perm.
Qed.

Theorem cotree_iter_ctor_unwind_partial : forall src k h,
  wf h ->
  match iter_ctor src tt (arm k h) with
  | Ret t _ h' => wf h' /\ ledger_eq (live h') (owned_tree t ++ live h)
                  /\ tree_inv t /\ NoDup (map fst (owned_tree t))
  | Exn _ h' => wf h' /\ exists extra, ledger_eq (live h') (extra ++ live h)
  | Bad _ => False
  end.
Proof.
  intros src k h W.
  assert (H : sat (iter_ctor src tt (arm k h))
                  (fun t _ h' => tree_inv t /\ Lg (owned_tree t ++ live h) h')
                  (fun _ h' => exists extra, Lg (extra ++ live h) h')).
  { unfold iter_ctor. eapply sat_construct.
    - apply iter_body_sat. apply Lg_arm. apply Lg_self. exact W.
    - cbn beta. intros _ s' h' H; exact H.
    - cbn beta. intros s' h' H; exact H. }
  destruct (iter_ctor src tt (arm k h)) as [t u h'|u h'|h']; cbn [sat] in H.
  - destruct H as [I HL]. apply Lg_out in HL. tauto.
  - destruct H as [extra [W' P]]. split; [exact W'|]. exists extra. exact P.
  - exact H.
Qed.

(* The full "unwind balanced" statement is FALSE for the constructor as written *)
Definition cotree_iter_ctor_unwind_balanced_full : Prop :=
  forall src k h,
  wf h ->
  match iter_ctor src tt (arm k h) with
  | Ret t _ h' => wf h' /\ ledger_eq (live h') (owned_tree t ++ live h) /\ tree_inv t
  | Exn _ h' => wf h' /\ ledger_eq (live h') (live h)
  | Bad _ => False
  end.

Theorem cotree_iter_ctor_leak_refuted :
  exists src k h, wf h /\ exists h',
    iter_ctor src tt (arm k h) = Exn tt h' /\ ~ ledger_eq (live h') (live h).
Proof.
  exists [1; 1], 3%nat, empty_heap. split; [exact wf_empty|].
  eexists. split; [vm_compute; reflexivity|].
  cbn [live empty_heap]. intro P. apply Permutation_sym in P.
  apply Permutation_nil in P. discriminate P.
Qed.

Theorem cotree_iter_ctor_unwind_balanced_refuted :
  ~ cotree_iter_ctor_unwind_balanced_full.
Proof.
  intro F. specialize (F [1; 1] 3%nat empty_heap wf_empty).
  vm_compute in F. destruct F as [_ P].
  apply Permutation_sym in P. apply Permutation_nil in P. discriminate P.
Qed.

(* ---------- (c') the fixed iterator constructor ---------- *)

Lemma iter_fill_sat : forall src s1 h1 X,
  tree_inv s1 -> elems s1 = [] -> rsz s1 <> 0 ->
  Lg (owned_tree s1 ++ X) h1 ->
  sat (iter_fill src s1 h1)
      (fun _ s2 h2 => tree_inv s2 /\ Lg (owned_tree s2 ++ X) h2)
      (fun s2 h2 => Lg (owned_tree s2 ++ X) h2).
Proof.
  intros src s1 h1 X I He Hnz HL1. unfold iter_fill. rewrite bind_get.
  eapply sat_conseq.
  - apply copy_elems_sat with (X := frame_blks s1 ++ X).
    rewrite He. cbn [elems_blks flat_map app].
    unfold owned_tree in HL1. rewrite He in HL1. cbn [elems_blks flat_map] in HL1.
    rewrite app_nil_r in HL1. exact HL1.
  - cbn beta. intros _ s2 h2 [F [_ HL2]]. split.
    + eapply tree_inv_frame; eassumption.
    + eapply Lg_perm; [exact HL2|]. rewrite <- (frame_blks_eq _ _ F). apply owned_perm.
  - cbn beta. intros s2 h2 [F HL2].
    eapply Lg_perm; [exact HL2|]. rewrite <- (frame_blks_eq _ _ F). apply owned_perm.
Qed.

Lemma iter_body_fixed_sat : forall src s h X,
  Lg X h ->
  sat (iter_body_fixed src s h)
      (fun _ s' h' => tree_inv s' /\ Lg (owned_tree s' ++ X) h')
      (fun s' h' => Lg X h').
Proof.
  intros src s h X HL. unfold iter_body_fixed. cbv zeta.
  destruct (N.eqb (N.of_nat (length src)) 0) eqn:En.
  - eapply sat_conseq; [apply init_sat; exact HL| |].
    + cbn beta. intros _ s' h' [I [_ [_ H]]]. auto.
    + cbn beta. intros s' h' [_ H]. exact H.
  - rewrite bind_modify, bind_get. cbn [rsz].
    eapply sat_bind.
    + apply init_sat; exact HL.
    + cbn beta. intros s' h' [_ H]. exact H.
    + cbn beta. intros _ s1 h1 [I [He [Hr HL1]]].
      assert (Hnz : rsz s1 <> 0).
      { rewrite Hr. destruct (N.eqb_spec (iter_reserved (N.of_nat (length src))) 0) as [E|E].
        - exfalso; exact (iter_reserved_nonzero _ E).
        - apply rsz_for_nonzero. }
      eapply sat_try.
      * apply iter_fill_sat; eassumption.
      * cbn beta. intros a s' h' H; exact H.
      * cbn beta. intros s2 h2 HL2. rewrite bind_get.
        eapply sat_bind.
        -- eapply release_sat; [apply elems_blks_sort | exact HL2].
        -- intros ? ? F; contradiction.
        -- cbn beta. intros _ s3 h3 [_ HL3]. exact HL3.
Qed.

Theorem cotree_iter_ctor_fixed_unwind_balanced : forall src k h,
  wf h ->
  match iter_ctor_fixed src tt (arm k h) with
  | Ret t _ h' => wf h' /\ ledger_eq (live h') (owned_tree t ++ live h)
                  /\ tree_inv t /\ NoDup (map fst (owned_tree t))
  | Exn _ h' => wf h' /\ ledger_eq (live h') (live h)
  | Bad _ => False
  end.
Proof.
  intros src k h W.
  assert (H : sat (iter_ctor_fixed src tt (arm k h))
                  (fun t _ h' => tree_inv t /\ Lg (owned_tree t ++ live h) h')
                  (fun _ h' => Lg (live h) h')).
  { unfold iter_ctor_fixed. eapply sat_construct.
    - apply iter_body_fixed_sat. apply Lg_arm. apply Lg_self. exact W.
    - cbn beta. intros _ s' h' H; exact H.
    - cbn beta. intros s' h' H; exact H. }
  destruct (iter_ctor_fixed src tt (arm k h)) as [t u h'|u h'|h']; cbn [sat] in H.
  - destruct H as [I HL]. apply Lg_out in HL. tauto.
  - exact H.
  - exact H.
Qed.

(* ---------- exact behaviour for a given fault position ---------- *)

Lemma copy_elems_fail_exact : forall ps s h j,
  fuel h = Some j -> (j < length ps)%nat ->
  exists s' h' extra,
    copy_elems ps s h = Exn s' h' /\
    live h' = extra ++ live h /\
    map snd extra = rev (map (fun pl => (LGmp, limb_bytes (snd pl))) (firstn j ps)).
Proof.
  induction ps as [|[p lb] rest IH]; intros s h j Hf Hj; cbn [length] in Hj; [lia|].
  cbn [copy_elems]. destruct j as [|j].
  - erewrite bind_exn_eq by (apply alloc_fail_eq; exact Hf).
    eexists _, _, []. split; [reflexivity|]. split; reflexivity.
  - erewrite bind_ret_eq by (apply alloc_ok_eq; rewrite Hf; discriminate).
    rewrite bind_modify.
    match goal with |- context [copy_elems rest ?s1 ?h1] =>
      destruct (IH s1 h1 j) as (s' & h' & extra & E & L & Mp) end.
    + cbn [fuel]. rewrite Hf. reflexivity.
    + lia.
    + exists s', h', (extra ++ [(next h, (LGmp, limb_bytes lb))]).
      split; [exact E|]. split.
      * rewrite L. cbn [live]. rewrite <- app_assoc. reflexivity.
      * rewrite map_app. cbn [firstn map rev snd]. f_equal. exact Mp.
Qed.

Lemma copy_elems_ok_exact : forall ps s h,
  match fuel h with None => True | Some j => (length ps <= j)%nat end ->
  exists s' h', copy_elems ps s h = Ret tt s' h'.
Proof.
  induction ps as [|[p lb] rest IH]; intros s h Hf; cbn [copy_elems].
  - eexists _, _. reflexivity.
  - erewrite bind_ret_eq.
    2:{ apply alloc_ok_eq. destruct (fuel h) as [[|j]|]; cbn [length] in Hf; [lia| |]; discriminate. }
    rewrite bind_modify. apply IH. cbn [fuel].
    destruct (fuel h) as [[|j]|]; cbn [tick length] in *; try lia; try exact I.
Qed.

Lemma init_fail1_exact : forall n s h,
  n <> 0 -> fuel h = Some 0%nat ->
  exists h', init n s h = Exn empty_tree h' /\ live h' = live h.
Proof.
  intros n s h Hn Hf. unfold init. rewrite bind_put.
  destruct (N.eqb_spec n 0) as [E|E]; [contradiction|]. cbv zeta.
  erewrite bind_exn_eq by (apply alloc_fail_eq; exact Hf).
  eexists. split; reflexivity.
Qed.

Lemma init_fail2_exact : forall n s h,
  n <> 0 -> wf h -> fuel h = Some 1%nat ->
  exists h', init n s h = Exn empty_tree h' /\ live h' = live h.
Proof.
  intros n s h Hn W Hf. unfold init. rewrite bind_put.
  destruct (N.eqb_spec n 0) as [E|E]; [contradiction|]. cbv zeta.
  erewrite bind_ret_eq by (apply alloc_ok_eq; rewrite Hf; discriminate).
  rewrite bind_modify. cbn [data rsz elems empty_tree].
  erewrite bind_exn_eq.
  2:{ erewrite try_exn_eq by (apply alloc_fail_eq; cbn [fuel]; rewrite Hf; reflexivity).
      rewrite bind_get. cbn [indexes free_opt].
      erewrite bind_ret_eq by (apply free_head_eq; apply wf_fresh; exact W).
      rewrite bind_modify. reflexivity. }
  eexists. split; reflexivity.
Qed.

Lemma init_ok_exact : forall n s h,
  n <> 0 ->
  match fuel h with None => True | Some j => (2 <= j)%nat end ->
  exists bi bd h' e1 e2,
    init n s h = Ret tt (mkTree (Some bi) (Some bd) (rsz_for n) []) h' /\
    fuel h' = tick (tick (fuel h)) /\
    live h' = e2 :: e1 :: live h /\
    snd e1 = (LNew, sz_dim * (rsz_for n + 2)) /\
    snd e2 = (LNew, sz_coeff * (rsz_for n + 1)).
Proof.
  intros n s h Hn Hf. unfold init. rewrite bind_put.
  destruct (N.eqb_spec n 0) as [E|E]; [contradiction|]. cbv zeta.
  erewrite bind_ret_eq.
  2:{ apply alloc_ok_eq. destruct (fuel h) as [[|j]|]; [lia| |]; discriminate. }
  rewrite bind_modify. cbn [data rsz elems empty_tree].
  erewrite bind_ret_eq.
  2:{ erewrite try_ret_eq; [reflexivity|]. apply alloc_ok_eq. cbn [fuel].
      destruct (fuel h) as [[|[|j]]|]; cbn [tick]; try lia; discriminate. }
  cbn [modify indexes elems next live fuel].
  eexists _, _, _, _, _. split; [reflexivity|]. cbn [fuel live snd]. auto.
Qed.

(* the allocation requests of the iterator constructor, in program order *)
Definition reqs_iter (src : list N) : list (layer * N) :=
  let r := rsz_for (iter_reserved (N.of_nat (length src))) in
  (LNew, sz_dim * (r + 2)) :: (LNew, sz_coeff * (r + 1))
  :: map (fun lb => (LGmp, limb_bytes lb)) src.

Lemma zip_req_map : forall ps src j,
  map (fun pl : N * N => (LGmp, limb_bytes (snd pl))) (firstn j (zip_pos ps src))
  = firstn j (map (fun lb => (LGmp, limb_bytes lb)) src).
Proof.
  intros ps src j. rewrite <- firstn_map. f_equal.
  rewrite <- (zip_pos_snd src ps) at 2. rewrite map_map. reflexivity.
Qed.

(* k = 0 or k > n+2: normal return; k = 1, 2: exception, nothing leaked (init's
   own guard); k = 2 + j (1 <= j <= n): exception and exactly the first k-1
   requests' blocks (indexes, data, j-1 elements) are left live. *)
Theorem cotree_iter_ctor_leaks_exactly : forall src k h,
  wf h -> src <> [] ->
  match iter_ctor src tt (arm k h) with
  | Ret t _ h' => (k = 0 \/ length src + 2 < k)%nat
  | Exn _ h' =>
      (1 <= k <= length src + 2)%nat /\
      exists extra, live h' = extra ++ live h /\
        map snd extra = (if (k <=? 2)%nat then []
                         else rev (firstn (k - 1) (reqs_iter src)))
  | Bad _ => False
  end.
Proof.
  intros src k h W Hs.
  assert (Hn : N.eqb (N.of_nat (length src)) 0 = false).
  { destruct src; [contradiction|]. cbn [length]. apply N.eqb_neq. lia. }
  unfold iter_ctor, construct, iter_body. cbv zeta. rewrite Hn.
  rewrite bind_modify, bind_get. cbn [rsz].
  pose proof (iter_reserved_nonzero (N.of_nat (length src))) as HR.
  destruct k as [|[|[|j]]].
  - (* no fault *)
    match goal with |- context [bind (init ?R) _ ?s0 ?h0] =>
      destruct (init_ok_exact R s0 h0 HR) as (bi & bd & h1 & e1 & e2 & E & Hf & L & _) end.
    { cbn. exact I. }
    erewrite bind_ret_eq by exact E. unfold iter_fill. rewrite bind_get.
    match goal with |- context [copy_elems ?ps ?s1 h1] =>
      destruct (copy_elems_ok_exact ps s1 h1) as (s' & h' & E2) end.
    { rewrite Hf. cbn. exact I. }
    rewrite E2. left; reflexivity.
  - (* k = 1 *)
    match goal with |- context [bind (init ?R) _ ?s0 ?h0] =>
      destruct (init_fail1_exact R s0 h0 HR) as (h1 & E & L) end.
    { reflexivity. }
    erewrite bind_exn_eq by exact E.
    split; [lia|]. exists []. split; [exact L | reflexivity].
  - (* k = 2 *)
    match goal with |- context [bind (init ?R) _ ?s0 ?h0] =>
      destruct (init_fail2_exact R s0 h0 HR) as (h1 & E & L) end.
    { apply wf_arm; exact W. }
    { reflexivity. }
    erewrite bind_exn_eq by exact E.
    split; [lia|]. exists []. split; [exact L | reflexivity].
  - (* k = 3 + j *)
    match goal with |- context [bind (init ?R) _ ?s0 ?h0] =>
      destruct (init_ok_exact R s0 h0 HR) as (bi & bd & h1 & e1 & e2 & E & Hf & L & S1 & S2) end.
    { cbn. lia. }
    erewrite bind_ret_eq by exact E. unfold iter_fill. rewrite bind_get.
    cbn [fuel arm tick] in Hf.
    destruct (Nat.lt_ge_cases j (length src)) as [Hlt|Hge].
    + match goal with |- context [copy_elems ?ps ?s1 h1] =>
        destruct (copy_elems_fail_exact ps s1 h1 j Hf) as (s' & h' & extra & E2 & L2 & M2) end.
      { rewrite zip_pos_length. exact Hlt. }
      rewrite E2. split; [lia|].
      exists (extra ++ [e2; e1]). split.
      * rewrite L2, L. cbn [live arm]. rewrite <- app_assoc. reflexivity.
      * rewrite map_app. rewrite zip_req_map in M2.
        replace (S (S (S j)) - 1)%nat with (S (S j)) by lia.
        cbn [Nat.leb reqs_iter firstn rev map]. cbv zeta.
        rewrite S1, S2. rewrite <- app_assoc. cbn [app]. f_equal. exact M2.
    + match goal with |- context [copy_elems ?ps ?s1 h1] =>
        destruct (copy_elems_ok_exact ps s1 h1) as (s' & h' & E2) end.
      { rewrite Hf. rewrite zip_pos_length. exact Hge. }
      rewrite E2. right. lia.
Qed.

Example cotree_iter_ctor_leaks_exactly_hyp_sat : wf empty_heap /\ [1; 1] <> @nil N.
Proof. split; [exact wf_empty | discriminate]. Qed.

(* ========================================================================= *)
(*  (d) copy constructor, (e) operator=, (f) rebuild_bigger_tree             *)
(* ========================================================================= *)

Lemma copy_elems_owned_sat : forall ps s1 h1 X,
  tree_inv s1 -> elems s1 = [] -> rsz s1 <> 0 ->
  Lg (owned_tree s1 ++ X) h1 ->
  sat (copy_elems ps s1 h1)
      (fun _ s2 h2 => tree_inv s2 /\ Lg (owned_tree s2 ++ X) h2)
      (fun s2 h2 => Lg (owned_tree s2 ++ X) h2).
Proof.
  intros ps s1 h1 X I He Hnz HL1.
  eapply sat_conseq.
  - apply copy_elems_sat with (X := frame_blks s1 ++ X).
    rewrite He. cbn [elems_blks flat_map app].
    unfold owned_tree in HL1. rewrite He in HL1. cbn [elems_blks flat_map] in HL1.
    rewrite app_nil_r in HL1. exact HL1.
  - cbn beta. intros _ s2 h2 [F [_ HL2]]. split.
    + eapply tree_inv_frame; eassumption.
    + eapply Lg_perm; [exact HL2|]. rewrite <- (frame_blks_eq _ _ F). apply owned_perm.
  - cbn beta. intros s2 h2 [F HL2].
    eapply Lg_perm; [exact HL2|]. rewrite <- (frame_blks_eq _ _ F). apply owned_perm.
Qed.

Lemma init0_eq : forall s h, init 0 s h = Ret tt empty_tree h.
Proof. reflexivity. Qed.

(* CO_Tree::copy_data_from(x)   CO_Tree.cc:1246.
   [used] = the used slots of x as (dfs position, limbs).  The loop runs
   i = reserved_size downto 1 (modelled: positions sorted descending).
   catch (...): destroy the constructed elements for j = reserved downto i+1
   (descending position), delete[] indexes, deallocate data, init(0), rethrow. *)
Definition copy_data_from (used : list (N * N)) : M tree unit :=
  match used with
  | [] => ret tt                                  (* x.size_ == 0 *)
  | _ =>
      try_catch (copy_elems (rev (sort_by fst used)))
        (t <- get ;;
         release (rev (sort_by fst (elems t))) t ;;;
         init 0 ;;;
         throw)
  end.

Lemma copy_data_from_sat : forall used s h X,
  tree_inv s -> elems s = [] -> (used <> [] -> rsz s <> 0) ->
  Lg (owned_tree s ++ X) h ->
  sat (copy_data_from used s h)
      (fun _ s' h' => tree_inv s' /\ Lg (owned_tree s' ++ X) h')
      (fun s' h' => s' = empty_tree /\ Lg X h').
Proof.
  intros used s h X I He Hnz HL. unfold copy_data_from.
  destruct used as [|u used'].
  - cbn. auto.
  - set (us := u :: used') in *.
    assert (Hr : rsz s <> 0) by (apply Hnz; discriminate).
    eapply sat_try.
    + apply copy_elems_owned_sat; eassumption.
    + cbn beta. intros a s' h' H; exact H.
    + cbn beta. intros s2 h2 HL2. rewrite bind_get.
      eapply sat_bind.
      * eapply release_sat; [apply elems_blks_rev_sort | exact HL2].
      * intros ? ? F; contradiction.
      * cbn beta. intros _ s3 h3 [_ HL3].
        rewrite (bind_ret_eq _ _ _ _ _ _ _ (init0_eq s3 h3)).
        cbn. auto.
Qed.

(* CO_Tree::CO_Tree(const CO_Tree& y)   CO_Tree_inlines.hh:49 *)
Definition copy_ctor (rszy : N) (used : list (N * N)) : M unit tree :=
  construct empty_tree (init rszy ;;; copy_data_from used).

(* CO_Tree::operator=(const CO_Tree& y)   CO_Tree_inlines.hh:57 *)
Definition assign (rszy : N) (used : list (N * N)) : M tree unit :=
  destroy ;;; init rszy ;;; copy_data_from used.

Lemma init_then_copy_sat : forall rszy used s h X,
  (used <> [] -> rszy <> 0) ->
  Lg X h ->
  sat ((init rszy ;;; copy_data_from used) s h)
      (fun _ s' h' => tree_inv s' /\ Lg (owned_tree s' ++ X) h')
      (fun s' h' => s' = empty_tree /\ Lg X h').
Proof.
  intros rszy used s h X Hy HL.
  eapply sat_bind.
  - apply init_sat; exact HL.
  - cbn beta. intros s' h' H; exact H.
  - cbn beta. intros _ s1 h1 [I [He [Hr HL1]]].
    apply copy_data_from_sat; try assumption.
    intros Hu. rewrite Hr. specialize (Hy Hu).
    destruct (N.eqb_spec rszy 0) as [E|E]; [contradiction|]. apply rsz_for_nonzero.
Qed.

Theorem cotree_copy_ctor_unwind_balanced : forall rszy used k h,
  wf h -> (used <> [] -> rszy <> 0) ->
  match copy_ctor rszy used tt (arm k h) with
  | Ret t _ h' => wf h' /\ ledger_eq (live h') (owned_tree t ++ live h)
                  /\ tree_inv t /\ NoDup (map fst (owned_tree t))
  | Exn _ h' => wf h' /\ ledger_eq (live h') (live h)
  | Bad _ => False
  end.
Proof.
  intros rszy used k h W Hy.
  assert (H : sat (copy_ctor rszy used tt (arm k h))
                  (fun t _ h' => tree_inv t /\ Lg (owned_tree t ++ live h) h')
                  (fun _ h' => Lg (live h) h')).
  { unfold copy_ctor. eapply sat_construct.
    - apply init_then_copy_sat; [exact Hy|]. apply Lg_arm. apply Lg_self. exact W.
    - cbn beta. intros _ s' h' H; exact H.
    - cbn beta. intros s' h' [_ H]; exact H. }
  destruct (copy_ctor rszy used tt (arm k h)) as [t u h'|u h'|h']; cbn [sat] in H.
  - destruct H as [I HL]. apply Lg_out in HL. tauto.
  - exact H.
  - exact H.
Qed.

Example cotree_copy_ctor_hyp_sat :
  wf empty_heap /\ ([(2, 1); (1, 3)] <> @nil (N * N) -> 3 <> 0).
Proof. split; [exact wf_empty | discriminate]. Qed.

(* receiver t owns its blocks in h; X = the rest of the ledger *)
Theorem cotree_assign_unwind_balanced : forall rszy used t k h X,
  wf h -> tree_inv t -> ledger_eq (live h) (owned_tree t ++ X) ->
  (used <> [] -> rszy <> 0) ->
  match assign rszy used t (arm k h) with
  | Ret _ t' h' => wf h' /\ ledger_eq (live h') (owned_tree t' ++ X)
                   /\ tree_inv t' /\ NoDup (map fst (owned_tree t'))
  | Exn t' h' => wf h' /\ ledger_eq (live h') X /\ t' = empty_tree
  | Bad _ => False
  end.
Proof.
  intros rszy used t k h X W I P Hy.
  assert (H : sat (assign rszy used t (arm k h))
                  (fun _ t' h' => tree_inv t' /\ Lg (owned_tree t' ++ X) h')
                  (fun t' h' => t' = empty_tree /\ Lg X h')).
  { unfold assign. eapply sat_bind.
    - apply destroy_sat; [exact I|]. apply Lg_arm. split; [exact W | exact P].
    - intros ? ? F; contradiction.
    - cbn beta. intros _ s1 h1 [_ HL1]. apply init_then_copy_sat; assumption. }
  destruct (assign rszy used t (arm k h)) as [a t' h'|t' h'|h']; cbn [sat] in H.
  - destruct H as [I' HL]. apply Lg_out in HL. tauto.
  - destruct H as [-> [W' P']]. auto.
  - exact H.
Qed.

Example cotree_assign_hyp_sat :
  wf empty_heap /\ tree_inv empty_tree /\
  ledger_eq (live empty_heap) (owned_tree empty_tree ++ []) /\
  ([(1, 1)] <> @nil (N * N) -> 1 <> 0).
Proof.
  split; [exact wf_empty|]. split; [exact tree_inv_empty|].
  split; [apply Permutation_refl | discriminate].
Qed.

(* CO_Tree::rebuild_bigger_tree()   CO_Tree.cc:820 *)
Definition rebuild_bigger : M tree unit :=
  t <- get ;;
  if N.eqb (rsz t) 0 then init 3
  else
    let nr := rsz t * 2 + 1 in
    ni <- alloc LNew (sz_dim * (nr + 2)) ;;
    nd <- try_catch (alloc LNew (sz_coeff * (nr + 1)))
            (free LNew ni ;;; throw) ;;        (* delete[] new_indexes; throw; *)
    (* elements are MOVED (bitwise), slot i -> slot 2i: no allocation *)
    free_opt LNew (indexes t) ;;;              (* delete[] indexes *)
    free_opt LNew (data t) ;;;                 (* deallocate(data, reserved_size+1) *)
    put (mkTree (Some ni) (Some nd) nr
                (map (fun e => (2 * fst e, snd e)) (elems t))).

Lemma elems_blks_move : forall es,
  elems_blks (map (fun e : N * option (nat * N) => (2 * fst e, snd e)) es) = elems_blks es.
Proof.
  induction es as [|e es IH]; [reflexivity|].
  unfold elems_blks in *. cbn [map flat_map]. f_equal. exact IH.
Qed.

Lemma tree_rsz0_empty : forall t, tree_inv t -> rsz t = 0 -> t = empty_tree.
Proof.
  intros [i d r e] [I0 _] Hr. cbn in *. destruct (I0 Hr) as [-> [-> ->]]. subst r. reflexivity.
Qed.

Lemma rebuild_bigger_sat : forall s h X,
  tree_inv s -> Lg (owned_tree s ++ X) h ->
  sat (rebuild_bigger s h)
      (fun _ s' h' => tree_inv s' /\ Lg (owned_tree s' ++ X) h' /\
                      rsz s' = (if N.eqb (rsz s) 0 then 3 else rsz s * 2 + 1) /\
                      length (elems s') = length (elems s))
      (fun s' h' => s' = s /\ Lg (owned_tree s ++ X) h').
Proof.
  intros s h X I HL. unfold rebuild_bigger. rewrite bind_get.
  destruct (N.eqb_spec (rsz s) 0) as [E|E].
  - pose proof (tree_rsz0_empty s I E) as ->.
    eapply sat_conseq; [apply init_sat; exact HL| |].
    + cbn beta. intros _ s' h' [I' [He [Hr HL']]]. cbn in HL.
      split; [exact I'|]. split; [|split].
      * eapply Lg_perm; [exact HL'|]. apply Permutation_refl.
      * exact Hr.
      * rewrite He. reflexivity.
    + cbn beta. intros s' h' [-> HL']. split; [reflexivity|]. exact HL'.
  - cbv zeta. destruct I as [I0 [I1 [d I2]]].
    destruct (I1 E) as [Hi Hd].
    destruct (indexes s) as [bi|] eqn:Ei; [|contradiction].
    destruct (data s) as [bd|] eqn:Ed; [|contradiction].
    assert (Ho : owned_tree s = (bi, (LNew, sz_dim * (rsz s + 2)))
                                :: (bd, (LNew, sz_coeff * (rsz s + 1)))
                                :: elems_blks (elems s)).
    { unfold owned_tree, frame_blks. rewrite Ei, Ed. reflexivity. }
    rewrite Ho in HL. cbn [app] in HL.
    eapply sat_bind.
    + apply alloc_sat; exact HL.
    + cbn beta. intros s' h' [-> H]. split; [reflexivity|]. rewrite Ho. exact H.
    + cbn beta. intros ni s1 h1 [-> HL1].
      eapply sat_bind with (E1 := fun s' h' => s' = s /\ Lg (owned_tree s ++ X) h').
      * eapply sat_try.
        -- apply alloc_sat; exact HL1.
        -- cbn beta. intros a s' h' H; exact H.
        -- cbn beta. intros s2 h2 [-> HL2]. eapply sat_bind.
           ++ eapply free_sat; [exact HL2 | apply Permutation_refl].
           ++ intros ? ? F; contradiction.
           ++ cbn beta. intros _ s3 h3 [-> HL3]. cbn. split; [reflexivity|].
              rewrite Ho. exact HL3.
      * intros s' h' H; exact H.
      * cbn beta. intros nd s2 h2 [-> HL2].
        set (eni := (ni, (LNew, sz_dim * (rsz s * 2 + 1 + 2)))) in *.
        set (end_ := (nd, (LNew, sz_coeff * (rsz s * 2 + 1 + 1)))) in *.
        set (ebi := (bi, (LNew, sz_dim * (rsz s + 2)))) in *.
        set (ebd := (bd, (LNew, sz_coeff * (rsz s + 1)))) in *.
        eapply sat_bind.
        -- eapply free_opt_sat with (X := end_ :: eni :: ebd :: elems_blks (elems s) ++ X);
             [exact HL2|].
           cbn [app]. apply Permutation_sym.
           apply (Permutation_middle [end_; eni] (ebd :: elems_blks (elems s) ++ X) ebi).
        -- intros ? ? F; contradiction.
        -- cbn beta. intros _ s3 h3 [-> HL3]. eapply sat_bind.
           ++ eapply free_opt_sat with (X := end_ :: eni :: elems_blks (elems s) ++ X);
                [exact HL3|].
              cbn [app]. apply Permutation_sym.
              apply (Permutation_middle [end_; eni] (elems_blks (elems s) ++ X) ebd).
           ++ intros ? ? F; contradiction.
           ++ cbn beta. intros _ s4 h4 [-> HL4]. cbn [put sat].
              split; [|split; [|split]].
              ** split; [|split]; cbn [rsz indexes data elems].
                 --- intros H0. exfalso. lia.
                 --- intros _. split; discriminate.
                 --- exists (d + 1). rewrite N.pow_add_r. rewrite <- I2. cbn. lia.
              ** unfold owned_tree, frame_blks. cbn [indexes data rsz elems opt_blk app].
                 rewrite elems_blks_move. eapply Lg_perm; [exact HL4|]. apply perm_swap.
              ** reflexivity.
              ** cbn [elems]. apply map_length.
Qed.

Theorem cotree_rebuild_bigger_unwind_balanced : forall t k h X,
  wf h -> tree_inv t -> ledger_eq (live h) (owned_tree t ++ X) ->
  match rebuild_bigger t (arm k h) with
  | Ret _ t' h' => wf h' /\ ledger_eq (live h') (owned_tree t' ++ X)
                   /\ tree_inv t' /\ NoDup (map fst (owned_tree t'))
                   /\ length (elems t') = length (elems t)
  | Exn t' h' => wf h' /\ ledger_eq (live h') (owned_tree t ++ X) /\ t' = t
  | Bad _ => False
  end.
Proof.
  intros t k h X W I P.
  pose proof (rebuild_bigger_sat t (arm k h) X I (Lg_arm k _ _ (conj W P))) as H.
  destruct (rebuild_bigger t (arm k h)) as [a t' h'|t' h'|h']; cbn [sat] in H.
  - destruct H as [I' [HL [_ Hlen]]]. apply Lg_out in HL. tauto.
  - destruct H as [-> [W' P']]. auto.
  - exact H.
Qed.

Example cotree_rebuild_bigger_hyp_sat :
  wf empty_heap /\ tree_inv empty_tree /\
  ledger_eq (live empty_heap) (owned_tree empty_tree ++ []).
Proof.
  split; [exact wf_empty|]. split; [exact tree_inv_empty | apply Permutation_refl].
Qed.
