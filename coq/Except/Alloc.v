(* ------------------------------------------------------------------------- *)
(*  C14  Except/Alloc.v : a resource monad with a ledger of live blocks.      *)
(*                                                                           *)
(*  Executable model of "the k-th allocation request throws bad_alloc".      *)
(*  - two allocation layers: ::operator new/delete (LNew) and GMP's          *)
(*    allocation functions (LGmp);                                           *)
(*  - a heap = fresh-id counter, ledger of live blocks, fault fuel, trace;   *)
(*  - programs are state+exception computations  M St A = St -> heap -> res  *)
(*    where St is the C++ object `*this` (its fields are memory that          *)
(*    survives an exception); a constructor is run with [construct], which   *)
(*    DROPS the state when the body exits by exception (no destructor runs); *)
(*  - [Bad] = a block was freed that is not live, or through the wrong       *)
(*    layer's deallocation function: every theorem proves it unreachable.    *)
(*                                                                           *)
(*  Ledger equality [ledger_eq] is [Permutation] on lists of                 *)
(*  (id, (layer, size)); under [wf] (ids distinct) this is set equality.     *)
(*  The proof method is a pointwise Hoare logic: [sat r Q E].                *)
(* ------------------------------------------------------------------------- *)
From Coq Require Import List NArith Arith Lia Bool Permutation.
Import ListNotations.

(* ---------- layers, events, heap ---------- *)

Inductive layer := LNew | LGmp.

Definition layer_eqb (a b : layer) : bool :=
  match a, b with LNew, LNew => true | LGmp, LGmp => true | _, _ => false end.

Lemma layer_eqb_refl : forall l, layer_eqb l l = true.
Proof. destruct l; reflexivity. Qed.

Inductive ev :=
| EvAlloc (l : layer) (sz : N)
| EvFail  (l : layer) (sz : N)
| EvFree  (l : layer) (sz : N).

(* a ledger entry: block id, layer, size in bytes *)
Definition blk := (nat * (layer * N))%type.

Record heap := mkHeap {
  next  : nat;            (* fresh id counter *)
  live  : list blk;       (* the ledger, newest first *)
  fuel  : option nat;     (* Some j: the (j+1)-th request from now fails *)
  trace : list ev         (* newest first *)
}.

Definition empty_heap : heap := mkHeap 0 [] None [].

(* arm k h : the k-th allocation request from now on fails (k = 0: none). *)
Definition arm (k : nat) (h : heap) : heap :=
  mkHeap (next h) (live h) (match k with O => None | S j => Some j end) (trace h).

Definition clear_trace (h : heap) : heap :=
  mkHeap (next h) (live h) (fuel h) [].

(* ---------- the monad ---------- *)

Inductive res (St A : Type) :=
| Ret (a : A) (s : St) (h : heap)
| Exn (s : St) (h : heap)
| Bad (h : heap).
Arguments Ret {St A} a s h.
Arguments Exn {St A} s h.
Arguments Bad {St A} h.

Definition M (St A : Type) := St -> heap -> res St A.

Definition ret {St A} (a : A) : M St A := fun s h => Ret a s h.

Definition bind {St A B} (m : M St A) (f : A -> M St B) : M St B :=
  fun s h => match m s h with
             | Ret a s' h' => f a s' h'
             | Exn s' h' => Exn s' h'
             | Bad h' => Bad h'
             end.

Definition get {St} : M St St := fun s h => Ret s s h.
Definition put {St} (s' : St) : M St unit := fun _ h => Ret tt s' h.
Definition modify {St} (f : St -> St) : M St unit := fun s h => Ret tt (f s) h.

Definition throw {St A} : M St A := fun s h => Exn s h.

(* try { m } catch (...) { handler } ; a rethrowing handler ends with throw *)
Definition try_catch {St A} (m : M St A) (handler : M St A) : M St A :=
  fun s h => match m s h with
             | Exn s' h' => handler s' h'
             | r => r
             end.

(* Run a constructor body on a fresh object [s0]; on normal exit the object
   is returned, on exceptional exit it is dropped (its destructor is not run). *)
Definition construct {St St' A} (s0 : St') (m : M St' A) : M St St' :=
  fun s h => match m s0 h with
             | Ret _ s' h' => Ret s' s h'
             | Exn _ h' => Exn s h'
             | Bad h' => Bad h'
             end.

Module MNotations.
  Notation "x <- m ;; f" := (bind m (fun x => f))
    (at level 61, m at next level, right associativity).
  Notation "m ;;; f" := (bind m (fun _ => f))
    (at level 61, right associativity).
End MNotations.
Import MNotations.

(* ---------- allocation and deallocation ---------- *)

Definition alloc {St} (l : layer) (sz : N) : M St nat := fun s h =>
  match fuel h with
  | Some O =>
      Exn s (mkHeap (next h) (live h) None (EvFail l sz :: trace h))
  | Some (S j) =>
      Ret (next h) s (mkHeap (S (next h)) ((next h, (l, sz)) :: live h)
                             (Some j) (EvAlloc l sz :: trace h))
  | None =>
      Ret (next h) s (mkHeap (S (next h)) ((next h, (l, sz)) :: live h)
                             None (EvAlloc l sz :: trace h))
  end.

Fixpoint lookup (b : nat) (L : list blk) : option (layer * N) :=
  match L with
  | [] => None
  | (b', e) :: L' => if Nat.eqb b' b then Some e else lookup b L'
  end.

Definition remove_blk (b : nat) (L : list blk) : list blk :=
  filter (fun e => negb (Nat.eqb (fst e) b)) L.

(* free through layer l's deallocation function *)
Definition free {St} (l : layer) (b : nat) : M St unit := fun s h =>
  match lookup b (live h) with
  | Some (l', sz) =>
      if layer_eqb l l'
      then Ret tt s (mkHeap (next h) (remove_blk b (live h)) (fuel h)
                            (EvFree l sz :: trace h))
      else Bad h
  | None => Bad h
  end.

(* delete[] p / deallocate(p) where p may be null (no-op then) *)
Definition free_opt {St} (l : layer) (ob : option nat) : M St unit :=
  match ob with Some b => free l b | None => ret tt end.

(* free a list of blocks, in list order; the layer is taken from the entry
   held by the owner (the owner calls the matching deallocation function) *)
Fixpoint free_list {St} (bs : list blk) : M St unit :=
  match bs with
  | [] => ret tt
  | (b, (l, _)) :: bs' => free l b ;;; free_list bs'
  end.

(* A sequence of allocation requests performed by RAII-safe code: if the j-th
   request fails, the j-1 earlier blocks are released in reverse order and the
   exception propagates. Returns the blocks (first request first). *)
Fixpoint raii_allocs {St} (reqs : list (layer * N)) : M St (list blk) :=
  match reqs with
  | [] => ret []
  | (l, sz) :: rest =>
      b <- alloc l sz ;;
      bs <- try_catch (raii_allocs rest) (free l b ;;; throw) ;;
      ret ((b, (l, sz)) :: bs)
  end.

(* ---------- well-formedness and the ledger predicate ---------- *)

Definition wf (h : heap) : Prop :=
  NoDup (map fst (live h)) /\ Forall (fun e => fst e < next h) (live h).

Definition ledger_eq (X Y : list blk) : Prop := Permutation X Y.

(* "the heap is well formed and its ledger is X (as a set)" *)
Definition Lg (X : list blk) (h : heap) : Prop := wf h /\ Permutation (live h) X.

Lemma wf_empty : wf empty_heap.
Proof. split; cbn; constructor. Qed.

Lemma wf_arm : forall k h, wf h -> wf (arm k h).
Proof. intros k h H; exact H. Qed.

Lemma wf_clear_trace : forall h, wf h -> wf (clear_trace h).
Proof. intros h H; exact H. Qed.

Lemma Lg_self : forall h, wf h -> Lg (live h) h.
Proof. intros h H; split; [exact H | apply Permutation_refl]. Qed.

Lemma Lg_arm : forall k X h, Lg X h -> Lg X (arm k h).
Proof. intros k X h H; exact H. Qed.

Lemma Lg_perm : forall X Y h, Lg X h -> Permutation X Y -> Lg Y h.
Proof.
  intros X Y h [W P] PXY; split; [exact W | eapply Permutation_trans; eassumption].
Qed.

Lemma Lg_NoDup : forall X h, Lg X h -> NoDup (map fst X).
Proof.
  intros X h [[ND _] P].
  eapply Permutation_NoDup; [apply Permutation_map; exact P | exact ND].
Qed.

(* Frame property: every theorem below has the shape
     Lg (O ++ X) h  -> ... ->  Lg (O' ++ X) h'
   for an ARBITRARY X (the blocks the program does not own); so blocks that were
   live before and are not owned by the program are still live, with the same
   layer and size, afterwards: *)
Lemma frame_preserved : forall O X h, Lg (O ++ X) h -> forall e, In e X -> In e (live h).
Proof.
  intros O X h [_ P] e He. eapply Permutation_in; [apply Permutation_sym; exact P|].
  apply in_or_app. right. exact He.
Qed.

(* ---------- outcome predicate (pointwise Hoare logic) ---------- *)

Definition sat {St A} (r : res St A)
           (Q : A -> St -> heap -> Prop) (E : St -> heap -> Prop) : Prop :=
  match r with
  | Ret a s h => Q a s h
  | Exn s h => E s h
  | Bad _ => False
  end.

Lemma sat_conseq {St A} (r : res St A) (Q Q' : A -> St -> heap -> Prop)
      (E E' : St -> heap -> Prop) :
  sat r Q E ->
  (forall a s h, Q a s h -> Q' a s h) ->
  (forall s h, E s h -> E' s h) ->
  sat r Q' E'.
Proof. destruct r; cbn; auto. Qed.

Lemma sat_bind {St A B} (m : M St A) (f : A -> M St B) s h
      (Q1 : A -> St -> heap -> Prop) (E1 : St -> heap -> Prop)
      (Q : B -> St -> heap -> Prop) (E : St -> heap -> Prop) :
  sat (m s h) Q1 E1 ->
  (forall s' h', E1 s' h' -> E s' h') ->
  (forall a s' h', Q1 a s' h' -> sat (f a s' h') Q E) ->
  sat (bind m f s h) Q E.
Proof.
  unfold bind. destruct (m s h); cbn; intros H HE HQ; auto; try contradiction.
Qed.

(* variant of sat_bind that also hands the equation of the first step to the
   continuation (used to combine with fuel-exact facts) *)
Lemma sat_bind_eq {St A B} (m : M St A) (f : A -> M St B) s h
      (Q1 : A -> St -> heap -> Prop) (E1 : St -> heap -> Prop)
      (Q : B -> St -> heap -> Prop) (E : St -> heap -> Prop) :
  sat (m s h) Q1 E1 ->
  (forall s' h', m s h = Exn s' h' -> E1 s' h' -> E s' h') ->
  (forall a s' h', m s h = Ret a s' h' -> Q1 a s' h' -> sat (f a s' h') Q E) ->
  sat (bind m f s h) Q E.
Proof.
  unfold bind. destruct (m s h); cbn; intros H HE HQ; eauto; try contradiction.
Qed.

Lemma sat_try {St A} (m hd : M St A) s h
      (Q1 : A -> St -> heap -> Prop) (E1 : St -> heap -> Prop)
      (Q : A -> St -> heap -> Prop) (E : St -> heap -> Prop) :
  sat (m s h) Q1 E1 ->
  (forall a s' h', Q1 a s' h' -> Q a s' h') ->
  (forall s' h', E1 s' h' -> sat (hd s' h') Q E) ->
  sat (try_catch m hd s h) Q E.
Proof.
  unfold try_catch. destruct (m s h); cbn; intros H HQ HE; auto.
Qed.

Lemma sat_construct {St St' A} (s0 : St') (m : M St' A) (s : St) h
      (Q1 : A -> St' -> heap -> Prop) (E1 : St' -> heap -> Prop)
      (Q : St' -> St -> heap -> Prop) (E : St -> heap -> Prop) :
  sat (m s0 h) Q1 E1 ->
  (forall a s' h', Q1 a s' h' -> Q s' s h') ->
  (forall s' h', E1 s' h' -> E s h') ->
  sat (construct s0 m s h) Q E.
Proof.
  unfold construct. destruct (m s0 h); cbn; intros H HQ HE; eauto.
Qed.

(* definitional unfoldings of the pure steps *)
Lemma bind_ret {St A B} (a : A) (f : A -> M St B) s h :
  bind (ret a) f s h = f a s h.
Proof. reflexivity. Qed.
Lemma bind_get {St B} (f : St -> M St B) s h : bind get f s h = f s s h.
Proof. reflexivity. Qed.
Lemma bind_put {St B} (s' : St) (f : unit -> M St B) s h :
  bind (put s') f s h = f tt s' h.
Proof. reflexivity. Qed.
Lemma bind_modify {St B} (g : St -> St) (f : unit -> M St B) s h :
  bind (modify g) f s h = f tt (g s) h.
Proof. reflexivity. Qed.

(* monad laws (pointwise) *)
Lemma bind_ret_r {St A} (m : M St A) s h : bind m ret s h = m s h.
Proof. unfold bind, ret. destruct (m s h); reflexivity. Qed.

Lemma bind_assoc {St A B C} (m : M St A) (f : A -> M St B) (g : B -> M St C) s h :
  bind (bind m f) g s h = bind m (fun a => bind (f a) g) s h.
Proof. unfold bind. destruct (m s h); reflexivity. Qed.

Lemma try_catch_ret {St A} (a : A) (hd : M St A) s h : try_catch (ret a) hd s h = Ret a s h.
Proof. reflexivity. Qed.

Lemma try_catch_throw {St A} (hd : M St A) s h : try_catch throw hd s h = hd s h.
Proof. reflexivity. Qed.

(* ---------- list lemmas ---------- *)

Lemma Permutation_filter {A} (p : A -> bool) (l l' : list A) :
  Permutation l l' -> Permutation (filter p l) (filter p l').
Proof.
  induction 1; cbn.
  - constructor.
  - destruct (p x); auto.
  - destruct (p x), (p y); auto. apply perm_swap.
  - eapply Permutation_trans; eassumption.
Qed.

Lemma lookup_in : forall (L : list blk) b e,
  NoDup (map fst L) -> In (b, e) L -> lookup b L = Some e.
Proof.
  induction L as [|[b' e'] L IH]; intros b e ND HI; cbn in *.
  - contradiction.
  - inversion ND as [|x l Hn ND']; subst.
    destruct HI as [HI | HI].
    + inversion HI; subst. rewrite Nat.eqb_refl. reflexivity.
    + destruct (Nat.eqb b' b) eqn:Eb.
      * apply Nat.eqb_eq in Eb; subst b'. exfalso; apply Hn.
        change b with (fst (b, e)). apply in_map; exact HI.
      * apply IH; assumption.
Qed.

Lemma remove_notin : forall (L : list blk) b,
  ~ In b (map fst L) -> remove_blk b L = L.
Proof.
  induction L as [|[b' e'] L IH]; intros b Hn; cbn in *.
  - reflexivity.
  - destruct (Nat.eqb b' b) eqn:Eb; cbn.
    + apply Nat.eqb_eq in Eb. exfalso; apply Hn; left; exact Eb.
    + f_equal. apply IH. intro; apply Hn; right; assumption.
Qed.

Lemma remove_head : forall (L : list blk) b e,
  remove_blk b ((b, e) :: L) = remove_blk b L.
Proof. intros; unfold remove_blk; cbn. rewrite Nat.eqb_refl. reflexivity. Qed.

Lemma wf_fresh : forall h, wf h -> ~ In (next h) (map fst (live h)).
Proof.
  intros h [_ HF] HI. apply in_map_iff in HI. destruct HI as [e [E1 E2]].
  rewrite Forall_forall in HF. specialize (HF e E2). lia.
Qed.

(* ---------- specifications of alloc / free ---------- *)

Lemma wf_alloc : forall h l sz f t,
  wf h -> wf (mkHeap (S (next h)) ((next h, (l, sz)) :: live h) f t).
Proof.
  intros h l sz f t W. pose proof (wf_fresh h W) as Hf. destruct W as [ND HF].
  split; cbn.
  - constructor; assumption.
  - constructor; cbn; [lia|]. eapply Forall_impl; [|exact HF]. cbn; intros; lia.
Qed.

Lemma alloc_sat {St} : forall l sz (s : St) h X,
  Lg X h ->
  sat (alloc l sz s h)
      (fun b s' h' => s' = s /\ Lg ((b, (l, sz)) :: X) h')
      (fun s' h' => s' = s /\ Lg X h').
Proof.
  intros l sz s h X [W P]. unfold alloc.
  destruct (fuel h) as [[|j]|]; cbn [sat].
  - split; [reflexivity|]. split; [exact W | exact P].
  - split; [reflexivity|]. split; [apply wf_alloc; exact W | cbn; apply perm_skip; exact P].
  - split; [reflexivity|]. split; [apply wf_alloc; exact W | cbn; apply perm_skip; exact P].
Qed.

Lemma free_sat {St} : forall l b sz (s : St) h Y X,
  Lg Y h -> Permutation Y ((b, (l, sz)) :: X) ->
  sat (free l b s h) (fun _ s' h' => s' = s /\ Lg X h') (fun _ _ => False).
Proof.
  intros l b sz s h Y X [W P] PY.
  assert (P' : Permutation (live h) ((b, (l, sz)) :: X))
    by (eapply Permutation_trans; eassumption).
  destruct W as [ND HF].
  assert (HI : In (b, (l, sz)) (live h)).
  { eapply Permutation_in; [apply Permutation_sym; exact P' | left; reflexivity]. }
  unfold free. rewrite (lookup_in _ _ _ ND HI). rewrite layer_eqb_refl. cbn [sat].
  split; [reflexivity|].
  assert (NDX : NoDup (map fst ((b, (l, sz)) :: X))).
  { eapply Permutation_NoDup; [apply Permutation_map; exact P' | exact ND]. }
  cbn in NDX. inversion NDX as [|x l0 Hn NDX']; subst.
  assert (PR : Permutation (remove_blk b (live h)) X).
  { rewrite <- (remove_notin X b Hn). rewrite <- (remove_head X b (l, sz)).
    apply Permutation_filter. exact P'. }
  split; [split|]; cbn.
  - eapply Permutation_NoDup; [apply Permutation_map; apply Permutation_sym; exact PR | exact NDX'].
  - rewrite Forall_forall in *. intros e He. apply HF.
    unfold remove_blk in He. apply filter_In in He. tauto.
  - exact PR.
Qed.

Lemma free_opt_sat {St} : forall l ob sz (s : St) h Y X,
  Lg Y h ->
  Permutation Y (match ob with Some b => [(b, (l, sz))] | None => [] end ++ X) ->
  sat (free_opt l ob s h) (fun _ s' h' => s' = s /\ Lg X h') (fun _ _ => False).
Proof.
  intros l [b|] sz s h Y X HL P; cbn [free_opt].
  - eapply free_sat; eassumption.
  - cbn. split; [reflexivity|]. eapply Lg_perm; eassumption.
Qed.

Lemma free_list_sat {St} : forall bs (s : St) h Y X,
  Lg Y h -> Permutation Y (bs ++ X) ->
  sat (free_list bs s h) (fun _ s' h' => s' = s /\ Lg X h') (fun _ _ => False).
Proof.
  induction bs as [|[b [l sz]] bs IH]; intros s h Y X HL P; cbn [free_list].
  - cbn. split; [reflexivity|]. eapply Lg_perm; eassumption.
  - eapply sat_bind.
    + eapply free_sat; [exact HL | exact P].
    + intros s' h' F; exact F.
    + intros _ s' h' [-> HL']. cbn beta.
      eapply IH; [exact HL' | apply Permutation_refl].
Qed.

Lemma raii_allocs_sat {St} : forall reqs (s : St) h X,
  Lg X h ->
  sat (raii_allocs reqs s h)
      (fun bs s' h' => s' = s /\ map snd bs = reqs /\ Lg (bs ++ X) h')
      (fun s' h' => s' = s /\ Lg X h').
Proof.
  induction reqs as [|[l sz] rest IH]; intros s h X HL; cbn [raii_allocs].
  - cbn. auto.
  - eapply sat_bind.
    + apply alloc_sat; exact HL.
    + intros s' h' H; exact H.
    + intros b s' h' [-> HL1]. cbn beta.
      eapply sat_bind with (E1 := fun s' h' => s' = s /\ Lg X h').
      * eapply sat_try.
        -- apply IH; exact HL1.
        -- intros a s' h'0 H; exact H.
        -- intros s' h'0 [-> HL2]. eapply sat_bind.
           ++ eapply free_sat; [exact HL2 | apply Permutation_refl].
           ++ intros ? ? F; contradiction.
           ++ intros _ s' h'1 [-> HL3]. cbn. auto.
      * intros s' h'0 H; exact H.
      * intros bs s' h'0 [-> [Hm HL2]]. cbn. split; [reflexivity|]. split.
        -- cbn. rewrite Hm. reflexivity.
        -- eapply Lg_perm; [exact HL2|]. cbn. apply Permutation_sym, Permutation_middle.
Qed.

(* ---------- exact (fuel-aware) equations for alloc ---------- *)

Lemma alloc_fail_eq {St} : forall l sz (s : St) h,
  fuel h = Some 0 ->
  alloc l sz s h = Exn s (mkHeap (next h) (live h) None (EvFail l sz :: trace h)).
Proof. intros; unfold alloc; rewrite H; reflexivity. Qed.

Definition tick (f : option nat) : option nat :=
  match f with Some (S j) => Some j | x => x end.

Lemma alloc_ok_eq {St} : forall l sz (s : St) h,
  fuel h <> Some 0 ->
  alloc l sz s h =
  Ret (next h) s (mkHeap (S (next h)) ((next h, (l, sz)) :: live h)
                         (tick (fuel h)) (EvAlloc l sz :: trace h)).
Proof.
  intros l sz s h H. unfold alloc. destruct (fuel h) as [[|j]|]; try reflexivity.
  congruence.
Qed.

Lemma bind_ret_eq {St A B} (m : M St A) (f : A -> M St B) s h a s' h' :
  m s h = Ret a s' h' -> bind m f s h = f a s' h'.
Proof. unfold bind; intros ->; reflexivity. Qed.

Lemma bind_exn_eq {St A B} (m : M St A) (f : A -> M St B) s h s' h' :
  m s h = Exn s' h' -> bind m f s h = Exn s' h'.
Proof. unfold bind; intros ->; reflexivity. Qed.

Lemma try_ret_eq {St A} (m hd : M St A) s h a s' h' :
  m s h = Ret a s' h' -> try_catch m hd s h = Ret a s' h'.
Proof. unfold try_catch; intros ->; reflexivity. Qed.

Lemma try_exn_eq {St A} (m hd : M St A) s h s' h' :
  m s h = Exn s' h' -> try_catch m hd s h = hd s' h'.
Proof. unfold try_catch; intros ->; reflexivity. Qed.

Lemma free_head_eq {St} : forall l b sz (s : St) n L f t,
  ~ In b (map fst L) ->
  free l b s (mkHeap n ((b, (l, sz)) :: L) f t) =
  Ret tt s (mkHeap n L f (EvFree l sz :: t)).
Proof.
  intros. unfold free. cbn [live lookup next fuel trace].
  rewrite Nat.eqb_refl, layer_eqb_refl, remove_head, remove_notin by assumption.
  reflexivity.
Qed.

(* ---------- programs that make no allocation request keep the fuel ---------- *)

Definition keeps_fuel {St A} (m : M St A) : Prop :=
  forall s h, match m s h with
              | Ret _ _ h' => fuel h' = fuel h
              | Exn _ h' => fuel h' = fuel h
              | Bad _ => True
              end.

Lemma keeps_fuel_ret {St A} (a : A) : keeps_fuel (@ret St A a).
Proof. intros s h; reflexivity. Qed.

Lemma keeps_fuel_get {St} : keeps_fuel (@get St).
Proof. intros s h; reflexivity. Qed.

Lemma keeps_fuel_bind {St A B} (m : M St A) (f : A -> M St B) :
  keeps_fuel m -> (forall a, keeps_fuel (f a)) -> keeps_fuel (bind m f).
Proof.
  intros Hm Hf s h. unfold bind. specialize (Hm s h).
  destruct (m s h) as [a s' h'|s' h'|h']; auto.
  specialize (Hf a s' h'). destruct (f a s' h'); auto; congruence.
Qed.

Lemma keeps_fuel_free {St} l b : keeps_fuel (@free St l b).
Proof.
  intros s h. unfold free. destruct (lookup b (live h)) as [[l' sz]|]; [|exact I].
  destruct (layer_eqb l l'); [reflexivity | exact I].
Qed.

Lemma keeps_fuel_free_opt {St} l ob : keeps_fuel (@free_opt St l ob).
Proof. destruct ob; [apply keeps_fuel_free | apply keeps_fuel_ret]. Qed.

Lemma keeps_fuel_free_list {St} bs : keeps_fuel (@free_list St bs).
Proof.
  induction bs as [|[b [l sz]] bs IH]; cbn [free_list].
  - apply keeps_fuel_ret.
  - apply keeps_fuel_bind; [apply keeps_fuel_free | intros _; exact IH].
Qed.

(* ---------- observation helpers (for extraction) ---------- *)

Fixpoint mem_nat (b : nat) (l : list nat) : bool :=
  match l with [] => false | x :: l' => if Nat.eqb x b then true else mem_nat b l' end.

(* number of live blocks not owned + 1000 per owned block that is not live *)
Definition leak_count (owned_ids : list nat) (h : heap) : N :=
  let live_ids := map fst (live h) in
  (N.of_nat (length (filter (fun b => negb (mem_nat b owned_ids)) live_ids))
   + 1000 * N.of_nat (length (filter (fun b => negb (mem_nat b live_ids)) owned_ids)))%N.

(* (ok, trace oldest first, leaked, owned) *)
Definition obs := (bool * list ev * N * N)%type.

Definition observe {St A} (owned_ids : St -> list nat) (r : res St A) : obs :=
  match r with
  | Ret _ s h => (true, rev (trace h), leak_count (owned_ids s) h,
                  N.of_nat (length (owned_ids s)))
  | Exn s h => (false, rev (trace h), leak_count (owned_ids s) h,
                N.of_nat (length (owned_ids s)))
  | Bad h => (false, rev (trace h), 1000%N, 0%N)
  end.
