(* C20 -- refutation of the FULL statements on the unchanged tree (the two known findings).
   Kept out of Properties_C20.v on purpose: when upstream fixes the defects this file stops compiling,
   which the check reports as "finding no longer reproduces", not as a violation. *)
From Coq Require Import List String ZArith Bool.
Require Import PPLV.CIface.Exn PPLV.CIface.Entries PPLV.CIface.Spec PPLV.gen.Facts_CIface PPLV.CIface.C20.
Import ListNotations.
Open Scope string_scope.

Definition declared_are_defined_full : Prop := forall p, In p prototypes -> In p entry_names.

Theorem all_entries_tight_refuted : ~ all_entries_tight_full.
Proof.
  intros H.
  destruct (find (fun en => negb (tight en)) entries) as [en|] eqn:F; [|vm_compute in F; discriminate F].
  apply find_some in F as [F1 F2]. specialize (H en F1). rewrite H in F2. discriminate.
Qed.

(* the witness: ppl_io_wrap_string has no try block and calls wrap_string (std::string: bad_alloc) *)
Theorem wrap_string_escapes : exists en, In en entries /\ e_name en = "ppl_io_wrap_string" /\
  e_has_try en = false /\ In "wrap_string" (e_calls en) /\
  forall e, fst (run_entry en (Throws e)) = Escaped e.
Proof.
  destruct (find (fun en => String.eqb (e_name en) "ppl_io_wrap_string") entries) as [en|] eqn:F; [|vm_compute in F; discriminate F].
  exists en. pose proof (find_some _ _ F) as [F1 F2]. apply String.eqb_eq in F2.
  vm_compute in F. inversion F; subst en. repeat split; auto.
  cbn. tauto.
Qed.

Theorem declared_are_defined_refuted : ~ declared_are_defined_full.
Proof.
  intros H. specialize (H "ppl_new_Linear_Expression_from_Grid_Generator").
  assert (P : In "ppl_new_Linear_Expression_from_Grid_Generator" prototypes) by (apply str_mem_In; vm_compute; reflexivity).
  specialize (H P). apply str_mem_In in H. vm_compute in H. discriminate H.
Qed.

Theorem no_dangling_outputs_refuted : ~ no_dangling_outputs_full.
Proof. unfold no_dangling_outputs_full. intros H. apply (f_equal (@List.length string)) in H. vm_compute in H. discriminate H. Qed.
