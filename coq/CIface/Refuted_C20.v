(* C20 -- refutation of the FULL statements on the unchanged tree (the two known findings).
   Kept out of Properties_C20.v on purpose: when upstream fixes the defects this file stops compiling,
   which the check reports as "finding no longer reproduces", not as a violation. *)
From Coq Require Import List String ZArith Bool.
Require Import PPLV.CIface.Exn PPLV.CIface.Entries PPLV.CIface.Spec PPLV.gen.Facts_CIface PPLV.CIface.C20.
Import ListNotations.
Open Scope string_scope.

Definition declared_are_defined_full : Prop := forall p, In p prototypes -> In p entry_names.

Theorem no_dangling_outputs_refuted : ~ no_dangling_outputs_full.
Proof. unfold no_dangling_outputs_full. intros H. apply (f_equal (@List.length string)) in H. vm_compute in H. discriminate H. Qed.
