(* C20 -- SPECIFICATION of call sequences of the four time-out registration entries: two independent cells.
   No dependency on the facts regenerated from the sources: the behavioural check evaluates THIS machine on the
   sequences it runs (CIface/Timeouts.v proves that the machine driven by the regenerated bodies equals it). *)
From Coq Require Import List Bool.
Import ListNotations.

Inductive budget := Tiny | Huge.            (* of a deterministic threshold: Tiny is exceeded by any conversion *)

Inductive tev :=
| SetT | ResetT                             (* ppl_set_timeout (long) / ppl_reset_timeout *)
| SetD (b : budget) | ResetD                (* ppl_set_deterministic_timeout / ppl_reset_deterministic_timeout *)
| ExpireT                                   (* the wall-clock watchdog fires inside some entry point *)
| Conv.                                     (* an expensive conversion is run: a Tiny deterministic threshold fires *)

(* ---- spec ---- *)
Record sstate := mkS { s_wall : bool; s_det : option budget }.

Definition spec_step (s : sstate) (e : tev) : sstate * bool (* interrupted *) :=
  match e with
  | SetT => (mkS true (s_det s), false)
  | ResetT => (mkS false (s_det s), false)
  | SetD b => (mkS (s_wall s) (Some b), false)
  | ResetD => (mkS (s_wall s) None, false)
  | ExpireT => (mkS false (s_det s), s_wall s)
  | Conv => match s_det s with Some Tiny => (mkS (s_wall s) None, true) | _ => (s, false) end
  end.

Fixpoint spec_run (s : sstate) (l : list tev) : sstate * list bool :=
  match l with
  | [] => (s, [])
  | e :: r => let '(s1, i) := spec_step s e in let '(s2, is) := spec_run s1 r in (s2, i :: is)
  end.

