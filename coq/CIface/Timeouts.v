(* C20 -- call SEQUENCES of the four time-out registration entries, as a small state machine.

   CODE machine: driven by the facts regenerated from the sources -- the ordered time-out actions of the bodies of
   ppl_set_timeout / ppl_reset_timeout / ppl_set_deterministic_timeout / ppl_reset_deterministic_timeout, of the helpers
   reset_timeout / reset_deterministic_timeout, and the handler the regenerated catch chain selects for the exception class
   a watchdog throws on expiry.  State: for each of the two static pointers which watchdog object it holds (exception class
   it would throw, its budget), plus the objects whose pointer was overwritten without delete (leaked AND still armed).
   SPEC machine: two independent cells; set arms its own cell, reset / expiry disarm it, nothing touches the other cell.
   Theorem [timeout_sequences]: after ANY sequence of events the code machine is in the state the spec machine says. *)
From Coq Require Import List String ZArith Bool.
Require Import PPLV.CIface.Exn PPLV.CIface.Entries PPLV.CIface.Spec PPLV.CIface.TimeoutSpec PPLV.gen.Facts_CIface PPLV.CIface.C20.
Import ListNotations.
Open Scope string_scope.

(* ---- code ---- *)
Definition obj := (ctype * budget)%type.
Record cstate := mkC { c_wall : option obj; c_det : option obj; c_other : list string; c_leaked : list obj }.

Definition wall_slot := "p_timeout_object".
Definition det_slot := "p_deterministic_timeout_object".

Definition lookup {A} (n : string) (l : list (string * A)) : option A :=
  match find (fun p => String.eqb n (fst p)) l with Some p => Some (snd p) | None => None end.

Definition do_delete (slot : string) (s : cstate) : cstate :=
  if String.eqb slot wall_slot then mkC None (c_det s) (c_other s) (c_leaked s)
  else if String.eqb slot det_slot then mkC (c_wall s) None (c_other s) (c_leaked s)
  else mkC (c_wall s) (c_det s) (slot :: c_other s) (c_leaked s).

Definition old_to_leak (o : option obj) (l : list obj) : list obj := match o with Some x => x :: l | None => l end.

Definition do_new (slot : string) (o : obj) (s : cstate) : cstate :=
  if String.eqb slot wall_slot then mkC (Some o) (c_det s) (c_other s) (old_to_leak (c_wall s) (c_leaked s))
  else if String.eqb slot det_slot then mkC (c_wall s) (Some o) (c_other s) (old_to_leak (c_det s) (c_leaked s))
  else mkC (c_wall s) (c_det s) (slot :: c_other s) (c_leaked s).

(* helpers contain no calls to other helpers: one level of inlining is exact *)
Definition exec_helper (h : string) (s : cstate) : cstate :=
  match lookup h timeout_helper_bodies with
  | Some body => fold_left (fun st tc => match tc with TDelete slot => do_delete slot st | _ => mkC (c_wall st) (c_det st) (h :: c_other st) (c_leaked st) end) body s
  | None => mkC (c_wall s) (c_det s) (h :: c_other s) (c_leaked s)
  end.

Definition exec_tcall (b : budget) (s : cstate) (tc : tcall) : cstate :=
  match tc with
  | TCall h => exec_helper h s
  | TNew slot _ c => do_new slot (c, b) s
  | TDelete slot => do_delete slot s
  end.

Definition exec_entry (name : string) (b : budget) (s : cstate) : cstate :=
  match lookup name timeout_entry_bodies with
  | Some body => fold_left (exec_tcall b) body s
  | None => mkC (c_wall s) (c_det s) (name :: c_other s) (c_leaked s)
  end.

(* expiry of a watchdog registered with class ct, inside an entry whose chain is ch: the selected handler runs *)
Definition exec_expiry (ch : chain) (ct : ctype) (s : cstate) : cstate :=
  match ct with
  | CT_class c =>
      match handles ch (of_class c) with
      | Some cl => fold_left (fun st a => match a with
                                          | ResetTimeout => exec_helper "reset_timeout" st
                                          | ResetDetTimeout => exec_helper "reset_deterministic_timeout" st
                                          | _ => st end) (c_actions cl) s
      | None => mkC (c_wall s) (c_det s) ("escaped" :: c_other s) (c_leaked s)
      end
  | _ => mkC (c_wall s) (c_det s) ("unknown class" :: c_other s) (c_leaked s)
  end.

Definition tiny_armed (o : option obj) : option ctype := match o with Some (ct, Tiny) => Some ct | _ => None end.

Definition code_step (ch : chain) (s : cstate) (e : tev) : cstate * bool :=
  match e with
  | SetT => (exec_entry "ppl_set_timeout" Huge s, false)
  | ResetT => (exec_entry "ppl_reset_timeout" Huge s, false)
  | SetD b => (exec_entry "ppl_set_deterministic_timeout" b s, false)
  | ResetD => (exec_entry "ppl_reset_deterministic_timeout" Huge s, false)
  | ExpireT => match c_wall s with Some (ct, _) => (exec_expiry ch ct s, true) | None => (s, false) end
  | Conv =>
      (* any armed Tiny deterministic threshold fires: the current one, or a leaked one (still on the watcher's list) *)
      match tiny_armed (c_det s) with
      | Some ct => (exec_expiry ch ct s, true)
      | None => match find (fun o => match snd o with Tiny => true | Huge => false end) (c_leaked s) with
                | Some (ct, _) => (exec_expiry ch ct s, true)
                | None => (s, false)
                end
      end
  end.

Fixpoint code_run (ch : chain) (s : cstate) (l : list tev) : cstate * list bool :=
  match l with
  | [] => (s, [])
  | e :: r => let '(s1, i) := code_step ch s e in let '(s2, is) := code_run ch s1 r in (s2, i :: is)
  end.

(* ---- correspondence ---- *)
Definition embed (s : sstate) : cstate :=
  mkC (if s_wall s then Some (CT_class Timeout, Huge) else None)
      (match s_det s with Some b => Some (CT_class DetTimeout, b) | None => None end) [] [].

Definition all_sstates : list sstate :=
  [mkS false None; mkS false (Some Tiny); mkS false (Some Huge); mkS true None; mkS true (Some Tiny); mkS true (Some Huge)].
Definition all_tev : list tev := [SetT; ResetT; SetD Tiny; SetD Huge; ResetD; ExpireT; Conv].

Lemma all_sstates_complete : forall s, In s all_sstates.
Proof. intros [[|] [[|]|]]; cbn; tauto. Qed.
Lemma all_tev_complete : forall e, In e all_tev.
Proof. intros [| |[|]| | |]; cbn; tauto. Qed.

Definition budget_eqb (a b : budget) : bool := match a, b with Tiny, Tiny | Huge, Huge => true | _, _ => false end.
Definition ctype_eqb (a b : ctype) : bool :=
  match a, b with CT_class x, CT_class y => cls_eqb x y | CT_ellipsis, CT_ellipsis => true | _, _ => false end.
Definition obj_eqb (a b : option obj) : bool :=
  match a, b with
  | Some (c1, b1), Some (c2, b2) => ctype_eqb c1 c2 && budget_eqb b1 b2
  | None, None => true
  | _, _ => false
  end.
Definition cstate_eqb (a b : cstate) : bool :=
  obj_eqb (c_wall a) (c_wall b) && obj_eqb (c_det a) (c_det b)
  && match c_other a, c_other b, c_leaked a, c_leaked b with [], [], [], [] => true | _, _, _, _ => false end.

Lemma cstate_eqb_embed : forall c s, cstate_eqb c (embed s) = true -> c = embed s.
Proof.
  intros [w d o l] [sw sd] H. unfold cstate_eqb, embed in *. cbn [c_wall c_det c_other c_leaked s_wall s_det] in *.
  apply andb_prop in H as [H H3]. apply andb_prop in H as [H1 H2].
  destruct o; [|discriminate]. destruct l; [|discriminate].
  assert (Ew : w = (if sw then Some (CT_class Timeout, Huge) else None)).
  { destruct sw, w as [[[c| |] [|]]|]; cbn in H1; try discriminate; try reflexivity.
    all: apply andb_prop in H1 as [H1 Hb]; try discriminate Hb; apply cls_eqb_eq in H1; now subst. }
  assert (Ed : d = match sd with Some b => Some (CT_class DetTimeout, b) | None => None end).
  { destruct sd as [[|]|], d as [[[c| |] [|]]|]; cbn in H2; try discriminate; try reflexivity;
    apply andb_prop in H2 as [H2 Hb]; try discriminate Hb; apply cls_eqb_eq in H2; now subst. }
  now subst.
Qed.

(* the finite check: every chain, every spec state, every event (1 x 6 x 7 cases on the regenerated facts) *)
Definition step_ok (ch : chain) (s : sstate) (e : tev) : bool :=
  let '(c1, i1) := code_step ch (embed s) e in let '(s1, i2) := spec_step s e in
  cstate_eqb c1 (embed s1) && Bool.eqb i1 i2.

Definition int_chains : list chain := filter (fun ch => forallb (fun cl => match c_ret cl with NullPtr => false | _ => true end) ch) nonempty_chains.

Lemma steps_ok : forallb (fun ch => forallb (fun s => forallb (step_ok ch s) all_tev) all_sstates) nonempty_chains = true.
Proof. vm_compute. reflexivity. Qed.

Lemma step_agrees : forall ch, In ch nonempty_chains -> forall s e,
  code_step ch (embed s) e = (embed (fst (spec_step s e)), snd (spec_step s e)).
Proof.
  intros ch Hch s e. pose proof steps_ok as A. rewrite forallb_forall in A. specialize (A ch Hch).
  rewrite forallb_forall in A. specialize (A s (all_sstates_complete s)).
  rewrite forallb_forall in A. specialize (A e (all_tev_complete e)).
  unfold step_ok in A. destruct (code_step ch (embed s) e) as [c1 i1]. destruct (spec_step s e) as [s1 i2].
  apply andb_prop in A as [A1 A2]. apply cstate_eqb_embed in A1. apply Bool.eqb_prop in A2. cbn. now subst.
Qed.

Theorem timeout_sequences_l : forall ch, In ch nonempty_chains -> forall l s,
  code_run ch (embed s) l = (embed (fst (spec_run s l)), snd (spec_run s l)).
Proof.
  intros ch Hch. induction l as [|e l IH]; intros s; [reflexivity|].
  cbn [code_run spec_run]. rewrite (step_agrees ch Hch s e).
  destruct (spec_step s e) as [s1 i]. cbn [fst snd]. rewrite (IH s1).
  destruct (spec_run s1 l) as [s2 is]. reflexivity.
Qed.
