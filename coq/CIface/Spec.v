(* C20 -- the SPECIFICATION side: which error enumerator is documented for which exception class
   (interfaces/C/ppl_c_header.h, enum ppl_enum_error_code, and C_interface.dox).  Independent of the facts
   regenerated from the sources: the behavioural check compares the compiled code against THIS table. *)
From Coq Require Import List String ZArith Bool.
Require Import PPLV.CIface.Exn.
Import ListNotations.

(* ---- the documented table (ppl_c_header.h, enum ppl_enum_error_code; C_interface.dox) ---------- *)

Definition documented (c : cls) : option ecode :=
  match c with
  | BadAlloc => Some ERROR_OUT_OF_MEMORY
  | InvalidArgument => Some ERROR_INVALID_ARGUMENT
  | DomainError => Some ERROR_DOMAIN_ERROR
  | LengthError => Some ERROR_LENGTH_ERROR
  | LogicError => Some ERROR_LOGIC_ERROR               (* any other logic_error *)
  | OverflowError => Some ARITHMETIC_OVERFLOW
  | RuntimeError => Some ERROR_INTERNAL_ERROR          (* any other runtime_error *)
  | Exception => Some ERROR_UNKNOWN_STANDARD_EXCEPTION (* any other std::exception *)
  | Timeout | DetTimeout => Some TIMEOUT_EXCEPTION
  | _ => None
  end.

(* code documented for an exception of class c: that of its nearest documented ancestor; an
   exception with no documented ancestor is "completely unexpected" *)
Definition documented_code (c : cls) : ecode :=
  match nearest documented (ancestors c) with Some k => k | None => ERROR_UNEXPECTED_ERROR end.

(* documented values of the enumerators *)
Definition documented_value (c : ecode) : Z :=
  match c with
  | ERROR_OUT_OF_MEMORY => -2 | ERROR_INVALID_ARGUMENT => -3 | ERROR_DOMAIN_ERROR => -4
  | ERROR_LENGTH_ERROR => -5 | ARITHMETIC_OVERFLOW => -6 | STDIO_ERROR => -7 | ERROR_INTERNAL_ERROR => -8
  | ERROR_UNKNOWN_STANDARD_EXCEPTION => -9 | ERROR_UNEXPECTED_ERROR => -10 | TIMEOUT_EXCEPTION => -11
  | ERROR_LOGIC_ERROR => -12
  end%Z.

