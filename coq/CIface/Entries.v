(* C20 -- entry points of the C interface and what they return to C.

   An entry point is a function with C linkage defined in interfaces/C.  Its shape, extracted from the
   preprocessed regenerated source (gen/Facts_CIface.v), is
       T name(params) try { BODY } catch (T1) { H1 } ... catch (Tn) { Hn }       (has_try = true)
   or  T name(params) { BODY }                                                 (has_try = false)
   [run_entry en o] is what C sees when BODY behaves as [o]: returns v, or throws e. *)
From Coq Require Import List String ZArith Bool Lia.
Require Import PPLV.CIface.Exn.
Import ListNotations.

Record entry := mkEntry {
  e_name : string;
  e_file : nat;                     (* index in Facts.files *)
  e_has_try : bool;                 (* the body is a function-try-block *)
  e_chain : chain;                  (* its handlers, in order *)
  e_calls : list string;            (* calls made OUTSIDE any try block (all calls, when has_try = false) *)
  e_body_returns : bool;            (* every path of BODY ends in return (or in a [[noreturn]] call) *)
  e_ret_ptr : bool                  (* the entry returns a pointer, not an int code *)
}.

(* time-out related actions of a body, as extracted by the translator (in source order) *)
Inductive tcall :=
| TCall (helper : string)                       (* reset_timeout() / reset_deterministic_timeout() *)
| TNew (slot kind : string) (c : ctype)         (* slot = new Watchdog/Weightwatch(..., e) with `static c e;` *)
| TDelete (slot : string).                      (* delete slot; slot = nullptr; *)

Inductive outcome := Returns (v : Z) | Throws (e : exn).

(* what reaches the C caller *)
Inductive result :=
| Returned (v : Z)                       (* an int (or pointer) value *)
| ReturnedCode (c : ecode)               (* one of the error enumerators *)
| ReturnedNull                           (* a null pointer, from an entry returning a pointer *)
| Escaped (e : exn)                      (* a C++ exception unwinds into C code: undefined behaviour *)
| Undefined (why : string).              (* flows off the end / returns an unknown expression *)

Inductive effect := E_notify (c : ecode) | E_reset_timeout | E_reset_det_timeout | E_other (s : string).

Definition effect_of (a : action) : list effect :=
  match a with
  | Notify (Code c) => [E_notify c]
  | Notify (CodeUnknown s) => [E_other s]
  | Notify NullPtr => [E_other "nullptr"]
  | ResetTimeout => [E_reset_timeout]
  | ResetDetTimeout => [E_reset_det_timeout]
  | What => []
  | OtherCall s => [E_other s]
  end.

Definition run_clause (cl : clause) : result * list effect :=
  (if c_returns cl then match c_ret cl with Code c => ReturnedCode c | NullPtr => ReturnedNull | CodeUnknown s => Undefined s end
   else Undefined "handler without return",
   flat_map effect_of (c_actions cl)).

Definition run_entry (en : entry) (o : outcome) : result * list effect :=
  match o with
  | Returns v => (Returned v, [])
  | Throws e =>
      if e_has_try en then
        match handles (e_chain en) e with
        | Some cl => run_clause cl
        | None => (Escaped e, [])
        end
      else (Escaped e, [])
  end.

(* Which outcomes a body can have: a body without try that makes no call (and contains no `new`,
   `throw`, ... -- all of these are listed in e_calls by the translator) cannot throw. *)
Definition admissible (en : entry) (o : outcome) : Prop :=
  match o with
  | Returns _ => True
  | Throws _ => e_has_try en = true \/ e_calls en <> []
  end.

(* ---- the decidable per-entry conditions -------------------------------------------------------- *)

(* the handler is "clean": only notify_error / reset_* / what() are called, it notifies the code it
   returns, and it ends in return *)
Definition clean_action (ret : rcode) (a : action) : bool :=
  match a, ret with
  | Notify (Code c), Code r => ecode_eqb c r
  | Notify (Code _), NullPtr => true
  | ResetTimeout, _ | ResetDetTimeout, _ | What, _ => true
  | _, _ => false
  end.

Definition notifies (cl : clause) : bool :=
  existsb (fun a => match a with Notify _ => true | _ => false end) (c_actions cl).

Definition clean_clause (cl : clause) : bool :=
  c_returns cl && forallb (clean_action (c_ret cl)) (c_actions cl) && notifies cl
  && match c_ret cl with Code _ | NullPtr => true | _ => false end.

Definition clean_chain (ch : chain) : bool := forallb clean_clause ch.

(* the time-out handlers disarm the corresponding watchdog BEFORE notifying *)
Definition resets_before_notify (cl : clause) : bool :=
  match c_type cl with
  | CT_class Timeout => match c_actions cl with ResetTimeout :: Notify _ :: _ => true | _ => false end
  | CT_class DetTimeout => match c_actions cl with ResetDetTimeout :: Notify _ :: _ => true | _ => false end
  | _ => true
  end.

(* an entry is TIGHT when nothing can escape it: full chain, or no try and nothing that can throw *)
(* an int entry reports errors as enumerators, a pointer entry as a null pointer (never the converse: a null
   pointer converted to int would read as 0 = success) *)
Definition ret_kind_ok (ptr : bool) (cl : clause) : bool :=
  match c_ret cl with Code _ => negb ptr | NullPtr => ptr | CodeUnknown _ => false end.

Definition tight (en : entry) : bool :=
  if e_has_try en then has_ellipsis (e_chain en) && clean_chain (e_chain en) && no_unknown (e_chain en)
                       && forallb (ret_kind_ok (e_ret_ptr en)) (e_chain en)
  else match e_calls en with [] => true | _ => false end.

Definition str_mem (s : string) (l : list string) : bool := existsb (String.eqb s) l.

Lemma str_mem_In : forall s l, str_mem s l = true <-> In s l.
Proof.
  intros s l; unfold str_mem; rewrite existsb_exists; split.
  - intros [x [Hx He]]. apply String.eqb_eq in He. now subst.
  - intros H; exists s; split; [assumption | apply String.eqb_refl].
Qed.

(* ---- generic theorems ------------------------------------------------------------------------- *)

Definition error_result (r : result) (c : ecode) : Prop := r = ReturnedCode c \/ r = ReturnedNull.

Lemma clean_clause_result : forall cl, clean_clause cl = true ->
  exists c, error_result (fst (run_clause cl)) c /\ In (E_notify c) (snd (run_clause cl)).
Proof.
  intros cl H. unfold clean_clause in H.
  apply andb_prop in H as [H H4]. apply andb_prop in H as [H H3]. apply andb_prop in H as [H1 H2].
  unfold notifies in H3. apply existsb_exists in H3 as [a [Ha Hn]].
  rewrite forallb_forall in H2. specialize (H2 a Ha).
  unfold run_clause, error_result. rewrite H1. cbn [fst snd].
  destruct a as [[c'| |s]| | | |]; try discriminate;
  destruct (c_ret cl) as [c| |s'] eqn:R; try discriminate.
  - cbn in H2. apply ecode_eqb_eq in H2; subst c'. exists c; split; [now left|].
    apply in_flat_map. exists (Notify (Code c)); split; [assumption | left; reflexivity].
  - exists c'; split; [now right|].
    apply in_flat_map. exists (Notify (Code c')); split; [assumption | left; reflexivity].
Qed.

(* NEVER ESCAPES, generically: a tight entry turns every admissible outcome into a returned value;
   when the body threw, the value is an error enumerator and the error handler has been notified
   with that same enumerator. *)
Theorem tight_never_escapes : forall en, tight en = true -> forall o, admissible en o ->
  match o with
  | Returns v => run_entry en o = (Returned v, [])
  | Throws e => exists c, error_result (fst (run_entry en o)) c /\ In (E_notify c) (snd (run_entry en o))
  end.
Proof.
  intros en T o A. destruct o as [v|e]; [reflexivity|].
  unfold tight in T. unfold run_entry. destruct (e_has_try en) eqn:HT.
  - apply andb_prop in T as [T T4]. apply andb_prop in T as [T T3]. apply andb_prop in T as [T1 T2].
    destruct (handles_total _ T1 e) as [cl [Hh Hin]]. rewrite Hh.
    unfold clean_chain in T2. rewrite forallb_forall in T2. now apply clean_clause_result, T2.
  - cbn in A. rewrite HT in A. destruct A as [A|A]; [discriminate A|]. destruct (e_calls en); [now elim A | discriminate T].
Qed.

(* conversely an entry without try that makes a throwing call lets the exception through *)
Theorem untight_escapes : forall en e, e_has_try en = false -> fst (run_entry en (Throws e)) = Escaped e.
Proof. intros en e H. unfold run_entry. now rewrite H. Qed.

(* ---- codes ------------------------------------------------------------------------------------ *)

Definition value_of (tbl : list (ecode * Z)) (c : ecode) : option Z :=
  match find (fun p => ecode_eqb c (fst p)) tbl with Some p => Some (snd p) | None => None end.

Definition all_ecodes : list ecode :=
  [ERROR_OUT_OF_MEMORY; ERROR_INVALID_ARGUMENT; ERROR_DOMAIN_ERROR; ERROR_LENGTH_ERROR; ARITHMETIC_OVERFLOW;
   STDIO_ERROR; ERROR_INTERNAL_ERROR; ERROR_UNKNOWN_STANDARD_EXCEPTION; ERROR_UNEXPECTED_ERROR;
   TIMEOUT_EXCEPTION; ERROR_LOGIC_ERROR].

(* every enumerator has a value, all values are negative and pairwise distinct: an error return can
   never be mistaken for a Boolean answer (0 / positive) nor for another error *)
Fixpoint zdistinct (l : list Z) : bool :=
  match l with [] => true | x :: r => negb (existsb (Z.eqb x) r) && zdistinct r end.

Definition codes_ok (tbl : list (ecode * Z)) : bool :=
  forallb (fun c => match value_of tbl c with Some z => Z.ltb z 0 | None => false end) all_ecodes
  && zdistinct (map snd tbl) && Nat.eqb (List.length tbl) (List.length all_ecodes).

Lemma zdistinct_NoDup : forall l, zdistinct l = true -> NoDup l.
Proof.
  induction l as [|x l IH]; cbn; intros H; constructor.
  - apply andb_prop in H as [H _]. intros Hin. apply negb_true_iff in H.
    assert (existsb (Z.eqb x) l = true) by (apply existsb_exists; exists x; split; [assumption | apply Z.eqb_refl]).
    congruence.
  - apply andb_prop in H as [_ H]; auto.
Qed.

Theorem codes_ok_spec : forall tbl, codes_ok tbl = true ->
  (forall c, exists z, value_of tbl c = Some z /\ (z < 0)%Z) /\ NoDup (map snd tbl).
Proof.
  intros tbl H. unfold codes_ok in H. apply andb_prop in H as [H _]. apply andb_prop in H as [H1 H2].
  split; [|now apply zdistinct_NoDup].
  intros c. rewrite forallb_forall in H1.
  assert (In c all_ecodes) by (destruct c; cbn; tauto).
  specialize (H1 c H). destruct (value_of tbl c) as [z|]; [|discriminate].
  exists z; split; [reflexivity | now apply Z.ltb_lt].
Qed.
