(* C20 -- the exception universe seen by the C interface and the C++ catch semantics.

   Classes: the std::exception tree of <stdexcept>/<new>/<typeinfo>/<ios> (libstdc++, C++11 ABI:
   ios_base::failure derives from system_error, which derives from runtime_error), PPL's Throwable with
   the two time-out classes of interfaces/C/ppl_c_implementation_common_defs.hh, and nothing else:
   an exception object whose type has no listed base is described by the empty base set.

   An exception is abstracted by the SET of listed classes that are unambiguous public bases of (or
   equal to) its dynamic type: this is all a catch clause can observe ([except.handle]/3).  Any set is
   allowed ([chain_total] quantifies over all of them, so it also covers classes deriving from several
   listed classes, or from none); [of_class c] is the set for an object of exactly class [c], or of a
   class singly derived from [c] and from nothing else listed. *)
From Coq Require Import List String ZArith Bool Lia.
Import ListNotations.

Inductive cls :=
| Exception | BadAlloc
| LogicError | InvalidArgument | DomainError | LengthError | OutOfRange
| RuntimeError | OverflowError | RangeError | UnderflowError | SystemError | IosFailure
| BadCast | BadTypeid | BadException
| Throwable | Timeout | DetTimeout.

Definition cls_eqb (a b : cls) : bool :=
  match a, b with
  | Exception, Exception | BadAlloc, BadAlloc | LogicError, LogicError | InvalidArgument, InvalidArgument
  | DomainError, DomainError | LengthError, LengthError | OutOfRange, OutOfRange | RuntimeError, RuntimeError
  | OverflowError, OverflowError | RangeError, RangeError | UnderflowError, UnderflowError
  | SystemError, SystemError | IosFailure, IosFailure | BadCast, BadCast | BadTypeid, BadTypeid
  | BadException, BadException | Throwable, Throwable | Timeout, Timeout | DetTimeout, DetTimeout => true
  | _, _ => false
  end.

Lemma cls_eqb_eq : forall a b, cls_eqb a b = true <-> a = b.
Proof. intros a b; split; [destruct a, b; cbn; congruence | intros ->; destruct b; reflexivity]. Qed.

Lemma cls_eqb_refl : forall a, cls_eqb a a = true.
Proof. destruct a; reflexivity. Qed.

Definition all_cls : list cls :=
  [Exception; BadAlloc; LogicError; InvalidArgument; DomainError; LengthError; OutOfRange; RuntimeError;
   OverflowError; RangeError; UnderflowError; SystemError; IosFailure; BadCast; BadTypeid; BadException;
   Throwable; Timeout; DetTimeout].

Lemma all_cls_complete : forall c, In c all_cls.
Proof. destruct c; cbn; tauto. Qed.

(* direct base class (single inheritance in this tree) *)
Definition parent (c : cls) : option cls :=
  match c with
  | Exception | Throwable => None
  | BadAlloc | LogicError | RuntimeError | BadCast | BadTypeid | BadException => Some Exception
  | InvalidArgument | DomainError | LengthError | OutOfRange => Some LogicError
  | OverflowError | RangeError | UnderflowError | SystemError => Some RuntimeError
  | IosFailure => Some SystemError
  | Timeout | DetTimeout => Some Throwable
  end.

(* the tree has depth 4: [ancestors] is the reflexive-transitive closure of [parent] *)
Fixpoint up (fuel : nat) (c : cls) : list cls :=
  c :: match fuel with
       | O => []
       | S f => match parent c with Some p => up f p | None => [] end
       end.
Definition ancestors (c : cls) : list cls := up 4 c.

Definition mem (c : cls) (l : list cls) : bool := existsb (cls_eqb c) l.

Lemma mem_In : forall c l, mem c l = true <-> In c l.
Proof.
  intros c l; unfold mem; rewrite existsb_exists; split.
  - intros [x [Hx He]]. apply cls_eqb_eq in He. now subst.
  - intros H; exists c; split; [assumption | apply cls_eqb_refl].
Qed.

(* [is_base b d]: b is d or a (transitive) base of d *)
Definition is_base (b d : cls) : bool := mem b (ancestors d).

Lemma is_base_refl : forall c, is_base c c = true.
Proof. destruct c; reflexivity. Qed.

Lemma is_base_trans : forall a b c, is_base a b = true -> is_base b c = true -> is_base a c = true.
Proof. intros a b c; destruct a, b, c; cbn; congruence. Qed.

Lemma is_base_antisym : forall a b, is_base a b = true -> is_base b a = true -> a = b.
Proof. intros a b; destruct a, b; cbn; congruence. Qed.

Lemma is_base_parent : forall c p, parent c = Some p -> is_base p c = true.
Proof. intros c p; destruct c; cbn; intros H; inversion H; reflexivity. Qed.

(* the fuel is enough: the ancestor list is closed under [parent] *)
Lemma ancestors_closed : forall c a p, In a (ancestors c) -> parent a = Some p -> In p (ancestors c).
Proof. intros c a p; destruct c; cbn; intuition (subst; cbn in *; try discriminate; inversion H0; tauto). Qed.

(* ---- exceptions -------------------------------------------------------------------------- *)

Record exn := mkExn { bases : list cls }.

Definition of_class (c : cls) : exn := mkExn (ancestors c).
Definition foreign : exn := mkExn [].           (* `throw 42;`, a user class with no listed base, ... *)

(* ---- error codes -------------------------------------------------------------------------- *)

Inductive ecode :=
| ERROR_OUT_OF_MEMORY | ERROR_INVALID_ARGUMENT | ERROR_DOMAIN_ERROR | ERROR_LENGTH_ERROR
| ARITHMETIC_OVERFLOW | STDIO_ERROR | ERROR_INTERNAL_ERROR | ERROR_UNKNOWN_STANDARD_EXCEPTION
| ERROR_UNEXPECTED_ERROR | TIMEOUT_EXCEPTION | ERROR_LOGIC_ERROR.

Definition ecode_eqb (a b : ecode) : bool :=
  match a, b with
  | ERROR_OUT_OF_MEMORY, ERROR_OUT_OF_MEMORY | ERROR_INVALID_ARGUMENT, ERROR_INVALID_ARGUMENT
  | ERROR_DOMAIN_ERROR, ERROR_DOMAIN_ERROR | ERROR_LENGTH_ERROR, ERROR_LENGTH_ERROR
  | ARITHMETIC_OVERFLOW, ARITHMETIC_OVERFLOW | STDIO_ERROR, STDIO_ERROR
  | ERROR_INTERNAL_ERROR, ERROR_INTERNAL_ERROR
  | ERROR_UNKNOWN_STANDARD_EXCEPTION, ERROR_UNKNOWN_STANDARD_EXCEPTION
  | ERROR_UNEXPECTED_ERROR, ERROR_UNEXPECTED_ERROR | TIMEOUT_EXCEPTION, TIMEOUT_EXCEPTION
  | ERROR_LOGIC_ERROR, ERROR_LOGIC_ERROR => true
  | _, _ => false
  end.

Lemma ecode_eqb_eq : forall a b, ecode_eqb a b = true <-> a = b.
Proof. intros a b; split; [destruct a, b; cbn; congruence | intros ->; destruct b; reflexivity]. Qed.

(* what a handler returns: a known enumerator of ppl_enum_error_code, or some other expression *)
Inductive rcode := Code (c : ecode) | NullPtr (* `return nullptr;` in an entry returning a pointer *) | CodeUnknown (s : string).

(* ---- catch clauses ------------------------------------------------------------------------ *)

Inductive ctype :=
| CT_class (c : cls)          (* catch (C&), catch (const C&), catch (C) *)
| CT_ellipsis                 (* catch (...) *)
| CT_unknown (s : string).    (* a type the translator does not know: modelled as catching NOTHING *)

Inductive action :=
| Notify (c : rcode)          (* notify_error(code, ...) -> the registered error handler *)
| ResetTimeout | ResetDetTimeout
| What                        (* e.what(): noexcept *)
| OtherCall (s : string).

Record clause := mkClause {
  c_type : ctype;
  c_ret : rcode;               (* the expression of the handler's final `return` *)
  c_actions : list action;     (* calls made by the handler body *)
  c_returns : bool             (* every path of the handler ends in `return` *)
}.

Definition chain := list clause.

Definition matches (t : ctype) (e : exn) : bool :=
  match t with
  | CT_class c => mem c (bases e)
  | CT_ellipsis => true
  | CT_unknown _ => false
  end.

(* C++: the handlers of a try block are tried in order of appearance ([except.handle]/4) *)
Fixpoint handles (ch : chain) (e : exn) : option clause :=
  match ch with
  | [] => None
  | cl :: rest => if matches (c_type cl) e then Some cl else handles rest e
  end.

(* ---- generic facts about [handles] ---------------------------------------------------------- *)

Definition is_ellipsis (t : ctype) : bool := match t with CT_ellipsis => true | _ => false end.

Definition has_ellipsis (ch : chain) : bool := existsb (fun cl => is_ellipsis (c_type cl)) ch.

Theorem handles_total : forall ch, has_ellipsis ch = true -> forall e, exists cl, handles ch e = Some cl /\ In cl ch.
Proof.
  induction ch as [|cl ch IH]; cbn; [discriminate|].
  intros H e. destruct (matches (c_type cl) e) eqn:M.
  - exists cl; auto.
  - destruct (is_ellipsis (c_type cl)) eqn:E.
    + destruct (c_type cl); cbn in *; discriminate.
    + cbn in H. destruct (IH H e) as [c2 [H1 H2]]. exists c2; auto.
Qed.

Lemma handles_In : forall ch e cl, handles ch e = Some cl -> In cl ch /\ matches (c_type cl) e = true.
Proof.
  induction ch as [|c ch IH]; cbn; [discriminate|].
  intros e cl. destruct (matches (c_type c) e) eqn:M.
  - intros H; inversion H; subst; auto.
  - intros H; destruct (IH _ _ H); auto.
Qed.

(* First-match semantics: a clause is selected iff it matches and no EARLIER clause matches. *)
Theorem handles_first : forall pre cl post e,
  (forall c, In c pre -> matches (c_type c) e = false) -> matches (c_type cl) e = true ->
  handles (pre ++ cl :: post) e = Some cl.
Proof.
  induction pre as [|c pre IH]; cbn; intros cl post e Hp Hm.
  - now rewrite Hm.
  - rewrite (Hp c (or_introl eq_refl)). apply IH; auto.
Qed.

Lemma matches_of_class : forall b c, matches (CT_class b) (of_class c) = is_base b c.
Proof. reflexivity. Qed.

(* Clause ORDER: a chain is well ordered when no clause for a class is preceded by a clause for one
   of its (reflexive) bases -- otherwise the earlier one shadows it -- and `...` comes last. *)
Fixpoint well_ordered (ch : chain) : bool :=
  match ch with
  | [] => true
  | cl :: rest =>
      match c_type cl with
      | CT_class b => forallb (fun c2 => match c_type c2 with CT_class d => negb (is_base b d) | _ => true end) rest
      | CT_ellipsis => match rest with [] => true | _ => false end
      | CT_unknown _ => true
      end && well_ordered rest
  end.

(* In a well-ordered chain every class clause is reachable: an exception of exactly that class
   selects it.  (Order matters: with a base placed before, the derived clause would be dead.) *)
Theorem well_ordered_reaches : forall ch, well_ordered ch = true ->
  forall pre cl post c, ch = pre ++ cl :: post -> c_type cl = CT_class c ->
  handles ch (of_class c) = Some cl.
Proof.
  induction ch as [|c0 ch IH]; intros W pre cl post c E T.
  - destruct pre; discriminate.
  - cbn in W. apply andb_prop in W as [W1 W2].
    destruct pre as [|p pre]; cbn in E; inversion E; subst.
    + cbn [handles]. rewrite T, matches_of_class, is_base_refl. reflexivity.
    + cbn [handles].
      assert (M : matches (c_type p) (of_class c) = false).
      { destruct (c_type p) as [b| |s] eqn:Tp; [rewrite matches_of_class| |reflexivity].
        - rewrite forallb_forall in W1. specialize (W1 cl).
          assert (In cl (pre ++ cl :: post)) by (apply in_or_app; right; left; reflexivity).
          specialize (W1 H). rewrite T in W1. apply negb_true_iff in W1. exact W1.
        - destruct (pre ++ cl :: post) eqn:X; [destruct pre; discriminate | discriminate]. }
      rewrite M. eapply IH; eauto.
Qed.

(* Specification side: the documented table maps SOME classes to a code; an exception of class c is
   reported with the code of its nearest documented (reflexive) ancestor, [dflt] when there is none. *)
Fixpoint nearest {A} (tbl : cls -> option A) (l : list cls) : option A :=
  match l with
  | [] => None
  | c :: rest => match tbl c with Some a => Some a | None => nearest tbl rest end
  end.

Definition table_of (ch : chain) (c : cls) : option clause :=
  find (fun cl => match c_type cl with CT_class d => cls_eqb c d | _ => false end) ch.

Lemma table_of_Some : forall ch c cl, table_of ch c = Some cl -> In cl ch /\ c_type cl = CT_class c.
Proof.
  unfold table_of; intros ch c cl H. apply find_some in H as [H1 H2]. split; auto.
  destruct (c_type cl); try discriminate. apply cls_eqb_eq in H2. now subst.
Qed.

(* no two clauses for the same class, every clause after [...] is dead: part of well_ordered *)

(* GENERIC ORDER THEOREM.  In a well-ordered chain whose classes are all listed once, the clause
   selected for an exception of class c is the clause of the NEAREST ancestor of c that has one
   (searching c, parent c, ...), and the ellipsis clause when no ancestor has one. *)
Definition ellipsis_clause (ch : chain) : option clause := find (fun cl => is_ellipsis (c_type cl)) ch.

Definition spec_handles (ch : chain) (c : cls) : option clause :=
  match nearest (table_of ch) (ancestors c) with
  | Some cl => Some cl
  | None => ellipsis_clause ch
  end.

Definition no_unknown (ch : chain) : bool :=
  forallb (fun cl => match c_type cl with CT_unknown _ => false | _ => true end) ch.

(* The proof of the generic theorem goes through a decidable characterisation checked per class;
   since [cls] is finite, "for all c" is a finite conjunction for any given chain.  The generic
   statement below is proved for ALL chains by induction. *)

Lemma nearest_none : forall {A} (tbl : cls -> option A) l, nearest tbl l = None <-> forall c, In c l -> tbl c = None.
Proof.
  induction l as [|c l IH]; cbn; [tauto|].
  destruct (tbl c) eqn:T; split; intros H.
  - discriminate.
  - specialize (H c (or_introl eq_refl)). congruence.
  - intros c' [<-|Hc]; auto. apply IH; auto.
  - apply IH; intros; apply H; auto.
Qed.

Lemma handles_skip_nonmatching : forall ch e,
  (forall cl, In cl ch -> matches (c_type cl) e = false) -> handles ch e = None.
Proof.
  induction ch as [|c ch IH]; cbn; intros e H; [reflexivity|].
  rewrite (H c (or_introl eq_refl)). apply IH; intros; apply H; auto.
Qed.

(* position-independent description of [handles] on [of_class c] for well-ordered chains *)
Lemma ancestors_chain : forall c a b, In a (ancestors c) -> In b (ancestors c) -> is_base a b = true \/ is_base b a = true.
Proof.
  intros c a b Ha Hb. apply mem_In in Ha, Hb. destruct c, a; cbn in Ha; try discriminate; destruct b; cbn in Hb; try discriminate; cbn; auto.
Qed.

(* index of a class in the ancestor list: smaller = more derived *)
Lemma nearest_first : forall {A} (tbl : cls -> option A) l a, nearest tbl l = Some a ->
  exists pre c post, l = pre ++ c :: post /\ tbl c = Some a /\ forall x, In x pre -> tbl x = None.
Proof.
  induction l as [|c l IH]; cbn; [discriminate|].
  intros a. destruct (tbl c) eqn:T.
  - intros H; inversion H; subst. exists [], c, l; cbn; intuition.
  - intros H. destruct (IH _ H) as (pre & c' & post & E & T' & N).
    exists (c :: pre), c', post; cbn; subst; intuition (subst; auto).
Qed.

(* the ancestor list is sorted from most derived to least: what comes after [a] and is derived
   from [a] can only be [a] itself (it never happens, in fact: the list has no duplicates) *)
Lemma ancestors_suffix_base : forall c pre a post d, ancestors c = pre ++ a :: post -> In d post ->
  is_base a d = true -> d = a.
Proof.
  intros c pre a post d E M X.
  assert (Hl : forall l : list cls, l = pre ++ a :: post -> In a l /\ In d l).
  { intros l ->; split; apply in_or_app; right; [left; reflexivity | right; exact M]. }
  destruct c; unfold ancestors in E; cbn in E;
  repeat (destruct pre as [|? pre]; cbn in E; inversion E; subst; clear E;
          [ cbn in M; intuition (subst; cbn in X; try discriminate; reflexivity) | try rename H1 into E ]);
  try (destruct pre; discriminate).
Qed.

Lemma wo_before : forall l1 c0 cl l2 b d, well_ordered (l1 ++ cl :: l2) = true -> In c0 l1 ->
  c_type c0 = CT_class b -> c_type cl = CT_class d -> is_base b d = false.
Proof.
  induction l1 as [|x l1 IH]; intros c0 cl l2 b d W Hc0 T0 Hty; [contradiction|].
  change ((x :: l1) ++ cl :: l2) with (x :: (l1 ++ cl :: l2)) in W.
  cbn [well_ordered] in W. apply andb_prop in W as [W1 W2]. destruct Hc0 as [->|Hc0]; [|eauto].
  rewrite T0 in W1. rewrite forallb_forall in W1.
  assert (H : In cl (l1 ++ cl :: l2)) by (apply in_or_app; right; left; reflexivity).
  specialize (W1 _ H). cbn beta in W1. rewrite Hty in W1. now apply negb_true_iff in W1.
Qed.

Lemma wo_ellipsis_before : forall l1 c0 cl l2, well_ordered (l1 ++ cl :: l2) = true -> In c0 l1 ->
  c_type c0 = CT_ellipsis -> False.
Proof.
  induction l1 as [|x l1 IH]; intros c0 cl l2 W Hc0 T0; [contradiction|].
  change ((x :: l1) ++ cl :: l2) with (x :: (l1 ++ cl :: l2)) in W.
  cbn [well_ordered] in W. apply andb_prop in W as [W1 W2]. destruct Hc0 as [->|Hc0]; [|eauto].
  rewrite T0 in W1. destruct (l1 ++ cl :: l2) eqn:X; [destruct l1; discriminate | discriminate].
Qed.

Theorem handles_is_nearest : forall ch, well_ordered ch = true -> no_unknown ch = true ->
  forall c, handles ch (of_class c) = spec_handles ch c.
Proof.
  intros ch W U c. unfold spec_handles.
  destruct (nearest (table_of ch) (ancestors c)) as [cl|] eqn:N.
  - destruct (nearest_first _ _ _ N) as (pre & a & post & E & T & Npre).
    destruct (table_of_Some _ _ _ T) as [Hin Hty].
    apply in_split in Hin as (l1 & l2 & ->).
    apply handles_first.
    + (* no earlier clause matches of_class c *)
      intros c0 Hc0. destruct (c_type c0) as [d| |s] eqn:T0.
      * rewrite matches_of_class. unfold is_base.
        destruct (mem d (ancestors c)) eqn:M; [|reflexivity]. exfalso.
        apply mem_In in M.
        (* d is an ancestor of c with a clause (c0) before cl.  Either d is in [pre] (then table_of
           would give Some for d: contradiction with Npre) or d = a (duplicate; then table_of returns
           the first, c0, not cl... still fine: contradiction with find) or d is after a: d base of a,
           which contradicts well-orderedness (c0 : base d before cl : derived a). *)
        rewrite E in M. apply in_app_or in M as [M|[M|M]].
        -- (* d in pre: table_of ch d must be None, yet c0 is a clause for d *)
           specialize (Npre d M). unfold table_of in Npre.
           assert (X := find_none _ _ Npre c0).
           assert (In c0 (l1 ++ cl :: l2)) by (apply in_or_app; left; exact Hc0).
           specialize (X H). cbn beta in X. rewrite T0 in X. now rewrite cls_eqb_refl in X.
        -- subst d. pose proof (wo_before _ _ _ _ _ _ W Hc0 T0 Hty) as B.
           now rewrite is_base_refl in B.
        -- assert (B : is_base d a = true).
           { assert (Hd : In d (ancestors c)) by (rewrite E; apply in_or_app; right; right; exact M).
             assert (Ha : In a (ancestors c)) by (rewrite E; apply in_or_app; right; left; reflexivity).
             destruct (ancestors_chain c d a Hd Ha) as [?|X]; [assumption|].
             assert (d = a) as ->; [|apply is_base_refl].
             eapply ancestors_suffix_base; eauto. }
           pose proof (wo_before _ _ _ _ _ _ W Hc0 T0 Hty) as B'. congruence.
      * exfalso. eapply wo_ellipsis_before; eauto.
      * reflexivity.
    + rewrite Hty, matches_of_class. unfold is_base. apply mem_In. rewrite E. apply in_or_app; right; left; reflexivity.
  - (* no ancestor has a clause: only the ellipsis can match *)
    rewrite nearest_none in N. unfold ellipsis_clause.
    clear W. induction ch as [|c0 ch IH]; [reflexivity|].
    cbn [handles find]. cbn in U. apply andb_prop in U as [U1 U2].
    destruct (c_type c0) as [d| |s] eqn:T0.
    + rewrite matches_of_class. unfold is_base. cbn [is_ellipsis].
      destruct (mem d (ancestors c)) eqn:M.
      * exfalso. apply mem_In in M. specialize (N d M). unfold table_of in N. cbn in N.
        rewrite T0 in N. now rewrite cls_eqb_refl in N.
      * apply IH; auto. intros x Hx. specialize (N x Hx). unfold table_of in *. cbn in N.
        rewrite T0 in N. destruct (cls_eqb x d); [discriminate | exact N].
    + reflexivity.
    + discriminate.
Qed.
