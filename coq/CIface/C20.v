(* C20 -- the generic theorems of Exn.v / Entries.v instantiated on the facts regenerated from the tree
   (gen/Facts_CIface.v).  Every [vm_compute] below enumerates a FINITE domain completely (the 19 listed
   classes, the regenerated list of entry points, the prototypes of ppl_c.h): that is a proof, and it is
   re-checked on every run against the facts of the current tree. *)
From Coq Require Import List String ZArith Bool Lia.
Require Import PPLV.CIface.Exn PPLV.CIface.Entries PPLV.CIface.Spec PPLV.gen.Facts_CIface.
Import ListNotations.
Open Scope string_scope.

(* ---- the chain used by the entry points ------------------------------------------------------- *)

(* The chains that occur in the regenerated sources: [] for entries without try, and CATCH_ALL. *)
Definition nonempty_chains : list chain := filter (fun ch => match ch with [] => false | _ => true end) used_chains.

(* the enumerator a clause REPORTS: the one it returns, or -- for a pointer entry returning null -- the one it
   passes to the error handler *)
Definition code_of (o : option clause) : option ecode :=
  match o with
  | Some cl => match c_ret cl with
               | Code c => Some c
               | NullPtr => match filter (fun a => match a with Notify (Code _) => true | _ => false end) (c_actions cl) with
                            | [Notify (Code c)] => Some c | _ => None end
               | _ => None end
  | None => None
  end.
Definition reported := code_of.

Lemma chains_have_ellipsis : forallb has_ellipsis nonempty_chains = true.
Proof. vm_compute. reflexivity. Qed.

Lemma chains_well_ordered : forallb (fun ch => well_ordered ch && no_unknown ch && clean_chain ch) nonempty_chains = true.
Proof. vm_compute. reflexivity. Qed.

Lemma chains_timeouts_reset : forallb (forallb resets_before_notify) nonempty_chains = true.
Proof. vm_compute. reflexivity. Qed.

(* the clause table of each chain IS the documented table *)
Definition chain_table_matches (ch : chain) : bool :=
  forallb (fun c => match table_of ch c, documented c with
                    | Some cl, Some k => match code_of (Some cl) with Some k' => ecode_eqb k k' | None => false end
                    | None, None => true
                    | _, _ => false
                    end) all_cls
  && match code_of (ellipsis_clause ch) with Some ERROR_UNEXPECTED_ERROR => true | _ => false end.

Lemma chains_table_documented : forallb chain_table_matches nonempty_chains = true.
Proof. vm_compute. reflexivity. Qed.

Lemma In_nonempty : forall ch, In ch nonempty_chains -> ch <> [] /\ In ch used_chains.
Proof. intros ch H. apply filter_In in H as [H1 H2]. split; [destruct ch; [discriminate | discriminate] | exact H1]. Qed.

(* chain_total: whatever is thrown -- ANY base set, also classes deriving from several listed
   classes or from none -- some clause of the chain handles it. *)
Theorem chain_total_all : forall ch, In ch nonempty_chains -> forall e : exn, exists cl, handles ch e = Some cl /\ In cl ch.
Proof.
  intros ch H e. apply handles_total.
  pose proof chains_have_ellipsis as A. rewrite forallb_forall in A. now apply A.
Qed.

(* chain_documented: derived from the GENERIC order theorem [handles_is_nearest] (well-ordered chain
   => nearest-ancestor clause) + the table comparison above. *)
Lemma nearest_table : forall ch, chain_table_matches ch = true -> forall l,
  (forall c, In c l -> In c all_cls) ->
  match nearest (table_of ch) l with
  | Some cl => exists k, code_of (Some cl) = Some k /\ nearest documented l = Some k
  | None => nearest documented l = None
  end.
Proof.
  intros ch H l. unfold chain_table_matches in H. apply andb_prop in H as [H _].
  rewrite forallb_forall in H.
  induction l as [|c l IH]; intros Hl; cbn [nearest]; [reflexivity|].
  specialize (H c (Hl c (or_introl eq_refl))).
  destruct (table_of ch c) as [cl|], (documented c) as [k|]; try discriminate.
  - destruct (code_of (Some cl)) as [k'|]; [|discriminate]. apply ecode_eqb_eq in H. subst. eauto.
  - apply IH. intros; apply Hl; right; assumption.
Qed.

Lemma handles_foreign : forall ch, no_unknown ch = true -> handles ch foreign = ellipsis_clause ch.
Proof.
  unfold ellipsis_clause. induction ch as [|c0 ch IH]; intros U; [reflexivity|].
  cbn [no_unknown forallb] in U. apply andb_prop in U as [U1 U2].
  cbn [handles find]. destruct (c_type c0) as [d| |s]; cbn.
  - apply IH; exact U2.
  - reflexivity.
  - discriminate U1.
Qed.

Theorem chain_documented_all : forall ch, In ch nonempty_chains ->
  (forall c : cls, code_of (handles ch (of_class c)) = Some (documented_code c)) /\
  code_of (handles ch foreign) = Some ERROR_UNEXPECTED_ERROR.
Proof.
  intros ch Hin.
  pose proof chains_well_ordered as W. rewrite forallb_forall in W. specialize (W ch Hin).
  apply andb_prop in W as [W _]. apply andb_prop in W as [W U].
  pose proof chains_table_documented as D. rewrite forallb_forall in D. specialize (D ch Hin).
  split.
  - intros c. rewrite (handles_is_nearest ch W U c). unfold spec_handles, documented_code.
    pose proof (nearest_table ch D (ancestors c) (fun x _ => all_cls_complete x)) as N.
    destruct (nearest (table_of ch) (ancestors c)) as [cl|].
    + destruct N as [k [R ->]]. exact R.
    + rewrite N. unfold chain_table_matches in D. apply andb_prop in D as [_ D].
      destruct (code_of (ellipsis_clause ch)) as [[]|]; try discriminate. reflexivity.
  - rewrite (handles_foreign ch U). unfold chain_table_matches in D. apply andb_prop in D as [_ D].
    destruct (code_of (ellipsis_clause ch)) as [[]|]; try discriminate. reflexivity.
Qed.

(* ---- the entry points ------------------------------------------------------------------------- *)

(* Known defects of the unchanged tree (known_findings.d/C20.json).  The theorems below are stated for
   every OTHER entry; the check reports any entry that fails and is not listed as a VIOLATION. *)
Definition exempt_untight : list string := [].   (* ppl_io_wrap_string fixed (function-try-block returning a null pointer) *)
Definition exempt_undefined : list string := [].   (* ppl_new_Linear_Expression_from_Grid_Generator restored *)

Definition checked_entries : list entry := filter (fun en => negb (str_mem (e_name en) exempt_untight)) entries.

Lemma entries_counted : List.length entries = entries_count.
Proof. vm_compute. reflexivity. Qed.

Lemma all_tight : forallb tight checked_entries = true.
Proof. vm_compute. reflexivity. Qed.

Lemma all_chains_used : forallb (fun en => if e_has_try en then existsb (fun ch => Nat.eqb (List.length ch) (List.length (e_chain en))) nonempty_chains else true) entries = true.
Proof. vm_compute. reflexivity. Qed.

Lemma all_return : forallb e_body_returns entries = true.
Proof. vm_compute. reflexivity. Qed.

Definition entry_names : list string := map e_name entries.

(* linear inclusion test for two lists sorted the same way (the translator emits entries and
   prototypes sorted by name); only SOUNDNESS is needed and proved: true => inclusion *)
Fixpoint sub_sorted (l1 : list string) : list string -> bool :=
  fix aux (l2 : list string) : bool :=
    match l1, l2 with
    | [], _ => true
    | _ :: _, [] => false
    | x :: r1, y :: r2 => if String.eqb x y then sub_sorted r1 l2 else aux r2
    end.

Lemma sub_sorted_sound : forall l1 l2, sub_sorted l1 l2 = true -> forall x, In x l1 -> In x l2.
Proof.
  induction l1 as [|a l1 IH]; intros l2 H x Hx; [contradiction|].
  induction l2 as [|b l2 IH2]; [discriminate H|].
  cbn in H. destruct (String.eqb a b) eqn:E.
  - apply String.eqb_eq in E; subst b. destruct Hx as [<-|Hx]; [now left | eapply IH; eauto].
  - right. apply IH2. exact H.
Qed.

Definition checked_prototypes : list string := filter (fun p => negb (str_mem p exempt_undefined)) prototypes.

Lemma declared_defined_c : sub_sorted checked_prototypes entry_names = true.
Proof. vm_compute. reflexivity. Qed.

Lemma defined_declared_c : sub_sorted entry_names prototypes = true.
Proof. vm_compute. reflexivity. Qed.

Lemma declared_defined : forall p, In p prototypes -> ~ In p exempt_undefined -> In p entry_names.
Proof.
  intros p Hp Hx. apply (sub_sorted_sound _ _ declared_defined_c). apply filter_In. split; [assumption|].
  apply negb_true_iff. destruct (str_mem p exempt_undefined) eqn:M; [|reflexivity].
  apply str_mem_In in M. contradiction.
Qed.

Lemma defined_declared : forall n, In n entry_names -> In n prototypes.
Proof. exact (sub_sorted_sound _ _ defined_declared_c). Qed.

Fixpoint sdistinct (l : list string) : bool :=
  match l with [] => true | x :: r => negb (str_mem x r) && sdistinct r end.

Lemma names_distinct : sdistinct entry_names = true.
Proof. vm_compute. reflexivity. Qed.

Lemma enum_ok : codes_ok enum_error_code = true.
Proof. vm_compute. reflexivity. Qed.

Lemma enum_documented : forallb (fun c => match value_of enum_error_code c with Some z => Z.eqb z (documented_value c) | None => false end) all_ecodes = true.
Proof. vm_compute. reflexivity. Qed.

(* the functions called by the handlers call nothing but the registered C handler / delete *)
Definition helper_ok (h : string * list string) : bool :=
  forallb (fun c => str_mem c ["user_error_handler"; "delete"]) (snd h).

Lemma helpers_ok : forallb helper_ok handler_helpers = true
                   /\ forallb (fun n => str_mem n (map fst handler_helpers)) ["notify_error"; "reset_timeout"; "reset_deterministic_timeout"] = true.
Proof. split; vm_compute; reflexivity. Qed.

(* ---- statements in their final form ------------------------------------------------------------ *)

Definition uses_full_chain (en : entry) : Prop :=
  e_has_try en = true /\ In (e_chain en) nonempty_chains.

Definition all_entries_tight_full : Prop := forall en, In en entries -> tight en = true.

Lemma all_entries_tight_partial_l : forall en, In en entries -> ~ In (e_name en) exempt_untight -> tight en = true.
Proof.
  intros en Hin Hx. pose proof all_tight as A. rewrite forallb_forall in A. apply A.
  apply filter_In. split; [assumption|]. apply negb_true_iff.
  destruct (str_mem (e_name en) exempt_untight) eqn:M; [|reflexivity]. apply str_mem_In in M. contradiction.
Qed.

Definition never_escapes_full : Prop :=
  forall en, In en entries -> forall o, admissible en o ->
  exists r, fst (run_entry en o) = r /\ match r with Returned _ | ReturnedCode _ => True | _ => False end.

Lemma never_escapes_partial_l : forall en, In en entries -> ~ In (e_name en) exempt_untight ->
  forall o, admissible en o ->
  match o with
  | Returns v => run_entry en o = (Returned v, [])
  | Throws e => exists c z, error_result (fst (run_entry en o)) c /\ In (E_notify c) (snd (run_entry en o))
                            /\ value_of enum_error_code c = Some z /\ (z < 0)%Z
  end.
Proof.
  intros en Hin Hx o A. pose proof (tight_never_escapes en (all_entries_tight_partial_l en Hin Hx) o A) as T.
  destruct o as [v|e]; [exact T|]. destruct T as [c [T1 T2]].
  destruct (proj1 (codes_ok_spec _ enum_ok) c) as [z [Z1 Z2]]. exists c, z. auto.
Qed.

(* the exempted entry really is not tight on this tree: see Refuted_C20.v (kept out of the audited
   file so that an upstream FIX of the defect does not break the build of the theorems) *)

(* Per-entry form of chain_documented, decided by computation for ALL entries and ALL classes
   (1986 x 19 + foreign): an entry whose body throws an exception of class c returns documented_code c. *)
Definition entry_documented (en : entry) : bool :=
  if e_has_try en then
    forallb (fun c => match reported (handles (e_chain en) (of_class c)) with
                      | Some k => ecode_eqb k (documented_code c) | None => false end) all_cls
    && match reported (handles (e_chain en) foreign) with Some ERROR_UNEXPECTED_ERROR => true | _ => false end
    && well_ordered (e_chain en) && forallb resets_before_notify (e_chain en)
  else true.

Lemma all_entries_documented : forallb entry_documented entries = true.
Proof. vm_compute. reflexivity. Qed.

Lemma entry_returns_documented : forall en, In en entries -> e_has_try en = true -> forall c,
  exists cl, handles (e_chain en) (of_class c) = Some cl /\ reported (Some cl) = Some (documented_code c).
Proof.
  intros en Hin HT c. pose proof all_entries_documented as A. rewrite forallb_forall in A.
  specialize (A en Hin). unfold entry_documented in A. rewrite HT in A.
  apply andb_prop in A as [A _]. apply andb_prop in A as [A _]. apply andb_prop in A as [A _].
  rewrite forallb_forall in A. specialize (A c (all_cls_complete c)).
  destruct (handles (e_chain en) (of_class c)) as [cl|]; [|discriminate].
  exists cl; split; [reflexivity|].
  destruct (reported (Some cl)) as [k|]; [|discriminate]. apply ecode_eqb_eq in A. now subst.
Qed.

(* ---- output handles: address of a temporary stored through an output parameter ------------------- *)

Fixpoint rev_prefix (a b : string) : bool :=      (* a is a prefix of b *)
  match a, b with
  | EmptyString, _ => true
  | String x a', String y b' => Ascii.eqb x y && rev_prefix a' b'
  | _, EmptyString => false
  end.
Fixpoint srev (s acc : string) : string := match s with EmptyString => acc | String c r => srev r (String c acc) end.
Definition ends_with (suffix s : string) : bool := rev_prefix (srev suffix EmptyString) (srev s EmptyString).

(* known finding: the four `get_<representation>` templates of ppl_interface_generator_c_cc_code.m4 (address of a
   temporary); the `linear_partition` outputs are owned objects since the fix of that template *)
Definition exempt_getter (n : string) : bool :=
  existsb (fun suf => ends_with suf n) ["_get_constraints"; "_get_minimized_constraints"; "_get_congruences"; "_get_minimized_congruences"].

Definition no_dangling_outputs_full : Prop := dangling_outputs = [].

Lemma dangling_only_getters : forallb exempt_getter dangling_outputs = true.
Proof. vm_compute. reflexivity. Qed.

Lemma dangling_names_are_entries : forallb (fun n => str_mem n entry_names) dangling_outputs = true.
Proof. vm_compute. reflexivity. Qed.

(* ---- time-outs: the exception object handed to the watchdog ----------------------------------------- *)

Definition timeout_registration_full : Prop :=
  timeout_registrations = [("ppl_set_deterministic_timeout", CT_class DetTimeout); ("ppl_set_timeout", CT_class Timeout)].

(* what IS true on the tree: both setters register an object of one of the two time-out classes, so an
   expired time-out is reported as PPL_TIMEOUT_EXCEPTION (which watchdog is disarmed is another matter) *)
Lemma timeout_registrations_timeout_class :
  forallb (fun p => match snd p with CT_class c => ecode_eqb (documented_code c) TIMEOUT_EXCEPTION | _ => false end)
          timeout_registrations = true
  /\ forallb (fun n => str_mem n (map fst timeout_registrations)) ["ppl_set_timeout"; "ppl_set_deterministic_timeout"] = true.
Proof. split; vm_compute; reflexivity. Qed.

(* after /repo 5150800 the full statement holds: each setter hands the watchdog an object of ITS OWN class ... *)
Lemma timeout_registration_holds : timeout_registration_full.
Proof. unfold timeout_registration_full. vm_compute. reflexivity. Qed.

(* ... so the handler that runs on expiry disarms the watchdog that expired, before notifying *)
Definition resets_own_watchdog (p : string * ctype) : bool :=
  match snd p with
  | CT_class c =>
      forallb (fun ch => match handles ch (of_class c) with
                         | Some cl => match c_actions cl with
                                      | ResetDetTimeout :: Notify (Code TIMEOUT_EXCEPTION) :: _ => String.eqb (fst p) "ppl_set_deterministic_timeout"
                                      | ResetTimeout :: Notify (Code TIMEOUT_EXCEPTION) :: _ => String.eqb (fst p) "ppl_set_timeout"
                                      | _ => false end
                         | None => false end) nonempty_chains
  | _ => false
  end.

Lemma registered_handlers_reset_own_watchdog : forallb resets_own_watchdog timeout_registrations = true.
Proof. vm_compute. reflexivity. Qed.
