(* C20 -- the partial-function wrapper of the C interface (Array_Partial_Function_Wrapper,
   ppl_c_implementation_common_defs.hh / _inlines.hh): an array of dimensions, not_a_dimension() = undefined,
   given to map_space_dimensions.  Model: list (option nat).  The three observers and their specification;
   the real class is compared with this model on every array over {undefined, 0..3} of length <= 4 (harness
   run_cif_misc, lines P) and through every ppl_<D>_map_space_dimensions driver. *)
From Coq Require Import List Arith Bool Lia.
Import ListNotations.

Definition pfun := list (option nat).

Definition maps (v : pfun) (i : nat) : option nat := nth i v None.

Definition has_empty_codomain (v : pfun) : bool :=
  forallb (fun o => match o with None => true | Some _ => false end) v.

(* meaningful only when the codomain is not empty (as in the C++ Partial_Function protocol) *)
Definition max_in_codomain (v : pfun) : nat :=
  fold_left (fun m o => match o with Some j => Nat.max m j | None => m end) v 0.

Theorem has_empty_codomain_spec : forall v, has_empty_codomain v = true <-> forall i, maps v i = None.
Proof.
  induction v as [|o v IH]; cbn.
  - split; [intros _ i; now destruct i | reflexivity].
  - destruct o as [j|].
    + split; [discriminate | intros H; specialize (H 0); cbn in H; discriminate].
    + rewrite IH. split; intros H i.
      * destruct i; [reflexivity | apply H].
      * apply (H (S i)).
Qed.

Lemma fold_max_ge : forall v m, m <= fold_left (fun m o => match o with Some j => Nat.max m j | None => m end) v m.
Proof. induction v as [|o v IH]; intros m; cbn; [lia|]. destruct o; [etransitivity; [|apply IH]; lia | apply IH]. Qed.

Lemma fold_max_mono : forall v m m', m <= m' ->
  fold_left (fun m o => match o with Some j => Nat.max m j | None => m end) v m
  <= fold_left (fun m o => match o with Some j => Nat.max m j | None => m end) v m'.
Proof. induction v as [|o v IH]; intros m m' H; cbn; [lia|]. destruct o; apply IH; lia. Qed.

Theorem max_in_codomain_upper : forall v i j, maps v i = Some j -> j <= max_in_codomain v.
Proof.
  unfold max_in_codomain, maps. intros v. generalize 0 as m.
  induction v as [|o v IH]; intros m i j H; [destruct i; discriminate|].
  destruct i; cbn in *.
  - subst o. etransitivity; [|apply fold_max_ge]. lia.
  - eapply IH; eauto.
Qed.

Theorem max_in_codomain_attained : forall v, has_empty_codomain v = false -> exists i, maps v i = Some (max_in_codomain v).
Proof.
  unfold max_in_codomain.
  assert (G : forall v m, (fold_left (fun m o => match o with Some j => Nat.max m j | None => m end) v m = m)
                          \/ exists i, maps v i = Some (fold_left (fun m o => match o with Some j => Nat.max m j | None => m end) v m)).
  { induction v as [|o v IH]; intros m; cbn; [now left|].
    destruct o as [j|].
    - destruct (IH (Nat.max m j)) as [E|[i Hi]].
      + rewrite E. destruct (Nat.max_spec m j) as [[_ E2]|[_ E2]]; rewrite E2.
        * right. exists 0. reflexivity.
        * now left.
      + right. exists (S i). exact Hi.
    - destruct (IH m) as [E|[i Hi]]; [now left | right; exists (S i); exact Hi]. }
  intros v Hne. destruct (G v 0) as [E|H]; [|exact H].
  (* the fold stayed at 0: some defined position holds 0 *)
  rewrite E. clear G.
  assert (exists i j, maps v i = Some j) as (i & j & Hi).
  { clear E. induction v as [|o v IH]; [discriminate|]. cbn in Hne. destruct o as [j|].
    - exists 0, j. reflexivity.
    - destruct (IH Hne) as (i & j & H). exists (S i), j. exact H. }
  pose proof (max_in_codomain_upper v i j Hi) as U. unfold max_in_codomain in U. rewrite E in U.
  exists i. rewrite Hi. f_equal. lia.
Qed.
