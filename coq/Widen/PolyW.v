(* C08 -- the generic wrappers of Generic.v on the verified rational oracle (Base/Sys.v): the executable
   reference the judge runs for limited extrapolations and the token protocol, with its exactness. *)
From Coq Require Import List ZArith QArith Bool Arith Lia.
Require Import PPLV.Base.FM PPLV.Base.Sys PPLV.Poly.PolyOps PPLV.Widen.Generic.
Import ListNotations.

(* x entails c, decided by the exact inclusion test *)
Definition entails_b (n : nat) (x : sys) (c : con) : option bool := incl_sys n x (sys_of_cons [c]).

Lemma sat_single c p : sat_sys (sys_of_cons [c]) p <-> sat_con c p.
Proof.
  rewrite sys_of_cons_sat. unfold sat_cons. split.
  - intros H. apply H. now left.
  - intros H c' [<-|[]]. exact H.
Qed.

Lemma entails_b_exact n x c b :
  entails_b n x c = Some b -> (b = true <-> forall p, sat_sys x p -> sat_con c p).
Proof.
  unfold entails_b. intros H. rewrite (incl_sys_exact _ _ _ _ H). split; intros X p Hp.
  - apply sat_single. now apply X.
  - apply sat_single. now apply X.
Qed.

Fixpoint select_cs (n : nat) (x : sys) (cs : list con) : option (list con) :=
  match cs with
  | [] => Some []
  | c :: r =>
      match entails_b n x c, select_cs n x r with
      | Some b, Some l => Some (if b then c :: l else l)
      | _, _ => None
      end
  end.

Lemma select_cs_exact n x : forall cs l, select_cs n x cs = Some l ->
  forall c, In c l <-> In c cs /\ forall p, sat_sys x p -> sat_con c p.
Proof.
  induction cs as [|c0 r IH]; cbn [select_cs]; intros l H c.
  - injection H as <-. cbn. tauto.
  - destruct (entails_b n x c0) as [b|] eqn:E; [|discriminate].
    destruct (select_cs n x r) as [l'|] eqn:S; [|discriminate]. injection H as <-.
    pose proof (entails_b_exact _ _ _ _ E) as Eb. specialize (IH l' eq_refl c).
    destruct b; cbn [In]; rewrite ?IH.
    + split.
      * intros [<-|[H1 H2]]; [split; [now left|now apply Eb]|split; [now right|assumption]].
      * intros [[<-|H1] H2]; [now left|right; now split].
    + split.
      * intros [H1 H2]. split; [now right|assumption].
      * intros [[<-|H1] H2]; [|now split]. apply Eb in H2. discriminate.
Qed.

(* (x widen y) meet { c in cs | x entails c }, for the library's own result w of the plain widening *)
Definition limited_ref (n : nat) (x w : sys) (cs : list con) : option sys :=
  match select_cs n x cs with
  | Some l => Some (union_sys w (sys_of_cons l))
  | None => None
  end.

Theorem limited_ref_exact n x w cs r : limited_ref n x w cs = Some r ->
  forall p, sat_sys r p <->
            sat_sys w p /\ forall c, In c cs -> (forall q, sat_sys x q -> sat_con c q) -> sat_con c p.
Proof.
  unfold limited_ref. destruct (select_cs n x cs) as [l|] eqn:S; [|discriminate]. intros [= <-] p.
  rewrite meet_spec, sys_of_cons_sat. unfold sat_cons. pose proof (select_cs_exact _ _ _ _ S) as Sel.
  split; intros [H1 H2]; split; auto.
  - intros c Hc He. apply H2. apply Sel. now split.
  - intros c Hc. apply Sel in Hc. destruct Hc as [Hc He]. now apply H2.
Qed.

(* it is the generic [limited] of Generic.v: same denotation *)
Theorem limited_ref_is_generic n x w cs r : limited_ref n x w cs = Some r ->
  forall p, sat_sys r p <->
    sat_sys w p /\ forall c, In c cs -> entails sys point sat_sys con sat_con x c -> sat_con c p.
Proof. exact (limited_ref_exact n x w cs r). Qed.

(* the token protocol as numbers: what the judge evaluates *)
Definition tok_keeps_x (t : nat) : bool := Nat.ltb 0 t.
Definition tok_after (contained : bool) (t : nat) : nat :=
  if Nat.ltb 0 t then (if contained then t else t - 1) else t.

Lemma widen_tok_as_numbers (D : Type) (widen : D -> D -> D) (leb : D -> D -> bool) x y t :
  widen_tok D widen leb x y t =
  (if tok_keeps_x t then x else widen x y, tok_after (leb (widen x y) x) t).
Proof. unfold widen_tok, tok_keeps_x, tok_after. destruct (Nat.ltb 0 t); reflexivity. Qed.
