(* C08 -- the multiset-of-certificates order of the powerset widening, transcribed from
   Pointset_Powerset<PSET>::collect_certificates and ::is_cert_multiset_stabilizing
   (src/Pointset_Powerset_templates.hh), and its well-foundedness.

   A multiset is a std::map<Cert, size_type, Cert::Compare>; Compare()(x, y) is x.compare(y) == 1, so the
   map is iterated from the GREATEST certificate down.  It is modelled by the association list of the map in
   iteration order. *)
From Coq Require Import List ZArith Lia Bool Arith Wellfounded.
Require Import PPLV.Widen.Cert.
Import ListNotations.

Section MS.
  Variable C : Type.
  Variable cmp : C -> C -> Z.                       (* x.compare(y) *)
  Definition before (x y : C) : bool := Z.eqb (cmp x y) 1.     (* Compare()(x, y) *)

  (* ++cert_ms[c] : find the position by the map's ordering; keys neither before nor after each other
     are the same key for the map *)
  Fixpoint ms_insert (c : C) (m : list (C * nat)) : list (C * nat) :=
    match m with
    | [] => [(c, 1)]
    | (d, k) :: r =>
        if before c d then (c, 1) :: m
        else if before d c then (d, k) :: ms_insert c r
        else (d, S k) :: r
    end.
  (* collect_certificates: for each disjunct, ++cert_ms[Cert(disjunct)] *)
  Definition ms_of_list (l : list C) : list (C * nat) := fold_left (fun m c => ms_insert c m) l [].

  (* is_cert_multiset_stabilizing: *this has multiset x, the argument is y_cert_ms *)
  Fixpoint ms_stabilizing (x y : list (C * nat)) : bool :=
    match x, y with
    | (xc, xn) :: x', (yc, yn) :: y' =>
        match cmp xc yc with
        | Z0 => if Nat.eqb xn yn then ms_stabilizing x' y' else Nat.ltb xn yn
        | Zpos _ => false                            (* case 1: xi_cert > yi_cert: not stabilizing *)
        | Zneg _ => true                             (* case -1: xi_cert < yi_cert: stabilizing *)
        end
    | _, [] => false                                 (* return yi != y_cert_ms_end *)
    | [], _ :: _ => true
    end.
End MS.

Arguments ms_insert {C}. Arguments ms_of_list {C}. Arguments ms_stabilizing {C}.

(* a key-preserving renaming does not change the verdict *)
Lemma ms_stabilizing_map {C K} (cmp : C -> C -> Z) (cmp' : K -> K -> Z) (f : C -> K) :
  (forall a b, cmp a b = cmp' (f a) (f b)) ->
  forall x y, ms_stabilizing cmp x y =
              ms_stabilizing cmp' (map (fun e => (f (fst e), snd e)) x) (map (fun e => (f (fst e), snd e)) y).
Proof.
  intros H. induction x as [|[xc xn] x IH]; intros [|[yc yn] y]; cbn; try reflexivity.
  rewrite <- H. destruct (cmp xc yc); try reflexivity. now rewrite IH.
Qed.

(* ------------------------------------------------------------------------------------------ *)
(* well-foundedness, for keys that are vectors of naturals of a fixed length k compared by the
   `!=`/`>` ladder (every certificate class of the library is of this kind) *)
Definition key := list nat.
Definition cmpv (a b : key) : Z := vec_ne_gt a b 0.

Lemma lexlt_trans a b : lexlt a b -> forall c, lexlt b c -> lexlt a c.
Proof.
  induction 1 as [a b l m Hab Hl|a l m Hlm IH]; intros c Hc;
    inversion Hc as [a0 b0 l0 m0 Hlt Hlen|a0 l0 m0 Hl0]; subst.
  - constructor; [lia|congruence].
  - constructor; [assumption|]. apply lexlt_length in Hl0. congruence.
  - constructor; [assumption|]. apply lexlt_length in Hlm. congruence.
  - apply lex_tl. now apply IH.
Qed.

Lemma vec_ne_gt_range a : forall b, length a = length b ->
  (cmpv a b = 0%Z /\ a = b) \/ (cmpv a b = 1%Z /\ lexlt b a) \/ (cmpv a b = (-1)%Z /\ lexlt a b).
Proof.
  unfold cmpv. induction a as [|x a IH]; intros [|y b] L; try discriminate; cbn [vec_ne_gt].
  - left. auto.
  - injection L as L. unfold ne_gt. destruct (Nat.eqb_spec x y) as [->|N].
    + destruct (IH b L) as [[E ->]|[[E H]|[E H]]]; rewrite E.
      * left. auto.
      * right. left. split; [reflexivity|now apply lex_tl].
      * right. right. split; [reflexivity|now apply lex_tl].
    + destruct (Nat.ltb_spec y x).
      * right. left. split; [reflexivity|]. constructor; [assumption|congruence].
      * right. right. split; [reflexivity|]. constructor; [lia|assumption].
Qed.

Lemma lexlt_irrefl a : ~ lexlt a a.
Proof. intros H. remember a as b in H at 2. revert Heqb. induction H; intros E; injection E; intros; subst; [lia|auto]. Qed.

Definition ms := list (key * nat).

(* strictly descending keys of length k, all below c *)
Fixpoint below (k : nat) (c : key) (y : ms) : Prop :=
  match y with
  | [] => True
  | (d, _) :: y' => length d = k /\ lexlt d c /\ below k d y'
  end.
Definition sorted (k : nat) (y : ms) : Prop :=
  match y with [] => True | (d, _) :: y' => length d = k /\ below k d y' end.

Lemma below_weaken k d c y : below k d y -> lexlt d c -> below k c y.
Proof.
  destruct y as [|[e n] y]; cbn; [auto|]. intros (L & H & B) Hdc. repeat split; auto.
  now apply (lexlt_trans e d).
Qed.
Lemma below_sorted k c y : below k c y -> sorted k y.
Proof. destruct y as [|[e n] y]; cbn; tauto. Qed.

Definition mlt (k : nat) (x y : ms) : Prop := sorted k x /\ sorted k y /\ ms_stabilizing cmpv x y = true.

Lemma mlt_nil k x : ~ mlt k x [].
Proof. intros (_ & _ & H). destruct x as [|[? ?] ?]; discriminate. Qed.

(* the predecessors of a multiset below c are below c *)
Lemma mlt_below k c x y : mlt k x y -> below k c y -> below k c x.
Proof.
  intros (Sx & Sy & H) B. destruct x as [|[d m] x]; [exact I|].
  destruct y as [|[e n] y]; [discriminate|]. cbn in Sx, B, H |- *.
  destruct Sx as (Ld & Bx). destruct B as (Le & Hec & By). repeat split; auto.
  destruct (vec_ne_gt_range d e) as [[E ->]|[[E _]|[E Hl]]]; [congruence|assumption|..].
  - rewrite E in H. discriminate.
  - now apply (lexlt_trans d e).
Qed.

Lemma acc_cons k c :
  (forall y, below k c y -> Acc (mlt k) y) ->
  forall n y, below k c y -> length c = k -> Acc (mlt k) ((c, n) :: y).
Proof.
  intros HS. induction n as [n IHn] using lt_wf_ind. intros y By Lc.
  pose proof (HS y By) as Ay. revert By. induction Ay as [y _ IHy]. intros By.
  constructor. intros x Hx. pose proof Hx as (Sx & Sy & H).
  destruct x as [|[d m] x].
  - constructor. intros z Hz. now apply mlt_nil in Hz.
  - cbn in Sx. destruct Sx as (Ld & Bx). cbn [ms_stabilizing] in H.
    destruct (vec_ne_gt_range d c) as [[E ->]|[[E _]|[E Hl]]]; [congruence|..]; rewrite E in H.
    + destruct (Nat.eqb_spec m n) as [->|N].
      * apply IHy; [|assumption]. repeat split; [now apply (below_sorted k c)|now apply (below_sorted k c)|assumption].
      * apply Nat.ltb_lt in H. apply IHn; assumption.
    + discriminate.
    + apply HS. cbn. auto.
Qed.

Lemma acc_below k : forall c y, below k c y -> Acc (mlt k) y.
Proof.
  intros c. induction c as [c IH] using (well_founded_induction lexlt_wf). intros y By.
  destruct y as [|[d n] y].
  - constructor. intros z Hz. now apply mlt_nil in Hz.
  - cbn in By. destruct By as (Ld & Hdc & By).
    apply acc_cons; [intros z Bz; now apply (IH d Hdc)|assumption|assumption].
Qed.

Theorem mlt_wf k : well_founded (mlt k).
Proof.
  intros y. constructor. intros x (Sx & _ & _). clear y.
  destruct x as [|[d n] x].
  - constructor. intros z Hz. now apply mlt_nil in Hz.
  - cbn in Sx. destruct Sx as (Ld & Bx). apply acc_cons; auto. intros y. apply acc_below.
Qed.

(* collect_certificates builds such sorted association lists *)
Lemma ms_insert_sorted k c : length c = k -> forall m, sorted k m ->
  sorted k (ms_insert cmpv c m) /\
  (forall b, lexlt c b -> below k b m -> below k b (ms_insert cmpv c m)).
Proof.
  intros Lc. induction m as [|[d n] m IH]; intros S.
  - cbn. repeat split; auto.
  - cbn in S. destruct S as (Ld & Bm). cbn [ms_insert]. unfold before.
    destruct (vec_ne_gt_range c d) as [[E ->]|[[E Hl]|[E Hl]]]; [congruence|..]; rewrite E; cbn [Z.eqb Pos.eqb].
    + (* same key: count incremented *)
      cbn. split; [split; assumption|]. intros b Hb (_ & H1 & H2). auto.
    + cbn. split; [repeat split; assumption|]. intros b Hb (_ & H1 & H2). repeat split; auto.
    + destruct (vec_ne_gt_range d c) as [[E' ->]|[[E' Hl']|[E' Hl']]]; [congruence|..].
      * exfalso. now apply (lexlt_irrefl c).
      * rewrite E'. cbn [Z.eqb Pos.eqb].
        destruct (IH (below_sorted _ _ _ Bm)) as [S' B']. cbn. split.
        -- split; [assumption|]. now apply B'.
        -- intros b Hb (_ & H1 & H2). repeat split; auto.
      * exfalso. apply (lexlt_irrefl c). now apply (lexlt_trans c d).
Qed.

Theorem ms_of_list_sorted k l : (forall c, In c l -> length c = k) -> sorted k (ms_of_list cmpv l).
Proof.
  unfold ms_of_list. assert (G : forall l m, (forall c, In c l -> length c = k) -> sorted k m ->
                                  sorted k (fold_left (fun m c => ms_insert cmpv c m) l m)).
  { clear l. induction l as [|c l IH]; intros m Hl Sm; cbn; [assumption|].
    apply IH; [intros; apply Hl; now right|]. apply ms_insert_sorted; [apply Hl; now left|assumption]. }
  intros Hl. now apply G.
Qed.

(* ------------------------------------------------------------------------------------------ *)
(* for the certificate classes *)
Definition keyed {C} (f : C -> key) (x : list (C * nat)) : ms := map (fun e => (f (fst e), snd e)) x.

Lemma bhrz03_compare_cmpv x y : bhrz03_compare x y = cmpv (bhrz03_vec x) (bhrz03_vec y).
Proof. reflexivity. Qed.
Lemma h79_compare_cmpv x y : h79_compare x y = cmpv (h79_vec x) (h79_vec y).
Proof. reflexivity. Qed.

(* x is below y when x.is_cert_multiset_stabilizing(y) on multisets built by collect_certificates from
   polyhedra of space dimension n *)
Definition bhrz03_ms_lt (n : nat) (x y : list (bhrz03_cert * nat)) : Prop :=
  sorted (4 + n) (keyed bhrz03_vec x) /\ sorted (4 + n) (keyed bhrz03_vec y) /\
  ms_stabilizing bhrz03_compare x y = true.
Definition h79_ms_lt (x y : list (h79_cert * nat)) : Prop :=
  sorted 2 (keyed h79_vec x) /\ sorted 2 (keyed h79_vec y) /\ ms_stabilizing h79_compare x y = true.

Theorem bhrz03_multiset_wf n : well_founded (bhrz03_ms_lt n).
Proof.
  apply (wf_incl _ _ (fun x y => mlt (4 + n) (keyed bhrz03_vec x) (keyed bhrz03_vec y))).
  - intros x y (Sx & Sy & H). repeat split; auto.
    rewrite <- H. symmetry. apply ms_stabilizing_map. exact bhrz03_compare_cmpv.
  - apply (wf_inverse_image _ _ (mlt (4 + n)) (keyed bhrz03_vec)), mlt_wf.
Qed.
Theorem h79_multiset_wf : well_founded h79_ms_lt.
Proof.
  apply (wf_incl _ _ (fun x y => mlt 2 (keyed h79_vec x) (keyed h79_vec y))).
  - intros x y (Sx & Sy & H). repeat split; auto.
    rewrite <- H. symmetry. apply ms_stabilizing_map. exact h79_compare_cmpv.
  - apply (wf_inverse_image _ _ (mlt 2) (keyed h79_vec)), mlt_wf.
Qed.

(* collect_certificates commutes with the keying, so its results are in the domain of the theorem *)
Lemma ms_insert_keyed {C} (cmp : C -> C -> Z) (f : C -> key) :
  (forall a b, cmp a b = cmpv (f a) (f b)) ->
  forall c m, keyed f (ms_insert cmp c m) = ms_insert cmpv (f c) (keyed f m).
Proof.
  intros H c. induction m as [|[d n] m IH]; cbn; [reflexivity|]. unfold before. rewrite <- !H.
  destruct (Z.eqb (cmp c d) 1); [reflexivity|]. destruct (Z.eqb (cmp d c) 1); cbn; [|reflexivity].
  f_equal. exact IH.
Qed.
Lemma ms_of_list_keyed {C} (cmp : C -> C -> Z) (f : C -> key) :
  (forall a b, cmp a b = cmpv (f a) (f b)) ->
  forall l, keyed f (ms_of_list cmp l) = ms_of_list cmpv (map f l).
Proof.
  intros H l. unfold ms_of_list.
  assert (G : forall l m, keyed f (fold_left (fun m c => ms_insert cmp c m) l m) =
                          fold_left (fun m c => ms_insert cmpv c m) (map f l) (keyed f m)).
  { clear l. induction l as [|c l IH]; intros m; cbn [fold_left map]; [reflexivity|].
    rewrite IH. f_equal. apply (ms_insert_keyed cmp f H). }
  apply (G l []).
Qed.

Theorem bhrz03_collect_sorted n l : (forall c, In c l -> length (b_rays c) = n) ->
  sorted (4 + n) (keyed bhrz03_vec (ms_of_list bhrz03_compare l)).
Proof.
  intros Hl. rewrite (ms_of_list_keyed _ _ bhrz03_compare_cmpv). apply ms_of_list_sorted.
  intros c Hc. apply in_map_iff in Hc. destruct Hc as (c0 & <- & Hc0). unfold bhrz03_vec.
  rewrite app_length. cbn. now rewrite (Hl c0 Hc0).
Qed.
