(* C08 -- the transcription in Cert.v IS the source: the ladders regenerated from /repo on every run
   (coq/gen/Facts_Cert.v), interpreted by [run], give exactly the functions the theorems are about.
   Every lemma is by computation: it stops being provable as soon as a rung is moved, dropped, added,
   or has its comparison flipped in the source. *)
From Coq Require Import List ZArith.
Import ListNotations.
Require Import PPLV.Widen.Cert PPLV.gen.Facts_Cert.

Lemma bhrz03_compare_is_source x y :
  bhrz03_compare x y = run bhrz03_cc_ladder (bhrz03_fields x) (bhrz03_fields y).
Proof. reflexivity. Qed.
Lemma bhrz03_compare_ph_is_source x p :
  bhrz03_compare_ph x p = run bhrz03_ph_ladder (bhrz03_fields p) (bhrz03_fields x).
Proof. reflexivity. Qed.
Lemma h79_compare_is_source x y :
  h79_compare x y = run h79_cc_ladder (h79_fields x) (h79_fields y).
Proof. reflexivity. Qed.
Lemma h79_compare_ph_is_source x p :
  h79_compare_ph x p = run h79_ph_ladder (h79_fields p) (h79_fields x).
Proof. reflexivity. Qed.
Lemma grid_compare_is_source x y :
  grid_compare x y = run grid_cc_ladder (grid_fields x) (grid_fields y).
Proof.
  unfold grid_compare, grid_cc_ladder, run, grid_fields, vec_ne_gt, ne_gt.
  destruct (Nat.eqb _ _); reflexivity.
Qed.
(* is_stabilizing(ph) is `compare(ph) == 1`; Compare()(x, y) is `x.compare(y) == 1` *)
Lemma stab_constants_are_source :
  bhrz03_stab_value = 1%Z /\ grid_stab_value = 1%Z /\
  bhrz03_sort_value = 1%Z /\ h79_sort_value = 1%Z /\ grid_sort_value = 1%Z.
Proof. repeat split; reflexivity. Qed.
