(* C08 -- what is common to every widening of the library, for an abstract domain given by a
   denotation [den : D -> Pt -> Prop]:  the order and equality are those of the DENOTATIONS
   (so every statement below is about values, not representations).

   Conventions of PPL:  [widen x y]  is  x.W_widening_assign(y)  and REQUIRES  y <= x
   (the receiver is the larger argument).

     widen_tok      the `tp' protocol of Polyhedron::H79_widening_assign (and of the weakly
                    relational shapes, boxes, grids):  the widening is computed aside; with a
                    token available x is left as it is and the token is spent iff the widening is
                    not contained in x; without tokens the widening is assigned
     widen_tok_b    the shape used by Polyhedron::BHRZ03_widening_assign: "immediately
                    stabilizing" is tested first, then a token is spent without computing anything
     limited        (x widen y) meet { c in cs | x entails c }
     bounded        limited meet (constraints of the CC76-widened bounding box)
     it             x_0 = y_0,  x_{k+1} = (x_k join y_{k+1}).widening_assign(x_k)             *)
From Coq Require Import List Arith Lia Bool Wellfounded Relations.
Import ListNotations.

Section Generic.
  Variable D : Type.
  Variable Pt : Type.
  Variable den : D -> Pt -> Prop.

  Definition le (a b : D) : Prop := forall p, den a p -> den b p.
  Definition deq (a b : D) : Prop := forall p, den a p <-> den b p.

  Lemma le_refl a : le a a. Proof. intros p H; exact H. Qed.
  Lemma le_trans a b c : le a b -> le b c -> le a c. Proof. intros H1 H2 p H; auto. Qed.
  Lemma deq_refl a : deq a a. Proof. intros p; reflexivity. Qed.
  Lemma deq_sym a b : deq a b -> deq b a. Proof. intros H p; symmetry; apply H. Qed.
  Lemma deq_trans a b c : deq a b -> deq b c -> deq a c.
  Proof. intros H1 H2 p. rewrite (H1 p). apply H2. Qed.
  Lemma le_antisym a b : le a b -> le b a -> deq a b. Proof. intros H1 H2 p; split; auto. Qed.
  Lemma deq_le a b : deq a b -> le a b. Proof. intros H p; apply H. Qed.

  Variable widen : D -> D -> D.

  (* ---------------------------------------------------------------------------------------- *)
  Section Tokens.
    Variable leb : D -> D -> bool.                       (* x.contains(w) *)
    Hypothesis leb_ok : forall a b, leb a b = true <-> le a b.
    Hypothesis widen_ub : forall x y, le y x -> le x (widen x y).

    Definition widen_tok (x y : D) (t : nat) : D * nat :=
      let w := widen x y in
      if Nat.ltb 0 t then (x, if leb w x then t else t - 1) else (w, t).

    (* token consumed iff the plain widening is not contained in x; x unchanged whenever a token
       was available (and then, if none was consumed, x already IS the plain widening) *)
    Theorem tokens_spec x y t : le y x ->
      let r := widen_tok x y t in
      (t = 0 -> r = (widen x y, 0)) /\
      (0 < t -> fst r = x
                /\ (snd r = t - 1 <-> ~ le (widen x y) x)
                /\ (snd r = t <-> le (widen x y) x)
                /\ (snd r = t -> deq x (widen x y))).
    Proof.
      intros Hyx. unfold widen_tok. cbv zeta. split.
      - intros ->. reflexivity.
      - intros Ht. destruct (Nat.ltb_spec 0 t) as [_|]; [|lia]. cbn [fst snd].
        destruct (leb (widen x y) x) eqn:E.
        + assert (L : le (widen x y) x) by now apply leb_ok.
          split; [reflexivity|]. split; [split; [lia|contradiction]|]. split; [tauto|].
          intros _. apply le_antisym; auto.
        + assert (L : ~ le (widen x y) x) by (intros L; apply leb_ok in L; congruence).
          split; [reflexivity|]. split; [tauto|]. split; [split; [lia|contradiction]|]. lia.
    Qed.

    (* BHRZ03: [stab x y]  is  y_cert.is_stabilizing(x) || y.contains(x) *)
    Variable stab : D -> D -> bool.
    Definition widen_tok_b (x y : D) (t : nat) : D * nat :=
      if stab x y then (x, t) else if Nat.ltb 0 t then (x, t - 1) else (widen x y, t).

    (* under the two facts the code relies on (an immediately stabilizing pair is returned as it is
       by the plain widening too; otherwise the plain widening strictly grows) the BHRZ03 shape
       meets the same specification *)
    Hypothesis stab_fix : forall x y, le y x -> stab x y = true -> deq (widen x y) x.
    Hypothesis unstab_grows : forall x y, le y x -> stab x y = false -> ~ le (widen x y) x.

    Theorem tokens_spec_b x y t : le y x ->
      let r := widen_tok_b x y t in
      (t = 0 -> snd r = 0 /\ deq (fst r) (widen x y)) /\
      (0 < t -> fst r = x
                /\ (snd r = t - 1 <-> ~ le (widen x y) x)
                /\ (snd r = t <-> le (widen x y) x)
                /\ (snd r = t -> deq x (widen x y))).
    Proof.
      intros Hyx. unfold widen_tok_b. cbv zeta. destruct (stab x y) eqn:S.
      - pose proof (stab_fix x y Hyx S) as F. cbn [fst snd]. split.
        + intros ->. split; [reflexivity|]. now apply deq_sym.
        + intros Ht. assert (L : le (widen x y) x) by now apply deq_le.
          split; [reflexivity|]. split; [split; [lia|contradiction]|]. split; [tauto|].
          intros _. now apply deq_sym.
      - pose proof (unstab_grows x y Hyx S) as G. split.
        + intros ->. cbn. split; [reflexivity|apply deq_refl].
        + intros Ht. destruct (Nat.ltb_spec 0 t) as [_|]; [|lia]. cbn [fst snd].
          split; [reflexivity|]. split; [tauto|]. split; [split; [lia|contradiction]|]. lia.
    Qed.
  End Tokens.

  (* ---------------------------------------------------------------------------------------- *)
  Section Limited.
    Variable K : Type.                                   (* constraints *)
    Variable kden : K -> Pt -> Prop.
    Definition entails (x : D) (c : K) : Prop := forall p, den x p -> kden c p.
    Variable entb : D -> K -> bool.                      (* satisfied_by_all_generators *)
    Hypothesis entb_ok : forall x c, entb x c = true <-> entails x c.
    Variable meet_cs : D -> list K -> D.                 (* add_recycled_constraints *)
    Hypothesis meet_cs_ok : forall d l p, den (meet_cs d l) p <-> den d p /\ forall c, In c l -> kden c p.
    Hypothesis widen_ub : forall x y, le y x -> le x (widen x y).

    Definition limited (x y : D) (cs : list K) : D := meet_cs (widen x y) (filter (entb x) cs).

    Theorem limited_exact x y cs p :
      den (limited x y cs) p <-> den (widen x y) p /\ forall c, In c cs -> entails x c -> kden c p.
    Proof.
      unfold limited. rewrite meet_cs_ok. split; intros [H1 H2]; split; auto.
      - intros c Hc He. apply H2. apply filter_In. split; [assumption|]. now apply entb_ok.
      - intros c Hc. apply filter_In in Hc. destruct Hc as [Hc He]. apply H2; [assumption|]. now apply entb_ok.
    Qed.

    Theorem limited_between x y cs : le y x ->
      le x (limited x y cs) /\ le (limited x y cs) (widen x y) /\
      forall c, In c cs -> entails x c -> entails (limited x y cs) c.
    Proof.
      intros Hyx. split; [|split].
      - intros p Hp. apply limited_exact. split; [now apply widen_ub|]. intros c _ He. now apply He.
      - intros p Hp. now apply limited_exact in Hp.
      - intros c Hc He p Hp. apply limited_exact in Hp. destruct Hp as [_ Hp]. now apply Hp.
    Qed.

    (* bounded extrapolation: additionally the constraints of a box known to contain x *)
    Variable boxw : D -> D -> list K.                    (* (box x) CC76-widened by (box y) *)
    Hypothesis boxw_ub : forall x y, le y x -> forall c, In c (boxw x y) -> entails x c.
    Definition bounded (x y : D) (cs : list K) : D := meet_cs (limited x y cs) (boxw x y).

    Theorem bounded_between x y cs : le y x ->
      le x (bounded x y cs) /\ le (bounded x y cs) (limited x y cs) /\
      (forall c, In c cs -> entails x c -> entails (bounded x y cs) c) /\
      (forall c, In c (boxw x y) -> entails (bounded x y cs) c).
    Proof.
      intros Hyx. destruct (limited_between x y cs Hyx) as (L1 & L2 & L3). unfold bounded. repeat split.
      - intros p Hp. apply meet_cs_ok. split; [now apply L1|]. intros c Hc. now apply (boxw_ub x y Hyx c Hc).
      - intros p Hp. now apply meet_cs_ok in Hp.
      - intros c Hc He p Hp. apply meet_cs_ok in Hp. destruct Hp as [Hp _]. now apply (L3 c Hc He).
      - intros c Hc p Hp. apply meet_cs_ok in Hp. destruct Hp as [_ Hp]. now apply Hp.
    Qed.
  End Limited.

  (* ---------------------------------------------------------------------------------------- *)
  Section Iteration.
    Variable join : D -> D -> D.
    Hypothesis join_ub_l : forall a b, le a (join a b).
    Hypothesis join_ub_r : forall a b, le b (join a b).
    Hypothesis widen_ub : forall x y, le y x -> le x (widen x y).

    Variable y : nat -> D.
    Hypothesis chain : forall k, le (y k) (y (S k)).

    Fixpoint it (k : nat) : D :=
      match k with
      | O => y 0
      | S k' => widen (join (it k') (y (S k'))) (it k')
      end.

    Theorem iteration_upper_bound k : le (y k) (it k) /\ le (it k) (it (S k)).
    Proof.
      assert (Step : forall k, le (join (it k) (y (S k))) (it (S k))).
      { intros j. cbn [it]. apply widen_ub, join_ub_l. }
      split.
      - destruct k as [|k]; [apply le_refl|]. eapply le_trans; [apply join_ub_r|apply Step].
      - eapply le_trans; [apply join_ub_l|apply Step].
    Qed.

    Lemma it_mono k m : k <= m -> le (it k) (it m).
    Proof.
      induction 1; [apply le_refl|]. eapply le_trans; [eassumption|]. apply iteration_upper_bound.
    Qed.

    (* a stationary iterate is a post-fixpoint: it covers the whole chain *)
    Theorem stationary_covers_chain n :
      (forall m, n <= m -> deq (it m) (it n)) -> forall k, le (y k) (it n).
    Proof.
      intros St k. destruct (le_ge_dec k n) as [H|H].
      - eapply le_trans; [apply iteration_upper_bound|]. now apply it_mono.
      - eapply le_trans; [apply iteration_upper_bound|]. apply deq_le, St. exact H.
    Qed.

    (* the convergence certificate *)
    Variable C : Type.
    Variable cert : D -> C.
    Variable clt : C -> C -> Prop.
    Hypothesis clt_wf : well_founded clt.
    (* the certificate is a function of the value *)
    Hypothesis cert_value : forall a b, deq a b -> cert a = cert b.
    (* THE PER-STEP CHECK: a step that changes the value strictly decreases the certificate *)
    Hypothesis step_decreases :
      forall a b, le a b -> ~ deq (widen b a) a -> clt (cert (widen b a)) (cert a).

    Definition stationary_from (n : nat) : Prop := forall m, n <= m -> deq (it m) (it n).

    Lemma it_step_le k : le (it k) (join (it k) (y (S k))).
    Proof. apply join_ub_l. Qed.

    (* with value equality decided (the judge decides it with equiv_sys), no classical axiom *)
    Theorem certified_widening_terminates_nn :
      (forall a b, deq a b \/ ~ deq a b) -> ~ ~ exists n, stationary_from n.
    Proof.
      intros dec.
      assert (G : forall c, Acc clt c -> forall k, cert (it k) = c -> ~ ~ exists n, stationary_from n).
      { induction 1 as [c _ IH]. intros k Hc Hno. apply Hno. exists k.
        assert (forall m, k <= m -> deq (it m) (it k) /\ cert (it m) = c) as A.
        { induction 1 as [|m Hm [IHd IHc]]; [split; [apply deq_refl|assumption]|].
          destruct (dec (it (S m)) (it m)) as [E|N].
          - split; [eapply deq_trans; eassumption|]. rewrite <- IHc. now apply cert_value.
          - exfalso. cbn [it] in N. apply (step_decreases _ _ (it_step_le m)) in N.
            rewrite IHc in N. exact (IH _ N (S m) eq_refl Hno). }
        intros m Hm. now apply A. }
      exact (G _ (clt_wf _) 0 eq_refl).
    Qed.

    (* certificates only go down along the iteration *)
    Lemma cert_descends : (forall a b, deq a b \/ ~ deq a b) -> forall k j, k <= j ->
      cert (it j) = cert (it k) \/ clos_trans C clt (cert (it j)) (cert (it k)).
    Proof.
      intros dec k. induction 1 as [|j Hj IH]; [now left|].
      assert (S1 : cert (it (S j)) = cert (it j) \/ clt (cert (it (S j))) (cert (it j))).
      { destruct (dec (it (S j)) (it j)) as [E|N]; [left; now apply cert_value|right].
        exact (step_decreases _ _ (it_step_le j) N). }
      destruct S1 as [E|L]; [rewrite E; exact IH|].
      right. destruct IH as [E|T]; [rewrite <- E; now apply t_step|].
      eapply t_trans; [apply t_step; exact L|exact T].
    Qed.

    (* the positive statement, from the one instance of the limited principle of omniscience it needs:
       from any index on, either every later step is stationary or some later step is not *)
    Theorem certified_widening_terminates_lpo :
      (forall a b, deq a b \/ ~ deq a b) ->
      (forall k, (forall m, k <= m -> deq (it (S m)) (it m)) \/ (exists m, k <= m /\ ~ deq (it (S m)) (it m))) ->
      exists n, stationary_from n.
    Proof.
      intros dec lpo.
      assert (G : forall c, Acc (clos_trans C clt) c -> forall k, cert (it k) = c -> exists n, stationary_from n).
      { induction 1 as [c _ IH]. intros k Hc. destruct (lpo k) as [St|[m [Hm N]]].
        - exists k. intros m Hm. induction Hm as [|m Hm IHm]; [apply deq_refl|].
          eapply deq_trans; [apply St; exact Hm|exact IHm].
        - apply (IH (cert (it (S m)))) with (k := S m); [|reflexivity].
          rewrite <- Hc. pose proof (step_decreases _ _ (it_step_le m) N) as L.
          destruct (cert_descends dec k m Hm) as [E|T]; [rewrite <- E; now apply t_step|].
          eapply t_trans; [apply t_step; exact L|exact T]. }
      exact (G _ (wf_clos_trans _ _ clt_wf _) 0 eq_refl).
    Qed.
  End Iteration.
End Generic.

(* the statement as in the property, with excluded middle (Coq.Logic.Classical_Prop.classic) *)
Require Import Coq.Logic.Classical_Prop.

Theorem certified_widening_terminates_classic
  (D Pt : Type) (den : D -> Pt -> Prop) (widen join : D -> D -> D)
  (join_ub_l : forall a b, le D Pt den a (join a b))
  (y : nat -> D)
  (C : Type) (cert : D -> C) (clt : C -> C -> Prop) (clt_wf : well_founded clt)
  (cert_value : forall a b, deq D Pt den a b -> cert a = cert b)
  (step_decreases : forall a b, le D Pt den a b -> ~ deq D Pt den (widen b a) a -> clt (cert (widen b a)) (cert a)) :
  exists n, forall m, n <= m -> deq D Pt den (it D widen join y m) (it D widen join y n).
Proof.
  apply NNPP.
  apply (certified_widening_terminates_nn D Pt den widen join join_ub_l y C cert clt clt_wf cert_value step_decreases).
  intros a b. apply classic.
Qed.

(* ------------------------------------------------------------------------------------------ *)
(* the hypotheses are satisfiable: intervals [0,n] of naturals with a top element; the widening
   jumps to top when the argument grows; certificate 1 for an interval, 0 for top *)
Module Toy.
  Definition D := option nat.
  Definition den (d : D) (p : nat) : Prop := match d with Some n => p <= n | None => True end.
  Definition leb (a b : D) : bool :=
    match a, b with _, None => true | None, Some _ => false | Some n, Some m => Nat.leb n m end.
  Definition widen (x y : D) : D := if leb x y then x else None.
  Definition join (a b : D) : D :=
    match a, b with Some n, Some m => Some (Nat.max n m) | _, _ => None end.
  Definition cert (d : D) : nat := match d with Some _ => 1 | None => 0 end.
  Definition entb (x : D) (c : nat) : bool := leb x (Some c).
  Definition meet_cs (d : D) (l : list nat) : D :=
    fold_right (fun c d => match d with Some n => Some (Nat.min n c) | None => Some c end) d l.

  Lemma leb_ok a b : leb a b = true <-> le D nat den a b.
  Proof.
    unfold le. destruct a as [n|], b as [m|]; cbn; split; intros H; auto; try discriminate.
    - apply Nat.leb_le in H. intros p Hp. lia.
    - apply Nat.leb_le. apply (H n). lia.
    - exfalso. specialize (H (S m) I). lia.
  Qed.
  Lemma widen_ub x y : le D nat den y x -> le D nat den x (widen x y).
  Proof. intros _. unfold widen. destruct (leb x y); [apply le_refl|]. intros p _. exact I. Qed.
  Lemma join_ub_l a b : le D nat den a (join a b).
  Proof. destruct a as [n|], b as [m|]; cbn; intros p Hp; cbn in *; auto. lia. Qed.
  Lemma cert_value a b : deq D nat den a b -> cert a = cert b.
  Proof.
    intros H. destruct a as [n|], b as [m|]; cbn; auto.
    - exfalso. pose proof (proj2 (H (S n)) I). cbn in *. lia.
    - exfalso. pose proof (proj1 (H (S m)) I). cbn in *. lia.
  Qed.
  Lemma step_decreases a b : le D nat den a b -> ~ deq D nat den (widen b a) a -> cert (widen b a) < cert a.
  Proof.
    intros Hab N. unfold widen in *. destruct (leb b a) eqn:E.
    - exfalso. apply N. apply le_antisym; [now apply leb_ok|assumption].
    - destruct a as [n|]; cbn; [lia|]. destruct b; discriminate.
  Qed.
  Lemma meet_cs_ok d l p : den (meet_cs d l) p <-> den d p /\ forall c, In c l -> p <= c.
  Proof.
    induction l as [|c l IH]; cbn [meet_cs fold_right].
    - split; [intros H; split; [assumption|intros c []]|tauto].
    - fold (meet_cs d l). destruct (meet_cs d l) as [n|] eqn:E; cbn [den] in *.
      + rewrite Nat.min_glb_iff, IH. split.
        * intros [[H1 H2] H3]. split; [assumption|]. intros c' [<-|Hc]; auto.
        * intros [H1 H2]. split; [split; [assumption|intros c' Hc; apply H2; now right]|apply H2; now left].
      + split.
        * intros H. destruct IH as [_ IH]. split.
          -- destruct d; [|exact I]. cbn in E. clear -E. exfalso. induction l; cbn in E; [discriminate|].
             destruct (fold_right _ _ l); discriminate.
          -- intros c' [<-|Hc]; [assumption|]. destruct l; [destruct Hc|]. cbn in E.
             destruct (fold_right _ _ l); discriminate.
        * intros [_ H]. apply H. now left.
  Qed.
End Toy.

Example tokens_spec_hyps_ok :
  (forall a b, Toy.leb a b = true <-> le Toy.D nat Toy.den a b) /\
  (forall x y, le Toy.D nat Toy.den y x -> le Toy.D nat Toy.den x (Toy.widen x y)).
Proof. split; [exact Toy.leb_ok|exact Toy.widen_ub]. Qed.

Example limited_hyps_ok :
  (forall x c, Toy.entb x c = true <-> entails Toy.D nat Toy.den nat (fun c p => p <= c) x c) /\
  (forall d l p, Toy.den (Toy.meet_cs d l) p <-> Toy.den d p /\ forall c, In c l -> p <= c).
Proof. split; [intros x c; apply Toy.leb_ok|exact Toy.meet_cs_ok]. Qed.

Example termination_hyps_ok :
  exists n, forall m, n <= m ->
    deq Toy.D nat Toy.den (it Toy.D Toy.widen Toy.join (fun k => Some k) m)
                          (it Toy.D Toy.widen Toy.join (fun k => Some k) n).
Proof.
  apply (certified_widening_terminates_classic Toy.D nat Toy.den Toy.widen Toy.join Toy.join_ub_l
           (fun k => Some k) nat Toy.cert lt lt_wf Toy.cert_value Toy.step_decreases).
Qed.

(* the omniscience hypothesis of certified_widening_terminates_lpo is an instance of excluded middle *)
Lemma lpo_from_classic (P : nat -> Prop) k : (forall m, k <= m -> P m) \/ (exists m, k <= m /\ ~ P m).
Proof.
  destruct (classic (exists m, k <= m /\ ~ P m)) as [H|H]; [now right|left].
  intros m Hm. apply NNPP. intros N. apply H. now exists m.
Qed.
Example lpo_hypothesis_ok : forall k,
  (forall m, k <= m -> deq Toy.D nat Toy.den (it Toy.D Toy.widen Toy.join (fun k => Some k) (S m))
                                             (it Toy.D Toy.widen Toy.join (fun k => Some k) m)) \/
  (exists m, k <= m /\ ~ deq Toy.D nat Toy.den (it Toy.D Toy.widen Toy.join (fun k => Some k) (S m))
                                               (it Toy.D Toy.widen Toy.join (fun k => Some k) m)).
Proof. intros k. apply (lpo_from_classic (fun m => deq Toy.D nat Toy.den _ _)). Qed.
