(* C08 -- convergence certificates of PPL's widenings, transcribed from
     src/BHRZ03_Certificate.cc, src/H79_Certificate.cc, src/Grid_Certificate.cc.

   Each class has TWO comparisons:
     compare(const Cert& y)     a total order used to sort certificates in the powerset multisets;
     compare(const PH& ph)      "is the certificate of ph strictly smaller in the limited-growth
                                 ordering": 1 = stabilizing; is_stabilizing(ph) := compare(ph) == 1.
   They are transcribed as they are written (nested if ladders).  The ORDER in which the fields are
   compared is, in addition, regenerated from the source on every run (coq/gen/Facts_Cert.v) and
   interpreted by [run_cc] / [run_ph] below; Widen/CertFacts.v proves that the interpretation of the
   regenerated ladders is the transcription, so reordering a ladder in the source breaks a proof. *)
From Coq Require Import List ZArith Lia Bool Arith Wellfounded.
Import ListNotations.

(* ------------------------------------------------------------------------------------------ *)
(* the records *)
Record bhrz03_cert := {
  b_affine_dim : nat;          (* dimension_type affine_dim *)
  b_lin_space_dim : nat;       (* dimension_type lin_space_dim *)
  b_num_constraints : nat;     (* dimension_type num_constraints *)
  b_num_points : nat;          (* dimension_type num_points *)
  b_rays : list nat            (* std::vector<dimension_type> num_rays_null_coord; size = space dimension *)
}.
Record h79_cert := { h_affine_dim : nat; h_num_constraints : nat }.
Record grid_cert := { g_num_equalities : nat; g_num_proper_congruences : nat }.

(* `if (a != b) return (a > b) ? 1 : -1;` continuing with [k] otherwise *)
Definition ne_gt (a b : nat) (k : Z) : Z :=
  if Nat.eqb a b then k else if Nat.ltb b a then 1%Z else (-1)%Z.
(* `if (a != b) return (a < b) ? 1 : -1;` *)
Definition ne_lt (a b : nat) (k : Z) : Z :=
  if Nat.eqb a b then k else if Nat.ltb a b then 1%Z else (-1)%Z.
(* `if (a > b) return 1;`  (no else branch: the code goes on, an assertion claims a == b) *)
Definition gt_only (a b : nat) (k : Z) : Z := if Nat.ltb b a then 1%Z else k.

(* `for (i = 0; i < space_dim; ++i) if (a[i] != b[i]) return (a[i] > b[i]) ? 1 : -1;`
   space_dim is the size of the first vector; the second is asserted to have the same size *)
Fixpoint vec_ne_gt (a b : list nat) (k : Z) : Z :=
  match a, b with
  | x :: a', y :: b' => ne_gt x y (vec_ne_gt a' b' k)
  | _, _ => k
  end.
Fixpoint vec_ne_lt (a b : list nat) (k : Z) : Z :=
  match a, b with
  | x :: a', y :: b' => ne_lt x y (vec_ne_lt a' b' k)
  | _, _ => k
  end.

(* ------------------------------------------------------------------------------------------ *)
(* BHRZ03_Certificate::compare(const BHRZ03_Certificate& y) *)
Definition bhrz03_compare (x y : bhrz03_cert) : Z :=
  ne_gt (b_affine_dim x) (b_affine_dim y)
 (ne_gt (b_lin_space_dim x) (b_lin_space_dim y)
 (ne_gt (b_num_constraints x) (b_num_constraints y)
 (ne_gt (b_num_points x) (b_num_points y)
 (vec_ne_gt (b_rays x) (b_rays y) 0%Z)))).

(* BHRZ03_Certificate::compare(const Polyhedron& ph), on the certificate data [p] of ph.
   (The code computes ph's numbers lazily; the values compared are those of BHRZ03_Certificate(ph).) *)
Definition bhrz03_compare_ph (x p : bhrz03_cert) : Z :=
  gt_only (b_affine_dim p) (b_affine_dim x)
 (gt_only (b_lin_space_dim p) (b_lin_space_dim x)
 (ne_lt (b_num_constraints p) (b_num_constraints x)
 (ne_lt (b_num_points p) (b_num_points x)
 (vec_ne_lt (b_rays p) (b_rays x) 0%Z)))).
Definition bhrz03_is_stabilizing (x p : bhrz03_cert) : bool := Z.eqb (bhrz03_compare_ph x p) 1.

(* BHRZ03_Certificate::OK() for space dimension n = num_rays_null_coord.size() *)
Definition bhrz03_ok (c : bhrz03_cert) : bool :=
  let n := length (b_rays c) in
  Nat.leb (b_affine_dim c) n && Nat.leb (b_lin_space_dim c) (b_affine_dim c)
  && Nat.leb (n - b_affine_dim c) (b_num_constraints c) && negb (Nat.eqb (b_num_points c) 0)
  && (if Nat.eqb (b_lin_space_dim c) n
      then Nat.eqb (b_num_constraints c) 0 && Nat.eqb (b_num_points c) 1 else true).

(* H79_Certificate *)
Definition h79_compare (x y : h79_cert) : Z :=
  ne_gt (h_affine_dim x) (h_affine_dim y) (ne_gt (h_num_constraints x) (h_num_constraints y) 0%Z).
Definition h79_compare_ph (x p : h79_cert) : Z :=
  gt_only (h_affine_dim p) (h_affine_dim x) (ne_lt (h_num_constraints p) (h_num_constraints x) 0%Z).
Definition h79_is_stabilizing (x p : h79_cert) : bool := Z.eqb (h79_compare_ph x p) 1.

(* Grid_Certificate: compare(const Grid& gr) is compare(Grid_Certificate(gr)) *)
Definition grid_compare (x y : grid_cert) : Z :=
  if Nat.eqb (g_num_equalities x) (g_num_equalities y) then
    if Nat.eqb (g_num_proper_congruences x) (g_num_proper_congruences y) then 0%Z
    else if Nat.ltb (g_num_proper_congruences y) (g_num_proper_congruences x) then 1%Z else (-1)%Z
  else if Nat.ltb (g_num_equalities y) (g_num_equalities x) then 1%Z else (-1)%Z.
Definition grid_compare_gr (x p : grid_cert) : Z := grid_compare x p.
Definition grid_is_stabilizing (x p : grid_cert) : bool := Z.eqb (grid_compare_gr x p) 1.

(* ------------------------------------------------------------------------------------------ *)
(* the ladders as data, and their interpretation *)
Inductive field :=
  FAffineDim | FLinSpaceDim | FNumConstraints | FNumPoints | FRaysNullCoord
| FNumEqualities | FNumProperCongruences.
Inductive rung := NeGt | NeLt | GtOnly.   (* which of the three `if` shapes *)

(* a certificate seen through its fields: scalars, and vectors *)
Definition fields := field -> list nat.    (* scalar fields are one-element vectors *)

Definition bhrz03_fields (c : bhrz03_cert) : fields := fun f =>
  match f with
  | FAffineDim => [b_affine_dim c] | FLinSpaceDim => [b_lin_space_dim c]
  | FNumConstraints => [b_num_constraints c] | FNumPoints => [b_num_points c]
  | FRaysNullCoord => b_rays c | _ => []
  end.
Definition h79_fields (c : h79_cert) : fields := fun f =>
  match f with FAffineDim => [h_affine_dim c] | FNumConstraints => [h_num_constraints c] | _ => [] end.
Definition grid_fields (c : grid_cert) : fields := fun f =>
  match f with FNumEqualities => [g_num_equalities c] | FNumProperCongruences => [g_num_proper_congruences c] | _ => [] end.

Fixpoint vec_gt_only (a b : list nat) (k : Z) : Z :=
  match a, b with x :: a', y :: b' => gt_only x y (vec_gt_only a' b' k) | _, _ => k end.

(* [run l a b]: go down the ladder comparing field f of a with field f of b by the rung's `if` *)
Fixpoint run (l : list (rung * field)) (a b : fields) : Z :=
  match l with
  | [] => 0%Z
  | (NeGt, f) :: l' => vec_ne_gt (a f) (b f) (run l' a b)
  | (NeLt, f) :: l' => vec_ne_lt (a f) (b f) (run l' a b)
  | (GtOnly, f) :: l' => vec_gt_only (a f) (b f) (run l' a b)
  end.

(* ------------------------------------------------------------------------------------------ *)
(* lexicographic order on vectors of naturals of equal length, and its well-foundedness *)
Inductive lexlt : list nat -> list nat -> Prop :=
| lex_hd a b l m : a < b -> length l = length m -> lexlt (a :: l) (b :: m)
| lex_tl a l m : lexlt l m -> lexlt (a :: l) (a :: m).

Lemma lexlt_length l m : lexlt l m -> length l = length m.
Proof. induction 1; cbn; congruence. Qed.

Lemma lexlt_acc k : forall l, length l = k -> Acc lexlt l.
Proof.
  induction k as [|k IHk].
  - intros [|x l] H; [|discriminate]. constructor. intros y Hy. inversion Hy.
  - intros [|a t] H; [discriminate|]. injection H as H. revert t H.
    induction a as [a IHa] using lt_wf_ind. intros t H.
    pose proof (IHk t H) as At. revert H. induction At as [t _ IHt]. intros H.
    constructor. intros y Hy. inversion Hy as [a0 b0 l0 m0 Hlt Hlen | a0 l0 m0 Hl]; subst.
    + apply IHa; [assumption|]. congruence.
    + apply IHt; [assumption|]. apply lexlt_length in Hl. congruence.
Qed.

Theorem lexlt_wf : well_founded lexlt.
Proof. intros l. now apply (lexlt_acc (length l)). Qed.

Lemma lexlt_app_same p : forall l m, lexlt l m -> lexlt (p ++ l) (p ++ m).
Proof. induction p; intros; cbn; [assumption|]. apply lex_tl. auto. Qed.

(* the ladders' results in terms of lexlt *)
Lemma ne_gt_m1 a b k : ne_gt a b k = (-1)%Z -> a < b \/ (a = b /\ k = (-1)%Z).
Proof.
  unfold ne_gt. destruct (Nat.eqb_spec a b); [auto|].
  destruct (Nat.ltb_spec b a); [discriminate|]. intros _. left. lia.
Qed.
Lemma ne_gt_1 a b k : ne_gt a b k = 1%Z -> b < a \/ (a = b /\ k = 1%Z).
Proof.
  unfold ne_gt. destruct (Nat.eqb_spec a b); [auto|].
  destruct (Nat.ltb_spec b a); [auto|discriminate].
Qed.
Lemma ne_lt_1 a b k : ne_lt a b k = 1%Z -> a < b \/ (a = b /\ k = 1%Z).
Proof.
  unfold ne_lt. destruct (Nat.eqb_spec a b); [auto|].
  destruct (Nat.ltb_spec a b); [auto|discriminate].
Qed.
Lemma gt_only_1 a b k : gt_only a b k = 1%Z -> b < a \/ (a <= b /\ k = 1%Z).
Proof. unfold gt_only. destruct (Nat.ltb_spec b a); auto. Qed.

Lemma vec_ne_gt_m1 a : forall b k, length a = length b ->
  vec_ne_gt a b k = (-1)%Z -> lexlt a b \/ (a = b /\ k = (-1)%Z).
Proof.
  induction a as [|x a IH]; intros [|y b] k L; try discriminate; cbn [vec_ne_gt].
  - auto.
  - injection L as L. intros H. apply ne_gt_m1 in H. destruct H as [H|[-> H]].
    + left. now constructor.
    + destruct (IH b k L H) as [H'|[-> H']]; [left; now apply lex_tl | auto].
Qed.
Lemma vec_ne_gt_1 a : forall b k, length a = length b ->
  vec_ne_gt a b k = 1%Z -> lexlt b a \/ (a = b /\ k = 1%Z).
Proof.
  induction a as [|x a IH]; intros [|y b] k L; try discriminate; cbn [vec_ne_gt].
  - auto.
  - injection L as L. intros H. apply ne_gt_1 in H. destruct H as [H|[-> H]].
    + left. now constructor.
    + destruct (IH b k L H) as [H'|[-> H']]; [left; now apply lex_tl | auto].
Qed.
Lemma vec_ne_lt_1 a : forall b k, length a = length b ->
  vec_ne_lt a b k = 1%Z -> lexlt a b \/ (a = b /\ k = 1%Z).
Proof.
  induction a as [|x a IH]; intros [|y b] k L; try discriminate; cbn [vec_ne_lt].
  - auto.
  - injection L as L. intros H. apply ne_lt_1 in H. destruct H as [H|[-> H]].
    + left. now constructor.
    + destruct (IH b k L H) as [H'|[-> H']]; [left; now apply lex_tl | auto].
Qed.

(* ------------------------------------------------------------------------------------------ *)
(* 1. the total orders compare(cert, cert): x < y  iff  x.compare(y) == -1 *)
Definition bhrz03_vec (c : bhrz03_cert) : list nat :=
  [b_affine_dim c; b_lin_space_dim c; b_num_constraints c; b_num_points c] ++ b_rays c.
Definition bhrz03_lt (n : nat) (x y : bhrz03_cert) : Prop :=
  length (b_rays x) = n /\ length (b_rays y) = n /\ bhrz03_compare x y = (-1)%Z.

Lemma bhrz03_lt_lex n x y : bhrz03_lt n x y -> lexlt (bhrz03_vec x) (bhrz03_vec y).
Proof.
  intros (Lx & Ly & H). unfold bhrz03_compare in H. unfold bhrz03_vec.
  assert (LL : length (b_rays x) = length (b_rays y)) by congruence.
  apply ne_gt_m1 in H. destruct H as [H|[E1 H]]; [constructor; [assumption|cbn; lia]|].
  rewrite E1. apply lex_tl.
  apply ne_gt_m1 in H. destruct H as [H|[E2 H]]; [constructor; [assumption|cbn; lia]|].
  rewrite E2. apply lex_tl.
  apply ne_gt_m1 in H. destruct H as [H|[E3 H]]; [constructor; [assumption|cbn; lia]|].
  rewrite E3. apply lex_tl.
  apply ne_gt_m1 in H. destruct H as [H|[E4 H]]; [constructor; [assumption|cbn; lia]|].
  rewrite E4. apply lex_tl.
  apply vec_ne_gt_m1 in H; [|assumption]. destruct H as [H|[_ H]]; [assumption|discriminate].
Qed.

Theorem bhrz03_total_order_wf n : well_founded (bhrz03_lt n).
Proof.
  apply (wf_incl _ _ (fun x y => lexlt (bhrz03_vec x) (bhrz03_vec y))).
  - intros x y. apply bhrz03_lt_lex.
  - apply (wf_inverse_image _ _ lexlt bhrz03_vec), lexlt_wf.
Qed.

Definition h79_lt (x y : h79_cert) : Prop := h79_compare x y = (-1)%Z.
Definition h79_vec (c : h79_cert) := [h_affine_dim c; h_num_constraints c].
Theorem h79_total_order_wf : well_founded h79_lt.
Proof.
  apply (wf_incl _ _ (fun x y => lexlt (h79_vec x) (h79_vec y))).
  - intros x y H. unfold h79_lt, h79_compare in H. unfold h79_vec.
    apply ne_gt_m1 in H. destruct H as [H|[E1 H]]; [constructor; [assumption|reflexivity]|].
    rewrite E1. apply lex_tl.
    apply ne_gt_m1 in H. destruct H as [H|[_ H]]; [constructor; [assumption|reflexivity]|discriminate].
  - apply (wf_inverse_image _ _ lexlt h79_vec), lexlt_wf.
Qed.

(* ------------------------------------------------------------------------------------------ *)
(* 2. the limited-growth orders: p is below x when x.is_stabilizing(ph) for the data p of ph.
   compare(ph) ASSUMES that ph contains the polyhedron x was computed from (assertions
   `ph_affine_dim == affine_dim`, `ph_lin_space_dim == lin_space_dim` after the `>` tests); for
   nested polyhedra the affine dimension and the dimension of the lineality space cannot decrease.
   [grows] states exactly that; it is also what the judge checks on every pair it compares.
   Without it the relation has cycles (bhrz03_lgo_needs_growth below). *)
Definition bhrz03_grows (x p : bhrz03_cert) : Prop :=
  b_affine_dim x <= b_affine_dim p /\ b_lin_space_dim x <= b_lin_space_dim p.
(* bounds the code guarantees (OK()): affine_dim <= n, lin_space_dim <= affine_dim *)
Definition bhrz03_bounded (n : nat) (c : bhrz03_cert) : Prop :=
  length (b_rays c) = n /\ b_affine_dim c <= n /\ b_lin_space_dim c <= n.

Definition bhrz03_lgo (n : nat) (p x : bhrz03_cert) : Prop :=
  bhrz03_bounded n x /\ bhrz03_bounded n p /\ bhrz03_grows x p /\ bhrz03_is_stabilizing x p = true.

(* increasing-but-bounded components are measured by their distance to the bound *)
Definition bhrz03_measure (n : nat) (c : bhrz03_cert) : list nat :=
  [n - b_affine_dim c; n - b_lin_space_dim c; b_num_constraints c; b_num_points c] ++ b_rays c.

Lemma bhrz03_lgo_lex n p x : bhrz03_lgo n p x -> lexlt (bhrz03_measure n p) (bhrz03_measure n x).
Proof.
  intros ((Lx & Ax & Bx) & (Lp & Ap & Bp) & (G1 & G2) & H).
  unfold bhrz03_is_stabilizing in H. apply Z.eqb_eq in H. unfold bhrz03_compare_ph in H.
  unfold bhrz03_measure.
  assert (LL : length (b_rays p) = length (b_rays x)) by congruence.
  apply gt_only_1 in H. destruct H as [H|[E1 H]]; [constructor; [lia|cbn; lia]|].
  assert (b_affine_dim p = b_affine_dim x) as -> by lia. apply lex_tl.
  apply gt_only_1 in H. destruct H as [H|[E2 H]]; [constructor; [lia|cbn; lia]|].
  assert (b_lin_space_dim p = b_lin_space_dim x) as -> by lia. apply lex_tl.
  apply ne_lt_1 in H. destruct H as [H|[E3 H]]; [constructor; [lia|cbn; lia]|].
  rewrite E3. apply lex_tl.
  apply ne_lt_1 in H. destruct H as [H|[E4 H]]; [constructor; [lia|cbn; lia]|].
  rewrite E4. apply lex_tl.
  apply vec_ne_lt_1 in H; [|assumption]. destruct H as [H|[_ H]]; [assumption|discriminate].
Qed.

Theorem bhrz03_lgo_wf n : well_founded (bhrz03_lgo n).
Proof.
  apply (wf_incl _ _ (fun p x => lexlt (bhrz03_measure n p) (bhrz03_measure n x))).
  - intros p x. apply bhrz03_lgo_lex.
  - apply (wf_inverse_image _ _ lexlt (bhrz03_measure n)), lexlt_wf.
Qed.

Definition h79_grows (x p : h79_cert) : Prop := h_affine_dim x <= h_affine_dim p.
Definition h79_lgo (n : nat) (p x : h79_cert) : Prop :=
  h_affine_dim x <= n /\ h_affine_dim p <= n /\ h79_grows x p /\ h79_is_stabilizing x p = true.
Definition h79_measure (n : nat) (c : h79_cert) : list nat := [n - h_affine_dim c; h_num_constraints c].

Theorem h79_lgo_wf n : well_founded (h79_lgo n).
Proof.
  apply (wf_incl _ _ (fun p x => lexlt (h79_measure n p) (h79_measure n x))).
  - intros p x (Ax & Ap & G & H). unfold h79_is_stabilizing in H. apply Z.eqb_eq in H.
    unfold h79_compare_ph in H. unfold h79_measure, h79_grows in *.
    apply gt_only_1 in H. destruct H as [H|[E1 H]]; [constructor; [lia|reflexivity]|].
    assert (h_affine_dim p = h_affine_dim x) as -> by lia. apply lex_tl.
    apply ne_lt_1 in H. destruct H as [H|[_ H]]; [constructor; [lia|reflexivity]|discriminate].
  - apply (wf_inverse_image _ _ lexlt (h79_measure n)), lexlt_wf.
Qed.

(* grids: a widening step moves DOWN in compare: fewer equalities, then fewer proper congruences;
   no bound is needed *)
Definition grid_lgo (p x : grid_cert) : Prop := grid_is_stabilizing x p = true.
Definition grid_vec (c : grid_cert) := [g_num_equalities c; g_num_proper_congruences c].

Theorem grid_lgo_wf : well_founded grid_lgo.
Proof.
  apply (wf_incl _ _ (fun p x => lexlt (grid_vec p) (grid_vec x))).
  - intros p x H. unfold grid_lgo, grid_is_stabilizing, grid_compare_gr, grid_compare in H.
    apply Z.eqb_eq in H. unfold grid_vec.
    destruct (Nat.eqb_spec (g_num_equalities x) (g_num_equalities p)) as [E|E].
    + rewrite <- E. apply lex_tl.
      destruct (Nat.eqb_spec (g_num_proper_congruences x) (g_num_proper_congruences p)); [discriminate|].
      destruct (Nat.ltb_spec (g_num_proper_congruences p) (g_num_proper_congruences x)); [|discriminate].
      now constructor.
    + destruct (Nat.ltb_spec (g_num_equalities p) (g_num_equalities x)); [|discriminate].
      now constructor.
  - apply (wf_inverse_image _ _ lexlt grid_vec), lexlt_wf.
Qed.

(* ------------------------------------------------------------------------------------------ *)
(* facts about the code as it is *)

(* without the growth precondition is_stabilizing has a cycle: a point-free reading of the
   `if (ph_affine_dim > affine_dim) return 1;` rungs that fall through when ph's value is smaller *)
Definition cyc_a := {| b_affine_dim := 2; b_lin_space_dim := 0; b_num_constraints := 3; b_num_points := 3; b_rays := [0; 0] |}.
Definition cyc_b := {| b_affine_dim := 1; b_lin_space_dim := 1; b_num_constraints := 1; b_num_points := 1; b_rays := [0; 0] |}.
Lemma bhrz03_lgo_needs_growth :
  bhrz03_ok cyc_a = true /\ bhrz03_ok cyc_b = true /\
  bhrz03_is_stabilizing cyc_a cyc_b = true /\ bhrz03_is_stabilizing cyc_b cyc_a = true.
Proof. vm_compute. auto. Qed.

(* compare(const BHRZ03_Certificate&) is documented as "a total ordering which is a refinement of
   the limited growth ordering"; as written it orders affine_dim and lin_space_dim the other way
   round: a certificate that is_stabilizing() calls strictly smaller can be strictly GREATER for
   compare().  (Both relations are well founded, so the powerset widening's termination argument,
   which only needs a well-founded total order for the multisets, is not affected.) *)
Definition ref_x := {| b_affine_dim := 1; b_lin_space_dim := 0; b_num_constraints := 3; b_num_points := 2; b_rays := [0; 0] |}.
Definition ref_p := {| b_affine_dim := 2; b_lin_space_dim := 0; b_num_constraints := 3; b_num_points := 3; b_rays := [0; 0] |}.
Lemma bhrz03_compare_not_a_refinement :
  bhrz03_ok ref_x = true /\ bhrz03_ok ref_p = true /\ bhrz03_grows ref_x ref_p /\
  bhrz03_is_stabilizing ref_x ref_p = true /\ bhrz03_compare ref_p ref_x = 1%Z.
Proof. vm_compute. repeat split; auto. Qed.

(* on certificates with equal affine and lineality dimensions the two comparisons do agree *)
Lemma ne_lt_swap a b k k' : (k = 1%Z <-> k' = 1%Z) -> (ne_lt a b k = 1%Z <-> ne_gt b a k' = 1%Z).
Proof.
  unfold ne_lt, ne_gt. intros H. rewrite (Nat.eqb_sym b a).
  destruct (Nat.eqb_spec a b); [exact H|]. destruct (Nat.ltb_spec a b); split; auto.
Qed.
Lemma vec_ne_lt_swap a : forall b, length a = length b -> (vec_ne_lt a b 0 = 1%Z <-> vec_ne_gt b a 0 = 1%Z).
Proof.
  induction a as [|x a IH]; intros [|y b] L; try discriminate; cbn [vec_ne_lt vec_ne_gt].
  - split; discriminate.
  - injection L as L. apply ne_lt_swap. now apply IH.
Qed.
Lemma bhrz03_compare_agree x p :
  length (b_rays p) = length (b_rays x) ->
  b_affine_dim p = b_affine_dim x -> b_lin_space_dim p = b_lin_space_dim x ->
  (bhrz03_is_stabilizing x p = true <-> bhrz03_compare x p = 1%Z).
Proof.
  intros L E1 E2. unfold bhrz03_is_stabilizing, bhrz03_compare_ph, bhrz03_compare, gt_only.
  rewrite Z.eqb_eq, E1, E2, !Nat.ltb_irrefl. unfold ne_gt at 1 2. rewrite !Nat.eqb_refl.
  apply ne_lt_swap, ne_lt_swap, vec_ne_lt_swap, L.
Qed.

(* ------------------------------------------------------------------------------------------ *)
(* the constructors' counting, on the minimized systems the library prints: used by the judge to
   recompute the certificate from the printed minimized constraints / generators.
   A constraint is summarised by "is an equality"; a generator by its kind and its number of zero
   coordinates (expression().num_zeroes(1, space_dim + 1)). *)
Inductive gsum := GSPoint | GSClosure | GSLine | GSRay (zeros : nat).

Fixpoint bump (k : nat) (v : list nat) : list nat :=
  match v, k with
  | [], _ => []
  | x :: v', O => S x :: v'
  | x :: v', S k' => x :: bump k' v'
  end.

Definition bhrz03_of (n : nat) (eqs : list bool) (gs : list gsum) : bhrz03_cert :=
  {| b_affine_dim := n - length (filter (fun b => b) eqs);
     b_lin_space_dim := length (filter (fun g => match g with GSLine => true | _ => false end) gs);
     b_num_constraints := length eqs;
     b_num_points := length (filter (fun g => match g with GSPoint | GSClosure => true | _ => false end) gs);
     b_rays := fold_left (fun v g => match g with GSRay z => bump z v | _ => v end) gs (repeat 0 n) |}.
Definition h79_of (n : nat) (eqs : list bool) : h79_cert :=
  {| h_affine_dim := n - length (filter (fun b => b) eqs); h_num_constraints := length eqs |}.

(* boolean forms of the growth precondition, for the judge *)
Definition bhrz03_grows_b (x p : bhrz03_cert) : bool :=
  Nat.leb (b_affine_dim x) (b_affine_dim p) && Nat.leb (b_lin_space_dim x) (b_lin_space_dim p).
Definition h79_grows_b (x p : h79_cert) : bool := Nat.leb (h_affine_dim x) (h_affine_dim p).
Lemma bhrz03_grows_b_ok x p : bhrz03_grows_b x p = true <-> bhrz03_grows x p.
Proof. unfold bhrz03_grows_b, bhrz03_grows. rewrite andb_true_iff, !Nat.leb_le. tauto. Qed.
Lemma h79_grows_b_ok x p : h79_grows_b x p = true <-> h79_grows x p.
Proof. unfold h79_grows_b, h79_grows. apply Nat.leb_le. Qed.

(* Grid_Certificate(gr), recounted from the minimized congruence system as the public iterator shows it (one flag
   per congruence, true for an equality).  A minimized system of a non-empty grid of positive dimension also holds
   the integrality congruence 0 = 0 (mod 1), which the iterator skips as trivially true and which
   num_proper_congruences() counts (the generator-based branches add it explicitly: `num_parameters() + 1`);
   in dimension 0 the constructor returns (0, 0) at once. *)
Definition grid_of (n : nat) (eqs : list bool) : grid_cert :=
  match n with
  | O => {| g_num_equalities := 0; g_num_proper_congruences := 0 |}
  | S _ => {| g_num_equalities := length (filter (fun b => b) eqs);
              g_num_proper_congruences := S (length (filter (fun b => negb b) eqs)) |}
  end.
