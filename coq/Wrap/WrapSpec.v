(* Specification of the wrapping operator (doc/definitions.dox, "Approximating Bounded Integers" and
   "Wrapping Operator"; Polyhedron_defs.hh, documentation of wrap_assign).

   For a bounded integer type of width w (bits), unsigned or two's complement signed, an overflow
   behaviour and an optional guard cs over the wrapped variables, the REQUIRED points of
   wrapping the set S on the variables vars are, for every p in S whose coordinates on vars are
   integers:
     - overflow wraps:      p with every wrapped coordinate x replaced by wrap_w(x);
     - overflow undefined:  p with every wrapped coordinate that is out of the range of the type
                            replaced by any integer of the range (a coordinate already in range has
                            not overflowed and keeps its value);
     - overflow impossible: p itself when all its wrapped coordinates are in range;
   in each case only when the resulting point satisfies the guard cs (the guard is applied to the
   wrapped result).  Property C17 is one-sided: the result of wrap_assign must CONTAIN every required
   point (it may contain more, and it may drop points that are not integral on vars). *)
From Coq Require Import List ZArith QArith Qround Lia Lqa Bool.
Require Import PPLV.Base.FM PPLV.Base.Sys.
Import ListNotations.
Local Open Scope Z_scope.

Inductive overflow := OWraps | OUndefined | OImpossible.

Section Spec.
  Variable w : Z.           (* width in bits *)
  Variable signed : bool.   (* SIGNED_2_COMPLEMENT / UNSIGNED *)

  Definition modulus : Z := 2 ^ w.
  Definition min_value : Z := if signed then - 2 ^ (w - 1) else 0.
  Definition max_value : Z := if signed then 2 ^ (w - 1) - 1 else 2 ^ w - 1.

  (* the documented wrapping functions *)
  Definition wrap_u (x : Z) : Z := x - 2 ^ w * (x / 2 ^ w).
  Definition wrap_s (x : Z) : Z := if wrap_u x <? 2 ^ (w - 1) then wrap_u x else wrap_u x - 2 ^ w.
  Definition wrap (x : Z) : Z := if signed then wrap_s x else wrap_u x.

  Definition in_range (x : Z) : Prop := min_value <= x <= max_value.
  Definition in_range_b (x : Z) : bool := (min_value <=? x) && (x <=? max_value).

  (* the quadrant of an integer: the code's  floor((x - min_value) / 2^w)  *)
  Definition quadrant (x : Z) : Z := (x - min_value) / modulus.

  Lemma in_range_b_ok x : in_range_b x = true <-> in_range x.
  Proof. unfold in_range_b, in_range. rewrite andb_true_iff, !Z.leb_le. tauto. Qed.

  Hypothesis Hw : 0 < w.

  Lemma modulus_pos : 0 < modulus.
  Proof. unfold modulus. apply Z.pow_pos_nonneg; lia. Qed.

  Lemma modulus_half : modulus = 2 * 2 ^ (w - 1).
  Proof. unfold modulus. replace w with (1 + (w - 1)) at 1 by lia. rewrite Z.pow_add_r by lia. reflexivity. Qed.

  Lemma half_pos : 0 < 2 ^ (w - 1).
  Proof. apply Z.pow_pos_nonneg; lia. Qed.

  Lemma max_min : max_value = min_value + modulus - 1.
  Proof. unfold max_value, min_value. destruct signed; [rewrite modulus_half|unfold modulus]; lia. Qed.

  Lemma wrap_u_mod x : wrap_u x = x mod modulus.
  Proof. unfold wrap_u. fold modulus. pose proof modulus_pos. rewrite Z.mod_eq by lia. reflexivity. Qed.

  (* the translation by (quadrant x) * 2^w is the documented wrapping function, and lands in range *)
  Lemma wrap_quadrant x : wrap x = x - quadrant x * modulus.
  Proof.
    pose proof modulus_pos as HM. pose proof half_pos as HH. pose proof modulus_half as E.
    unfold wrap, quadrant, min_value. destruct signed.
    - unfold wrap_s. rewrite wrap_u_mod. fold modulus.
      set (H := 2 ^ (w - 1)) in *. set (M := modulus) in *.
      pose proof (Z.div_mod x M ltac:(lia)) as D. pose proof (Z.mod_pos_bound x M HM) as B.
      set (a := x / M) in *. set (u := x mod M) in *. clearbody a u.
      replace (x - - H) with (x + H) by lia.
      destruct (Z.ltb_spec u H) as [Hlt|Hge].
      + assert (Q : (x + H) / M = a). { symmetry. apply (Z.div_unique (x + H) M a (u + H)); lia. }
        rewrite Q. lia.
      + assert (Q : (x + H) / M = a + 1). { symmetry. apply (Z.div_unique (x + H) M (a + 1) (u + H - M)); lia. }
        rewrite Q. lia.
    - rewrite wrap_u_mod. rewrite Z.sub_0_r. rewrite Z.mod_eq by lia. lia.
  Qed.

  Lemma wrap_in_range x : in_range (wrap x).
  Proof.
    pose proof modulus_pos as HM. rewrite wrap_quadrant. unfold in_range. rewrite max_min. unfold quadrant.
    pose proof (Z.div_mod (x - min_value) modulus ltac:(lia)) as D.
    pose proof (Z.mod_pos_bound (x - min_value) modulus HM) as B. lia.
  Qed.

  Lemma quadrant_zero_iff x : quadrant x = 0 <-> in_range x.
  Proof.
    pose proof modulus_pos as HM. unfold quadrant, in_range. rewrite max_min. split.
    - intros Q. pose proof (Z.div_mod (x - min_value) modulus ltac:(lia)) as D.
      pose proof (Z.mod_pos_bound (x - min_value) modulus HM) as B. rewrite Q in D. lia.
    - intros R. apply Z.div_small. lia.
  Qed.

  Lemma wrap_id x : in_range x -> wrap x = x.
  Proof. intros R. rewrite wrap_quadrant. apply quadrant_zero_iff in R. rewrite R. lia. Qed.

  (* quadrant arithmetic: the translation by k * 2^w maps quadrant k onto quadrant 0, and on the
     integers of quadrant k it IS the wrapping function *)
  Theorem quadrant_arith_lemma x k :
    quadrant x = k -> x - k * modulus = wrap x /\ quadrant (x - k * modulus) = 0 /\ in_range (x - k * modulus).
  Proof.
    intros <-. rewrite <- wrap_quadrant. split; [reflexivity|]. split; [|apply wrap_in_range].
    apply quadrant_zero_iff, wrap_in_range.
  Qed.

  (* a value in quadrant k' <> k does not land in range by the translation of quadrant k *)
  Lemma quadrant_shift x k : quadrant (x - k * modulus) = quadrant x - k.
  Proof.
    pose proof modulus_pos as HM. unfold quadrant.
    replace (x - k * modulus - min_value) with ((x - min_value) + (- k) * modulus) by lia.
    rewrite Z.div_add by lia. lia.
  Qed.

  (* quadrants of the integers between two rational bounds: the code's first/last quadrant *)
  Lemma quadrant_between (l u : Q) (z : Z) :
    (l <= inject_Z z)%Q -> (inject_Z z <= u)%Q ->
    (Qfloor l - min_value) / modulus <= quadrant z <= (Qfloor u - min_value) / modulus.
  Proof.
    intros Hl Hu. pose proof modulus_pos as HM.
    apply Qfloor_resp_le in Hl, Hu. rewrite Qfloor_Z in Hl, Hu.
    unfold quadrant. split; apply Z.div_le_mono; lia.
  Qed.

  (* ---------- required points ---------- *)
  Definition target (o : overflow) (a : Z) (b : Q) : Prop :=
    match o with
    | OWraps => (b == inject_Z (wrap a))%Q
    | OUndefined => (in_range a /\ (b == inject_Z a)%Q) \/ (~ in_range a /\ exists z, in_range z /\ (b == inject_Z z)%Q)
    | OImpossible => in_range a /\ (b == inject_Z a)%Q
    end.

  Lemma target_in_range o a b : target o a b -> exists z, in_range z /\ (b == inject_Z z)%Q.
  Proof.
    destruct o; cbn [target].
    - intros H. exists (wrap a). split; [apply wrap_in_range|exact H].
    - intros [[R H]|[_ H]]; [exists a; auto|exact H].
    - intros [R H]. exists a; auto.
  Qed.

  Lemma target_quadrant0 o a b : quadrant a = 0 -> target o a b -> (b == inject_Z a)%Q.
  Proof.
    intros Q0. apply quadrant_zero_iff in Q0. destruct o; cbn [target].
    - now rewrite (wrap_id a Q0).
    - intros [[_ H]|[N _]]; [exact H|contradiction].
    - now intros [_ H].
  Qed.

  (* S: the argument (a set of points); q is required in the result *)
  Definition required (vars : list nat) (o : overflow) (cs : list con) (S : point -> Prop) (q : point) : Prop :=
    exists (p : point) (pz : nat -> Z),
      S p /\ (forall v, In v vars -> (p v == inject_Z (pz v))%Q) /\
      (forall i, ~ In i vars -> (q i == p i)%Q) /\
      (forall v, In v vars -> target o (pz v) (q v)) /\
      sat_cons cs q.

  (* executable enumeration of the target values of one coordinate, for the correspondence check:
     [cands] are candidate in-range values used when overflow is undefined (the full set is the whole range) *)
  Definition targets_b (o : overflow) (cands : list Z) (a : Z) : list Z :=
    match o with
    | OWraps => [wrap a]
    | OUndefined => if in_range_b a then [a] else filter in_range_b cands
    | OImpossible => if in_range_b a then [a] else []
    end.

  Lemma targets_b_ok o cands a t : In t (targets_b o cands a) -> target o a (inject_Z t).
  Proof.
    destruct o; cbn [targets_b target].
    - intros [<-|[]]. reflexivity.
    - destruct (in_range_b a) eqn:R.
      + intros [<-|[]]. left. split; [now apply in_range_b_ok|reflexivity].
      + intros H. apply filter_In in H. destruct H as [_ H]. right. split.
        * intros X. apply in_range_b_ok in X. congruence.
        * exists t. split; [now apply in_range_b_ok|reflexivity].
    - destruct (in_range_b a) eqn:R; [|intros []]. intros [<-|[]]. split; [now apply in_range_b_ok|reflexivity].
  Qed.
End Spec.

(* ---------- executable membership of a concrete rational point (exact arithmetic) ---------- *)
Local Open Scope Q_scope.
Definition pt_of (l : list Q) : point := fun i => nth i l 0.

Definition sat_con_b (c : con) (p : point) : bool :=
  match ckd c with
  | EQ => Qeq_bool (ceval c p) 0
  | GE => Qle_bool 0 (ceval c p)
  | GT => negb (Qle_bool (ceval c p) 0)
  end.

Lemma sat_con_b_ok c p : sat_con_b c p = true <-> sat_con c p.
Proof.
  unfold sat_con_b, sat_con. destruct (ckd c).
  - apply Qeq_bool_iff.
  - apply Qle_bool_iff.
  - rewrite negb_true_iff. split.
    + intros H. destruct (Qlt_le_dec 0 (ceval c p)) as [L|L]; [exact L|]. apply Qle_bool_iff in L. congruence.
    + intros H. destruct (Qle_bool (ceval c p) 0) eqn:E; [|reflexivity]. apply Qle_bool_iff in E. lra.
Qed.

Definition sat_cons_b (cs : list con) (p : point) : bool := forallb (fun c => sat_con_b c p) cs.

Lemma sat_cons_b_ok cs p : sat_cons_b cs p = true <-> sat_cons cs p.
Proof.
  unfold sat_cons_b, sat_cons. rewrite forallb_forall. split; intros H c Hc; apply sat_con_b_ok; auto.
Qed.

Definition sat_sys_b (s : sys) (p : point) : bool :=
  forallb (fun e => Qeq_bool (leval e p) 0) (eqs s) &&
  forallb (fun c => if strict c then negb (Qle_bool (eval c p) 0) else Qle_bool 0 (eval c p)) (ineqs s).

Lemma sat_sys_b_ok s p : sat_sys_b s p = true <-> sat_sys s p.
Proof.
  unfold sat_sys_b, sat_sys, sat_eqs, sat_all. rewrite andb_true_iff, !forallb_forall. split.
  - intros [H1 H2]. split.
    + intros e He. now apply Qeq_bool_iff, H1.
    + intros c Hc. specialize (H2 c Hc). unfold sat. destruct (strict c).
      * apply negb_true_iff in H2. destruct (Qlt_le_dec 0 (eval c p)) as [L|L]; [exact L|]. apply Qle_bool_iff in L. congruence.
      * now apply Qle_bool_iff.
  - intros [H1 H2]. split.
    + intros e He. now apply Qeq_bool_iff, H1.
    + intros c Hc. specialize (H2 c Hc). unfold sat in H2. destruct (strict c).
      * apply negb_true_iff. destruct (Qle_bool (eval c p) 0) eqn:E; [|reflexivity]. apply Qle_bool_iff in E. lra.
      * now apply Qle_bool_iff.
Qed.

(* congruences as the library prints them:  (a.x + b) == 0 (mod m), m > 0; m = 0 is an equality *)
Record cgr := { gcoefs_ : list Z; gcst_ : Z; gmod_ : Z }.
Definition cg_val (g : cgr) (p : point) : Q := dot (gcoefs_ g) p 0 + inject_Z (gcst_ g).
Definition sat_cg (g : cgr) (p : point) : Prop :=
  if Z.eqb (gmod_ g) 0 then cg_val g p == 0 else exists k : Z, cg_val g p == inject_Z k * inject_Z (gmod_ g).
Definition sat_cg_b (g : cgr) (p : point) : bool :=
  if Z.eqb (gmod_ g) 0 then Qeq_bool (cg_val g p) 0
  else let t := cg_val g p / inject_Z (gmod_ g) in Qeq_bool t (inject_Z (Qfloor t)).

Lemma sat_cg_b_ok g p : sat_cg_b g p = true <-> sat_cg g p.
Proof.
  unfold sat_cg_b, sat_cg. destruct (Z.eqb_spec (gmod_ g) 0) as [E|N]; [apply Qeq_bool_iff|].
  assert (Hm : ~ inject_Z (gmod_ g) == 0).
  { intros H. apply N. now apply (proj1 (inject_Z_injective (gmod_ g) 0%Z)). }
  rewrite Qeq_bool_iff. split.
  - intros H. exists (Qfloor (cg_val g p / inject_Z (gmod_ g))). rewrite <- H. field. exact Hm.
  - intros [k H]. assert (E : cg_val g p / inject_Z (gmod_ g) == inject_Z k) by (rewrite H; field; exact Hm).
    rewrite E at 1. rewrite (Qfloor_comp _ _ E). now rewrite Qfloor_Z.
Qed.
