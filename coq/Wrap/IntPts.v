(* Exact search for a point of a rational constraint system that is integral on a designated list of
   coordinates, for systems bounded on those coordinates: branch on the integer values of one
   coordinate at a time, between the exact infimum and supremum of that coordinate (exact LP from
   Base/Sup.v), with a work limit.  Every answer [IFound] / [INone] is proved; [IOutOfFuel] and
   [IError] are never answers.  All theorems are for every input. *)
From Coq Require Import List ZArith QArith Qround Lia Lqa Bool.
Require Import PPLV.Base.FM PPLV.Base.Sys PPLV.Base.Gens PPLV.Poly.PolyOps PPLV.Base.Sup.
Import ListNotations.
Local Open Scope Q_scope.

Definition is_int (x : Q) : Prop := exists z : Z, x == inject_Z z.
Definition int_on (dims : list nat) (p : point) : Prop := forall k, In k dims -> is_int (p k).

Inductive ires := IFound (vals : list (nat * Z)) | INone | IOutOfFuel | IError.

(* ---------- the system s plus the equality x_k = t ---------- *)
Definition fix_sys (k : nat) (t : Z) (s : sys) : sys :=
  union_sys s (rel_sys REQ (dvar_minus 1 k {| lcoefs := []; lcst := t |})).

Lemma sat_fix_sys k t s p : sat_sys (fix_sys k t s) p <-> sat_sys s p /\ p k == inject_Z t.
Proof.
  unfold fix_sys. rewrite meet_spec, sat_rel_sys. cbn [rel_holds].
  pose proof (leval_dvar_minus 1 k {| lcoefs := []; lcst := t |} p) as E.
  unfold leval at 2 in E; cbn [lcoefs lcst dot] in E. change (inject_Z 1) with 1 in E.
  split; intros [H1 H2]; (split; [exact H1|lra]).
Qed.

(* ---------- integer range of coordinate k over the solution set ---------- *)
Inductive brange := BEmpty | BErr | BRange (a b : Z).

Definition int_range (n k : nat) (s : sys) : brange :=
  match inf_expr n (lvar k) s, sup_expr n (lvar k) s with
  | Some SupEmpty, _ | _, Some SupEmpty => BEmpty
  | Some (SupVal lo _), Some (SupVal hi _) => BRange (Qceiling lo) (Qfloor hi)
  | _, _ => BErr
  end.

Lemma int_range_empty n k s : int_range n k s = BEmpty -> forall p, ~ sat_sys s p.
Proof.
  unfold int_range.
  destruct (inf_expr n (lvar k) s) as [[| |lo la]|] eqn:Ei;
  destruct (sup_expr n (lvar k) s) as [[| |hi ha]|] eqn:Es; intros H; try discriminate H;
  first [ apply inf_expr_exact in Ei; exact Ei | apply sup_expr_exact in Es; exact Es ].
Qed.

Lemma int_range_ok n k s a b : int_range n k s = BRange a b ->
  forall p z, sat_sys s p -> p k == inject_Z z -> (a <= z <= b)%Z.
Proof.
  unfold int_range.
  destruct (inf_expr n (lvar k) s) as [[| |lo la]|] eqn:Ei;
  destruct (sup_expr n (lvar k) s) as [[| |hi ha]|] eqn:Es; intros H; try discriminate H.
  injection H as <- <-. intros p z Hp Hz.
  apply inf_expr_exact in Ei. apply sup_expr_exact in Es. cbn [inf_spec sup_spec] in Ei, Es.
  destruct Ei as [_ [Hlo _]]. destruct Es as [_ [Hhi _]].
  specialize (Hlo p Hp). specialize (Hhi p Hp). rewrite leval_lvar, Hz in Hlo, Hhi.
  apply Qceiling_resp_le in Hlo. apply Qfloor_resp_le in Hhi.
  rewrite Qceiling_Z in Hlo. rewrite Qfloor_Z in Hhi. lia.
Qed.

(* ---------- the loop over the candidate values of one coordinate ---------- *)
(* combination of two results none of which is [IFound]: IError > IOutOfFuel > INone *)
Definition worse (a b : ires) : ires :=
  match a, b with
  | IError, _ | _, IError => IError
  | IOutOfFuel, _ | _, IOutOfFuel => IOutOfFuel
  | _, _ => INone
  end.

Fixpoint try_vals (f : Z -> ires) (k : nat) (ts : list Z) : ires :=
  match ts with
  | [] => INone
  | t :: ts' =>
      match f t with
      | IFound vals => IFound ((k, t) :: vals)
      | r => match try_vals f k ts' with IFound v => IFound v | r' => worse r r' end
      end
  end.

Definition cands (a b : Z) : list Z := map (fun i => (a + Z.of_nat i)%Z) (seq 0 (Z.to_nat (b - a + 1))).

Lemma cands_in a b z : (a <= z <= b)%Z -> In z (cands a b).
Proof.
  intros H. unfold cands. apply in_map_iff. exists (Z.to_nat (z - a)). split; [lia|].
  apply in_seq. lia.
Qed.

Lemma try_vals_found f k ts : forall vals, try_vals f k ts = IFound vals ->
  exists t v, In t ts /\ f t = IFound v /\ vals = (k, t) :: v.
Proof.
  induction ts as [|t ts IH]; intros vals; cbn [try_vals]; [discriminate|].
  destruct (f t) as [v| | |] eqn:Ft.
  - intros [= <-]. exists t, v. split; [now left|]. split; [exact Ft|reflexivity].
  - destruct (try_vals f k ts) as [v'| | |]; cbn [worse]; try discriminate.
    intros [= <-]. destruct (IH _ eq_refl) as (t' & v & A & B & C). exists t', v. split; [now right|]. now split.
  - destruct (try_vals f k ts) as [v'| | |]; cbn [worse]; try discriminate.
    intros [= <-]. destruct (IH _ eq_refl) as (t' & v & A & B & C). exists t', v. split; [now right|]. now split.
  - destruct (try_vals f k ts) as [v'| | |]; cbn [worse]; try discriminate.
    intros [= <-]. destruct (IH _ eq_refl) as (t' & v & A & B & C). exists t', v. split; [now right|]. now split.
Qed.

Lemma try_vals_none f k ts : try_vals f k ts = INone -> forall t, In t ts -> f t = INone.
Proof.
  induction ts as [|t0 ts IH]; cbn [try_vals]; [intros _ t []|].
  destruct (f t0) eqn:Ft; [discriminate|..]; destruct (try_vals f k ts) eqn:E; cbn [worse]; try discriminate.
  intros _ t [<-|Ht]; [exact Ft|]. now apply IH.
Qed.

(* ---------- the search ---------- *)
(* lim: maximal number of integer values tried for one coordinate at one node;
   n: space dimension: coordinate n is the fresh coordinate of sup_expr / inf_expr, so a system
      mentioning a coordinate >= n gets IError at every branching node; the leaf test uses the same
      dimension n for uniformity ([nonempty_sys_exact] has no side condition: [nonempty_sys n]
      answers None, hence IError, when the system mentions a coordinate >= n);
   dims: coordinates that must be integral, processed in order;  s: the system. *)
Fixpoint int_search (lim : Z) (n : nat) (dims : list nat) (s : sys) : ires :=
  match dims with
  | [] => match nonempty_sys n s with Some true => IFound [] | Some false => INone | None => IError end
  | k :: ks =>
      match int_range n k s with
      | BEmpty => INone
      | BErr => IError
      | BRange a b =>
          if (b <? a)%Z then INone
          else if (lim <? b - a + 1)%Z then IOutOfFuel
          else try_vals (fun t => int_search lim n ks (fix_sys k t s)) k (cands a b)
      end
  end.

Theorem int_search_found lim n dims s vals :
  int_search lim n dims s = IFound vals ->
  map fst vals = dims /\ exists p, sat_sys s p /\ (forall k z, In (k, z) vals -> p k == inject_Z z).
Proof.
  revert s vals. induction dims as [|k ks IH]; intros s vals; cbn [int_search].
  - destruct (nonempty_sys n s) as [[|]|] eqn:E; try discriminate. intros [= <-].
    split; [reflexivity|]. destruct (proj1 (nonempty_sys_exact _ _ _ E) eq_refl) as [p Hp].
    exists p. split; [exact Hp|]. intros k z [].
  - destruct (int_range n k s) as [| |a b]; try discriminate.
    destruct (b <? a)%Z; [discriminate|]. destruct (lim <? b - a + 1)%Z; [discriminate|].
    intros H. apply try_vals_found in H. destruct H as (t & v & _ & Hf & ->).
    apply IH in Hf. destruct Hf as [Hm (p & Hp & Hv)]. apply sat_fix_sys in Hp. destruct Hp as [Hp Hk].
    split; [cbn [map fst]; now rewrite Hm|]. exists p. split; [exact Hp|].
    intros k' z [[= <- <-]|Hin]; [exact Hk|now apply Hv].
Qed.

Corollary int_search_found_int lim n dims s vals :
  int_search lim n dims s = IFound vals -> exists p, sat_sys s p /\ int_on dims p.
Proof.
  intros H. apply int_search_found in H. destruct H as [Hm (p & Hp & Hv)]. exists p. split; [exact Hp|].
  intros k Hk. rewrite <- Hm in Hk. apply in_map_iff in Hk. destruct Hk as [[k' z] [<- Hin]].
  exists z. now apply Hv.
Qed.

Theorem int_search_none lim n dims s :
  int_search lim n dims s = INone -> forall p, sat_sys s p -> ~ int_on dims p.
Proof.
  revert s. induction dims as [|k ks IH]; intros s; cbn [int_search].
  - destruct (nonempty_sys n s) as [[|]|] eqn:E; try discriminate. intros _ p Hp _.
    assert (X : false = true) by (apply (nonempty_sys_exact _ _ _ E); now exists p). discriminate X.
  - destruct (int_range n k s) as [| |a b] eqn:R; try discriminate.
    + intros _ p Hp _. exact (int_range_empty _ _ _ R p Hp).
    + intros H p Hp Hint. destruct (Hint k (or_introl eq_refl)) as [z Hz].
      pose proof (int_range_ok _ _ _ _ _ R p z Hp Hz) as Hab.
      destruct (Z.ltb_spec b a) as [Hlt|_]; [lia|].
      destruct (lim <? b - a + 1)%Z; [discriminate|].
      pose proof (try_vals_none _ _ _ H z (cands_in a b z Hab)) as Hz0. cbn beta in Hz0.
      apply (IH _ Hz0 p); [apply sat_fix_sys; now split|].
      intros k' Hk'. apply Hint. now right.
Qed.

(* ---------- wrappers on the library's constraint format ---------- *)
Definition contains_integer_point (lim : Z) (n : nat) (cs : list con) : ires :=
  int_search lim n (seq 0 n) (sys_of_cons cs).

Theorem contains_integer_point_exact lim n cs :
  match contains_integer_point lim n cs with
  | IFound _ => exists p, sat_cons cs p /\ int_on (seq 0 n) p
  | INone => forall p, sat_cons cs p -> ~ int_on (seq 0 n) p
  | IOutOfFuel | IError => True
  end.
Proof.
  destruct (contains_integer_point lim n cs) as [v| | |] eqn:E; unfold contains_integer_point in E; try exact I.
  - apply int_search_found_int in E. destruct E as (p & Hp & Hi). exists p. split; [|exact Hi]. now apply sys_of_cons_sat.
  - intros p Hp. apply (int_search_none _ _ _ _ E). now apply sys_of_cons_sat.
Qed.

(* the inequalities whose disjunction is the negation of the constraint c *)
Definition cstr_of (c : con) (st : bool) : cstr := {| coefs := ccoefs c; cst := ccst c; strict := st |}.

Definition viol_cstrs (c : con) : list cstr :=
  match ckd c with
  | EQ => [cstr_of c true; neg_c (cstr_of c false)]
  | GE => [neg_c (cstr_of c false)]
  | GT => [neg_c (cstr_of c true)]
  end.

Lemma sat_cstr_of c st p : sat (cstr_of c st) p <-> if st then 0 < ceval c p else 0 <= ceval c p.
Proof. unfold sat, cstr_of, eval, ceval; cbn [coefs cst strict]. tauto. Qed.

Lemma sat_viol_neg c st p : sat (neg_c (cstr_of c st)) p <-> if st then ceval c p <= 0 else ceval c p < 0.
Proof. rewrite sat_neg, sat_cstr_of. destruct st; split; intros; lra. Qed.

Lemma viol_sound c p v : In v (viol_cstrs c) -> sat v p -> ~ sat_con c p.
Proof.
  unfold viol_cstrs, sat_con. intros H S Hc.
  pose proof (proj1 (sat_cstr_of c true p)) as T. pose proof (proj1 (sat_viol_neg c false p)) as NF.
  pose proof (proj1 (sat_viol_neg c true p)) as NT. cbv beta iota in T, NF, NT.
  destruct (ckd c); cbn [In] in H; repeat (destruct H as [<-|H]); try contradiction;
    first [apply T in S | apply NF in S | apply NT in S]; lra.
Qed.

Lemma viol_cases c p : sat_con c p \/ exists v, In v (viol_cstrs c) /\ sat v p.
Proof.
  unfold viol_cstrs, sat_con.
  pose proof (proj2 (sat_cstr_of c true p)) as T. pose proof (proj2 (sat_viol_neg c false p)) as NF.
  pose proof (proj2 (sat_viol_neg c true p)) as NT. cbv beta iota in T, NF, NT.
  destruct (ckd c).
  - destruct (Q_dec (ceval c p) 0) as [[H|H]|H]; [right|right|now left].
    + exists (neg_c (cstr_of c false)). split; [right; now left|]. now apply NF.
    + exists (cstr_of c true). split; [now left|]. now apply T.
  - destruct (Qlt_le_dec (ceval c p) 0) as [H|H]; [right|now left].
    exists (neg_c (cstr_of c false)). split; [now left|]. now apply NF.
  - destruct (Qlt_le_dec 0 (ceval c p)) as [H|H]; [now left|right].
    exists (neg_c (cstr_of c true)). split; [now left|]. now apply NT.
Qed.

Fixpoint all_none (rs : list ires) : option bool :=
  match rs with
  | [] => Some true
  | IFound _ :: _ => Some false
  | INone :: rs' => all_none rs'
  | _ :: rs' => match all_none rs' with Some false => Some false | _ => None end
  end.

Lemma all_none_true rs : all_none rs = Some true -> forall r, In r rs -> r = INone.
Proof.
  induction rs as [|r0 rs IH]; cbn [all_none]; [intros _ r []|].
  destruct r0; try discriminate; try (destruct (all_none rs) as [[|]|]; discriminate).
  intros H r [<-|Hr]; [reflexivity|now apply IH].
Qed.

Lemma all_none_false rs : all_none rs = Some false -> exists v, In (IFound v) rs.
Proof.
  induction rs as [|r0 rs IH]; cbn [all_none]; [discriminate|].
  destruct r0 as [v| | |]; [intros _; exists v; now left|..];
    (destruct (all_none rs) as [[|]|]; try discriminate; intros _; destruct (IH eq_refl) as [v Hv]; exists v; now right).
Qed.

(* "cs /\ not c has no point integral on dims" *)
Definition no_int_point_violating (lim : Z) (n : nat) (dims : list nat) (cs : list con) (c : con) : option bool :=
  all_none (map (fun v => int_search lim n dims (add_ineq v (sys_of_cons cs))) (viol_cstrs c)).

Theorem no_int_point_violating_true lim n dims cs c :
  no_int_point_violating lim n dims cs c = Some true ->
  forall p, sat_cons cs p -> int_on dims p -> sat_con c p.
Proof.
  unfold no_int_point_violating. intros H p Hp Hi.
  destruct (viol_cases c p) as [Hc|[v [Hv Hs]]]; [exact Hc|exfalso].
  assert (E : int_search lim n dims (add_ineq v (sys_of_cons cs)) = INone).
  { apply (all_none_true _ H). apply in_map_iff. exists v. now split. }
  apply (int_search_none _ _ _ _ E p); [|exact Hi].
  apply sat_add_ineq. split; [exact Hs|now apply sys_of_cons_sat].
Qed.

Theorem no_int_point_violating_false lim n dims cs c :
  no_int_point_violating lim n dims cs c = Some false ->
  exists p, sat_cons cs p /\ int_on dims p /\ ~ sat_con c p.
Proof.
  unfold no_int_point_violating. intros H. apply all_none_false in H. destruct H as [vals H].
  apply in_map_iff in H. destruct H as [v [E Hv]].
  apply int_search_found_int in E. destruct E as (p & Hp & Hi). apply sat_add_ineq in Hp. destruct Hp as [Hs Hp].
  exists p. split; [now apply sys_of_cons_sat|]. split; [exact Hi|]. now apply (viol_sound c p v).
Qed.

(* ---------- examples ---------- *)
Local Open Scope Z_scope.
Local Definition ge (l : list Z) (b : Z) : con := {| ccoefs := l; ccst := b; ckd := GE |}.

(* 2x + 2y >= 1, x <= 1, y <= 1: first integer point in lexicographic order *)
Example ex_found : contains_integer_point 10 2 [ge [2; 2] (-1); ge [-1] 1; ge [0; -1] 1] = IFound [(0%nat, 0); (1%nat, 1)].
Proof. vm_compute. reflexivity. Qed.
(* the triangle (1/3,1/3), (2/3,1/3), (1/3,2/3): rational points, no integer point *)
Example ex_none : contains_integer_point 10 2 [ge [3] (-1); ge [0; 3] (-1); ge [-1; -1] 1] = INone.
Proof. vm_compute. reflexivity. Qed.
(* 1/3 <= x <= 2/3 *)
Example ex_none1 : contains_integer_point 10 1 [ge [3] (-1); ge [-3] 2] = INone.
Proof. vm_compute. reflexivity. Qed.
(* x >= 0: unbounded *)
Example ex_unbounded : contains_integer_point 10 1 [ge [1] 0] = IError.
Proof. vm_compute. reflexivity. Qed.
(* x + y = 1/2 scaled, 0 <= x <= 10: 11 values of x, limit 5 / limit 11 *)
Example ex_fuel : contains_integer_point 5 2 [ge [1] 0; ge [-1] 10; {| ccoefs := [2; 2]; ccst := -1; ckd := EQ |}] = IOutOfFuel.
Proof. vm_compute. reflexivity. Qed.
Example ex_none_eq : contains_integer_point 11 2 [ge [1] 0; ge [-1] 10; {| ccoefs := [2; 2]; ccst := -1; ckd := EQ |}] = INone.
Proof. vm_compute. reflexivity. Qed.
(* 2x >= 1, x <= 5: the tightening x >= 1 loses no integer point, x >= 2 loses x = 1, x = 3 loses many *)
Example ex_tighten_ok : no_int_point_violating 10 1 [0%nat] [ge [2] (-1); ge [-1] 5] (ge [1] (-1)) = Some true.
Proof. vm_compute. reflexivity. Qed.
Example ex_tighten_bad : no_int_point_violating 10 1 [0%nat] [ge [2] (-1); ge [-1] 5] (ge [1] (-2)) = Some false.
Proof. vm_compute. reflexivity. Qed.
Example ex_tighten_eq : no_int_point_violating 10 1 [0%nat] [ge [2] (-1); ge [-1] 5] {| ccoefs := [1]; ccst := -3; ckd := EQ |} = Some false.
Proof. vm_compute. reflexivity. Qed.
