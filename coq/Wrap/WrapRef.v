(* The generic wrap_assign instantiated on a concrete pointset domain built from the verified reference
   operators: finite unions of reference polyhedra (lists of constraint systems of Base/Sys.v), with
   the EXACT union as upper bound.  The instance satisfies the laws of WrapGeneric (for every input), so
     - wrap_generic_sound applies to it (the extracted instance is run by the judge and compared with
       the library's polyhedra: every disjunct of its result must be included in the library's result);
     - it is the witness domain of the refutation of the collective path of the code AS IT IS. *)
From Coq Require Import List ZArith QArith Qround Qminmax Lia Lqa Bool.
Require Import PPLV.Base.FM PPLV.Base.Sys PPLV.Base.Gens PPLV.Poly.PolyOps PPLV.Base.Sup PPLV.Poly.PolyQuery.
Require Import PPLV.Wrap.WrapSpec PPLV.Wrap.WrapGeneric.
Import ListNotations.
Local Open Scope Q_scope.

Section Ref.
  Variable n : nat.     (* space dimension; coordinate n is the fresh coordinate of the reference operators *)

  Definition rps := list sys.
  Definition rden (U : rps) (p : point) : Prop := exists s, In s U /\ sat_sys s p.

  Definition r_empty : rps := [].

  Definition is_empty_sys (s : sys) : bool :=
    match nonempty_sys (S n) s with Some false => true | _ => false end.

  Definition r_is_empty (U : rps) : bool := forallb is_empty_sys U.

  (* infimum of x over the union: None when some disjunct is unbounded (or the bound cannot be computed),
     or when every disjunct is empty (minimize() returns false on an empty element) *)
  Fixpoint bound_fold (f : sys -> option supres) (pick : Q -> Q -> Q) (U : rps) (acc : option Q) : option (option Q) :=
    match U with
    | [] => Some acc
    | s :: U' =>
        match f s with
        | Some SupEmpty => bound_fold f pick U' acc
        | Some (SupVal m _) => bound_fold f pick U' (Some (match acc with Some a => pick a m | None => m end))
        | _ => None
        end
    end.

  Definition r_minimize (U : rps) (x : nat) : option Q :=
    match bound_fold (inf_expr n (lvar x)) Qmin U None with Some r => r | None => None end.
  Definition r_maximize (U : rps) (x : nat) : option Q :=
    match bound_fold (sup_expr n (lvar x)) Qmax U None with Some r => r | None => None end.

  Definition r_unconstrain (U : rps) (x : nat) : rps := map (unconstrain x) U.
  Definition r_refine (U : rps) (c : con) : rps :=
    filter (fun s => negb (is_empty_sys s)) (map (fun s => union_sys s (sys_of_cons [c])) U).

  Definition shift_lin (x : nat) (k : Z) : lin := {| lcoefs := unitv x; lcst := (- k)%Z |}.
  Definition r_shift (U : rps) (x : nat) (k : Z) : rps :=
    map (fun s => if (fresh_b n s && Nat.ltb x n)%bool then affine_image x n (shift_lin x k) 1 s else empty_sys) U.

  Definition r_join (U V : rps) : rps := U ++ V.

  Lemma is_empty_sys_ok s p : is_empty_sys s = true -> ~ sat_sys s p.
  Proof.
    unfold is_empty_sys. destruct (nonempty_sys (S n) s) as [[|]|] eqn:E; try discriminate. intros _ H.
    pose proof (nonempty_sys_exact _ _ _ E) as X. assert (false = true) by (apply X; now exists p). discriminate.
  Qed.

  Lemma bound_fold_min x : forall U acc r,
    bound_fold (inf_expr n (lvar x)) Qmin U acc = Some r ->
    (forall a, acc = Some a -> exists l, r = Some l /\ l <= a) /\
    (forall s p, In s U -> sat_sys s p -> exists l, r = Some l /\ l <= p x).
  Proof.
    induction U as [|s U IH]; intros acc r H; cbn [bound_fold] in H.
    - injection H as <-. split; [intros a ->; exists a; split; [reflexivity|apply Qle_refl]|intros s p []].
    - destruct (inf_expr n (lvar x) s) as [[| |m att]|] eqn:E; try discriminate.
      + destruct (IH _ _ H) as [A B]. split; [exact A|]. intros s' p [<-|Hin] Hs; [|now apply (B s' p)].
        apply inf_expr_exact in E. cbn [inf_spec] in E. exfalso. exact (E p Hs).
      + destruct (IH _ _ H) as [A B]. split.
        * intros a ->. destruct (A _ eq_refl) as [l [-> Hl]]. exists l. split; [reflexivity|].
          eapply Qle_trans; [exact Hl|apply Q.le_min_l].
        * intros s' p [<-|Hin] Hs; [|now apply (B s' p)].
          apply inf_expr_exact in E. cbn [inf_spec] in E. destruct E as [_ [E _]]. specialize (E p Hs). rewrite leval_lvar in E.
          destruct (A _ eq_refl) as [l [-> Hl]]. exists l. split; [reflexivity|].
          eapply Qle_trans; [exact Hl|]. destruct acc as [a|]; [|exact E]. eapply Qle_trans; [apply Q.le_min_r|exact E].
  Qed.

  Lemma bound_fold_max x : forall U acc r,
    bound_fold (sup_expr n (lvar x)) Qmax U acc = Some r ->
    (forall a, acc = Some a -> exists l, r = Some l /\ a <= l) /\
    (forall s p, In s U -> sat_sys s p -> exists l, r = Some l /\ p x <= l).
  Proof.
    induction U as [|s U IH]; intros acc r H; cbn [bound_fold] in H.
    - injection H as <-. split; [intros a ->; exists a; split; [reflexivity|apply Qle_refl]|intros s p []].
    - destruct (sup_expr n (lvar x) s) as [[| |m att]|] eqn:E; try discriminate.
      + destruct (IH _ _ H) as [A B]. split; [exact A|]. intros s' p [<-|Hin] Hs; [|now apply (B s' p)].
        apply sup_expr_exact in E. cbn [sup_spec] in E. exfalso. exact (E p Hs).
      + destruct (IH _ _ H) as [A B]. split.
        * intros a ->. destruct (A _ eq_refl) as [l [-> Hl]]. exists l. split; [reflexivity|].
          eapply Qle_trans; [apply Q.le_max_l|exact Hl].
        * intros s' p [<-|Hin] Hs; [|now apply (B s' p)].
          apply sup_expr_exact in E. cbn [sup_spec] in E. destruct E as [_ [E _]]. specialize (E p Hs). rewrite leval_lvar in E.
          destruct (A _ eq_refl) as [l [-> Hl]]. exists l. split; [reflexivity|].
          eapply Qle_trans; [|exact Hl]. destruct acc as [a|]; [|exact E]. eapply Qle_trans; [exact E|apply Q.le_max_r].
  Qed.

  Theorem ref_laws : laws rps rden r_is_empty r_minimize r_maximize r_unconstrain r_refine r_shift r_join.
  Proof.
    constructor.
    - intros U p q E [s [Hs H]]. exists s. split; [exact Hs|]. now apply (sat_sys_ext s p q).
    - intros U p E [s [Hs H]]. unfold r_is_empty in E. rewrite forallb_forall in E. exact (is_empty_sys_ok s p (E s Hs) H).
    - intros U x l p E [s [Hs H]]. unfold r_minimize in E.
      destruct (bound_fold (inf_expr n (lvar x)) Qmin U None) as [r|] eqn:B; [|discriminate]. subst r.
      destruct (bound_fold_min x U None _ B) as [_ X]. destruct (X s p Hs H) as [l' [[= <-] Hl]]. exact Hl.
    - intros U x u p E [s [Hs H]]. unfold r_maximize in E.
      destruct (bound_fold (sup_expr n (lvar x)) Qmax U None) as [r|] eqn:B; [|discriminate]. subst r.
      destruct (bound_fold_max x U None _ B) as [_ X]. destruct (X s p Hs H) as [l' [[= <-] Hl]]. exact Hl.
    - intros U x p t [s [Hs H]]. exists (unconstrain x s). split; [unfold r_unconstrain; now apply in_map|].
      apply unconstrain_spec. exists (p x). apply (sat_sys_ext s p); [|exact H].
      intros i. unfold upd. destruct (Nat.eqb_spec i x) as [->|]; reflexivity.
    - intros U c p [s [Hs H]] Hc. exists (union_sys s (sys_of_cons [c])).
      assert (Hsat : sat_sys (union_sys s (sys_of_cons [c])) p).
      { apply meet_spec. split; [exact H|]. apply sys_of_cons_sat. intros c' [<-|[]]. exact Hc. }
      split; [|exact Hsat]. unfold r_refine. apply filter_In. split.
      + now apply (in_map (fun s => union_sys s (sys_of_cons [c]))).
      + apply negb_true_iff. destruct (is_empty_sys _) eqn:E; [|reflexivity]. exfalso. exact (is_empty_sys_ok _ p E Hsat).
    - intros U x k p [s [Hs H]].
      exists (if (fresh_b n s && Nat.ltb x n)%bool then affine_image x n (shift_lin x k) 1 s else empty_sys).
      split; [unfold r_shift; now apply (in_map (fun s => if (fresh_b n s && Nat.ltb x n)%bool then affine_image x n (shift_lin x k) 1 s else empty_sys))|].
      destruct (fresh_b n s && Nat.ltb x n)%bool eqn:G; [|apply sat_empty_sys].
      apply andb_true_iff in G. destruct G as [G1 G2]. apply fresh_b_ok in G1. apply Nat.ltb_lt in G2.
      apply affine_image_spec; [exact G1| |lia|lia|].
      + unfold lcoef, shift_lin; cbn [lcoefs]. rewrite nth_unitv. destruct (Nat.eqb_spec n x); [lia|reflexivity].
      + exists p. split; [exact H|]. intros i. unfold upd. destruct (Nat.eqb_spec i x) as [->|]; [|reflexivity].
        unfold leval, shift_lin; cbn [lcoefs lcst]. rewrite dot_unitv, inject_Z_opp. change (inject_Z 1) with 1. field.
    - intros U V p [[s [Hs H]]|[s [Hs H]]]; exists s; (split; [apply in_or_app; auto|exact H]).
  Qed.

  (* the generic algorithm on this domain *)
  Definition ref_wrap (w : Z) (signed : bool) (o : overflow) (cs_p : option (list con)) (thr : Z) (ind patched : bool)
             (vars : list nat) (U : rps) : rps :=
    wrap_assign rps r_empty r_is_empty r_minimize r_maximize r_unconstrain r_refine r_shift r_join
                w signed o cs_p thr ind patched vars U.

  Theorem ref_wrap_sound w signed o cs_p thr ind patched vars :
    (0 < w)%Z -> NoDup vars -> ind = true \/ patched = true ->
    forall U q, required w signed vars o (guard cs_p) (rden U) q -> rden (ref_wrap w signed o cs_p thr ind patched vars U) q.
  Proof. intros Hw Hnd Hm U q R. apply wrap_generic_sound_lemma; auto. apply ref_laws. Qed.

  (* executable membership in a union *)
  Definition rden_b (U : rps) (p : point) : bool := existsb (fun s => sat_sys_b s p) U.
  Lemma rden_b_ok U p : rden_b U p = true <-> rden U p.
  Proof.
    unfold rden_b, rden. rewrite existsb_exists. split; intros [s [A B]]; exists s; (split; [exact A|]); now apply sat_sys_b_ok.
  Qed.
End Ref.

(* ---------- the code as it is loses a required point on the collective path ---------- *)
(* DESIGN.md 4.3 / known finding C17-collective-flip-var: signed 8 bits, overflow wraps, threshold 2, collective
   wrapping of A and B; argument 368 <= A <= 393, 891 <= B <= 930.  A spans 2 quadrants (complexity 2), B spans
   2 quadrants (complexity 4 > 2): the flag collective_wrap_too_complex is raised while visiting B, A is given
   the full range, and B itself is neither recorded for translation nor given the full range. *)
Definition ge_c (l : list Z) (b : Z) : con := {| ccoefs := l; ccst := b; ckd := GE |}.
Definition defect_arg : list con :=
  [ge_c [1] (-368); ge_c [-1] 393; ge_c [0; 1] (-891); ge_c [0; -1] 930]%Z.
Definition defect_p : point := pt_of [384 # 1; 891 # 1].
Definition defect_q : point := pt_of [-128 # 1; 123 # 1].

Lemma defect_required :
  required 8 true [0; 1]%nat OWraps [] (rden [sys_of_cons defect_arg]) defect_q.
Proof.
  exists defect_p, (fun v => match v with O => 384%Z | _ => 891%Z end). split; [|split; [|split; [|split]]].
  - exists (sys_of_cons defect_arg). split; [now left|]. apply sat_sys_b_ok. vm_compute. reflexivity.
  - intros v [<-|[<-|[]]]; vm_compute; reflexivity.
  - intros i Hi. destruct i as [|[|i]]; [exfalso; apply Hi; now left|exfalso; apply Hi; right; now left|].
    unfold defect_q, defect_p, pt_of. destruct i; reflexivity.
  - intros v [<-|[<-|[]]]; vm_compute; reflexivity.
  - intros c [].
Qed.

Lemma defect_lost_as_is :
  rden_b (ref_wrap 2 8 true OWraps None 2 false false [0; 1]%nat [sys_of_cons defect_arg]) defect_q = false.
Proof. vm_compute. reflexivity. Qed.

Lemma defect_kept_patched :
  rden_b (ref_wrap 2 8 true OWraps None 2 false true [0; 1]%nat [sys_of_cons defect_arg]) defect_q = true.
Proof. vm_compute. reflexivity. Qed.

Lemma defect_kept_individually :
  rden_b (ref_wrap 2 8 true OWraps None 2 true false [0; 1]%nat [sys_of_cons defect_arg]) defect_q = true.
Proof. vm_compute. reflexivity. Qed.
