(* The generic implementation of wrap_assign (src/wrap_assign.hh: wrap_assign :152, wrap_assign_ind :52,
   wrap_assign_col :104), transcribed as an algorithm over an abstract pointset interface.

   The interface (Section variables) is what the template uses of PSET: minimize / maximize of a variable,
   unconstrain, refine_with_constraint, affine_image(x, x - shift, 1), upper_bound_assign, the empty element
   PSET(space_dim, EMPTY), is_empty.  The LAWS are one-sided soundness laws only (every abstract operation
   over-approximates the concrete one), which is all the soundness of wrapping needs; they hold for every
   PPL domain that implements the generic wrap_assign (C/NNC polyhedra, BD shapes, octagonal shapes).

   The parameter [patched] selects between the code AS IT IS ([patched = true]: when the collective complexity
   first exceeds the threshold the pending translations are cleared and the current variable gets the full
   range, wrap_assign.hh since /repo commit 94f2bc7) and the code BEFORE that commit ([patched = false]:
   that variable was neither translated nor given the full range; see wrap_generic_pre_fix_refuted). *)
From Coq Require Import List ZArith QArith Qround Lia Lqa Bool.
Require Import PPLV.Base.FM PPLV.Base.Sys PPLV.Base.Gens PPLV.Poly.PolyOps PPLV.Wrap.WrapSpec.
Import ListNotations.
Local Open Scope Z_scope.

Section Generic.
  Variable PS : Type.
  Variable den : PS -> point -> Prop.
  Variable ps_empty : PS.                            (* PSET hull(space_dim, EMPTY) *)
  Variable ps_is_empty : PS -> bool.                 (* pointset.is_empty() *)
  Variable ps_minimize ps_maximize : PS -> nat -> option Q.   (* None: minimize()/maximize() returned false *)
  Variable ps_unconstrain : PS -> nat -> PS.         (* pointset.unconstrain(x) *)
  Variable ps_refine : PS -> con -> PS.              (* p.refine_with_constraint(c) *)
  Variable ps_shift : PS -> nat -> Z -> PS.          (* p.affine_image(x, x - shift, 1) *)
  Variable ps_join : PS -> PS -> PS.                 (* hull.upper_bound_assign(p)  =  ps_join hull p *)

  Record laws : Prop := {
    law_ext : forall P p q, peq p q -> den P p -> den P q;
    law_is_empty : forall P p, ps_is_empty P = true -> ~ den P p;
    law_min : forall P x l p, ps_minimize P x = Some l -> den P p -> (l <= p x)%Q;
    law_max : forall P x u p, ps_maximize P x = Some u -> den P p -> (p x <= u)%Q;
    law_unconstrain : forall P x p t, den P p -> den (ps_unconstrain P x) (upd p x t);
    law_refine : forall P c p, den P p -> sat_con c p -> den (ps_refine P c) p;
    law_shift : forall P x s p, den P p -> den (ps_shift P x s) (upd p x (p x - inject_Z s)%Q);
    law_join : forall P R p, den P p \/ den R p -> den (ps_join P R) p
  }.

  (* ---------- parameters of the call ---------- *)
  Variable w : Z.
  Variable signed : bool.
  Variable o : overflow.
  Variable cs_p : option (list con).      (* the optional guard *)
  Variable thr : Z.                       (* complexity_threshold *)
  Variable ind : bool.                    (* wrap_individually *)
  Variable patched : bool.

  Let M := modulus w.
  Let minv := min_value w signed.
  Let maxv := max_value w signed.

  Definition guard : list con := match cs_p with Some cs => cs | None => [] end.

  (* min_value <= x   and   x <= max_value *)
  Definition lb_con (x : nat) : con := {| ccoefs := unitv x; ccst := - minv; ckd := GE |}.
  Definition ub_con (x : nat) : con := {| ccoefs := map Z.opp (unitv x); ccst := maxv; ckd := GE |}.

  Definition refine_all (P : PS) (cs : list con) : PS := fold_left ps_refine cs P.
  Definition refine_range (P : PS) (x : nat) : PS := ps_refine (ps_refine P (lb_con x)) (ub_con x).

  (* for (quadrant = first; quadrant <= last; ++quadrant) *)
  Definition quads (f l : Z) : list Z := map (fun i => f + Z.of_nat i) (seq 0 (Z.to_nat (l - f + 1))).

  (* if (quadrant != 0) { shift = quadrant * 2^w; p.affine_image(x, x - shift, 1); } *)
  Definition translated (P : PS) (x : nat) (k : Z) : PS := if k =? 0 then P else ps_shift P x (k * M).

  (* the loop of wrap_assign.hh:347-358 (individual wrapping, no guard) *)
  Definition wrap_one (P : PS) (x : nat) (f l : Z) : PS :=
    fold_left (fun hull k => ps_join hull (refine_range (translated P x k) x)) (quads f l) ps_empty.

  Definition trans : Type := (nat * (Z * Z))%type.     (* Wrap_Dim_Translations: var, first_quadrant, last_quadrant *)

  Record st := {
    s_ps : PS;                   (* pointset *)
    s_frb : list con;            (* full_range_bounds *)
    s_trans : list trans;        (* translations *)
    s_dims : list nat;           (* dimensions_to_be_translated *)
    s_cplx : Z;                  (* collective_wrap_complexity *)
    s_too : bool                 (* collective_wrap_too_complex *)
  }.

  Definition set_ps (s : st) (P : PS) : st :=
    {| s_ps := P; s_frb := s_frb s; s_trans := s_trans s; s_dims := s_dims s; s_cplx := s_cplx s; s_too := s_too s |}.
  Definition add_frb (s : st) (cs : list con) : st :=
    {| s_ps := s_ps s; s_frb := s_frb s ++ cs; s_trans := s_trans s; s_dims := s_dims s; s_cplx := s_cplx s; s_too := s_too s |}.
  Definition set_cplx (s : st) (c : Z) : st :=
    {| s_ps := s_ps s; s_frb := s_frb s; s_trans := s_trans s; s_dims := s_dims s; s_cplx := c; s_too := s_too s |}.
  Definition push (s : st) (x : nat) (f l : Z) : st :=
    {| s_ps := s_ps s; s_frb := s_frb s; s_trans := s_trans s ++ [(x, (f, l))]; s_dims := s_dims s ++ [x];
       s_cplx := s_cplx s; s_too := s_too s |}.

  (* set_full_range:  pointset.unconstrain(x); full_range_bounds gets min_value <= x, x <= max_value *)
  Definition full_range (x : nat) (s : st) : st :=
    add_frb (set_ps s (ps_unconstrain (s_ps s) x)) [lb_con x; ub_con x].

  Definition tvars (ts : list trans) : list nat := map fst ts.

  (* wrap_assign.hh:326-339: the complexity of collective wrapping has just exceeded the threshold *)
  Definition too_complex_action (s : st) : st :=
    {| s_ps := fold_left ps_unconstrain (tvars (s_trans s)) (s_ps s);
       s_frb := s_frb s ++ flat_map (fun y => [lb_con y; ub_con y]) (tvars (s_trans s));
       s_trans := if patched then [] else s_trans s;
       s_dims := if patched then [] else s_dims s;
       s_cplx := s_cplx s; s_too := true |}.

  Definition is_undefined (ov : overflow) : bool := match ov with OUndefined => true | _ => false end.
  Definition is_none {A} (x : option A) : bool := match x with None => true | Some _ => false end.

  (* one iteration of the loop over vars (wrap_assign.hh:264-366) *)
  Definition step (s : st) (x : nat) : st :=
    match ps_minimize (s_ps s) x, ps_maximize (s_ps s) x with
    | Some l, Some u =>
        let fq := (Qfloor l - minv) / M in
        let lq := (Qfloor u - minv) / M in
        if (fq =? 0) && (lq =? 0) then s
        else
          match o with
          | OImpossible =>
              add_frb s ((if fq <? 0 then [lb_con x] else []) ++ (if 0 <? lq then [ub_con x] else []))
          | _ =>
              if is_undefined o || s_too s then full_range x s
              else
                let quadrants := lq - fq + 1 in
                if thr <? quadrants then full_range x s
                else
                  let s1 :=
                    if negb ind && negb (s_too s) then
                      let c := s_cplx s * quadrants in
                      if thr <? c then too_complex_action (set_cplx s c) else set_cplx s c
                    else s in
                  if ind && is_none cs_p then set_ps s1 (wrap_one (s_ps s1) x fq lq)
                  else if ind || negb (s_too s1) then push s1 x fq lq
                  else if patched then full_range x s1 else s1
          end
    | _, _ => full_range x s
    end.

  (* j->expression().all_zeroes(vars) *)
  Definition indep (c : con) (dims : list nat) : bool := forallb (fun v => nth v (ccoefs c) 0 =? 0) dims.

  (* wrap_assign_ind (wrap_assign.hh:52) *)
  Fixpoint wrap_ind (P : PS) (dims : list nat) (ts : list trans) : PS :=
    match ts with
    | [] => P
    | (x, (f, l)) :: ts' =>
        let dims' := remove Nat.eq_dec x dims in
        let hull :=
          fold_left (fun hull k =>
                       let p := translated P x k in
                       let p1 := match dims' with
                                 | [] => refine_all p guard
                                 | _ => refine_all p (filter (fun c => indep c dims') guard)
                                 end in
                       ps_join hull (refine_range p1 x))
                    (quads f l) ps_empty in
        wrap_ind hull dims' ts'
    end.

  (* wrap_assign_col (wrap_assign.hh:104); [dims] is the (constant) argument `vars' *)
  Fixpoint wrap_col (dims : list nat) (dest src : PS) (ts : list trans) : PS :=
    match ts with
    | [] =>
        let p := match cs_p with Some cs => refine_all src cs | None => src end in
        ps_join dest (fold_left refine_range dims p)
    | (x, (f, l)) :: ts' =>
        fold_left (fun d k => wrap_col dims d (translated src x k) ts') (quads f l) dest
    end.

  Definition init (P : PS) : st :=
    {| s_ps := P; s_frb := []; s_trans := []; s_dims := []; s_cplx := 1; s_too := false |}.

  (* wrap_assign (wrap_assign.hh:152); vars is the Variables_Set in increasing order *)
  Definition wrap_assign (vars : list nat) (P : PS) : PS :=
    match vars with
    | [] => match cs_p with Some cs => refine_all P cs | None => P end
    | _ =>
        if ps_is_empty P then P
        else
          let s := fold_left step vars (init P) in
          let P1 := match s_trans s with
                    | [] => s_ps s
                    | _ => if ind then wrap_ind (s_ps s) (s_dims s) (s_trans s)
                           else wrap_col (s_dims s) ps_empty (s_ps s) (s_trans s)
                    end in
          let P2 := match cs_p with Some cs => refine_all P1 cs | None => P1 end in
          refine_all P2 (s_frb s)
    end.

  (* ================================================================================================ *)
  (* soundness *)
  Hypothesis L : laws.
  Hypothesis Hw : 0 < w.

  Lemma M_pos : 0 < M.
  Proof. apply modulus_pos, Hw. Qed.

  Lemma sat_lb x q : sat_con (lb_con x) q <-> (inject_Z minv <= q x)%Q.
  Proof.
    unfold sat_con, lb_con, ceval; cbn [ckd ccoefs ccst]. rewrite dot_unitv, inject_Z_opp. split; intros; lra.
  Qed.

  Lemma sat_ub x q : sat_con (ub_con x) q <-> (q x <= inject_Z maxv)%Q.
  Proof.
    unfold sat_con, ub_con, ceval; cbn [ckd ccoefs ccst]. rewrite dot_opp, dot_unitv. split; intros; lra.
  Qed.

  Lemma sat_range_int x q z : in_range w signed z -> (q x == inject_Z z)%Q -> sat_con (lb_con x) q /\ sat_con (ub_con x) q.
  Proof.
    intros [R1 R2] E. rewrite sat_lb, sat_ub, E. rewrite <- !Zle_Qle. fold minv maxv in R1, R2. lia.
  Qed.

  Lemma refine_all_hit cs : forall P r, den P r -> sat_cons cs r -> den (refine_all P cs) r.
  Proof.
    unfold refine_all. induction cs as [|c cs IH]; intros P r H S; cbn [fold_left]; [exact H|].
    apply IH.
    - apply (law_refine L); [exact H|]. apply S. now left.
    - intros c' Hc'. apply S. now right.
  Qed.

  Lemma refine_range_hit P x r z :
    den P r -> in_range w signed z -> (r x == inject_Z z)%Q -> den (refine_range P x) r.
  Proof.
    intros H R E. destruct (sat_range_int x r z R E) as [A B]. unfold refine_range.
    apply (law_refine L); [|exact B]. apply (law_refine L); [exact H|exact A].
  Qed.

  (* folds of joins *)
  Lemma fold_join_mono {A} (g : A -> PS) r : forall l h, den h r -> den (fold_left (fun h k => ps_join h (g k)) l h) r.
  Proof.
    induction l as [|k l IH]; intros h H; cbn [fold_left]; [exact H|]. apply IH. apply (law_join L). now left.
  Qed.

  Lemma fold_join_hit {A} (g : A -> PS) r k : forall l h, In k l -> den (g k) r -> den (fold_left (fun h k => ps_join h (g k)) l h) r.
  Proof.
    induction l as [|k' l IH]; intros h Hin H; [destruct Hin|]. cbn [fold_left]. destruct Hin as [->|Hin].
    - apply fold_join_mono. apply (law_join L). now right.
    - now apply IH.
  Qed.

  Lemma fold_mono_hit {A} (F : PS -> A -> PS) r k :
    (forall d k', den d r -> den (F d k') r) -> (forall d, den (F d k) r) ->
    forall l d, In k l -> den (fold_left F l d) r.
  Proof.
    intros Hm Hh. assert (Mono : forall l d, den d r -> den (fold_left F l d) r).
    { induction l as [|k' l IH]; intros d H; cbn [fold_left]; [exact H|]. apply IH, Hm, H. }
    induction l as [|k' l IH]; intros d Hin; [destruct Hin|]. cbn [fold_left]. destruct Hin as [->|Hin].
    - apply Mono, Hh.
    - now apply IH.
  Qed.

  Lemma in_quads f l k : f <= k <= l -> In k (quads f l).
  Proof.
    intros H. unfold quads. apply in_map_iff. exists (Z.to_nat (k - f)). split; [lia|].
    apply in_seq. lia.
  Qed.

  (* the translation of quadrant k applied to a point whose x-coordinate is the integer z of quadrant k *)
  Lemma translated_hit P x k r z :
    den P r -> (r x == inject_Z z)%Q -> quadrant w signed z = k ->
    den (translated P x k) (upd r x (inject_Z (wrap w signed z))).
  Proof.
    intros H E Q. destruct (quadrant_arith_lemma w signed Hw z k Q) as [W _]. fold M in W.
    unfold translated. destruct (Z.eqb_spec k 0) as [K0|K0].
    - apply (law_ext L _ r); [|exact H]. intros i. unfold upd. destruct (Nat.eqb_spec i x) as [->|]; [|reflexivity].
      rewrite E, <- W, K0. apply inject_Z_injective. lia.
    - apply (law_ext L _ (upd r x (r x - inject_Z (k * M))%Q)); [|now apply (law_shift L)].
      intros i. unfold upd. destruct (Nat.eqb_spec i x) as [->|]; [|reflexivity].
      rewrite E, <- W. unfold Zminus. rewrite inject_Z_plus, inject_Z_opp. reflexivity.
  Qed.

  Lemma upd_back (r : point) x a : peq (upd (upd r x a) x (r x)) r.
  Proof. intros i. unfold upd. destruct (Nat.eqb_spec i x) as [->|]; reflexivity. Qed.

  Lemma fold_unconstrain ys : forall P a b, den P a -> (forall i, ~ In i ys -> (b i == a i)%Q) -> den (fold_left ps_unconstrain ys P) b.
  Proof.
    induction ys as [|y ys IH]; intros P a b H E; cbn [fold_left].
    - apply (law_ext L _ a); [|exact H]. intros i. symmetry. apply E. intros [].
    - apply (IH _ (upd a y (b y))); [now apply (law_unconstrain L)|].
      intros i Hi. unfold upd. destruct (Nat.eqb_spec i y) as [->|Hne]; [reflexivity|].
      apply E. intros [X|X]; [congruence|contradiction].
  Qed.

  (* evaluation of a constraint depends only on the coordinates with a non-zero coefficient *)
  Lemma dot_agree l : forall (r q : point) i, (forall j, nth j l 0 <> 0 -> (r (i + j)%nat == q (i + j)%nat)%Q) -> (dot l r i == dot l q i)%Q.
  Proof.
    induction l as [|a l IH]; intros r q i H; cbn [dot]; [reflexivity|].
    rewrite (IH r q (S i)).
    - destruct (Z.eq_dec a 0) as [->|Ha]; [change (inject_Z 0) with 0%Q; lra|].
      specialize (H O Ha). rewrite Nat.add_0_r in H. rewrite H. reflexivity.
    - intros j Hj. replace (S i + j)%nat with (i + S j)%nat by lia. apply H. exact Hj.
  Qed.

  Lemma sat_con_agree c (r q : point) : (forall j, nth j (ccoefs c) 0 <> 0 -> (r j == q j)%Q) -> sat_con c q -> sat_con c r.
  Proof.
    intros H S. unfold sat_con, ceval in *. pose proof (dot_agree (ccoefs c) r q 0%nat H) as E.
    destruct (ckd c); lra.
  Qed.

  (* ---------- the fixed data of a required point ---------- *)
  Variable vars : list nat.
  Variable p q : point.
  Variable pz : nat -> Z.
  Hypothesis Hint : forall v, In v vars -> (p v == inject_Z (pz v))%Q.
  Hypothesis Hout : forall i, ~ In i vars -> (q i == p i)%Q.
  Hypothesis Htgt : forall v, In v vars -> target w signed o (pz v) (q v).
  Hypothesis Hcs : sat_cons guard q.
  Hypothesis Hmode : ind = true \/ patched = true.

  Lemma q_range v : In v vars -> sat_con (lb_con v) q /\ sat_con (ub_con v) q.
  Proof.
    intros Hv. destruct (target_in_range w signed Hw o _ _ (Htgt v Hv)) as [z [R E]]. exact (sat_range_int v q z R E).
  Qed.

  (* the invariant of the loop over vars; [done] are the variables already visited *)
  Definition inv_ps (done : list nat) (tv : list nat) (P : PS) : Prop :=
    forall r, (forall v, In v done -> ~ In v tv -> (r v == q v)%Q) ->
              (forall i, ~ In i done \/ In i tv -> (r i == p i)%Q) -> den P r.

  Record inv (done : list nat) (s : st) : Prop := {
    inv_A : inv_ps done (tvars (s_trans s)) (s_ps s);
    inv_B : forall c, In c (s_frb s) -> sat_con c q;
    inv_C : forall x f l, In (x, (f, l)) (s_trans s) -> In x done /\ f <= quadrant w signed (pz x) <= l /\ o = OWraps;
    inv_D : forall v, In v (s_dims s) <-> In v (tvars (s_trans s));
    inv_N : NoDup (tvars (s_trans s))
  }.

  Lemma tv_done done s : inv done s -> forall v, In v (tvars (s_trans s)) -> In v done.
  Proof.
    intros I v Hv. unfold tvars in Hv. apply in_map_iff in Hv. destruct Hv as [[x [f l]] [<- Hin]].
    now destruct (inv_C _ _ I x f l Hin).
  Qed.

  (* a visited variable keeps its value: nothing to do *)
  Lemma inv_keep done s x : inv done s -> ~ In x done -> (q x == p x)%Q -> inv (x :: done) s.
  Proof.
    intros I Hx E. constructor.
    - intros r H1 H2. apply (inv_A _ _ I).
      + intros v Hv Hn. apply H1; [now right|exact Hn].
      + intros i [Hi|Hi].
        * destruct (Nat.eq_dec i x) as [->|Hne].
          -- rewrite <- E. apply H1; [now left|]. intros X. apply Hx. exact (tv_done _ _ I _ X).
          -- apply H2. left. intros [X|X]; [congruence|contradiction].
        * apply H2. now right.
    - apply (inv_B _ _ I).
    - intros y f l Hin. destruct (inv_C _ _ I y f l Hin) as [A B]. split; [now right|exact B].
    - apply (inv_D _ _ I).
    - apply (inv_N _ _ I).
  Qed.

  Lemma inv_add_frb done s cs : inv done s -> (forall c, In c cs -> sat_con c q) -> inv done (add_frb s cs).
  Proof.
    intros I H. constructor; cbn [add_frb s_ps s_frb s_trans s_dims]; try apply I.
    intros c Hc. apply in_app_or in Hc. destruct Hc; [now apply (inv_B _ _ I)|now apply H].
  Qed.

  (* a visited variable gets the full range *)
  Lemma inv_full_range done s x : inv done s -> ~ In x done -> In x vars -> inv (x :: done) (full_range x s).
  Proof.
    intros I Hx Hv. unfold full_range. apply inv_add_frb.
    2:{ intros c [<-|[<-|[]]]; now apply q_range. }
    assert (Hxt : ~ In x (tvars (s_trans s))) by (intros X; apply Hx; exact (tv_done _ _ I _ X)).
    constructor; cbn [set_ps s_ps s_frb s_trans s_dims].
    - intros r H1 H2.
      apply (law_ext L _ (upd (upd r x (p x)) x (r x))); [apply upd_back|].
      apply (law_unconstrain L). apply (inv_A _ _ I).
      + intros v Hvd Hn. unfold upd. destruct (Nat.eqb_spec v x) as [->|Hne]; [contradiction|].
        apply H1; [now right|exact Hn].
      + intros i Hi. unfold upd. destruct (Nat.eqb_spec i x) as [->|Hne]; [reflexivity|].
        apply H2. destruct Hi as [Hi|Hi]; [left|now right]. intros [X|X]; [congruence|contradiction].
    - apply (inv_B _ _ I).
    - intros y f l Hin. destruct (inv_C _ _ I y f l Hin) as [A B]. split; [now right|exact B].
    - apply (inv_D _ _ I).
    - apply (inv_N _ _ I).
  Qed.

  (* the witness point of the invariant: q on the finished variables, p elsewhere *)
  Definition mid (done tv : list nat) : point :=
    fun i => if in_dec Nat.eq_dec i done then (if in_dec Nat.eq_dec i tv then p i else q i) else p i.

  Lemma mid_in done s : inv done s -> den (s_ps s) (mid done (tvars (s_trans s))).
  Proof.
    intros I. apply (inv_A _ _ I).
    - intros v Hv Hn. unfold mid. destruct (in_dec Nat.eq_dec v done); [|contradiction].
      destruct (in_dec Nat.eq_dec v (tvars (s_trans s))); [contradiction|reflexivity].
    - intros i Hi. unfold mid. destruct (in_dec Nat.eq_dec i done) as [Hd|Hd]; [|reflexivity].
      destruct (in_dec Nat.eq_dec i (tvars (s_trans s))) as [Ht|Ht]; [reflexivity|]. destruct Hi; contradiction.
  Qed.

  Lemma mid_x done tv x : ~ In x done -> mid done tv x = p x.
  Proof. intros H. unfold mid. destruct (in_dec Nat.eq_dec x done); [contradiction|reflexivity]. Qed.

  Lemma set_cplx_inv done s c : inv done s -> inv done (set_cplx s c).
  Proof. intros I. constructor; cbn [set_cplx s_ps s_frb s_trans s_dims]; apply I. Qed.

  Lemma inv_push done s x f l :
    inv done s -> ~ In x done -> f <= quadrant w signed (pz x) <= l -> o = OWraps -> inv (x :: done) (push s x f l).
  Proof.
    intros I Hx B Ho.
    assert (Hxt : ~ In x (tvars (s_trans s))) by (intros X; apply Hx; exact (tv_done _ _ I _ X)).
    assert (Etv : tvars (s_trans s ++ [(x, (f, l))]) = tvars (s_trans s) ++ [x]) by (unfold tvars; now rewrite map_app).
    constructor; cbn [push s_ps s_frb s_trans s_dims].
    - rewrite Etv. intros r H1 H2. apply (inv_A _ _ I).
      + intros v Hv Hn. apply H1; [now right|]. intros X. apply in_app_or in X. destruct X as [X|[X|[]]]; [contradiction|].
        subst v. contradiction.
      + intros i [Hi|Hi].
        * destruct (Nat.eq_dec i x) as [->|Hne].
          -- apply H2. right. apply in_or_app. right. now left.
          -- apply H2. left. intros [X|X]; [congruence|contradiction].
        * apply H2. right. apply in_or_app. now left.
    - apply (inv_B _ _ I).
    - intros y f' l' Hin. apply in_app_or in Hin. destruct Hin as [Hin|[Hin|[]]].
      + destruct (inv_C _ _ I y f' l' Hin) as [A B']. split; [now right|exact B'].
      + injection Hin as <- <- <-. split; [now left|]. split; [exact B|exact Ho].
    - intros v. rewrite Etv, !in_app_iff. rewrite (inv_D _ _ I v). reflexivity.
    - rewrite Etv. apply (proj2 (NoDup_Add (Add_app x (tvars (s_trans s)) []))). rewrite app_nil_r.
      split; [apply (inv_N _ _ I)|exact Hxt].
  Qed.

  Lemma wrap_one_inv done s x f l :
    inv done s -> ~ In x done -> In x vars -> f <= quadrant w signed (pz x) <= l -> o = OWraps ->
    inv (x :: done) (set_ps s (wrap_one (s_ps s) x f l)).
  Proof.
    intros I Hx Hv B Ho.
    assert (Hxt : ~ In x (tvars (s_trans s))) by (intros X; apply Hx; exact (tv_done _ _ I _ X)).
    pose proof (Htgt x Hv) as T. rewrite Ho in T. cbn [target] in T.
    constructor; cbn [set_ps s_ps s_frb s_trans s_dims].
    - intros r H1 H2. unfold wrap_one.
      apply (fold_join_hit (fun k => refine_range (translated (s_ps s) x k) x) r (quadrant w signed (pz x))); [now apply in_quads|].
      assert (Ex : (r x == inject_Z (wrap w signed (pz x)))%Q).
      { rewrite <- T. apply H1; [now left|exact Hxt]. }
      apply (refine_range_hit _ x r (wrap w signed (pz x))); [|now apply wrap_in_range|exact Ex].
      apply (law_ext L _ (upd (upd r x (p x)) x (inject_Z (wrap w signed (pz x))))).
      { intros i. unfold upd. destruct (Nat.eqb_spec i x) as [->|]; [now symmetry|reflexivity]. }
      apply translated_hit; [| |reflexivity].
      + apply (inv_A _ _ I).
        * intros v Hvd Hn. unfold upd. destruct (Nat.eqb_spec v x) as [->|Hne]; [contradiction|]. apply H1; [now right|exact Hn].
        * intros i Hi. unfold upd. destruct (Nat.eqb_spec i x) as [->|Hne]; [reflexivity|].
          apply H2. destruct Hi as [Hi|Hi]; [left|now right]. intros [X|X]; [congruence|contradiction].
      + unfold upd. rewrite Nat.eqb_refl. now apply Hint.
    - apply (inv_B _ _ I).
    - intros y f' l' Hin. destruct (inv_C _ _ I y f' l' Hin) as [A B']. split; [now right|exact B'].
    - apply (inv_D _ _ I).
    - apply (inv_N _ _ I).
  Qed.

  (* the patched too-complex action: all pending translations are replaced by the full range *)
  Lemma too_complex_inv done s :
    patched = true -> inv done s -> incl done vars -> inv done (too_complex_action s).
  Proof.
    intros Hp I Hdv. unfold too_complex_action. rewrite Hp.
    constructor; cbn [s_ps s_frb s_trans s_dims tvars map].
    - intros r H1 H2.
      set (tv := tvars (s_trans s)).
      apply (fold_unconstrain tv _ (fun i => if in_dec Nat.eq_dec i tv then p i else r i)).
      + apply (inv_A _ _ I); fold tv.
        * intros v Hv Hn. cbn beta. destruct (in_dec Nat.eq_dec v tv); [contradiction|]. apply H1; [exact Hv|intros []].
        * intros i Hi. cbn beta. destruct (in_dec Nat.eq_dec i tv) as [Ht|Ht]; [reflexivity|].
          destruct Hi as [Hi|Hi]; [|contradiction]. apply H2. now left.
      + intros i Hi. cbn beta. destruct (in_dec Nat.eq_dec i tv); [contradiction|reflexivity].
    - intros c Hc. apply in_app_or in Hc. destruct Hc as [Hc|Hc]; [now apply (inv_B _ _ I)|].
      apply in_flat_map in Hc. destruct Hc as [y [Hy Hc]].
      assert (Hyv : In y vars) by (apply Hdv; exact (tv_done _ _ I _ Hy)).
      destruct (q_range y Hyv) as [A B]. destruct Hc as [<-|[<-|[]]]; assumption.
    - intros x f l [].
    - intros v. tauto.
    - constructor.
  Qed.

  Lemma step_inv done s x :
    inv done s -> incl done vars -> ~ In x done -> In x vars -> inv (x :: done) (step s x).
  Proof.
    intros I Hdv Hx Hv. unfold step.
    destruct (ps_minimize (s_ps s) x) as [lo|] eqn:Emin; [|now apply inv_full_range].
    destruct (ps_maximize (s_ps s) x) as [hi|] eqn:Emax; [|now apply inv_full_range].
    pose proof (mid_in _ _ I) as Hmid.
    pose proof (law_min L _ _ _ _ Emin Hmid) as Hlo. pose proof (law_max L _ _ _ _ Emax Hmid) as Hhi.
    rewrite (mid_x _ _ _ Hx), (Hint x Hv) in Hlo, Hhi.
    pose proof (quadrant_between w signed Hw lo hi (pz x) Hlo Hhi) as QB. fold M minv in QB.
    set (fq := (Qfloor lo - minv) / M) in *. set (lq := (Qfloor hi - minv) / M) in *.
    destruct ((fq =? 0) && (lq =? 0)) eqn:E0.
    { apply andb_true_iff in E0. destruct E0 as [A B]. apply Z.eqb_eq in A, B.
      apply inv_keep; [exact I|exact Hx|]. rewrite (Hint x Hv).
      apply (target_quadrant0 w signed Hw o); [lia|now apply Htgt]. }
    assert (Wcase : o = OWraps -> is_undefined o || s_too s = false ->
      inv (x :: done)
       (let quadrants := lq - fq + 1 in
        if thr <? quadrants then full_range x s
        else
          let s1 := if negb ind && negb (s_too s)
                    then let c := s_cplx s * quadrants in if thr <? c then too_complex_action (set_cplx s c) else set_cplx s c
                    else s in
          if ind && is_none cs_p then set_ps s1 (wrap_one (s_ps s1) x fq lq)
          else if ind || negb (s_too s1) then push s1 x fq lq
          else if patched then full_range x s1 else s1)).
    { intros Ho Hnt. cbn zeta. destruct (thr <? lq - fq + 1); [now apply inv_full_range|].
      destruct (Bool.bool_dec ind true) as [Eind|Eind]; [|apply not_true_is_false in Eind]; rewrite Eind; cbn [negb andb orb].
      - destruct (is_none cs_p); [now apply wrap_one_inv|now apply inv_push].
      - pose proof Hmode as Hmd. destruct Hmd as [X|Hp]; [congruence|]. rewrite Hp.
        rewrite Ho in Hnt. cbn [is_undefined orb] in Hnt. rewrite Hnt. cbn [negb].
        destruct (thr <? s_cplx s * (lq - fq + 1)).
        + cbn [too_complex_action s_too negb]. apply inv_full_range; [|exact Hx|exact Hv].
          apply too_complex_inv; [exact Hp| |exact Hdv]. now apply set_cplx_inv.
        + cbn [set_cplx s_too]. rewrite Hnt. cbn [negb]. apply inv_push; [|exact Hx|exact QB|exact Ho].
          now apply set_cplx_inv. }
    assert (Hcases : o = OWraps \/ o = OUndefined \/ o = OImpossible) by (clear; destruct o; auto).
    destruct Hcases as [Eo|[Eo|Eo]]; rewrite Eo.
    - destruct (is_undefined OWraps || s_too s) eqn:Hnt; [now apply inv_full_range|]. apply Wcase; [exact Eo|now rewrite Eo].
    - cbn [is_undefined orb]. now apply inv_full_range.
    - pose proof (Htgt x Hv) as T. rewrite Eo in T. cbn [target] in T. destruct T as [R T].
      apply inv_add_frb.
      + apply inv_keep; [exact I|exact Hx|]. now rewrite T, (Hint x Hv).
      + intros c Hc. destruct (q_range x Hv) as [A B]. apply in_app_or in Hc.
        destruct Hc as [Hc|Hc]; [destruct (fq <? 0)|destruct (0 <? lq)]; try (destruct Hc as [<-|[]]; assumption); destruct Hc.
  Qed.

  Lemma loop_inv : forall vs done s,
    inv done s -> incl done vars -> incl vs vars -> NoDup (vs ++ done) ->
    exists done', inv done' (fold_left step vs s) /\ (forall v, In v done' <-> In v vs \/ In v done).
  Proof.
    induction vs as [|x vs IH]; intros done s I Hdv Hvs Hnd; cbn [fold_left].
    - exists done. split; [exact I|]. intros v. cbn [In]. tauto.
    - cbn [app] in Hnd. apply NoDup_cons_iff in Hnd. destruct Hnd as [Hx Hnd].
      assert (Hxd : ~ In x done) by (intros X; apply Hx; apply in_or_app; now right).
      assert (Hxv : In x vars) by (apply Hvs; now left).
      destruct (IH (x :: done) (step s x)) as [done' [I' E]].
      + now apply step_inv.
      + intros v [<-|Hvd]; [exact Hxv|now apply Hdv].
      + intros v Hv0. apply Hvs. now right.
      + apply (proj2 (NoDup_Add (Add_app x vs done))). split; [exact Hnd|exact Hx].
      + exists done'. split; [exact I'|]. intros v. rewrite E. cbn [In]. tauto.
  Qed.
  (* ---------- after the loop: every variable of vars has been visited ---------- *)
  (* the invariant with done = vars: P contains every point that is q outside the pending
     translation variables and p on them *)
  Definition pend (tv : list nat) (P : PS) : Prop :=
    forall r, (forall i, ~ In i tv -> (r i == q i)%Q) -> (forall i, In i tv -> (r i == p i)%Q) -> den P r.

  Definition bounds_ok (ts : list trans) : Prop :=
    forall x f l, In (x, (f, l)) ts -> In x vars /\ f <= quadrant w signed (pz x) <= l /\ o = OWraps.

  Lemma pend_step P x tv r :
    pend (x :: tv) P -> ~ In x tv -> In x vars -> o = OWraps ->
    (forall i, ~ In i tv -> (r i == q i)%Q) -> (forall i, In i tv -> (r i == p i)%Q) ->
    den (translated P x (quadrant w signed (pz x))) r.
  Proof.
    intros HP Hx Hv Ho H1 H2.
    pose proof (Htgt x Hv) as T. rewrite Ho in T. cbn [target] in T.
    apply (law_ext L _ (upd (upd r x (p x)) x (inject_Z (wrap w signed (pz x))))).
    { intros i. unfold upd. destruct (Nat.eqb_spec i x) as [->|]; [|reflexivity]. rewrite <- T. symmetry. now apply H1. }
    apply translated_hit; [| |reflexivity].
    - apply HP.
      + intros i Hi. unfold upd. destruct (Nat.eqb_spec i x) as [->|Hne]; [exfalso; apply Hi; now left|].
        apply H1. intros X. apply Hi. now right.
      + intros i [<-|Hi]; unfold upd; [now rewrite Nat.eqb_refl|].
        destruct (Nat.eqb_spec i x) as [->|Hne]; [reflexivity|now apply H2].
    - unfold upd. rewrite Nat.eqb_refl. now apply Hint.
  Qed.

  Lemma in_remove_iff x dims v : In v (remove Nat.eq_dec x dims) <-> In v dims /\ v <> x.
  Proof. split; [apply in_remove|intros [A B]; now apply in_in_remove]. Qed.

  Lemma guard_filter_sat dims r :
    (forall i, ~ In i dims -> (r i == q i)%Q) ->
    sat_cons (filter (fun c => indep c dims) guard) r.
  Proof.
    intros H c Hc. apply filter_In in Hc. destruct Hc as [Hc Hi]. apply (sat_con_agree c r q); [|now apply Hcs].
    intros j Hj. apply H. intros X. unfold indep in Hi. rewrite forallb_forall in Hi. specialize (Hi j X).
    apply Z.eqb_eq in Hi. contradiction.
  Qed.

  Lemma wrap_ind_sound : forall ts P dims,
    pend (tvars ts) P -> bounds_ok ts -> NoDup (tvars ts) -> (forall v, In v dims <-> In v (tvars ts)) ->
    den (wrap_ind P dims ts) q.
  Proof.
    induction ts as [|[x [f l]] ts IH]; intros P dims HP HB HN HD; cbn [wrap_ind].
    - apply HP; [reflexivity|intros i []].
    - cbn [tvars map fst] in HP, HN, HD. fold (tvars ts) in HP, HN, HD.
      apply NoDup_cons_iff in HN. destruct HN as [Hx HN].
      destruct (HB x f l (or_introl eq_refl)) as [Hv [Bq Ho]].
      set (dims' := remove Nat.eq_dec x dims).
      assert (HD' : forall v, In v dims' <-> In v (tvars ts)).
      { intros v. unfold dims'. rewrite in_remove_iff, HD. cbn [In]. split.
        - intros [[X|X] Y]; [congruence|exact X].
        - intros X. split; [now right|]. intros ->. contradiction. }
      apply IH; [|intros y f' l' Hin; apply HB; now right|exact HN|exact HD'].
      intros r H1 H2.
      apply (fold_join_hit (fun k => refine_range (match dims' with [] => refine_all (translated P x k) guard
                                                   | _ => refine_all (translated P x k) (filter (fun c => indep c dims') guard) end) x)
                           r (quadrant w signed (pz x))); [now apply in_quads|].
      pose proof (Htgt x Hv) as T. rewrite Ho in T. cbn [target] in T.
      apply (refine_range_hit _ x r (wrap w signed (pz x))); [|now apply wrap_in_range|rewrite <- T; now apply H1].
      assert (Hin : den (translated P x (quadrant w signed (pz x))) r) by (apply (pend_step P x (tvars ts)); assumption).
      assert (Hagree : forall i, ~ In i dims' -> (r i == q i)%Q) by (intros i Hi; apply H1; now rewrite <- HD').
      destruct dims' as [|d0 dd] eqn:Ed.
      + apply refine_all_hit; [exact Hin|]. intros c Hc. apply (sat_con_agree c r q); [|now apply Hcs].
        intros j _. apply Hagree. intros [].
      + apply refine_all_hit; [exact Hin|]. now apply guard_filter_sat.
  Qed.

  Lemma wrap_col_mono dims r : forall ts dest src, den dest r -> den (wrap_col dims dest src ts) r.
  Proof.
    induction ts as [|[x [f l]] ts IH]; intros dest src H; cbn [wrap_col].
    - apply (law_join L). now left.
    - generalize dependent dest. induction (quads f l) as [|k ks IHk]; intros dest H; cbn [fold_left]; [exact H|].
      apply IHk. now apply IH.
  Qed.

  Lemma fold_refine_range dims : forall P r, den P r -> (forall v, In v dims -> sat_con (lb_con v) r /\ sat_con (ub_con v) r) ->
    den (fold_left refine_range dims P) r.
  Proof.
    induction dims as [|d dims IH]; intros P r H S; cbn [fold_left]; [exact H|].
    apply IH; [|intros v Hv; apply S; now right].
    destruct (S d (or_introl eq_refl)) as [A B]. unfold refine_range.
    apply (law_refine L); [|exact B]. apply (law_refine L); [exact H|exact A].
  Qed.

  Lemma wrap_col_sound dims : (forall v, In v dims -> In v vars) ->
    forall ts dest src, pend (tvars ts) src -> bounds_ok ts -> NoDup (tvars ts) -> den (wrap_col dims dest src ts) q.
  Proof.
    intros Hdims. induction ts as [|[x [f l]] ts IH]; intros dest src HP HB HN; cbn [wrap_col].
    - apply (law_join L). right. apply fold_refine_range; [|intros v Hv; apply q_range; now apply Hdims].
      assert (Hq : den src q) by (apply HP; [reflexivity|intros i []]).
      destruct cs_p as [cs|] eqn:Ecs; [|exact Hq]. apply refine_all_hit; [exact Hq|].
      unfold guard in Hcs. now rewrite Ecs in Hcs.
    - cbn [tvars map fst] in HP, HN. fold (tvars ts) in HP, HN.
      apply NoDup_cons_iff in HN. destruct HN as [Hx HN].
      destruct (HB x f l (or_introl eq_refl)) as [Hv [Bq Ho]].
      apply (fold_mono_hit (fun d k => wrap_col dims d (translated src x k) ts) q (quadrant w signed (pz x))).
      + intros d k' H. now apply wrap_col_mono.
      + intros d. apply IH; [|intros y f' l' Hin; apply HB; now right|exact HN].
        intros r H1 H2. apply (pend_step src x (tvars ts)); assumption.
      + now apply in_quads.
  Qed.

  Lemma init_inv P : den P p -> inv [] (init P).
  Proof.
    intros H. constructor; cbn [init s_ps s_frb s_trans s_dims tvars map].
    - intros r _ H2. apply (law_ext L _ p); [|exact H]. intros i. symmetry. apply H2. left. intros [].
    - intros c [].
    - intros x f l [].
    - intros v. tauto.
    - constructor.
  Qed.

  Hypothesis Hnd : NoDup vars.

  Theorem wrap_assign_contains P : den P p -> den (wrap_assign vars P) q.
  Proof.
    intros HP. unfold wrap_assign.
    assert (Hc : vars = [] \/ exists v0 vs0, vars = v0 :: vs0) by (clear; destruct vars; eauto).
    destruct Hc as [Ev|[v0 [vs0 Ev]]]; rewrite Ev.
    - assert (Hq : den P q). { apply (law_ext L _ p); [|exact HP]. intros i. symmetry. apply Hout. rewrite Ev. intros []. }
      destruct cs_p as [cs|] eqn:Ecs; [|exact Hq]. apply refine_all_hit; [exact Hq|].
      unfold guard in Hcs. now rewrite Ecs in Hcs.
    - rewrite <- Ev. destruct (ps_is_empty P) eqn:Eemp; [exfalso; exact (law_is_empty L P p Eemp HP)|].
      destruct (loop_inv vars [] (init P)) as [done [I E]].
      + now apply init_inv.
      + intros v [].
      + intros v Hv. exact Hv.
      + now rewrite app_nil_r.
      + set (s := fold_left step vars (init P)) in *.
        assert (Edone : forall v, In v done <-> In v vars) by (intros v; rewrite E; cbn [In]; tauto).
        assert (Hpend : pend (tvars (s_trans s)) (s_ps s)).
        { intros r H1 H2. apply (inv_A _ _ I).
          - intros v Hv Hn. now apply H1.
          - intros i [Hi|Hi]; [|now apply H2].
            assert (Hiv : ~ In i vars) by (intros X; apply Hi; now apply Edone).
            rewrite <- (Hout i Hiv). apply H1. intros X. apply Hi. exact (tv_done _ _ I _ X). }
        assert (HB : bounds_ok (s_trans s)).
        { intros x f l Hin. destruct (inv_C _ _ I x f l Hin) as [A B]. split; [now apply Edone|exact B]. }
        assert (H1 : den (match s_trans s with
                          | [] => s_ps s
                          | _ => if ind then wrap_ind (s_ps s) (s_dims s) (s_trans s)
                                 else wrap_col (s_dims s) ps_empty (s_ps s) (s_trans s)
                          end) q).
        { destruct (s_trans s) as [|t ts] eqn:Et.
          - apply Hpend; [reflexivity|intros i []].
          - rewrite <- Et in *. destruct ind.
            + apply wrap_ind_sound; [exact Hpend|exact HB|apply (inv_N _ _ I)|apply (inv_D _ _ I)].
            + apply wrap_col_sound; [|exact Hpend|exact HB|apply (inv_N _ _ I)].
              intros v Hv. apply (inv_D _ _ I) in Hv. apply Edone. exact (tv_done _ _ I _ Hv). }
        apply refine_all_hit; [|intros c Hc; now apply (inv_B _ _ I)].
        destruct cs_p as [cs|] eqn:Ecs; [|exact H1]. apply refine_all_hit; [exact H1|].
        unfold guard in Hcs. now rewrite Ecs in Hcs.
  Qed.
End Generic.

(* ---------- the statement against WrapSpec.required ---------- *)
Theorem wrap_generic_sound_lemma
  (PS : Type) (den : PS -> point -> Prop) ps_empty ps_is_empty ps_minimize ps_maximize ps_unconstrain ps_refine ps_shift ps_join
  (w : Z) (signed : bool) (o : overflow) (cs_p : option (list con)) (thr : Z) (ind patched : bool) (vars : list nat) :
  laws PS den ps_is_empty ps_minimize ps_maximize ps_unconstrain ps_refine ps_shift ps_join ->
  0 < w -> NoDup vars -> ind = true \/ patched = true ->
  forall P q, required w signed vars o (guard cs_p) (den P) q ->
    den (wrap_assign PS ps_empty ps_is_empty ps_minimize ps_maximize ps_unconstrain ps_refine ps_shift ps_join
                     w signed o cs_p thr ind patched vars P) q.
Proof.
  intros L Hw Hnd Hmode P q [p [pz [HP [Hint [Hout [Htgt Hcs]]]]]].
  eapply wrap_assign_contains; eauto.
Qed.
